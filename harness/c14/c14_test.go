// Package c14 decides property C14 (OTLP export retries only retryable
// failures, honouring throttling and deadlines) for the six OTLP exporters.
//
// One case = one export call of one exporter against an in-process SCRIPTED
// collector on loopback (HTTP: httptest server; gRPC: grpc.Server implementing
// the three collector services). The n-th request is answered by script[n]
// (status / partial success / connection teardown / slow answer / request held
// until the client goes away). The case also fixes the retry configuration,
// the exporter timeout option, compression and a cancellation / Shutdown plan
// that is triggered by the collector itself ("when attempt K arrives", "when
// attempt K has been answered"), so that the point in the retry sequence at
// which the cancellation lands is a function of the case, not of the clock.
//
// The oracle looks only at the collector's log (arrival time, decoded payload,
// what was answered and when), the value returned by Export and the errors
// handed to otel.SetErrorHandler. It is derived from the property statement:
//
//   - attempt k+1 exists only if answer k was retryable per the statement's
//     table, or attempt k ended in a network-level failure (allowed, never
//     required, to be retried);
//   - retry disabled => at most one attempt;
//   - all attempts carry the same, non-empty, decodable payload;
//   - Export returns nil iff the last answer was a success (a partial success
//     is a success) - the "error although success" direction only when nothing
//     (cancel / shutdown / a short timeout) races with the answer;
//   - with unlimited MaxElapsedTime and nothing interfering a retryable answer
//     IS followed by another attempt;
//   - (arrival of attempt k+1) - (moment answer k was handed to the transport)
//     >= the Retry-After seconds / RetryInfo delay of answer k. LOWER bound
//     only; both stamps are taken on the collector, the first one before the
//     answer leaves, so scheduling noise can only enlarge the measured gap;
//   - no attempt arrives later than MaxElapsedTime + 1.5*MaxInterval (one
//     randomised backoff) + 250 ms after the call started, later than 100 ms
//     after cancel() / Shutdown() returned, or at all when the context was
//     cancelled before the call;
//   - when nothing ends the export (no cancellation / Shutdown plan, exporter
//     timeout unset / disabled / >= 15 s) at least one attempt reaches the
//     collector: an export that returns an error without having asked gave up
//     although none of the statement's reasons for giving up applies;
//   - a partial success => nil result and, when the partial-success message
//     carries a rejected count > 0 and/or an error_message (all six
//     combinations of count {0, >0} x message {text, text with printf verbs,
//     absent} are generated), exactly one handled error carrying that text
//     verbatim and that count; a message with neither field says nothing and
//     is recorded as a class only;
//   - Export returns within everything the script can legitimately cost plus
//     10 s ("export_blocked_beyond_budget");
//   - once the export context has ended (cancelled before the call, deadline
//     already passed before the call, deadline DeadlineMS after the call
//     started, cancelled while an attempt is held / after an answer) Export is
//     back: "blocks_beyond_context" when it is still running 10 s later (the
//     case is abandoned there, the run goes on), "returns_late_after_context_end"
//     when it came back more than 2 s later in three quiet runs; no attempt
//     arrives more than 100 ms after the deadline (three quiet runs). These
//     hold for EVERY retry configuration: InitialInterval / MaxInterval /
//     MaxElapsedTime are drawn from {0, 1 ns, 1 us, ms, 1 h, 2^62 ns, MaxInt64 ns}
//     (Initial > Max, no back-off at all, limits that never bite) while the
//     collector goes on answering retryable outcomes for ever (Case.Endless).
//
// With a short exporter timeout (100 / 200 ms, only generated together with
// held requests) an OTLP/HTTP client may give up on an attempt while the
// collector's answer is in flight, so "what the collector sent" is not "what
// the client saw": the retry-set and hint clauses are not evaluated for HTTP
// cases of that class (they are for all others), and a truncated request body
// is accepted whenever a cancellation / shutdown / short timeout is in play.
//
// Upper-bound timing clauses ("arrives after ...") are reported only if three
// QUIET runs of the case show them (a canary goroutine measures how late 1 ms
// timers fire while the case runs; a run with more than 25 ms of lateness is
// discarded for this purpose; at most six runs): a real defect is deterministic
// there (the waits involved are >= 200 ms), a starved process is not.
//
// Shutdown as an abort ("gives up once the exporter is shut down, never blocks
// beyond that"): two exporters are designed to abort an in-flight export.
// otlptracehttp.Stop closes stopCh immediately and contextWithStop cancels the
// export context, i.e. the abort happens when Shutdown is CALLED;
// otlptracegrpc.Stop waits for the export (it holds tscMu for reading during
// the whole retry loop) until the context given to Shutdown expires and then
// cancels stopCtx, which exportContext ties to the export context, i.e. the
// abort happens at the DEADLINE of Shutdown's context. For these two the plans
// shutdown_abort_wait (10 min back-off wait after answer 0) and
// shutdown_abort_attempt (attempt K held by the collector) call Shutdown with a
// 200 / 300 ms deadline and assert that both Shutdown and Export (with an
// error) are back by deadline + 3 s and that no attempt arrives after Shutdown
// returned. The case is abandoned at that moment, so nothing runs for minutes.
// A third plan, shutdown_abort_retrying, calls Shutdown while the export is busy
// RETRYING against a collector that answers retryable outcomes for ever (1..5 ms
// back-off, MaxElapsedTime none / 1 min / 2^62 ns): only the abort ends it.
// The context handed to Shutdown has a deadline of 200 / 300 ms or 1 ms, or has
// ended before the call (cancelled / deadline passed).
// The other four exporters get only the bounded variant (shutdown_in_wait with
// a 400 ms back-off); what they do is recorded as a class label.
//
// The exporter's own timeout is part of the configuration, and every clause
// holds for every setting of it: not configured (default 10 s), 0 and negative
// (both mean "no timeout": the option documents a maximum time, the clients
// apply it only when it is positive), 15 s .. 1 h, 2^62 ns; given through
// WithTimeout, through OTEL_EXPORTER_OTLP_{TRACES,METRICS,LOGS}_TIMEOUT or
// OTEL_EXPORTER_OTLP_TIMEOUT (integer milliseconds spelled plain, zero-padded,
// with a plus sign, "-0"), through both variables (the signal-specific one is
// documented to win) or through option and variables (the option is documented
// to win; the overridden value is never a short one, so a precedence mistake
// cannot raise an alarm here). These settings are drawn in every scenario
// except the short-timeout one, in particular together with all context ends and
// all three Shutdown-abort plans. The short-timeout scenario draws 100 / 200 ms
// (option or environment) and, one in five, 1 ms / 1 us / 1 ns: for OTLP/HTTP
// (timeout per attempt, attempts may never reach the collector) only together
// with retrying disabled or a MaxElapsedTime of 300 ms / 1 s, which then is what
// ends the export with an error.
//
// Size of what the collector says: the error_message of a partial success, the
// body of an HTTP failure answer and the message of a gRPC failure status carry
// 0 B .. 1 MiB of position-dependent filler (2^e, 2^e-1, 2^e+1, in between; e
// in 0..20 biased towards 64 KiB .. 1 MiB): one partial success in three
// anywhere, every answer in the "sized" scenario. The clauses do not depend on
// it: a success carrying a partial-success message of any size is delivered (nil
// result, no re-send) and reported once with the whole text; a retryable /
// non-retryable failure answer is retried / final whatever the length of its
// explanation. (1 MiB is below the 4 MiB gRPC default receive limit and below
// the 4 MiB response bound newer upstream OTLP/HTTP clients apply.)
//
// Also part of a case: payloads of 1..3 items or, one in seven, 3..2049 items
// (up to ~0.5 MB re-sent identically, plain and gzip); for the gRPC exporters,
// one in five, the caller's own connection (WithGRPCConn) instead of an endpoint.
//
// Readings of the statement (conservative):
//   - "exporter shut down": asserted relative to the moment Shutdown RETURNED.
//     Exporters whose Shutdown waits for the in-flight export (metric
//     exporters, otlploggrpc, otlptracegrpc with a live context) satisfy this
//     trivially.
//   - "maximum elapsed time would be exceeded": an attempt may still start up
//     to one backoff interval after the limit (the limit is checked before
//     the wait, the wait is not clipped).
//   - "temporary network error": produced (a) by hijacking the connection and
//     closing it (FIN or RST) after the request was read and (b) by a request
//     held by the collector until the exporter's own per-request timeout
//     fires. Either outcome (retry / give up) is accepted after those.
//   - Retry-After: only delay-seconds (1*DIGIT) count as a server hint; HTTP
//     dates, negative or fractional values are treated as "no hint".
//   - HTTP 408 is not in the statement's table => not retryable.
package c14

import (
	"bytes"
	"context"
	"fmt"
	"math"
	"runtime"
	"strconv"
	"strings"
	"sync"
	"sync/atomic"
	"testing"
	"time"

	"go.opentelemetry.io/otel"
	"go.opentelemetry.io/otel/verif/internal/vk"
	"google.golang.org/grpc/codes"
	"pgregory.net/rapid"
)

// Step is one scripted answer.
type Step struct {
	// Kind: status | partial | reset | slow | hold
	//   status  answer with Code immediately
	//   partial success + partial-success message (Rejected items)
	//   reset   (HTTP) hijack the connection and close it; Code 1 = RST, 0 = FIN
	//   slow    wait DelayMS, then answer with Code (unless the client left)
	//   hold    keep the request until the client goes away, never answer
	//   proxy_temporary_error / proxy_permanent_error (HTTP): the attempt fails on the client
	//           side, inside http.Client.Do, with an error whose Temporary() is true (Timeout()
	//           false) / false; injected through the exporter's WithProxy option
	Kind        string `json:"kind"`
	Code        int    `json:"code"`                  // HTTP status or gRPC code
	RetryAfter  string `json:"retry_after,omitempty"` // HTTP header value, "" = absent
	RetryInfoMS int    `json:"retry_info_ms"`         // gRPC RetryInfo detail, -1 = absent
	DelayMS     int    `json:"delay_ms,omitempty"`
	Rejected    int64  `json:"rejected,omitempty"`
	// Msg (kind partial): shape of the error_message of the partial-success message.
	//   ""        a run-unique text (tag + step)
	//   empty     no error_message at all (legal: the field is optional; with Rejected > 0 the
	//             rejection still has to be reported, with Rejected == 0 the message says nothing)
	//   percent   the run-unique text followed by printf verbs (the text is data, not a format)
	Msg string `json:"msg,omitempty"`
	// ExtraDetails (gRPC failure statuses): number of other status details (ErrorInfo, DebugInfo)
	// that precede the RetryInfo detail - or stand alone when RetryInfoMS < 0.
	ExtraDetails int `json:"extra_details,omitempty"`
	// Pad: number of filler bytes appended to what the collector says in this answer: to the
	// error_message of a partial success (kind partial, shapes "" and percent), to the body of a
	// failure answer (HTTP) / to the status message (gRPC). 0 .. about 1 MiB on a log scale.
	Pad int `json:"pad,omitempty"`
}

// Case is one export against one scripted collector.
type Case struct {
	Exporter      string `json:"exporter"`
	Script        []Step `json:"script"`
	RetryEnabled  bool   `json:"retry_enabled"`
	InitialMS     int    `json:"initial_ms"`
	MaxIntervalMS int    `json:"max_interval_ms"`
	MaxElapsedMS  int    `json:"max_elapsed_ms"` // 0 = unlimited
	TimeoutMS     int    `json:"timeout_ms"`     // with TimeoutVia "": 0 = option not passed (default 10 s)
	// TimeoutVia: how the exporter's own timeout is configured.
	//   ""               WithTimeout(TimeoutMS ms) when TimeoutMS > 0, otherwise nothing (default 10 s)
	//   option           WithTimeout(TimeoutMS ms + TimeoutNS ns) whatever the value: 0 and negative
	//                    (= no timeout), 1 ns, 2^62 ns
	//   env_signal       OTEL_EXPORTER_OTLP_{TRACES,METRICS,LOGS}_TIMEOUT = TimeoutMS (milliseconds)
	//   env_general      OTEL_EXPORTER_OTLP_TIMEOUT = TimeoutMS
	//   env_both         signal-specific variable = TimeoutMS, general one = TimeoutOtherMS (the
	//                    signal-specific one takes precedence - documented)
	//   option_over_env  WithTimeout(TimeoutMS ms + TimeoutNS ns), both variables = TimeoutOtherMS
	//                    (the option takes precedence - documented)
	// TimeoutSpell: spelling of the integers in the variables: "" plain | zero_padded | plus | minus_zero.
	TimeoutVia     string `json:"timeout_via,omitempty"`
	TimeoutNS      int64  `json:"timeout_ns,omitempty"`
	TimeoutOtherMS int    `json:"timeout_other_ms,omitempty"`
	TimeoutSpell   string `json:"timeout_spell,omitempty"`
	Gzip           bool   `json:"gzip"`
	// Plan: none | pre_cancelled | cancel_in_attempt | cancel_in_wait | shutdown_in_wait |
	// shutdown_abort_wait | shutdown_abort_attempt (the two trace exporters only: Shutdown
	// with a short deadline while the export sits in a wait / an attempt that only an abort ends)
	Plan        string `json:"plan"`
	PlanK       int    `json:"plan_k"`        // attempt index the plan is tied to
	PlanDelayMS int    `json:"plan_delay_ms"` // pause between the trigger and cancel()/Shutdown()
	// ShutdownMS: the context handed to Shutdown: > 0 deadline in ms, 0 = 50 ms, -1 = a context
	// that was cancelled before the call, -2 = one whose deadline passed before the call
	ShutdownMS int `json:"shutdown_ms,omitempty"`
	// Conn (gRPC exporters): the exporter is given the caller's own *grpc.ClientConn (WithGRPCConn)
	// instead of an endpoint; the exporter does not close it.
	Conn  bool `json:"conn,omitempty"`
	Items int  `json:"items"` // spans / metrics / records in the payload
	// Headers: number of key/value pairs configured with WithHeaders (0 = option not passed).
	Headers int `json:"headers,omitempty"`
	// Interfere > 0: when answer InterfereK (a retryable one) has been given, i.e. while the
	// case's export waits for its retry, that many exports of a DIFFERENT payload are made
	// through a second exporter instance of the same kind and options to the same collector.
	Interfere int `json:"interfere,omitempty"`
	// AgeMS: pause between constructing/starting the exporter and the case's export call.
	// Warmup: a first export, answered with success, is made through the same exporter
	// instance before that pause.
	// Life: what happened to the exporter before the case's export call.
	//   ""                       constructed started (New)
	//   shutdown_before_start    trace exporters: NewUnstarted -> Shutdown (a no-op) -> Start
	//   start_twice              trace exporters: New -> Start again (returns an error, harmless)
	//   shutdown_then_export     all six: New -> Shutdown -> the export (must not block)
	Life string `json:"life,omitempty"`
	// HugeRetryAfter (generator bookkeeping, the value is in the script): the case carries a
	// Retry-After around / above 2^31 / 2^32 on a retryable answer.
	HugeRetryAfter string `json:"huge_retry_after,omitempty"`
	AgeMS          int    `json:"age_ms,omitempty"`
	Warmup         bool   `json:"warmup,omitempty"`
	InterfereK     int    `json:"interfere_k,omitempty"`
	// InitialNS / MaxIntervalNS / MaxElapsedNS are ADDED to the millisecond fields: they carry
	// the degenerate-but-legal retry configurations (0 ms + 1 ns, 0 ms + MaxInt64 ns, ...).
	InitialNS     int64 `json:"initial_ns,omitempty"`
	MaxIntervalNS int64 `json:"max_interval_ns,omitempty"`
	MaxElapsedNS  int64 `json:"max_elapsed_ns,omitempty"`
	// Endless: the collector keeps answering with the script's last step (a retryable answer)
	// for every request beyond the script; only the context / MaxElapsedTime ends such an export.
	Endless bool `json:"endless,omitempty"`
	// DeadlineMS (plan deadline): the export context expires that long after the call started.
	DeadlineMS int `json:"deadline_ms,omitempty"`
	// Twin: a second exporter instance of the same kind exists in the process, pointed at the
	// same collector, with its OWN independently generated timeout and retry configuration
	// (see Twin). It is the instance the interfering exports (Interfere) go through; without
	// Interfere it is only constructed (and shut down after the case). The case's own export is
	// judged by the case's own configuration exactly as if the twin did not exist: every clause
	// of the statement is per exporter.
	Twin *Twin `json:"twin,omitempty"`
}

// Twin is the configuration of the second exporter instance of a case.
type Twin struct {
	// First: the twin is constructed before the case's own exporter (otherwise after it).
	First bool `json:"first,omitempty"`
	// the twin's own timeout, same encoding as Case.Timeout*
	TimeoutMS      int    `json:"timeout_ms"`
	TimeoutVia     string `json:"timeout_via,omitempty"`
	TimeoutNS      int64  `json:"timeout_ns,omitempty"`
	TimeoutOtherMS int    `json:"timeout_other_ms,omitempty"`
	TimeoutSpell   string `json:"timeout_spell,omitempty"`
	// the twin's own retry configuration
	RetryEnabled  bool `json:"retry_enabled"`
	InitialMS     int  `json:"initial_ms"`
	MaxIntervalMS int  `json:"max_interval_ms"`
	MaxElapsedMS  int  `json:"max_elapsed_ms"`
}

// asCase: the case with the twin's configuration in place of its own (for the
// timeout / environment helpers).
func (w Twin) asCase(c Case) Case {
	c.Twin = nil
	c.TimeoutMS, c.TimeoutVia, c.TimeoutNS, c.TimeoutOtherMS, c.TimeoutSpell = w.TimeoutMS, w.TimeoutVia, w.TimeoutNS, w.TimeoutOtherMS, w.TimeoutSpell
	c.RetryEnabled, c.InitialMS, c.MaxIntervalMS, c.MaxElapsedMS = w.RetryEnabled, w.InitialMS, w.MaxIntervalMS, w.MaxElapsedMS
	c.InitialNS, c.MaxIntervalNS, c.MaxElapsedNS = 0, 0, 0
	return c
}

// satAdd adds durations, saturating instead of wrapping around.
func satAdd(a time.Duration, bs ...time.Duration) time.Duration {
	for _, b := range bs {
		if b > 0 && a > math.MaxInt64-b {
			return math.MaxInt64
		}
		a += b
	}
	return a
}

func msNS(ms int, ns int64) time.Duration {
	return satAdd(time.Duration(ms)*time.Millisecond, time.Duration(ns))
}

func (c Case) initial() time.Duration     { return msNS(c.InitialMS, c.InitialNS) }
func (c Case) maxInterval() time.Duration { return msNS(c.MaxIntervalMS, c.MaxIntervalNS) }
func (c Case) maxElapsed() time.Duration  { return msNS(c.MaxElapsedMS, c.MaxElapsedNS) }

// oneBackoff is the longest single back-off wait of the configuration: the
// randomised interval is at most 1.5 x the current interval, which starts at
// InitialInterval (also when that exceeds MaxInterval) and is capped by
// MaxInterval afterwards.
func (c Case) oneBackoff() time.Duration {
	m := c.initial()
	if x := c.maxInterval(); x > m {
		m = x
	}
	if m > math.MaxInt64/3*2 {
		return math.MaxInt64
	}
	return m/2*3 + 2
}

// stepAt is the scripted answer to the n-th request (see collector.stepAt).
func (c Case) stepAt(n int) (Step, bool) {
	if n >= 0 && n < len(c.Script) {
		return c.Script[n], true
	}
	if c.Endless && len(c.Script) > 0 && n >= len(c.Script) && n < maxLog {
		return c.Script[len(c.Script)-1], true
	}
	return Step{}, false
}

// hugeBackoff: a back-off wait of this configuration may be so long that only
// the end of the context ends it.
func (c Case) hugeBackoff() bool {
	return c.RetryEnabled && (c.initial() > 5*time.Second || c.maxInterval() > 5*time.Second)
}

// unlimited: no MaxElapsedTime at all.
func (c Case) unlimited() bool { return c.maxElapsed() == 0 }

// timeout is the exporter timeout the case configures (whatever the route:
// option, environment) and whether it configures one at all.
func (c Case) timeout() (time.Duration, bool) {
	switch c.TimeoutVia {
	case "":
		if c.TimeoutMS > 0 {
			return time.Duration(c.TimeoutMS) * time.Millisecond, true
		}
		return 0, false
	case "option", "option_over_env":
		return time.Duration(c.TimeoutMS)*time.Millisecond + time.Duration(c.TimeoutNS), true
	}
	return time.Duration(c.TimeoutMS) * time.Millisecond, true
}

// shortTO: a positive timeout of at most shortTimeout: it may legitimately cut attempts.
func (c Case) shortTO() bool {
	d, ok := c.timeout()
	return ok && d > 0 && d <= shortTimeout*time.Millisecond
}

// tinyTO: a positive timeout so small that an attempt may never reach the collector.
func (c Case) tinyTO() bool {
	d, ok := c.timeout()
	return ok && d > 0 && d < 50*time.Millisecond
}

func (c Case) timeoutClass() string {
	d, ok := c.timeout()
	switch {
	case !ok:
		return "unset(default)"
	case d == 0:
		return "zero"
	case d < 0:
		return "negative"
	case c.tinyTO():
		return "tiny(<50ms)"
	case c.shortTO():
		return "short(100..2000ms)"
	case d <= time.Hour:
		return "long(15s..1h)"
	}
	return "huge(2^62ns)"
}

// envSpelling spells an integer number of milliseconds for a *_TIMEOUT variable.
func envSpelling(ms int, style string) string {
	s := strconv.Itoa(ms)
	switch style {
	case "zero_padded":
		if ms < 0 {
			return "-00" + s[1:]
		}
		return "00" + s
	case "plus":
		if ms >= 0 {
			return "+" + s
		}
	case "minus_zero":
		if ms == 0 {
			return "-0"
		}
	}
	return s
}

// timeoutEnv: the environment the exporter is constructed in.
func (c Case) timeoutEnv() map[string]string {
	sig := map[string]string{"trace": "TRACES", "metric": "METRICS", "log": "LOGS"}[exporters[c.Exporter].signal]
	specific, general := "OTEL_EXPORTER_OTLP_"+sig+"_TIMEOUT", "OTEL_EXPORTER_OTLP_TIMEOUT"
	switch c.TimeoutVia {
	case "env_signal":
		return map[string]string{specific: envSpelling(c.TimeoutMS, c.TimeoutSpell)}
	case "env_general":
		return map[string]string{general: envSpelling(c.TimeoutMS, c.TimeoutSpell)}
	case "env_both":
		return map[string]string{specific: envSpelling(c.TimeoutMS, c.TimeoutSpell), general: envSpelling(c.TimeoutOtherMS, c.TimeoutSpell)}
	case "option_over_env":
		return map[string]string{specific: envSpelling(c.TimeoutOtherMS, c.TimeoutSpell), general: envSpelling(c.TimeoutOtherMS, c.TimeoutSpell)}
	}
	return nil
}

// abortPlan: Shutdown with a short deadline while the export is in something
// only an abort ends (the two trace exporters only).
func abortPlan(p string) bool {
	return p == "shutdown_abort_wait" || p == "shutdown_abort_attempt" || p == "shutdown_abort_retrying"
}

// ctxPlan: the plan ends the export context (as opposed to shutting the exporter down).
func ctxPlan(p string) bool {
	switch p {
	case "pre_cancelled", "pre_expired", "deadline", "cancel_in_attempt", "cancel_in_wait":
		return true
	}
	return false
}

const (
	slackAfter   = 100 * time.Millisecond // arrival observed on another goroutine than cancel()/Shutdown()
	slackElapsed = 250 * time.Millisecond
	// slackHintBudget: how much earlier than ob.start+elapsed the client may
	// believe it is when it decides whether a server hint still fits the budget
	slackHintBudget = 75 * time.Millisecond
	blockMargin     = 10 * time.Second
	quietJitter     = 25 * time.Millisecond // a run whose canary timers were later than this is "noisy"
	shortTimeout    = 2000                  // ms: timeouts up to this are "short" (may legitimately cut attempts)
	shutdownGrace   = 50 * time.Millisecond
	budgetMargin    = 100 * time.Millisecond // "well inside MaxElapsedTime" for gave_up_although_budget_allows
	abortSlack      = 3 * time.Second        // Shutdown deadline + this: Shutdown and the aborted Export must both be back
	// lateReturn: once the context has ended nothing is left to wait for (an
	// attempt in flight is aborted, a wait is over): Export is back within
	// milliseconds. Later than this (in three quiet runs) it "blocks beyond that".
	lateReturn = 2 * time.Second
)

// ---------------------------------------------------------------------
// global error handler (installed once; otel offers no way to restore the
// previous one without a delegation loop)

var (
	handlerOnce sync.Once
	handledMu   sync.Mutex
	handled     []string
	untagged    []string // reports that carry no run tag (partial success without an error_message)
	runSeq      atomic.Int64
)

func resetUntagged() {
	handledMu.Lock()
	untagged = nil
	handledMu.Unlock()
}

func installHandler() {
	handlerOnce.Do(func() {
		otel.SetErrorHandler(otel.ErrorHandlerFunc(func(err error) {
			if err == nil {
				return
			}
			s := err.Error()
			handledMu.Lock()
			defer handledMu.Unlock()
			if !strings.Contains(s, "c14-r") {
				// a report without any run tag: kept for the run in progress (one
				// case runs at a time in this process) if it speaks of a rejection
				if strings.Contains(s, "rejected") && len(untagged) < 256 {
					untagged = append(untagged, s)
				}
				return
			}
			handled = append(handled, s)
		}))
	})
}

func handledWith(tag string) []string {
	handledMu.Lock()
	defer handledMu.Unlock()
	var out, keep []string
	for _, s := range handled {
		if strings.Contains(s, tag+"-") {
			out = append(out, s)
		} else {
			keep = append(keep, s)
		}
	}
	if len(keep) > 64 {
		keep = keep[len(keep)-64:]
	}
	handled = keep
	out = append(out, untagged...)
	untagged = nil
	return out
}

// ---------------------------------------------------------------------
// generators

var httpCodes = []int{200, 400, 401, 404, 408, 429, 500, 502, 503, 504}
var httpRetryCodes = []int{429, 502, 503, 504}
var httpTerminalCodes = []int{400, 401, 404, 408, 500}
var garbageRetryAfter = []string{"soon", "1.5", "-1", "Wed, 21 Oct 2015 07:28:00 GMT", "1s", " "}

var grpcRetryCodes = []codes.Code{codes.Canceled, codes.DeadlineExceeded, codes.Aborted, codes.OutOfRange, codes.Unavailable, codes.DataLoss}

// uniform draws 0..n-1 from fair bits (rapid's integer generators are biased
// towards small values, which would starve the later alternatives).
func uniform(t *rapid.T, label string, n int) int {
	if n <= 1 {
		return 0
	}
	x := 0
	for i := 0; i < 12; i++ {
		x <<= 1
		if rapid.Bool().Draw(t, label) {
			x |= 1
		}
	}
	return x * n >> 12
}

// rng draws a..b uniformly.
func rng(t *rapid.T, label string, a, b int) int { return a + uniform(t, label, b-a+1) }

func oneOf[T any](t *rapid.T, label string, xs ...T) T { return xs[uniform(t, label, len(xs))] }

func pick(t *rapid.T, label string, weights ...int) int {
	total := 0
	for _, w := range weights {
		total += w
	}
	x := uniform(t, label, total)
	for i, w := range weights {
		if x < w {
			return i
		}
		x -= w
	}
	return len(weights) - 1
}

type genCtx struct {
	grpc      bool
	allowHold bool
	hinted    bool // HTTP: one retryable answer may carry Retry-After >= 1
	longHints int  // gRPC: how many 300 ms RetryInfo answers are still allowed
	longSlow  int  // how many 300 ms slow answers are still allowed
	slowBias  bool // short MaxElapsedTime: slow answers are what makes the limit bite
}

func (g *genCtx) retryAfter(t *rapid.T, retryable bool) string {
	if retryable && g.hinted {
		g.hinted = false
		return oneOf(t, "seconds", "1", "2")
	}
	switch pick(t, "retry_after", 45, 20, 20, 15) {
	case 0:
		return ""
	case 1:
		return "0"
	case 2:
		return oneOf(t, "garbage", garbageRetryAfter...)
	default:
		v := oneOf(t, "seconds", "1", "2")
		if retryable {
			// each of these costs >= 1 s once the unit defect is repaired: rationed
			return ""
		}
		return v
	}
}

func (g *genCtx) retryInfo(t *rapid.T) int {
	long := 20
	if g.slowBias {
		long = 60 // a long hint is what makes a short MaxElapsedTime bite before the next attempt
	}
	switch pick(t, "retry_info", 40, 15, 25, long) {
	case 0:
		return -1
	case 1:
		return 0
	case 2:
		return 30
	default:
		if g.longHints <= 0 {
			return 30
		}
		g.longHints--
		return 300
	}
}

// extraDetails: how many other details precede the RetryInfo (mostly none).
func extraDetails(t *rapid.T) int { return oneOf(t, "extra_details", 0, 0, 0, 0, 1, 2) }

func (g *genCtx) retryableStep(t *rapid.T) Step {
	if g.grpc {
		if rng(t, "resource_exhausted", 0, 6) == 0 {
			ri := g.retryInfo(t)
			if ri < 0 {
				ri = 0
			}
			return Step{Kind: "status", Code: int(codes.ResourceExhausted), RetryInfoMS: ri, ExtraDetails: extraDetails(t)}
		}
		return Step{Kind: "status", Code: int(oneOf(t, "code", grpcRetryCodes...)), RetryInfoMS: g.retryInfo(t), ExtraDetails: extraDetails(t)}
	}
	return Step{Kind: "status", Code: oneOf(t, "code", httpRetryCodes...), RetryAfter: g.retryAfter(t, true), RetryInfoMS: -1}
}

// genHTTPStatus draws from everything a server or a proxy in front of it can
// answer with, not from a menu: the statement's table names the retryable
// statuses (429, 502, 503, 504), every other non-success status ends the
// export. 2xx other than 200 are left out (whether 201/204 mean "delivered" is
// not the statement's business), as are the 3xx a Go client follows.
func genHTTPStatus(t *rapid.T) int {
	switch pick(t, "status_class", 30, 8, 27, 35) {
	case 0:
		return oneOf(t, "code", httpCodes...)
	case 1:
		return oneOf(t, "code", 300, 304, 305, 306)
	case 2:
		return oneOf(t, "code", 400, 401, 402, 403, 404, 405, 406, 407, 408, 409, 410, 411, 412, 413, 414, 415, 416, 417, 418, 421, 422, 423, 424, 425, 426, 428, 429, 431, 444, 451, 499)
	default:
		return oneOf(t, "code", 500, 501, 502, 503, 504, 505, 506, 507, 508, 509, 510, 511, 520, 521, 522, 523, 524, 525, 526, 527, 529, 530, 598, 599)
	}
}

func (g *genCtx) anyStatus(t *rapid.T) Step {
	if g.grpc {
		code := rng(t, "code", 0, 16)
		if rng(t, "out_of_range_code", 0, 9) == 0 {
			code = oneOf(t, "code", 17, 99) // not a defined codes.Code: not in the retryable table
		}
		ri := g.retryInfo(t)
		return Step{Kind: "status", Code: code, RetryInfoMS: ri, ExtraDetails: extraDetails(t)}
	}
	code := genHTTPStatus(t)
	return Step{Kind: "status", Code: code, RetryAfter: g.retryAfter(t, httpRetryable(code)), RetryInfoMS: -1}
}

func (g *genCtx) partialStep(t *rapid.T) Step {
	// the partial-success message has two optional fields: every combination of
	// count {0, > 0} x error_message {text, text with printf verbs, absent}
	st := Step{Kind: "partial", RetryInfoMS: -1, Rejected: oneOf[int64](t, "rejected", 7000001, 7000013, 1<<40, 0)}
	st.Msg = oneOf(t, "partial_msg", "", "", "", "empty", "empty", "percent")
	if !g.grpc {
		st.Code = 200
	}
	if rng(t, "sized_partial", 0, 2) == 0 {
		st.Pad = genPad(t)
	}
	return st
}

// genPad draws the size of what the collector says (partial-success
// error_message, failure body / status message) on a log scale: 2^e for e in
// 0..20 (a quarter up to 512 B, a third 1..32 KiB, the rest 64 KiB..1 MiB),
// exactly the power of two, one below, one above, or somewhere up to the next.
func genPad(t *rapid.T) int {
	var e int
	switch pick(t, "pad_magnitude", 25, 35, 40) {
	case 0:
		e = rng(t, "pad_exp", 0, 9)
	case 1:
		e = rng(t, "pad_exp", 10, 15)
	default:
		e = rng(t, "pad_exp", 16, 20)
	}
	base := 1 << e
	switch pick(t, "pad_offset", 40, 20, 20, 20) {
	case 1:
		return base - 1
	case 2:
		return base + 1
	case 3:
		if e < 20 {
			return base + base*rng(t, "pad_fraction", 1, 15)/16
		}
	}
	return base
}

// genLongTimeout draws the exporter's own timeout setting from everything that
// does not cut an attempt of the case short: not configured (default 10 s), 0
// and negative (no timeout at all), 15 s .. 1 h, 2^62 ns - given through the
// option, the signal-specific or the general *_TIMEOUT environment variable
// (integers of milliseconds, plain / zero-padded / with a plus sign / "-0"),
// both variables (the signal-specific one wins), option and variables (the
// option wins). The statement's clauses hold for every one of them.
func genLongTimeout(t *rapid.T, c *Case) {
	c.TimeoutMS, c.TimeoutNS, c.TimeoutVia, c.TimeoutOtherMS, c.TimeoutSpell = 0, 0, "", 0, ""
	v := pick(t, "timeout_value", 22, 28, 20, 30)
	if v == 0 {
		return
	}
	c.TimeoutVia = []string{"option", "env_signal", "env_general", "env_both", "option_over_env"}[pick(t, "timeout_via", 40, 20, 15, 12, 13)]
	opt := c.TimeoutVia == "option" || c.TimeoutVia == "option_over_env"
	switch v {
	case 2:
		c.TimeoutMS = oneOf(t, "timeout_ms", -1, -5000, -10000)
		if opt && rng(t, "timeout_minus_1ns", 0, 3) == 0 {
			c.TimeoutMS, c.TimeoutNS = 0, -1
		}
	case 3:
		c.TimeoutMS = oneOf(t, "timeout_ms", 15000, 30000, 3600000)
		if opt && rng(t, "timeout_huge", 0, 4) == 0 {
			c.TimeoutMS, c.TimeoutNS = 0, 1<<62
		}
	}
	if c.TimeoutVia != "option" {
		c.TimeoutSpell = oneOf(t, "timeout_spell", "", "", "zero_padded", "plus", "minus_zero")
	}
	if c.TimeoutVia == "env_both" || c.TimeoutVia == "option_over_env" {
		c.TimeoutOtherMS = oneOf(t, "timeout_other_ms", 0, -1, 20000, 3600000)
	}
}

// genShortTimeout: a timeout that cuts held requests (100 / 200 ms) or, one in
// five, hardly lets an attempt through at all (1 ms, 1 us, 1 ns), through the
// option or the environment.
func genShortTimeout(t *rapid.T, c *Case) {
	c.TimeoutMS = oneOf(t, "timeout_ms", 100, 200)
	c.TimeoutVia = oneOf(t, "timeout_via", "", "", "option", "env_signal", "env_general")
	if c.TimeoutVia == "env_signal" || c.TimeoutVia == "env_general" {
		c.TimeoutSpell = oneOf(t, "timeout_spell", "", "zero_padded")
	}
	if rng(t, "tiny_timeout", 0, 4) == 0 {
		c.TimeoutVia, c.TimeoutMS, c.TimeoutSpell = oneOf(t, "timeout_via", "option", "option", "env_signal"), 1, ""
		if c.TimeoutVia == "option" && rapid.Bool().Draw(t, "sub_ms_timeout") {
			c.TimeoutMS, c.TimeoutNS = 0, oneOf[int64](t, "timeout_ns", 1, 1000)
		}
	}
}

func (g *genCtx) terminalStep(t *rapid.T) Step {
	switch pick(t, "terminal", 40, 25, 35) {
	case 0:
		if g.grpc {
			return Step{Kind: "status", Code: 0, RetryInfoMS: -1}
		}
		return Step{Kind: "status", Code: 200, RetryAfter: g.retryAfter(t, false), RetryInfoMS: -1}
	case 1:
		return g.partialStep(t)
	default:
		if g.grpc {
			// every code that is not retryable; ResourceExhausted WITHOUT RetryInfo is one of them
			var term []int
			for c := 1; c <= 16; c++ {
				if !grpcRetryable(codes.Code(c), false) {
					term = append(term, c)
				}
			}
			term = append(term, 17, 99)
			code := oneOf(t, "code", term...)
			if code != int(codes.ResourceExhausted) && rapid.Bool().Draw(t, "detail_on_terminal") {
				// RetryInfo on a non-retryable code does not make it retryable
				return Step{Kind: "status", Code: code, RetryInfoMS: g.retryInfo(t)}
			}
			return Step{Kind: "status", Code: code, RetryInfoMS: -1}
		}
		code := oneOf(t, "code", httpTerminalCodes...)
		if rapid.Bool().Draw(t, "whole_range") {
			for code = genHTTPStatus(t); code == 200 || httpRetryable(code); code = genHTTPStatus(t) {
			}
		}
		return Step{Kind: "status", Code: code, RetryAfter: g.retryAfter(t, false), RetryInfoMS: -1}
	}
}

func (g *genCtx) innerStep(t *rapid.T) Step {
	hold := 0
	if g.allowHold {
		hold = 30
	}
	reset, proxyTemp, proxyPerm := 8, 9, 3
	if g.grpc {
		reset, proxyTemp, proxyPerm = 0, 0, 0
	}
	slow, long, slowRetryable := 12, 4, 2
	if g.slowBias {
		// a long answer is what makes a short MaxElapsedTime bite on HTTP (no usable hints there)
		slow, long, slowRetryable = 40, 4, 5
		if g.grpc {
			slow = 15
		}
	}
	switch pick(t, "inner", 60, 12, slow, reset, hold, 4, proxyTemp, proxyPerm) {
	case 0:
		return g.retryableStep(t)
	case 1:
		return g.anyStatus(t)
	case 2:
		st := g.anyStatus(t)
		if uniform(t, "slow_retryable", slowRetryable) > 0 {
			st = g.retryableStep(t)
		}
		st.Kind, st.DelayMS = "slow", 20
		if g.longSlow > 0 && (uniform(t, "long_slow", long) == 0 || g.slowBias && !g.grpc) {
			g.longSlow--
			st.DelayMS = 300
		}
		return st
	case 3:
		return Step{Kind: "reset", Code: rng(t, "rst", 0, 1), RetryInfoMS: -1}
	case 4:
		return Step{Kind: "hold", RetryInfoMS: -1}
	case 6:
		return Step{Kind: "proxy_temporary_error", RetryInfoMS: -1}
	case 7:
		return Step{Kind: "proxy_permanent_error", RetryInfoMS: -1}
	default:
		return g.terminalStep(t)
	}
}

// genSmallIntervals draws InitialInterval and MaxInterval independently from
// {0, 1 ns, 1 us, a few ms}: zero and tiny delays, Initial > Max, Max == 0.
func genSmallIntervals(t *rapid.T, c *Case) {
	c.InitialMS, c.InitialNS, c.MaxIntervalMS, c.MaxIntervalNS = 0, 0, 0, 0
	switch pick(t, "initial_interval", 40, 15, 15, 15, 15) {
	case 1:
		c.InitialNS = 1
	case 2:
		c.InitialNS = 1000
	case 3:
		c.InitialMS = 1
	case 4:
		c.InitialMS = 8
	}
	switch pick(t, "max_interval", 35, 15, 15, 20, 15) {
	case 1:
		c.MaxIntervalNS = 1
	case 2:
		c.MaxIntervalNS = 1000
	case 3:
		c.MaxIntervalMS = 5
	case 4:
		c.MaxIntervalMS = 1
	}
}

// genContextEnd: "gives up with an error once ... the context is cancelled ...,
// never blocks beyond that", for every retry configuration. The export context
// ends (cancelled before the call, deadline already in the past, deadline
// DeadlineMS after the call started, cancelled while attempt K is held or after
// answer K) while the collector would go on answering retryable outcomes for
// ever (Endless) - the end of the context is the only thing that is certain to
// end the export. Retry configuration: InitialInterval from {0 (half), 1 ns,
// 1 us, 1 ms, 1 h, MaxInt64 ns}, MaxInterval from {0, 1 ns, 5 ms, 1 h, MaxInt64
// ns} (so Initial > Max and Max == 0 occur), MaxElapsedTime from {0 = none,
// 5 s, 300 ms, 2^62 ns}.
func genContextEnd(t *rapid.T, c *Case, g *genCtx) {
	c.RetryEnabled = true
	switch pick(t, "initial_interval", 50, 10, 10, 12, 9, 9) {
	case 1:
		c.InitialNS = 1
	case 2:
		c.InitialNS = 1000
	case 3:
		c.InitialMS = 1
	case 4:
		c.InitialMS = 3600000
	case 5:
		c.InitialNS = math.MaxInt64
	}
	switch pick(t, "max_interval", 40, 12, 24, 12, 12) {
	case 1:
		c.MaxIntervalNS = 1
	case 2:
		c.MaxIntervalMS = 5
	case 3:
		c.MaxIntervalMS = 3600000
	case 4:
		c.MaxIntervalNS = math.MaxInt64
	}
	switch pick(t, "max_elapsed", 30, 40, 15, 15) {
	case 1:
		c.MaxElapsedMS = 5000
	case 2:
		c.MaxElapsedMS = 300
	case 3:
		c.MaxElapsedNS = 1 << 62
	}
	c.Endless = rng(t, "endless", 0, 7) > 0
	c.PlanDelayMS = rng(t, "plan_delay_ms", 0, 3)
	genLongTimeout(t, c)
	n := oneOf(t, "len", 1, 1, 2, 2, 3)
	switch pick(t, "ctx_end", 15, 20, 35, 18, 12) {
	case 0:
		c.Plan = "pre_cancelled"
	case 1:
		c.Plan = "pre_expired"
	case 2:
		c.Plan = "deadline"
		c.DeadlineMS = oneOf(t, "deadline_ms", 20, 60, 150, 300)
	case 3:
		c.Plan = "cancel_in_wait"
		c.PlanK = rng(t, "plan_k", 0, n-1)
	default:
		c.Plan = "cancel_in_attempt"
		c.PlanK = rng(t, "plan_k", 0, n-1)
	}
	if c.hugeBackoff() && (c.Plan == "cancel_in_wait" || c.Plan == "cancel_in_attempt") {
		// the very first wait may last for ever: the cancellation is tied to the first answer
		c.PlanK = 0
	}
	retryable := func() Step {
		st := g.retryableStep(t)
		if st.RetryInfoMS > 30 {
			st.RetryInfoMS = 30
		}
		if !g.grpc && rng(t, "temporary_network_error", 0, 5) == 0 {
			st = Step{Kind: "proxy_temporary_error", RetryInfoMS: -1}
		}
		return st
	}
	for i := 0; i < n; i++ {
		if c.Plan == "cancel_in_attempt" && i == c.PlanK {
			c.Script = append(c.Script, Step{Kind: "hold", RetryInfoMS: -1})
			continue
		}
		c.Script = append(c.Script, retryable())
	}
	// the last step is what an endless collector repeats: a retryable answer
	if last := c.Script[len(c.Script)-1]; last.Kind != "status" {
		st := g.retryableStep(t)
		if st.RetryInfoMS > 30 {
			st.RetryInfoMS = 30
		}
		c.Script = append(c.Script, st)
	}
	if !c.Endless {
		c.Script = append(c.Script, g.terminalStep(t))
	}
}

// genCase: a case (genCase1) and, for one case in three - and for every case
// with interfering exports, whose second exporter it configures, two in three -
// a twin: a second exporter instance of the same kind with an independently
// generated timeout (the whole range of genLongTimeout / genShortTimeout, every
// route) and retry configuration, constructed before or after the case's own
// exporter. Two exporters in one process are two exporters: each keeps its own
// configuration, so the verdict on the case's export does not change.
func genCase(isGRPC bool) func(*rapid.T) Case {
	inner := genCase1(isGRPC)
	return func(t *rapid.T) Case {
		c := inner(t)
		p := 33
		if c.Interfere > 0 || c.shortTO() {
			p = 66
		}
		if c.Life == "shutdown_then_export" || rng(t, "twin", 0, 99) >= p {
			return c
		}
		var tc Case
		if c.Interfere == 0 && rng(t, "twin_short_timeout", 0, 3) == 0 {
			genShortTimeout(t, &tc)
		} else {
			genLongTimeout(t, &tc)
		}
		w := &Twin{First: rng(t, "twin_first", 0, 2) == 0,
			TimeoutMS: tc.TimeoutMS, TimeoutVia: tc.TimeoutVia, TimeoutNS: tc.TimeoutNS, TimeoutOtherMS: tc.TimeoutOtherMS, TimeoutSpell: tc.TimeoutSpell}
		w.RetryEnabled = rng(t, "twin_retry_disabled", 0, 4) > 0
		w.InitialMS = oneOf(t, "twin_initial_ms", 0, 1, 5, 400, 600000)
		w.MaxIntervalMS = oneOf(t, "twin_max_interval_ms", 0, 5, 400, 600000)
		w.MaxElapsedMS = oneOf(t, "twin_max_elapsed_ms", 0, 1, 20, 500, 5000, 60000)
		c.Twin = w
		return c
	}
}

func genCase1(isGRPC bool) func(*rapid.T) Case {
	return func(t *rapid.T) Case {
		c := Case{Plan: "none"}
		if isGRPC {
			c.Exporter = oneOf(t, "exporter", grpcExporters...)
		} else {
			c.Exporter = oneOf(t, "exporter", httpExporters...)
		}
		c.Items = rng(t, "items", 1, 3)
		if rng(t, "big_payload", 0, 6) == 0 {
			// 3 .. 2049 items: payloads of 1 KB .. 0.5 MB that are re-sent
			c.Items = 1<<rng(t, "items_exp", 2, 11) + rng(t, "items_offset", -1, 1)
		}
		c.Conn = isGRPC && rng(t, "own_grpc_conn", 0, 4) == 0
		c.Gzip = rng(t, "gzip", 0, 2) == 0
		c.Headers = oneOf(t, "headers", 0, 1, 2)
		g := &genCtx{grpc: isGRPC, longHints: 2, longSlow: 1}
		if !isGRPC {
			g.hinted = rng(t, "hinted", 0, 15) == 0
		}

		// fast: a back-off of a few milliseconds at most. Two thirds: 1 ms / 5 ms; one
		// third: the degenerate-but-legal corners of RetryConfig - InitialInterval and
		// MaxInterval each from {0, 1 ns, 1 us, some ms}, which includes Initial > Max.
		// Where the scenario allows "no limit" (0) it also allows a MaxElapsedTime so
		// large that it never bites (2^62 ns, MaxInt64 ns).
		fast := func(elapsed ...int) {
			c.RetryEnabled, c.InitialMS, c.MaxIntervalMS = true, 1, 5
			c.MaxElapsedMS = oneOf(t, "max_elapsed_ms", elapsed...)
			if rng(t, "degenerate_intervals", 0, 2) == 0 {
				genSmallIntervals(t, &c)
			}
			if c.MaxElapsedMS == 0 && rng(t, "huge_max_elapsed", 0, 5) == 0 {
				c.MaxElapsedNS = oneOf[int64](t, "max_elapsed_ns", 1<<62, math.MaxInt64)
			}
		}
		hugeHint := 6
		if isGRPC {
			hugeHint = 0
		}
		scenario := pick(t, "scenario", 46, 10, 4, 10, 16, 14, 12, 6, 7, hugeHint, 24, 22)
		sized := scenario == 11
		if scenario == 10 {
			genContextEnd(t, &c, g)
			if c.Endless && c.Items > 16 {
				c.Items = 16
			}
			return c
		}
		switch scenario {
		case 0: // plain
			if rng(t, "retry_disabled", 0, 6) == 0 {
				c.RetryEnabled, c.InitialMS, c.MaxIntervalMS = false, 1, 5
			} else {
				fast(0, 0, 20, 500, 5000)
				g.slowBias = c.MaxElapsedMS == 20 || c.MaxElapsedMS == 500
				if rng(t, "tiny_max_elapsed", 0, 11) == 0 {
					// a limit that is exceeded by the time the first answer is in
					c.MaxElapsedMS, c.MaxElapsedNS = 0, oneOf[int64](t, "max_elapsed_ns", 1, 1000)
				}
			}
		case 11:
			// sized answers: every answer of the script carries 1 B .. 1 MiB (partial-success
			// error_message, failure body / status message)
			fast(0, 0, 5000)
		case 1: // the exporter's own timeout cuts held requests
			fast(0, 5000)
			genShortTimeout(t, &c)
			g.allowHold = true
			if c.tinyTO() && !isGRPC {
				// OTLP/HTTP applies the timeout to each attempt: with a timeout that hardly lets
				// an attempt through only MaxElapsedTime (or retrying being disabled) ends the export
				if rng(t, "retry_disabled", 0, 3) == 0 {
					c.RetryEnabled = false
				} else {
					c.MaxElapsedMS, c.MaxElapsedNS = oneOf(t, "max_elapsed_ms", 300, 1000), 0
				}
			}
		case 2:
			c.Plan = "pre_cancelled"
			fast(0, 500)
		case 3:
			c.Plan = "cancel_in_attempt"
			fast(0, 5000)
			// whatever the exporter's timeout: only the cancellation can end the held attempt in time
		case 4:
			c.Plan = "cancel_in_wait"
			switch pick(t, "backoff", 40, 25, 35) {
			case 0:
				fast(0, 5000)
			case 1: // waits of 200..600 ms
				c.RetryEnabled, c.InitialMS, c.MaxIntervalMS = true, 400, 400
				c.MaxElapsedMS = oneOf(t, "max_elapsed_ms", 0, 5000)
			default: // waits of 5..15 min: only the cancellation ends them
				c.RetryEnabled, c.InitialMS, c.MaxIntervalMS, c.MaxElapsedMS = true, 600000, 600000, 0
			}
		case 6:
			// Shutdown with a short deadline while the export is stuck in
			// something only an abort can end. Only for the two exporters whose
			// Shutdown is designed to abort the in-flight export:
			//   otlptracehttp: Stop closes stopCh at once; contextWithStop cancels the
			//     export context => abort at the moment Shutdown is CALLED;
			//   otlptracegrpc: Stop waits for the export (tscMu) until the Shutdown
			//     context expires, then stopFunc() cancels stopCtx, exportContext cancels
			//     the export context => abort at the Shutdown context's DEADLINE.
			if isGRPC {
				c.Exporter = "otlptracegrpc"
			} else {
				c.Exporter = "otlptracehttp"
			}
			// Third variant: the export is busy RETRYING against a collector that answers
			// retryable outcomes for ever (1..5 ms back-off, MaxElapsedTime none / 1 min /
			// 2^62 ns): only the abort ends it.
			// All three for every setting of the exporter's own timeout that does not end the
			// export by itself (unset, 0, negative, 15 s .. 2^62 ns; option / environment).
			// The context given to Shutdown: a deadline of 200 / 300 ms, of 1 ms, or a context
			// that has ended before the call (cancelled / deadline passed).
			c.ShutdownMS = oneOf(t, "shutdown_ms", 200, 300, 200, 300, 1, -1, -2)
			switch pick(t, "abort_in", 30, 30, 40) {
			case 0:
				c.Plan = "shutdown_abort_wait"
				c.RetryEnabled, c.InitialMS, c.MaxIntervalMS, c.MaxElapsedMS = true, 600000, 600000, 0
			case 1:
				c.Plan = "shutdown_abort_attempt"
				fast(0, 5000)
			default:
				c.Plan = "shutdown_abort_retrying"
				c.RetryEnabled, c.InitialMS, c.MaxIntervalMS = true, 1, 5
				c.MaxElapsedMS = oneOf(t, "max_elapsed_ms", 0, 0, 60000)
				if rng(t, "huge_max_elapsed", 0, 4) == 0 {
					c.MaxElapsedMS, c.MaxElapsedNS = 0, 1<<62
				}
				c.Endless = true
				if c.Items > 16 {
					c.Items = 16
				}
				c.PlanK = rng(t, "plan_k", 0, 4) // Shutdown is called when answer K has been given
				c.PlanDelayMS = rng(t, "plan_delay_ms", 0, 3)
				g.hinted = false
				for i, n := 0, oneOf(t, "len", 1, 1, 2, 3); i < n; i++ {
					st := g.retryableStep(t)
					if st.RetryInfoMS > 30 {
						st.RetryInfoMS = 30
					}
					if !isGRPC && rng(t, "temporary_network_error", 0, 5) == 0 && i < n-1 {
						st = Step{Kind: "proxy_temporary_error", RetryInfoMS: -1}
					}
					c.Script = append(c.Script, st)
				}
				genLongTimeout(t, &c)
				return c
			}
		case 9:
			// Retry-After values around and above 2^31 / 2^32 (HTTP). Three quarters:
			// a budget (300/500 ms) that is smaller than the value read as
			// NANOSECONDS (>= 2.1 s), let alone as seconds: whatever the unit, the
			// export has to give up instead of sending another attempt. One quarter
			// (~1/85 of the cases): 2200000000 with a 5 s budget - read as
			// nanoseconds (the open unit finding) that is a 2.2 s wait which fits
			// and must be waited at least; read as seconds it exceeds the budget
			// and the export gives up, so the case is finite either way.
			c.RetryEnabled, c.InitialMS, c.MaxIntervalMS = true, 1, 5
			if rng(t, "huge_hint_waited", 0, 3) == 0 {
				c.MaxElapsedMS, c.HugeRetryAfter = 5000, "2200000000"
			} else {
				c.MaxElapsedMS = oneOf(t, "max_elapsed_ms", 300, 500)
				c.HugeRetryAfter = oneOf(t, "huge_retry_after", "2147483648", "4294967295", "4294967296", "4500000000")
			}
		case 8:
			// an exporter that is older than its MaxElapsedTime when the export is
			// made (the budget is per export call), optionally after an earlier,
			// successful export through the same instance
			c.RetryEnabled, c.InitialMS, c.MaxIntervalMS = true, 1, 5
			c.MaxElapsedMS = oneOf(t, "max_elapsed_ms", 300, 500)
			c.AgeMS = c.MaxElapsedMS + 150
			c.Warmup = rapid.Bool().Draw(t, "warmup")
		case 7:
			// an interfering export through a second exporter instance while
			// the case's export waits (200..600 ms) for its retry
			c.RetryEnabled, c.InitialMS, c.MaxIntervalMS = true, 400, 400
			c.MaxElapsedMS = oneOf(t, "max_elapsed_ms", 0, 5000)
			c.Gzip = rng(t, "gzip", 0, 2) > 0
			c.Interfere = oneOf(t, "interfere", 1, 2)
		default:
			c.Plan = "shutdown_in_wait"
			if rapid.Bool().Draw(t, "slow_backoff") {
				c.RetryEnabled, c.InitialMS, c.MaxIntervalMS = true, 400, 400
				c.MaxElapsedMS = oneOf(t, "max_elapsed_ms", 0, 5000)
			} else {
				fast(0, 5000)
			}
		}
		c.PlanDelayMS = rng(t, "plan_delay_ms", 0, 3)
		if scenario != 1 {
			genLongTimeout(t, &c)
		}
		if c.Exporter == "otlptracehttp" || c.Exporter == "otlptracegrpc" {
			switch pick(t, "life", 65, 27, 8) {
			case 1:
				c.Life = "shutdown_before_start"
			case 2:
				c.Life = "start_twice"
			}
		}
		if c.Plan == "none" && c.Interfere == 0 && c.AgeMS == 0 && c.HugeRetryAfter == "" && !c.shortTO() && rng(t, "shutdown_then_export", 0, 39) == 0 {
			c.Life = "shutdown_then_export"
		}

		slowBackoff := c.InitialMS >= 100
		n := oneOf(t, "len", 1, 2, 2, 3, 3, 3, 4, 4, 5, 6)
		if (slowBackoff || sized) && n > 3 {
			n = 3
		}
		switch c.Plan {
		case "cancel_in_attempt", "shutdown_abort_attempt":
			c.PlanK = rng(t, "plan_k", 0, n-1)
		case "cancel_in_wait", "shutdown_in_wait", "shutdown_abort_wait":
			maxK := n - 1
			if maxK > 2 {
				maxK = 2
			}
			if slowBackoff && maxK > 1 {
				maxK = 1
			}
			if c.InitialMS > 5000 {
				maxK = 0
			}
			c.PlanK = rng(t, "plan_k", 0, maxK)
		}
		if (c.AgeMS > 0 || c.HugeRetryAfter != "") && n < 2 {
			n = 2
		}
		hugeAt := 0
		if c.HugeRetryAfter != "" {
			hugeAt = rng(t, "huge_hint_at", 0, 1)
			if hugeAt > n-2 {
				hugeAt = n - 2
			}
		}
		if c.Interfere > 0 {
			if n < 2 {
				n = 2
			}
			c.InterfereK = rng(t, "interfere_k", 0, 1)
			if c.InterfereK > n-2 {
				c.InterfereK = n - 2
			}
		}
		for i := 0; i < n; i++ {
			var st Step
			planned := c.Plan != "none" && c.Plan != "pre_cancelled"
			switch {
			case planned && i < c.PlanK:
				// lead the client up to the planned attempt
				if slowBackoff || rng(t, "lead", 0, 4) > 0 {
					st = g.retryableStep(t)
					if slowBackoff && st.RetryInfoMS > 30 {
						st.RetryInfoMS = 30
					}
				} else {
					st = g.innerStep(t)
				}
			case (c.Plan == "cancel_in_attempt" || c.Plan == "shutdown_abort_attempt") && i == c.PlanK:
				st = Step{Kind: "hold", RetryInfoMS: -1}
			case (c.Plan == "cancel_in_wait" || c.Plan == "shutdown_in_wait" || c.Plan == "shutdown_abort_wait") && i == c.PlanK:
				st = g.retryableStep(t)
				if isGRPC && !slowBackoff && rapid.Bool().Draw(t, "long_wait") {
					st.RetryInfoMS = 300 // makes the wait long enough for the plan to land inside it
				}
			case c.HugeRetryAfter != "" && i <= hugeAt:
				st = Step{Kind: "status", Code: oneOf(t, "code", httpRetryCodes...), RetryInfoMS: -1}
				if i == hugeAt {
					st.RetryAfter = c.HugeRetryAfter
				}
			case c.AgeMS > 0 && i == 0:
				st = g.retryableStep(t)
				if st.RetryInfoMS > 30 {
					st.RetryInfoMS = 30
				}
			case c.Interfere > 0 && i <= c.InterfereK:
				st = g.retryableStep(t)
				if st.RetryInfoMS > 30 {
					st.RetryInfoMS = 30
				}
			case sized && i == n-1:
				// mostly a partial success whose message is reported (text present)
				if rng(t, "sized_partial", 0, 9) < 6 {
					st = g.partialStep(t)
					if st.Msg == "empty" && rng(t, "sized_text", 0, 3) > 0 {
						st.Msg = oneOf(t, "partial_msg", "", "", "percent")
					}
				} else {
					st = g.terminalStep(t)
				}
			case sized:
				st = g.retryableStep(t)
				if st.RetryInfoMS > 30 {
					st.RetryInfoMS = 30
				}
			case i == n-1:
				st = g.terminalStep(t)
			default:
				st = g.innerStep(t)
			}
			if sized {
				st.Pad = genPad(t)
			}
			if c.InitialMS > 5000 && i < c.PlanK {
				st = g.terminalStep(t) // unreachable by construction (PlanK == 0); keeps the case finite anyway
			}
			c.Script = append(c.Script, st)
		}
		// "budget exhausted by server hints" (gRPC; HTTP hints are unusable while
		// the Retry-After unit finding is open): every answer asks for a 300 ms
		// delay, MaxElapsedTime is 500 ms. After the second answer the elapsed
		// time plus the hint exceeds the budget: the exporter has to give up
		// instead of sleeping through the hint and sending a third attempt.
		if isGRPC && c.Plan == "none" && c.Interfere == 0 && c.AgeMS == 0 && c.RetryEnabled && !c.shortTO() && !sized && rng(t, "hint_budget", 0, 7) == 0 {
			c.InitialMS, c.MaxIntervalMS, c.MaxElapsedMS = 1, 5, 500
			c.InitialNS, c.MaxIntervalNS, c.MaxElapsedNS = 0, 0, 0
			k := rng(t, "hint_budget_len", 2, 4)
			c.Script = nil
			for i := 0; i < k; i++ {
				c.Script = append(c.Script, Step{Kind: "status", Code: int(oneOf(t, "code", codes.Unavailable, codes.ResourceExhausted, codes.Aborted)), RetryInfoMS: 300})
			}
			c.Script = append(c.Script, Step{Kind: "status", Code: int(codes.OK), RetryInfoMS: -1})
			return c
		}
		// something must follow the planned attempt, and every script ends in a terminal answer
		last := c.Script[len(c.Script)-1]
		if last.Kind != "status" && last.Kind != "partial" || (last.Kind == "status" && stepRetryable(isGRPC, last)) {
			c.Script = append(c.Script, g.terminalStep(t))
		}
		return c
	}
}

// stepRetryable: would the ANSWER of this step, if sent, be retryable per the
// statement's table?
func stepRetryable(isGRPC bool, st Step) bool {
	if st.Kind == "proxy_temporary_error" {
		return !isGRPC
	}
	if st.Kind != "status" && st.Kind != "slow" {
		return false
	}
	if isGRPC {
		return grpcRetryable(codes.Code(st.Code), st.RetryInfoMS >= 0)
	}
	return httpRetryable(st.Code)
}

// ---------------------------------------------------------------------
// runner

// finite reports whether the case is guaranteed to end when the exporter
// behaves: every held request has a reason to be abandoned and waits that only
// a cancellation ends are cancelled.
func finite(c Case) bool {
	if _, ok := exporters[c.Exporter]; !ok || len(c.Script) == 0 || len(c.Script) > 8 || c.Items < 1 || c.Items > 4096 || (c.Items > 16 && c.Endless) || (c.Conn && !exporters[c.Exporter].grpc) {
		return false
	}
	short := c.shortTO()
	switch c.TimeoutVia {
	case "":
		if c.TimeoutMS < 0 || c.TimeoutNS != 0 || c.TimeoutOtherMS != 0 || c.TimeoutSpell != "" {
			return false
		}
	case "option", "option_over_env":
		if c.TimeoutNS != 0 && c.TimeoutMS != 0 {
			return false
		}
	case "env_signal", "env_general", "env_both":
		if c.TimeoutNS != 0 {
			return false
		}
	default:
		return false
	}
	if c.TimeoutMS < -10000000 || c.TimeoutMS > 10000000 || c.TimeoutOtherMS < -10000000 || c.TimeoutOtherMS > 10000000 {
		return false
	}
	if c.TimeoutOtherMS > 0 && c.TimeoutOtherMS <= 12000 {
		return false // the value that is overridden never is one that would matter if it were not
	}
	switch c.TimeoutSpell {
	case "", "zero_padded", "plus", "minus_zero":
	default:
		return false
	}
	if c.tinyTO() && !exporters[c.Exporter].grpc && c.RetryEnabled && !(c.maxElapsed() > 0 && c.maxElapsed() <= 5*time.Second) {
		// OTLP/HTTP: the timeout bounds each attempt, and attempts that never reach the
		// collector do not consume the script: only MaxElapsedTime ends such an export
		return false
	}
	if d, ok := c.timeout(); ok && d > 0 && d < 12*time.Second && !short {
		return false // between "short" and "longer than anything the case needs": not generated
	}
	if short && (abortPlan(c.Plan) || c.Endless) {
		return false
	}
	for i, st := range c.Script {
		if st.Pad < 0 || st.Pad > 1<<21 {
			return false
		}
		switch st.Kind {
		case "hold":
			if !(short || (c.Plan == "cancel_in_attempt" && c.PlanK == i) || (c.Plan == "shutdown_abort_attempt" && c.PlanK == i)) || c.Plan == "shutdown_abort_retrying" {
				return false
			}
		case "status", "partial", "reset", "slow":
		case "proxy_temporary_error", "proxy_permanent_error":
			if exporters[c.Exporter].grpc {
				return false
			}
		default:
			return false
		}
		if st.DelayMS < 0 || st.DelayMS > 2000 || st.RetryInfoMS > 2000 || st.ExtraDetails < 0 || st.ExtraDetails > 4 {
			return false
		}
		if n, ok := retryAfterSeconds(st.RetryAfter); ok && n > 5 {
			// A huge delay is only allowed with a finite budget of at most 5 s:
			// read as seconds it exceeds the budget (the export gives up), read
			// as nanoseconds it either exceeds it too or is a wait of < 5 s.
			if !(c.maxElapsed() > 0 && c.maxElapsed() <= 5*time.Second) && c.RetryEnabled {
				return false
			}
		}
	}
	if c.InitialMS < 0 || c.InitialNS < 0 || c.MaxIntervalMS < 0 || c.MaxIntervalNS < 0 || c.MaxElapsedMS < 0 || c.MaxElapsedNS < 0 {
		return false
	}
	if c.hugeBackoff() {
		// a wait that only the end of the context (or an aborting Shutdown) ends
		switch {
		case (c.Plan == "cancel_in_wait" || c.Plan == "shutdown_abort_wait" || c.Plan == "cancel_in_attempt") && c.PlanK == 0:
		case c.Plan == "pre_cancelled" || c.Plan == "pre_expired" || c.Plan == "deadline":
		default:
			return false
		}
	}
	if c.Endless {
		// only the context or a MaxElapsedTime of a few seconds ends the export
		last := c.Script[len(c.Script)-1]
		if last.Kind != "status" || !stepRetryable(exporters[c.Exporter].grpc, last) {
			return false
		}
		if n, ok := retryAfterSeconds(last.RetryAfter); ok && n > 0 {
			return false
		}
		if !ctxPlan(c.Plan) && c.Plan != "shutdown_abort_retrying" && c.RetryEnabled && !(c.maxElapsed() > 0 && c.maxElapsed() <= 2*time.Second) {
			return false
		}
		if c.Plan == "shutdown_abort_retrying" && (!c.RetryEnabled || c.initial() < time.Millisecond || c.initial() > 10*time.Millisecond || c.maxInterval() > 10*time.Millisecond) {
			// the back-off keeps the endless collector's log (maxLog) from filling up before the verdict
			return false
		}
		if c.Interfere != 0 || c.Warmup || c.AgeMS != 0 || c.Life != "" {
			return false
		}
	}
	if (c.Plan == "deadline") != (c.DeadlineMS > 0) || c.DeadlineMS < 0 || c.DeadlineMS > 2000 {
		return false
	}
	if (c.Plan == "cancel_in_attempt" || c.Plan == "cancel_in_wait") && (c.PlanK < 0 || c.PlanK >= len(c.Script)) {
		return false
	}
	switch c.Plan {
	case "none", "pre_cancelled", "pre_expired", "deadline", "cancel_in_attempt", "cancel_in_wait", "shutdown_in_wait":
	case "shutdown_abort_wait", "shutdown_abort_attempt", "shutdown_abort_retrying":
		if c.Plan == "shutdown_abort_retrying" && !c.Endless {
			return false
		}
		if c.PlanK < 0 || c.PlanK > 16 {
			return false
		}
		// unbounded waits / held attempts / endless retrying under Shutdown only where Shutdown is meant to abort them
		if c.Exporter != "otlptracehttp" && c.Exporter != "otlptracegrpc" {
			return false
		}
	default:
		return false
	}
	if c.ShutdownMS < -2 || c.ShutdownMS > 2000 || c.Headers < 0 || c.Headers > 2 {
		return false
	}
	switch c.Life {
	case "", "shutdown_then_export":
	case "shutdown_before_start", "start_twice":
		if c.Exporter != "otlptracehttp" && c.Exporter != "otlptracegrpc" {
			return false
		}
	default:
		return false
	}
	if c.Life == "shutdown_then_export" && (c.Plan != "none" || c.Interfere != 0 || c.Warmup) {
		return false
	}
	if c.AgeMS < 0 || c.AgeMS > 2000 || ((c.AgeMS > 0 || c.Warmup) && c.Plan != "none") {
		return false
	}
	if c.Interfere != 0 && (c.Interfere < 0 || c.Interfere > 2 || c.Plan != "none" || c.InterfereK < 0 || c.InterfereK >= len(c.Script)) {
		return false
	}
	if c.Twin != nil {
		tc := c.Twin.asCase(c)
		tc.Plan, tc.Endless, tc.Interfere, tc.Script = "none", false, 0, []Step{{Kind: "status", RetryInfoMS: -1}}
		tc.Life, tc.AgeMS, tc.Warmup, tc.DeadlineMS, tc.HugeRetryAfter = "", 0, false, 0, ""
		if tc.InitialMS < 0 || tc.MaxIntervalMS < 0 || tc.MaxElapsedMS < 0 {
			return false
		}
		// only the twin's timeout is validated like a case's own: whatever its retry
		// configuration, the only exports made through the twin are answered with success at once
		tc.RetryEnabled, tc.InitialMS, tc.MaxIntervalMS, tc.MaxElapsedMS = false, 1, 5, 0
		if !finite(tc) {
			return false
		}
		// the interfering exports go through the twin and are answered with success at
		// once: only a timeout that may cut such an attempt could make them fail
		if c.Interfere != 0 && tc.shortTO() {
			return false
		}
	}
	return c.PlanDelayMS >= 0 && c.PlanDelayMS <= 100
}

// bounded runs f and reports whether it finished within d; a clean-up step of
// the harness itself (closing the collector, the final Shutdown) must never be
// what makes a case hang.
func bounded(d time.Duration, f func()) bool {
	done := make(chan struct{})
	go func() { defer close(done); f() }()
	t := time.NewTimer(d)
	defer t.Stop()
	select {
	case <-done:
		return true
	case <-t.C:
		return false
	}
}

const (
	markMain  = "main" // item names of the case's own payload start with this
	markOther = "intf" // ... of the interfering exporter's payload with this (same length)
)

// caseHeaders are the pairs configured with WithHeaders (first Case.Headers of them).
var caseHeaders = [][2]string{{"x-c14-h1", "alpha"}, {"x-c14-h2", "beta-2"}}

func shutdownDeadline(c Case) time.Duration {
	if c.ShutdownMS > 0 {
		return time.Duration(c.ShutdownMS) * time.Millisecond
	}
	if c.ShutdownMS < 0 {
		return 0 // the context has ended before Shutdown is called
	}
	return shutdownGrace
}

// budget is an upper estimate of what the script can legitimately cost.
func budget(c Case) time.Duration {
	isGRPC := exporters[c.Exporter].grpc
	var d time.Duration
	wait := time.Duration(0)
	if c.RetryEnabled && !c.hugeBackoff() {
		wait = c.oneBackoff()
	}
	for _, st := range c.Script {
		d += wait
		switch st.Kind {
		case "slow":
			d += time.Duration(st.DelayMS) * time.Millisecond
		case "hold":
			if to, _ := c.timeout(); c.shortTO() {
				d += to
			} else {
				d += 200 * time.Millisecond
			}
		}
		if isGRPC {
			if st.RetryInfoMS > 0 {
				d += time.Duration(st.RetryInfoMS) * time.Millisecond
			}
		} else if n, ok := retryAfterSeconds(st.RetryAfter); ok {
			if n <= 5 {
				d += time.Duration(n) * time.Second
			} else {
				d += 5 * time.Second // finite() guarantees a budget of at most 5 s with such values
			}
		}
	}
	if c.Plan == "shutdown_abort_retrying" {
		d += time.Duration(c.PlanK+1)*(wait+30*time.Millisecond) + shutdownDeadline(c) + abortSlack
	} else if c.Endless && c.RetryEnabled && !ctxPlan(c.Plan) {
		d += c.maxElapsed() // at most 2 s, see finite
	}
	if c.tinyTO() && !exporters[c.Exporter].grpc && c.RetryEnabled {
		d += c.maxElapsed() // at most 5 s, see finite
	}
	d += time.Duration(c.DeadlineMS) * time.Millisecond
	return d + wait + time.Second
}

type observation struct {
	entries          []entry
	start            time.Duration
	returned         bool
	ret              time.Duration
	err              error
	cancelAt         time.Duration // moment cancel() returned, -1 = never called
	shutdownAt       time.Duration // moment Shutdown() returned, -1 = never called / still blocked
	shutdownCalledAt time.Duration // moment Shutdown() was called, -1 = never
	abortOverrun     bool          // abort plan: Export was not back abortSlack after Shutdown's deadline
	deadlineAt       time.Duration // plan deadline: moment the export context expires, -1 = no deadline
	ctxOverrun       bool          // Export was not back blockMargin after its context had ended
	cleanupStuck     bool          // closing the collector / the final Shutdown did not finish in time (harness side)
	interf           []entry       // requests of the interfering exporter
	interfErrs       []error       // results of the interfering exports
	secondStartErr   error         // life start_twice: what the second Start returned
	warmErr          error         // result of the warm-up export
	warmSeen         int           // requests the collector saw during the warm-up export
	planFired        bool
	handled          []string
	tag              string
	setupErr         error
	jitter           time.Duration // worst lateness of the canary's 1 ms timers during the run
}

func execute(c Case) (ob observation) {
	installHandler()
	ex := exporters[c.Exporter]
	ob = observation{cancelAt: -1, shutdownAt: -1, shutdownCalledAt: -1, deadlineAt: -1}
	ob.tag = fmt.Sprintf("c14-r%d", runSeq.Add(1))
	resetUntagged()
	col := newCollector(ex.signal, ex.grpc, c.Script, ob.tag)
	col.endless = c.Endless
	var addr string
	var stop func()
	if ex.grpc {
		a, s, err := col.startGRPC()
		if err != nil {
			ob.setupErr = err
			return ob
		}
		addr, stop = a, s
	} else {
		addr, stop = col.startHTTP()
	}
	rc := retryCfg{Enabled: c.RetryEnabled, Initial: c.initial(), MaxInterval: c.maxInterval(), MaxElapsed: c.maxElapsed()}
	opts := handleOpts{life: c.Life, rc: rc, gz: c.Gzip, items: c.Items, mark: markMain, env: c.timeoutEnv(), ownConn: c.Conn}
	if c.TimeoutVia == "" || c.TimeoutVia == "option" || c.TimeoutVia == "option_over_env" {
		opts.timeout, opts.timeoutSet = c.timeout()
	}
	if c.Headers > 0 {
		opts.headers = map[string]string{}
		for _, kv := range caseHeaders[:c.Headers] {
			opts.headers[kv[0]] = kv[1]
		}
		col.wantHeaders = opts.headers
	}
	for _, st := range c.Script {
		if st.Kind == "proxy_temporary_error" || st.Kind == "proxy_permanent_error" {
			opts.proxy = col.proxy
		}
	}
	var h, other handle
	var err error
	mkOther := func() error {
		if c.Interfere == 0 && c.Twin == nil {
			return nil
		}
		// same kind, same gzip / headers; a role header lets the collector keep
		// its requests apart; different payload. Without Case.Twin also the same
		// retry configuration and timeout, with it the twin's own.
		o2 := opts
		o2.mark, o2.proxy, o2.life = markOther, nil, ""
		o2.headers = map[string]string{roleHeader: "interferer"}
		for k, v := range opts.headers {
			o2.headers[k] = v
		}
		if c.Twin != nil {
			tc := c.Twin.asCase(c)
			o2.rc = retryCfg{Enabled: tc.RetryEnabled, Initial: tc.initial(), MaxInterval: tc.maxInterval(), MaxElapsed: tc.maxElapsed()}
			o2.env, o2.timeout, o2.timeoutSet = tc.timeoutEnv(), 0, false
			if tc.TimeoutVia == "" || tc.TimeoutVia == "option" || tc.TimeoutVia == "option_over_env" {
				o2.timeout, o2.timeoutSet = tc.timeout()
			}
		}
		var err error
		other, err = newHandle(c.Exporter, addr, o2)
		return err
	}
	if c.Twin != nil && c.Twin.First {
		err = mkOther()
	}
	if err == nil {
		h, err = newHandle(c.Exporter, addr, opts)
	}
	if err == nil && !(c.Twin != nil && c.Twin.First) {
		err = mkOther()
	}
	if err != nil {
		for _, f := range []func(){h.close, other.close} {
			if f != nil {
				bounded(5*time.Second, f)
			}
		}
		stop()
		ob.setupErr = err
		return ob
	}
	ctx, cancel := context.WithCancel(context.Background())
	closeConns := func() {
		for _, f := range []func(){h.close, other.close} {
			if f != nil {
				bounded(5*time.Second, f)
			}
		}
	}

	var mu sync.Mutex // guards ob.cancelAt / shutdownAt / planFired
	var planWG sync.WaitGroup
	var once sync.Once
	fire := func(f func()) {
		once.Do(func() {
			mu.Lock()
			ob.planFired = true
			mu.Unlock()
			planWG.Add(1)
			go func() {
				defer planWG.Done()
				if c.PlanDelayMS > 0 {
					time.Sleep(time.Duration(c.PlanDelayMS) * time.Millisecond)
				}
				f()
			}()
		})
	}
	// ctxOver is closed blockMargin after the export context has ended: an
	// export that is still running then "blocks beyond that" (the case is
	// abandoned, the run goes on).
	ctxOver := make(chan struct{})
	var ctxOverOnce sync.Once
	ctxEnded := func(in time.Duration) {
		ctxOverOnce.Do(func() { time.AfterFunc(in+blockMargin, func() { close(ctxOver) }) })
	}
	doCancel := func() {
		cancel()
		t := col.now()
		mu.Lock()
		ob.cancelAt = t
		mu.Unlock()
		ctxEnded(0)
	}
	abortPlan := abortPlan(c.Plan)
	abortCh := make(chan struct{})
	doShutdown := func() {
		d := shutdownDeadline(c)
		mu.Lock()
		ob.shutdownCalledAt = col.now()
		mu.Unlock()
		if abortPlan {
			time.AfterFunc(d+abortSlack, func() { close(abortCh) })
		}
		sctx, sc := context.WithTimeout(context.Background(), d)
		switch c.ShutdownMS {
		case -1:
			sc()
			sctx, sc = context.WithCancel(context.Background())
			sc()
		case -2:
			sc()
			sctx, sc = context.WithDeadline(context.Background(), time.Now().Add(-time.Second))
			<-sctx.Done()
		}
		_ = h.shutdown(sctx)
		sc()
		t := col.now()
		mu.Lock()
		ob.shutdownAt = t
		mu.Unlock()
	}
	switch c.Life {
	case "start_twice":
		if h.start != nil {
			ob.secondStartErr = h.start(context.Background())
		}
	case "shutdown_then_export":
		bounded(5*time.Second, func() {
			sctx, sc := context.WithTimeout(context.Background(), time.Second)
			_ = h.shutdown(sctx)
			sc()
		})
	}
	if c.Warmup {
		col.warm.Store(true)
		wctx, wc := context.WithTimeout(context.Background(), 5*time.Second)
		ob.warmErr = h.export(wctx)
		wc()
		col.warm.Store(false)
		ob.warmSeen = int(col.warmSeen.Load())
	}
	if c.AgeMS > 0 {
		time.Sleep(time.Duration(c.AgeMS) * time.Millisecond)
	}
	if c.Interfere > 0 {
		var ionce sync.Once
		col.onRespond = func(step int) {
			if step != c.InterfereK {
				return
			}
			ionce.Do(func() {
				for i := 0; i < c.Interfere; i++ {
					ictx, ic := context.WithTimeout(context.Background(), 5*time.Second)
					err := other.export(ictx)
					ic()
					mu.Lock()
					ob.interfErrs = append(ob.interfErrs, err)
					mu.Unlock()
				}
			})
		}
	}
	switch c.Plan {
	case "pre_cancelled":
		cancel()
		ob.cancelAt = col.now()
		ob.planFired = true
	case "pre_expired":
		// a context whose deadline passed before the call
		cancel()
		ctx, cancel = context.WithDeadline(context.Background(), time.Now().Add(-time.Second))
		<-ctx.Done()
		ob.cancelAt = col.now()
		ob.planFired = true
	case "cancel_in_attempt":
		col.onArrive = func(step int) {
			if step == c.PlanK {
				fire(doCancel)
			}
		}
	case "cancel_in_wait":
		col.onRespond = func(step int) {
			if step == c.PlanK {
				fire(doCancel)
			}
		}
	case "shutdown_in_wait", "shutdown_abort_wait", "shutdown_abort_retrying":
		col.onRespond = func(step int) {
			if step == c.PlanK {
				fire(doShutdown)
			}
		}
	case "shutdown_abort_attempt":
		col.onArrive = func(step int) {
			if step == c.PlanK {
				fire(doShutdown)
			}
		}
	}

	// Canary: how late do 1 ms timers fire in this process while the case
	// runs? Upper-bound timing clauses are only meaningful on a quiet run.
	canaryStop := make(chan struct{})
	canaryDone := make(chan time.Duration, 1)
	go func() {
		var worst time.Duration
		for {
			select {
			case <-canaryStop:
				canaryDone <- worst
				return
			default:
			}
			t := time.Now()
			time.Sleep(time.Millisecond)
			if over := time.Since(t) - time.Millisecond; over > worst {
				worst = over
			}
		}
	}()
	defer func() {
		close(canaryStop)
		ob.jitter = <-canaryDone
	}()

	type result struct {
		err error
		at  time.Duration
	}
	done := make(chan result, 1)
	switch c.Plan {
	case "deadline":
		cancel()
		dl := time.Now().Add(time.Duration(c.DeadlineMS) * time.Millisecond)
		ctx, cancel = context.WithDeadline(context.Background(), dl)
		ob.deadlineAt = dl.Sub(col.t0)
		ob.planFired = true
		ctxEnded(time.Duration(c.DeadlineMS) * time.Millisecond)
	case "pre_cancelled", "pre_expired":
		ctxEnded(0)
	}
	ob.start = col.now()
	go func() {
		err := h.export(ctx)
		done <- result{err, col.now()}
	}()
	limit := time.NewTimer(budget(c) + blockMargin)
	defer limit.Stop()
	select {
	case r := <-done:
		ob.returned, ob.err, ob.ret = true, r.err, r.at
	case <-limit.C:
	case <-abortCh:
		ob.abortOverrun = true
	case <-ctxOver:
		ob.ctxOverrun = true
	}
	// the plan's goroutine (cancel / Shutdown) is waited for, but never for long:
	// a Shutdown that is still blocked stays "not returned" in the observation.
	planDone := make(chan struct{})
	go func() { planWG.Wait(); close(planDone) }()
	waitPlan := func(d time.Duration) {
		t := time.NewTimer(d)
		defer t.Stop()
		select {
		case <-planDone:
		case <-t.C:
		}
	}
	if ob.returned {
		if abortPlan {
			select {
			case <-planDone:
			case <-abortCh: // closed abortSlack after the deadline of a Shutdown that was called
			case <-limit.C:
			}
		} else {
			waitPlan(blockMargin)
		}
		cancel()
		ob.cleanupStuck = !bounded(5*time.Second, func() {
			sctx, sc := context.WithTimeout(context.Background(), 2*time.Second)
			_ = h.shutdown(sctx)
			sc()
		})
		if other.shutdown != nil {
			bounded(5*time.Second, func() {
				sctx, sc := context.WithTimeout(context.Background(), 2*time.Second)
				_ = other.shutdown(sctx)
				sc()
			})
		}
		closeConns()
		ob.cleanupStuck = !bounded(15*time.Second, stop) || ob.cleanupStuck
	} else {
		// give up on the blocked call (the case is a violation anyway):
		// cancelling the context releases everything that honours it.
		cancel()
		t := time.NewTimer(2 * time.Second)
		select {
		case <-done:
		case <-t.C:
		}
		t.Stop()
		waitPlan(2 * time.Second)
		closeConns()
		ob.cleanupStuck = !bounded(15*time.Second, stop)
	}
	mu.Lock()
	defer mu.Unlock()
	ob.entries = col.snapshot()
	ob.interf = col.interferers()
	ob.handled = handledWith(ob.tag)
	return ob
}

type hintObs struct {
	Attempt int    `json:"attempt"` // index of the attempt that came too early
	Gap     string `json:"gap"`
	GapNS   int64  `json:"gap_ns"`
	Hint    string `json:"hint"`
	After   string `json:"after"`
}

var timingKinds = map[string]bool{
	"export_not_aborted_by_shutdown":            true,
	"shutdown_blocked_beyond_deadline":          true,
	"attempt_after_max_elapsed":                 true,
	"attempt_although_hint_exceeds_max_elapsed": true,
	"attempt_after_cancel":                      true,
	"attempt_after_shutdown":                    true,
	"attempt_after_context_deadline":            true,
	"returns_late_after_context_end":            true,
}

func describe(es []entry) string {
	var sb strings.Builder
	for i, e := range es {
		if i > 0 {
			sb.WriteString(" | ")
		}
		if len(es) > 12 && i >= 8 && i < len(es)-3 {
			if i == 8 {
				fmt.Fprintf(&sb, "... %d more ...", len(es)-11)
			}
			continue
		}
		fmt.Fprintf(&sb, "#%d @%.1fms %dB -> %s (%s)", i, float64(e.Arrive)/1e6, len(e.Body), e.Outcome, e.Desc)
	}
	if len(es) == 0 {
		return "(no attempt reached the collector)"
	}
	return sb.String()
}

func evaluate(c Case, ob observation) []vk.Violation {
	var vs []vk.Violation
	perKind := map[string]int{}
	bad := func(kind, format string, a ...any) {
		if perKind[kind]++; perKind[kind] > 8 {
			return // an endless script can show the same breakage thousands of times
		}
		vs = append(vs, vk.V(kind, "%s: %s; collector log: %s", c.Exporter, fmt.Sprintf(format, a...), describe(ob.entries)))
	}
	ex := exporters[c.Exporter]
	if ob.setupErr != nil {
		bad("setup_failed", "cannot build collector/exporter: %v", ob.setupErr)
		return vs
	}
	es := ob.entries
	for i := range es {
		if es[i].Outcome == oPending {
			es[i].Outcome = oAbandoned
		}
	}
	abortPlan := abortPlan(c.Plan)
	if abortPlan && ob.shutdownCalledAt >= 0 {
		// Shutdown(ctx with a short deadline) was called while the export sat in
		// a wait / an attempt that only an abort ends: both calls must be back
		// by the deadline plus (generous) abortSlack, the export with an error.
		d := shutdownDeadline(c)
		by := ob.shutdownCalledAt + d + abortSlack
		if !ob.returned || ob.ret > by {
			bad("export_not_aborted_by_shutdown", "Export was still running %v after Shutdown (deadline %v) was called (plan %s; exporter timeout %s via %q)", d+abortSlack, d, c.Plan, c.timeoutClass(), c.TimeoutVia)
		}
		if ob.shutdownAt < 0 || ob.shutdownAt > by {
			bad("shutdown_blocked_beyond_deadline", "Shutdown had not returned %v after it was called with a deadline of %v (plan %s; exporter timeout %s via %q)", d+abortSlack, d, c.Plan, c.timeoutClass(), c.TimeoutVia)
		}
	}
	ctxEnd := ob.cancelAt // moment the export context ended, -1 = it did not
	if ob.deadlineAt >= 0 {
		ctxEnd = ob.deadlineAt
	}
	how := map[string]string{"pre_cancelled": "was cancelled before the call", "pre_expired": "had a deadline that passed before the call",
		"deadline": fmt.Sprintf("expired (deadline %d ms after the call started)", c.DeadlineMS)}[c.Plan]
	if how == "" {
		how = "was cancelled"
	}
	if ob.ctxOverrun {
		// "gives up with an error once ... the context is cancelled ..., never blocks beyond that"
		bad("blocks_beyond_context", "Export was still running %v after its context %s (retry config: InitialInterval %v, MaxInterval %v, MaxElapsedTime %v)", blockMargin, how, c.initial(), c.maxInterval(), c.maxElapsed())
	}
	if ob.returned && ctxEnd >= 0 && ob.ret > ctxEnd+lateReturn {
		bad("returns_late_after_context_end", "Export returned %v after its context %s (retry config: InitialInterval %v, MaxInterval %v, MaxElapsedTime %v)", ob.ret-ctxEnd, how, c.initial(), c.maxInterval(), c.maxElapsed())
	}
	if !ob.returned && !ob.abortOverrun && !ob.ctxOverrun {
		to, _ := c.timeout()
		twin := "no second exporter instance"
		if c.Twin != nil {
			tc := c.Twin.asCase(c)
			tto, _ := tc.timeout()
			twin = fmt.Sprintf("a second exporter instance of the same kind, constructed %s this one, has its own timeout %s = %v via %q", map[bool]string{true: "before", false: "after"}[c.Twin.First], tc.timeoutClass(), tto, tc.TimeoutVia)
		}
		bad("export_blocked_beyond_budget", "Export did not return within the script's budget %v + %v (this exporter's timeout %s = %v via %q, MaxElapsedTime %v; %s)", budget(c), blockMargin, c.timeoutClass(), to, c.TimeoutVia, c.maxElapsed(), twin)
	}
	if c.Life == "shutdown_then_export" {
		// An export through an exporter that has been shut down: the six
		// exporters document different results (an error, or nil and the data
		// dropped); the statement only says that it never blocks.
		return vs
	}
	shortTO := c.shortTO()
	// nothing but the scripted answers can have ended an attempt or the call
	undisturbed := !ob.planFired && !shortTO
	maxElapsed := c.maxElapsed()
	oneBackoff := c.oneBackoff()

	// the first attempt whose payload reached the collector is the reference
	ref := -1
	for i, e := range es {
		if e.BodySet && e.BodyErr == "" {
			ref = i
			break
		}
	}
	// the interfering exports: each succeeded and arrived intact, as its own payload
	for i, err := range ob.interfErrs {
		if err != nil {
			bad("interfering_export_failed", "interfering export %d through a second exporter instance returned %v (the collector answers it with success)", i, err)
		}
	}
	if c.Warmup && ob.warmErr != nil && ob.warmSeen > 0 {
		bad("error_result_after_success", "the first export through this exporter returned %q although the collector answered it with success", ob.warmErr)
	}
	if ob.returned && len(ob.interf) != len(ob.interfErrs) {
		bad("interfering_export_lost", "%d interfering exports were made, the collector received %d of them", len(ob.interfErrs), len(ob.interf))
	}
	for i, e := range ob.interf {
		if n, err := payloadItems(ex.signal, e.Body); e.BodyErr != "" || err != nil || n != c.Items || !payloadMarked(ex.signal, e.Body, markOther) {
			names, _ := payloadNames(ex.signal, e.Body)
			bad("interfering_export_corrupted", "interfering export %d arrived as %d items %q (read error %q, decode error %v), exported %d items named %s-...", i, n, names, e.BodyErr, err, c.Items, markOther)
		}
	}
	for i, e := range es {
		if !e.BodySet {
			// the handler was still reading the request when the log was taken
			// (only possible for an attempt the client has abandoned)
		} else if e.BodyErr != "" {
			// a cancelled / timed-out client legitimately aborts mid-request
			if undisturbed {
				bad("payload_unreadable", "attempt %d: the collector could not read the request body: %s", i, e.BodyErr)
			}
		} else if len(e.Body) == 0 {
			bad("empty_payload", "attempt %d carried an empty payload", i)
		} else if n, err := payloadItems(ex.signal, e.Body); err != nil || n != c.Items {
			bad("payload_undecodable", "attempt %d: payload decodes to %d items (err %v), exported %d", i, n, err, c.Items)
		} else if !payloadMarked(ex.signal, e.Body, markMain) {
			names, _ := payloadNames(ex.signal, e.Body)
			bad("payload_not_the_exported_one", "attempt %d carries items %q, the export was given items named %s-...", i, names, markMain)
		}
		if e.HeaderMiss != "" {
			bad("configured_header_missing", "attempt %d did not carry the header %q configured with WithHeaders", i, e.HeaderMiss)
		}
		if c.Plan == "pre_cancelled" {
			bad("attempt_after_cancel", "attempt %d was sent although the context was cancelled before the call", i)
		}
		if c.Plan == "pre_expired" {
			bad("attempt_after_cancel", "attempt %d was sent although the deadline of the context had passed before the call", i)
		}
		if ob.deadlineAt >= 0 && e.Arrive > ob.deadlineAt+slackAfter {
			bad("attempt_after_context_deadline", "attempt %d arrived %v after the deadline of the export context (%d ms after the call started)", i, e.Arrive-ob.deadlineAt, c.DeadlineMS)
		}
		if i == 0 {
			continue
		}
		prev := es[i-1]
		// With a short per-request timeout (HTTP) the client may give up on
		// an attempt while the collector's answer is in flight; what the
		// collector "sent" is then not what the client saw, and the timeout is
		// a network-level failure that may be retried.
		sawAnswer := ex.grpc || !shortTO
		switch {
		case !sawAnswer:
		case prev.Outcome == oSuccess || prev.Outcome == oPartial:
			bad("retry_after_success", "attempt %d follows a success (%s)", i, prev.Desc)
		case prev.Outcome == oNonRetryable:
			bad("retry_after_nonretryable", "attempt %d follows a non-retryable answer (%s)", i, prev.Desc)
		case prev.Outcome == oPermNetErr:
			bad("retry_after_nonretryable", "attempt %d follows a network error that is not temporary (%s)", i, prev.Desc)
		}
		if !c.RetryEnabled {
			bad("retry_while_disabled", "attempt %d although retrying is disabled", i)
		}
		if ref >= 0 && ref < i && e.BodySet && e.BodyErr == "" && !bytes.Equal(e.Body, es[ref].Body) {
			bad("payload_differs", "attempt %d payload (%d bytes) differs from attempt %d (%d bytes)", i, len(e.Body), ref, len(es[ref].Body))
		}
		if prev.Outcome == oRetryable && prev.Hint > 0 && sawAnswer {
			if gap := e.Arrive - prev.RespAt; gap < prev.Hint {
				v := vk.V("retry_hint_not_honoured", "%s: attempt %d arrived %v after answer %d (%s) which asked for a delay of %v; collector log: %s",
					c.Exporter, i, gap, i-1, prev.Desc, prev.Hint, describe(es))
				v.Observed = hintObs{Attempt: i, GapNS: int64(gap), Gap: gap.String(), Hint: prev.Hint.String(), After: prev.Desc}
				vs = append(vs, v)
			}
		}
		// "gives up once the maximum elapsed time WOULD be exceeded": when the
		// previous answer carried a (honoured, i.e. gRPC) hint and the time
		// already elapsed at that answer plus the hint exceeds the budget, no
		// further attempt may be sent at all. The client's own clock starts a
		// little after ob.start, hence the slack; a timing kind (reported only
		// if three quiet runs agree).
		if c.RetryEnabled && maxElapsed > 0 && ex.grpc && prev.Outcome == oRetryable && prev.Hint > 0 {
			if at := prev.RespAt - ob.start; at+prev.Hint > satAdd(maxElapsed, slackHintBudget) {
				bad("attempt_although_hint_exceeds_max_elapsed", "attempt %d was sent although answer %d (%s) came %v after the call started and asked for a delay of %v: %v > MaxElapsedTime %v", i, i-1, prev.Desc, at, prev.Hint, at+prev.Hint, maxElapsed)
			}
		}
		// The same for OTLP/HTTP, independent of the unit the client reads
		// Retry-After in (open finding: nanoseconds instead of seconds): if even
		// the NANOSECOND reading of the value exceeds the budget, no reading
		// permits another attempt.
		if c.RetryEnabled && maxElapsed > 0 && !ex.grpc && prev.Outcome == oRetryable && prev.Hint > 0 && sawAnswer && prev.Step < len(c.Script) {
			if n, ok := retryAfterSeconds(c.Script[prev.Step].RetryAfter); ok {
				if at := prev.RespAt - ob.start; at+time.Duration(n) > satAdd(maxElapsed, slackHintBudget) {
					bad("attempt_although_hint_exceeds_max_elapsed", "attempt %d was sent although answer %d (%s) came %v after the call started: the delay exceeds MaxElapsedTime %v even when the value is read as nanoseconds (%v)", i, i-1, prev.Desc, at, maxElapsed, time.Duration(n))
				}
			}
		}
		if c.RetryEnabled && maxElapsed > 0 {
			if late := e.Arrive - ob.start; late > satAdd(maxElapsed, oneBackoff, slackElapsed) {
				bad("attempt_after_max_elapsed", "attempt %d arrived %v after the call started, MaxElapsedTime %v (InitialInterval %v, MaxInterval %v)", i, late, maxElapsed, c.initial(), c.maxInterval())
			}
		}
		if c.Plan != "pre_cancelled" && c.Plan != "pre_expired" && ob.cancelAt >= 0 && e.Arrive > ob.cancelAt+slackAfter {
			bad("attempt_after_cancel", "attempt %d arrived %v after cancel() returned", i, e.Arrive-ob.cancelAt)
		}
		if ob.shutdownAt >= 0 && e.Arrive > ob.shutdownAt+slackAfter {
			bad("attempt_after_shutdown", "attempt %d arrived %v after Shutdown returned", i, e.Arrive-ob.shutdownAt)
		}
	}
	if !ob.returned {
		return vs
	}

	var last *entry
	if len(es) > 0 {
		last = &es[len(es)-1]
	}
	// With a short per-request timeout (HTTP) the collector's log order is not
	// the client's order: the request of an attempt the client has already
	// timed out on may be served (and logged) late, even after the attempt
	// that ended the export. The "final answer" is then the last success in
	// the log rather than the last entry.
	orderReliable := ex.grpc || !shortTO
	if !orderReliable && ob.err == nil {
		for i := len(es) - 1; i >= 0; i-- {
			if es[i].Outcome == oSuccess || es[i].Outcome == oPartial {
				last = &es[i]
				break
			}
		}
	}
	lastOK := last != nil && (last.Outcome == oSuccess || last.Outcome == oPartial)
	if last == nil && ob.err != nil && undisturbed && c.Plan == "none" {
		// "gives up with an error ONCE the maximum elapsed time would be exceeded or the
		// context is cancelled or the exporter shut down": here the context is alive, the
		// exporter is not shut down, its own timeout is absent / disabled / >= 10 s and
		// MaxElapsedTime is looked at after an attempt only - yet the collector was never asked
		// and its first answer (a success, or whatever the script says) was never reported.
		to, _ := c.timeout()
		bad("gave_up_without_an_attempt", "Export returned %q without a single attempt reaching the collector although nothing ended it (context alive, no Shutdown, exporter timeout %s = %v via %q)", clip(ob.err.Error()), c.timeoutClass(), to, c.TimeoutVia)
	}
	if ob.err == nil && !lastOK {
		bad("nil_result_without_success", "Export returned nil but the last answer was not a success")
	}
	if ob.err != nil && lastOK && undisturbed {
		bad("error_result_after_success", "Export returned %q although the last answer was a success (%s)", clip(ob.err.Error()), last.Desc)
	}
	if last != nil && last.Outcome == oRetryable && c.RetryEnabled && c.unlimited() && undisturbed {
		bad("no_retry_after_retryable", "Export gave up (%v) after a retryable answer (%s) with retrying enabled and no time limit", ob.err, last.Desc)
	}
	if last != nil && last.Outcome == oTempNetErr && c.RetryEnabled && c.unlimited() && undisturbed {
		bad("no_retry_after_temporary_network_error", "Export gave up (%v) after a temporary network error (%s) with retrying enabled and no time limit", ob.err, last.Desc)
	}
	// The budget belongs to THIS export call: if the call ended with a retryable
	// outcome although, measured generously from outside (from just before
	// Export was called until it had returned), the time spent plus the
	// requested delay / one back-off interval was still well inside
	// MaxElapsedTime, it did not give up because "the configured maximum elapsed
	// time would be exceeded". Whatever the client measures for this call is at
	// most what is measured here, so a slow machine can only make the premise
	// false, never the conclusion wrong.
	if last != nil && (last.Outcome == oRetryable || last.Outcome == oTempNetErr) && c.RetryEnabled && !c.unlimited() && undisturbed && orderReliable {
		need := oneBackoff
		if last.Hint > need {
			need = last.Hint
		}
		if spent := ob.ret - ob.start; satAdd(spent, need, budgetMargin) <= maxElapsed {
			bad("gave_up_although_budget_allows", "Export gave up (%v) after a retryable outcome (%s): the whole call took %v, the next attempt was due after at most %v, MaxElapsedTime is %v", ob.err, last.Desc, spent, need, maxElapsed)
		}
	}
	// partial success reporting: "treats a success carrying a partial-success
	// message as delivered while reporting the rejection to the error handler".
	// The partial-success message has an optional count and an optional text:
	// a count > 0 is a rejection whether or not a text explains it, a text is
	// reported whatever the count; a message with neither says nothing (what
	// the exporter does with it is recorded as a class only).
	explains := func(e entry, h string) bool {
		st, ok := c.stepAt(e.Step)
		if e.Outcome != oPartial || !ok {
			return false
		}
		text := partialText(ob.tag, e.Step, st.Msg, st.Pad)
		if text == "" && st.Rejected == 0 {
			return !strings.Contains(h, "c14-r")
		}
		return strings.Contains(h, text) && (st.Rejected == 0 || strings.Contains(h, strconv.FormatInt(st.Rejected, 10)))
	}
	expectReport, saysNothing := false, false
	var want string
	var rejected int64
	if last != nil && last.Outcome == oPartial {
		if st, ok := c.stepAt(last.Step); ok {
			want, rejected = partialText(ob.tag, last.Step, st.Msg, st.Pad), st.Rejected
			expectReport = want != "" || rejected != 0
			saysNothing = !expectReport
		}
	}
	shape := fmt.Sprintf("error_message %q, rejected count %d", clip(want), rejected)
	switch {
	case saysNothing:
	case expectReport && ob.err == nil && orderReliable:
		if len(ob.handled) == 0 {
			bad("partial_success_not_reported", "no error reached the error handler for the partial success (%s)", shape)
		} else if len(ob.handled) > 1 {
			bad("partial_success_reported_twice", "%d errors reached the error handler: %q", len(ob.handled), clipAll(ob.handled))
		} else if !explains(*last, ob.handled[0]) {
			bad("partial_success_report_incomplete", "handled error %q lacks the message (verbatim, all %d bytes of it) or the rejected count of the partial success (%s)", clip(ob.handled[0]), len(want), shape)
		}
	case expectReport:
		if len(ob.handled) > 1 {
			bad("partial_success_reported_twice", "%d errors reached the error handler: %q", len(ob.handled), clipAll(ob.handled))
		}
	case len(ob.handled) > 0 && !orderReliable:
		// accepted if some partial-success answer in the log explains every report
		for _, h := range ob.handled {
			explained := false
			for _, e := range es {
				if explains(e, h) {
					explained = true
				}
			}
			if !explained {
				bad("spurious_partial_success_report", "the error handler received %q, no partial-success answer explains it", clip(h))
			}
		}
	case len(ob.handled) > 0:
		bad("spurious_partial_success_report", "the error handler received %q without a partial-success answer being the final one", clipAll(ob.handled))
	}
	return vs
}

// durClass names a duration of a retry configuration by its magnitude.
func durClass(d time.Duration) string {
	switch {
	case d == 0:
		return "0"
	case d < time.Millisecond:
		return "sub_ms(" + d.String() + ")"
	case d <= 20*time.Millisecond:
		return "ms(" + d.String() + ")"
	case d <= 5*time.Second:
		return d.String()
	case d <= time.Hour:
		return "long(" + d.String() + ")"
	}
	return "huge(>1h)"
}

// sizeClass names a size by its magnitude.
func sizeClass(n int) string {
	switch {
	case n < 1<<10:
		return "<1KiB"
	case n < 4<<10:
		return "1..4KiB"
	case n < 64<<10:
		return "4..64KiB"
	case n < 512<<10:
		return "64..512KiB"
	}
	return ">=512KiB"
}

// clip shortens a text for a violation message.
func clip(s string) string {
	if len(s) <= 300 {
		return s
	}
	return fmt.Sprintf("%s...(%d bytes)...%s", s[:160], len(s), s[len(s)-60:])
}

func clipAll(ss []string) []string {
	out := make([]string, len(ss))
	for i, s := range ss {
		out[i] = clip(s)
	}
	return out
}

func classify(c Case, ob observation) vk.Info {
	var info vk.Info
	ex := exporters[c.Exporter]
	es := ob.entries
	info.Class(c.Exporter)
	info.Class(fmt.Sprintf("attempts=%d", len(es)))
	info.Class("plan=" + c.Plan)
	info.ClassIf(c.Plan != "none" && ob.planFired, "plan_fired")
	if c.Twin != nil {
		tc := c.Twin.asCase(c)
		order := "constructed_after"
		if c.Twin.First {
			order = "constructed_first"
		}
		info.Class("twin_exporter=" + order)
		info.Class("twin_timeout=" + tc.timeoutClass() + "/own_timeout=" + c.timeoutClass())
		held := false
		for _, st := range c.Script {
			held = held || st.Kind == "hold" || st.Kind == "slow"
		}
		a, _ := c.timeout()
		b, _ := tc.timeout()
		info.ClassIf(held && a != b, "twin_exporter/different_timeouts+slow_or_held_answer/"+order)
		info.ClassIf(c.RetryEnabled != tc.RetryEnabled || c.initial() != tc.initial() || c.maxElapsed() != tc.maxElapsed(), "twin_exporter/different_retry_config")
		info.ClassIf(c.Interfere > 0, "twin_exporter/makes_the_interfering_exports")
	}
	if ob.shutdownCalledAt >= 0 && ob.returned && abortPlan(c.Plan) && ob.shutdownAt >= 0 {
		info.Class("shutdown_abort/" + c.Exporter + "=export_aborted_within_deadline+slack")
	}
	if c.Plan == "shutdown_in_wait" && c.InitialMS >= 100 && ob.shutdownCalledAt >= 0 && ob.returned {
		// Observation only: what does Shutdown(ctx, 50 ms deadline) do to an
		// export that sits in a bounded (200..600 ms) back-off wait?
		after := func(t time.Duration) bool {
			for _, e := range es {
				if e.Arrive > t+slackAfter {
					return true
				}
			}
			return false
		}
		what := "other"
		switch {
		case ob.shutdownAt < 0:
			what = "shutdown_still_blocked_after_export_returned"
		case after(ob.shutdownAt):
			what = "shutdown_returns_export_keeps_retrying"
		case after(ob.shutdownCalledAt) && ob.shutdownAt+slackAfter >= ob.ret:
			what = "shutdown_waits_for_export_which_keeps_retrying"
		case !after(ob.shutdownCalledAt) && ob.err != nil:
			what = "shutdown_aborts_export"
		}
		info.Class("shutdown_bounded_400ms/" + c.Exporter + "=" + what)
		if ob.shutdownAt >= 0 && ob.shutdownAt-ob.shutdownCalledAt > shutdownDeadline(c)+slackAfter {
			info.Class("shutdown_bounded_400ms/" + c.Exporter + "=shutdown_overran_its_own_deadline")
		}
	}
	switch {
	case !c.RetryEnabled:
		info.Class("retry=disabled")
	case c.hugeBackoff():
		info.Class("retry=huge_backoff")
	case c.InitialMS >= 100:
		info.Class("retry=slow_backoff")
	default:
		info.Class(fmt.Sprintf("retry=fast,max_elapsed=%s", durClass(c.maxElapsed())))
	}
	if c.RetryEnabled {
		ini, mx := c.initial(), c.maxInterval()
		info.Class("retry:initial_interval=" + durClass(ini))
		info.Class("retry:max_interval=" + durClass(mx))
		info.ClassIf(ini > mx, "retry:initial_interval>max_interval")
		info.ClassIf(ini == 0 && mx == 0, "retry:no_backoff_at_all")
		info.ClassIf(c.MaxElapsedNS != 0, "retry:max_elapsed="+durClass(c.maxElapsed()))
		if ctxPlan(c.Plan) && ob.planFired {
			end := map[string]string{"pre_cancelled": "cancelled_before", "pre_expired": "expired_before", "deadline": "deadline_during"}[c.Plan]
			if end == "" {
				end = "cancelled_during"
			}
			lim := "limited"
			if c.unlimited() || c.maxElapsed() > time.Hour {
				lim = "unlimited"
			}
			info.Class(fmt.Sprintf("context_end=%s,initial_interval=%s,max_elapsed=%s", end, durClass(ini), lim))
			info.ClassIf(ob.returned && ob.err != nil, "context_end:"+c.Exporter+"=>gave_up_with_error")
		}
	}
	info.ClassIf(c.Endless, "endless_retryable_collector")
	info.ClassIf(c.Endless && len(es) > 100, "endless_retryable_collector:more_than_100_attempts")
	info.ClassIf(len(es) >= maxLog, "harness_collector_log_cap_reached")
	for _, e := range es {
		if st, ok := c.stepAt(e.Step); ok && e.Outcome == oPartial {
			cnt, msg := "count>0", "text"
			if st.Rejected == 0 {
				cnt = "count=0"
			}
			if st.Msg != "" {
				msg = st.Msg
			}
			shape := "partial_success:" + cnt + ",message=" + msg
			info.Class(shape)
			if st.Rejected == 0 && st.Msg == "empty" {
				info.Class(fmt.Sprintf("%s:partial_success_without_count_and_message=>%d reports", c.Exporter, len(ob.handled)))
			} else {
				info.Class(c.Exporter + ":" + shape)
			}
		}
	}
	info.ClassIf(c.Gzip, "gzip")
	info.Class(fmt.Sprintf("headers=%d", c.Headers))
	if c.Life != "" {
		info.Class("life=" + c.Life)
		switch c.Life {
		case "shutdown_then_export":
			res := "nil"
			if ob.err != nil {
				res = "error"
			}
			if !ob.returned {
				res = "blocked"
			}
			info.Class(fmt.Sprintf("%s:export_after_shutdown=>%s,attempts=%d", c.Exporter, res, len(es)))
		case "start_twice":
			info.ClassIf(ob.secondStartErr != nil, c.Exporter+":second_start_returned_an_error")
			info.ClassIf(ob.secondStartErr == nil, c.Exporter+":second_start_returned_nil")
		case "shutdown_before_start":
			info.Class(c.Exporter + ":life=shutdown_before_start,plan=" + c.Plan)
		}
	}
	for _, e := range es {
		if e.Step < len(c.Script) && c.Script[e.Step].Kind == "status" {
			code := c.Script[e.Step].Code
			switch {
			case ex.grpc && code > 16:
				info.Class("grpc_code_out_of_range_answered")
			case !ex.grpc && code >= 505:
				info.Class("http_5xx_above_504_answered")
			case !ex.grpc && code >= 300 && code < 400:
				info.Class("http_3xx_answered")
			case !ex.grpc && code >= 400 && code < 500 && code != 429 && code != 400 && code != 401 && code != 404 && code != 408:
				info.Class("http_unusual_4xx_answered")
			}
		}
	}
	if c.HugeRetryAfter != "" {
		for i, e := range es {
			if e.Step >= len(c.Script) || c.Script[e.Step].RetryAfter != c.HugeRetryAfter || e.Outcome != oRetryable {
				continue
			}
			n, _ := retryAfterSeconds(c.HugeRetryAfter)
			switch {
			case i+1 == len(es) && ob.err != nil && time.Duration(n) > time.Duration(c.MaxElapsedMS)*time.Millisecond:
				info.Class(fmt.Sprintf("%s:retry_after_%s_exceeds_%dms_budget_in_any_unit=>gave_up", c.Exporter, c.HugeRetryAfter, c.MaxElapsedMS))
			case i+1 == len(es) && ob.err != nil:
				info.Class(fmt.Sprintf("%s:retry_after_%s_within_%dms_budget_as_ns=>gave_up", c.Exporter, c.HugeRetryAfter, c.MaxElapsedMS))
			case i+1 < len(es) && es[i+1].Arrive-e.RespAt >= time.Duration(n):
				info.Class(fmt.Sprintf("%s:retry_after_%s_waited_at_least_the_nanosecond_reading", c.Exporter, c.HugeRetryAfter))
			case i+1 < len(es):
				info.Class(fmt.Sprintf("%s:retry_after_%s_resent_earlier_than_the_nanosecond_reading", c.Exporter, c.HugeRetryAfter))
			}
		}
	}
	if c.AgeMS > 0 {
		kind := "aged_exporter"
		if c.Warmup {
			kind = "aged_exporter_after_successful_first_export"
		}
		info.Class(kind)
		info.Class(fmt.Sprintf("%s:%s(age %dms > max_elapsed %dms)", c.Exporter, kind, c.AgeMS, c.MaxElapsedMS))
		if len(es) > 1 && es[0].Outcome == oRetryable {
			info.Class(c.Exporter + ":aged_exporter_retried_within_its_own_budget")
		}
	}
	info.ClassIf(c.Interfere > 0, fmt.Sprintf("interfering_exports=%d(received %d)", c.Interfere, len(ob.interf)))
	info.ClassIf(c.Interfere > 0 && c.Gzip, "interfering_export_with_gzip")
	info.ClassIf(c.shortTO(), "short_timeout")
	info.ClassIf(c.Conn, c.Exporter+":WithGRPCConn")
	info.ClassIf(c.Conn && abortPlan(c.Plan) && ob.shutdownCalledAt >= 0, c.Exporter+":WithGRPCConn,plan="+c.Plan)
	if c.Items > 3 {
		info.Class("payload_items=" + map[bool]string{true: "4..64", false: "65..2049"}[c.Items <= 64])
		info.ClassIf(len(es) > 1, "payload_items>3_re-sent")
		info.ClassIf(len(es) > 1 && c.Gzip, "payload_items>3_re-sent_gzip")
	}
	if abortPlan(c.Plan) && ob.shutdownCalledAt >= 0 {
		ctxShape := "deadline_200/300ms"
		switch c.ShutdownMS {
		case 1:
			ctxShape = "deadline_1ms"
		case -1:
			ctxShape = "cancelled_before"
		case -2:
			ctxShape = "expired_before"
		}
		info.Class(c.Exporter + ":abort,shutdown_context=" + ctxShape)
	}
	via := c.TimeoutVia
	if via == "" && c.TimeoutMS > 0 {
		via = "option"
	}
	info.Class("exporter_timeout=" + c.timeoutClass())
	info.ClassIf(via != "", "exporter_timeout_via="+via)
	info.ClassIf(c.TimeoutSpell != "", "exporter_timeout_env_spelling="+c.TimeoutSpell)
	if d, ok := c.timeout(); ok && d <= 0 {
		info.Class(c.Exporter + ":exporter_timeout_disabled(<=0)")
	}
	if abortPlan(c.Plan) && ob.shutdownCalledAt >= 0 {
		info.Class(fmt.Sprintf("%s:plan=%s,exporter_timeout=%s", c.Exporter, c.Plan, c.timeoutClass()))
	}
	if ctxPlan(c.Plan) && ob.planFired {
		info.Class("context_end,exporter_timeout=" + c.timeoutClass())
	}
	if c.tinyTO() {
		res := "error"
		if ob.returned && ob.err == nil {
			res = "nil"
		}
		info.Class(fmt.Sprintf("%s:tiny_timeout=>%s", c.Exporter, res))
	}
	for _, e := range es {
		if st, ok := c.stepAt(e.Step); ok && st.Pad > 0 && (e.Outcome == oPartial || e.Outcome == oRetryable || e.Outcome == oNonRetryable) {
			what := "failure_answer"
			if e.Outcome == oPartial {
				what = "partial_success"
				if st.Msg == "empty" {
					continue
				}
			}
			info.Class(what + "_size=" + sizeClass(st.Pad))
			info.ClassIf(e.Outcome == oPartial, c.Exporter+":partial_success_size="+sizeClass(st.Pad))
		}
	}
	nontrivial := false
	for i, st := range c.Script {
		if stepRetryable(ex.grpc, st) && i+1 < len(c.Script) {
			nontrivial = true
		}
	}
	info.NonTrivial = nontrivial
	seen := map[string]bool{}
	hinted, hintedHTTPSeconds := false, false
	for i, e := range es {
		seen[e.Outcome] = true
		if e.Outcome == oRetryable && e.Hint > 0 && i+1 < len(es) {
			hinted = true
			if !ex.grpc {
				hintedHTTPSeconds = true
			}
		}
		if e.Step < len(c.Script) {
			st := c.Script[e.Step]
			info.ClassIf(ex.grpc && st.Code == int(codes.ResourceExhausted) && st.Kind != "partial" && st.RetryInfoMS < 0 && e.Outcome == oNonRetryable, "resource_exhausted_without_retryinfo")
			info.ClassIf(ex.grpc && st.Code == int(codes.ResourceExhausted) && st.RetryInfoMS >= 0 && e.Outcome == oRetryable, "resource_exhausted_with_retryinfo")
			info.ClassIf(st.Kind == "slow" && e.Outcome != oAbandoned, "slow_answer_delivered")
			info.ClassIf(ex.grpc && st.ExtraDetails > 0 && st.RetryInfoMS >= 0 && e.Outcome == oRetryable, "grpc_retryinfo_after_other_details")
			info.ClassIf(ex.grpc && st.ExtraDetails > 0 && st.RetryInfoMS >= 0 && e.Outcome == oRetryable && st.Code == int(codes.ResourceExhausted), "grpc_resource_exhausted_retryinfo_after_other_details")
			info.ClassIf(ex.grpc && st.ExtraDetails > 0 && st.RetryInfoMS < 0 && st.Code == int(codes.ResourceExhausted) && e.Outcome == oNonRetryable, "grpc_resource_exhausted_other_details_only")
		}
	}
	for o := range seen {
		info.Class("saw_" + o)
	}
	info.ClassIf(hinted, "retried_after_server_hint")
	info.ClassIf(hintedHTTPSeconds, "retried_after_http_retry_after_seconds")
	if len(es) > 0 && ob.returned {
		l := es[len(es)-1]
		info.ClassIf(l.Outcome == oRetryable && ob.err != nil && !c.unlimited() && !ob.planFired, "gave_up_on_max_elapsed")
		info.ClassIf(l.Outcome == oRetryable && ob.err != nil && ob.planFired, "gave_up_on_cancel_or_shutdown")
		info.ClassIf(l.Outcome == oPartial && ob.err == nil, "partial_success_delivered")
		info.ClassIf(l.Outcome == oSuccess && ob.err == nil && len(es) > 1, "success_after_retries")
		info.ClassIf(l.Outcome == oNonRetryable && len(es) > 1, "terminal_failure_after_retries")
		info.ClassIf((l.Outcome == oNetErr || l.Outcome == oAbandoned) && ob.err != nil, "ended_on_network_failure")
		info.ClassIf(l.Outcome == oPermNetErr && ob.err != nil, c.Exporter+":gave_up_on_permanent_network_error")
	}
	if c.shortTO() {
		// Observation only (not part of the statement): does WithTimeout bound
		// the whole export, as its documentation says for five of the six
		// exporters, or each attempt?
		for i := 1; i < len(es); i++ {
			if to, _ := c.timeout(); es[i].Arrive-ob.start > to+slackElapsed {
				if ex.grpc {
					info.Class("grpc_attempt_after_export_timeout_observed")
				} else {
					info.Class("http_timeout_per_attempt_observed")
				}
				break
			}
		}
	}
	for i := 1; i < len(es); i++ {
		info.ClassIf(es[i-1].Outcome == oNetErr, "retried_after_connection_teardown")
		info.ClassIf(es[i-1].Outcome == oTempNetErr, c.Exporter+":retried_after_temporary_network_error")
		info.ClassIf(es[i-1].Outcome == oAbandoned, "retried_after_own_timeout")
	}
	return info
}

func run(c Case) ([]vk.Violation, vk.Info) {
	if !finite(c) {
		var info vk.Info
		info.Class("malformed_case_skipped")
		return nil, info
	}
	if c.Interfere > 0 {
		// One P: sync.Pool hands an object put back by one goroutine to the next
		// goroutine asking for it (per-P private slot), which is what makes
		// cross-export sharing of pooled buffers observable instead of a matter
		// of which P the interfering export happens to run on.
		prev := runtime.GOMAXPROCS(1)
		defer runtime.GOMAXPROCS(prev)
	}
	ob := execute(c)
	vs := evaluate(c, ob)
	info := classify(c, ob)
	info.ClassIf(ob.jitter > quietJitter, "noisy_run")
	info.ClassIf(ob.cleanupStuck, "harness_cleanup_step_abandoned_after_timeout")

	// Upper-bound timing clauses ("arrives after ...") are reported only when
	// three QUIET runs of the case (canary timers at most quietJitter late)
	// all show them; at most six runs are spent on that. The pre-cancelled
	// clause is causal (cancel() returned before Export was called), no clock
	// is involved, so it needs no confirmation.
	timing := func(v vk.Violation) bool {
		return timingKinds[v.Kind] && (v.Kind != "attempt_after_cancel" || c.Plan != "pre_cancelled" && c.Plan != "pre_expired")
	}
	suspect := map[string]int{} // kind -> quiet runs that showed it
	any := false
	for _, v := range vs {
		if timing(v) {
			any = true
			if ob.jitter <= quietJitter {
				suspect[v.Kind] = 1
			} else if _, ok := suspect[v.Kind]; !ok {
				suspect[v.Kind] = 0
			}
		}
	}
	if any {
		confirmed := func() bool {
			for _, n := range suspect {
				if n < 3 {
					return false
				}
			}
			return true
		}
		for r := 1; r < 6 && len(suspect) > 0 && !confirmed(); r++ {
			ob2 := execute(c)
			if ob2.cleanupStuck {
				break // the harness itself is struggling: no verdict on timing clauses from this machine state
			}
			if ob2.jitter > quietJitter {
				info.Class("noisy_confirmation_run_discarded")
				continue
			}
			again := map[string]bool{}
			for _, v := range evaluate(c, ob2) {
				again[v.Kind] = true
			}
			for k := range suspect {
				if again[k] {
					suspect[k]++
				} else {
					delete(suspect, k)
					info.Class("timing_suspicion_not_reproduced")
				}
			}
		}
		for k, n := range suspect {
			if n < 3 {
				delete(suspect, k)
				info.Class("timing_suspicion_unconfirmed_noisy_machine")
			}
		}
	}
	var out []vk.Violation
	for _, v := range vs {
		if timing(v) && suspect[v.Kind] < 3 {
			continue
		}
		out = append(out, v)
	}
	return out, info
}

// ---------------------------------------------------------------------
// known findings

func earlyAttempt(v vk.Violation) (attempt int, gap time.Duration, ok bool) {
	switch o := v.Observed.(type) {
	case hintObs:
		return o.Attempt, time.Duration(o.GapNS), true
	case map[string]any:
		f, ok1 := o["attempt"].(float64)
		g, ok2 := o["gap_ns"].(float64)
		if ok1 && ok2 {
			return int(f), time.Duration(g), true
		}
	}
	return 0, 0, false
}

var known = map[string]func(Case, vk.Violation) bool{
	// The three OTLP/HTTP clients use the Retry-After value N (seconds) as N
	// nanoseconds. Matches only: hint violation + HTTP exporter + the answer
	// preceding the early attempt carries an integer Retry-After N >= 1 + the
	// measured wait is shorter than N seconds (that is the violation) but NOT
	// shorter than N nanoseconds. The wait is measured from before the answer
	// left the collector to the arrival of the next attempt, so it is never
	// shorter than what the client slept: no tolerance is needed. A wait below
	// the nanosecond reading (value dropped, truncated, wrapped ...) is not
	// explained by the finding.
	"http_retry_after_treated_as_nanoseconds": func(c Case, v vk.Violation) bool {
		ex, ok := exporters[c.Exporter]
		if v.Kind != "retry_hint_not_honoured" || !ok || ex.grpc {
			return false
		}
		i, gap, ok := earlyAttempt(v)
		if !ok || i < 1 || i-1 >= len(c.Script) {
			return false
		}
		st := c.Script[i-1]
		n, isInt := retryAfterSeconds(st.RetryAfter)
		return isInt && n >= 1 && (st.Kind == "status" || st.Kind == "slow") && httpRetryable(st.Code) &&
			gap >= time.Duration(n)
	},
	// otlploghttp.Exporter.Shutdown only swaps the client for a no-op one and
	// returns; an export that is in its retry loop keeps re-sending after
	// Shutdown returned. Matches only: attempt after Shutdown + otlploghttp +
	// the Shutdown-during-the-wait plan.
	"loghttp_shutdown_does_not_stop_inflight_export": func(c Case, v vk.Violation) bool {
		return v.Kind == "attempt_after_shutdown" && c.Exporter == "otlploghttp" && c.Plan == "shutdown_in_wait"
	},
}

const ruleCommon = "one export per case against a scripted loopback collector; script of 1..7 answers (or, ~1/6 of the cases, an ENDLESS collector that repeats a retryable answer for ever while the export context is cancelled before / expired before / expires 20..300 ms into / is cancelled during the call), retry config {disabled, 1ms/5ms backoff with MaxElapsedTime 0/20ms/500ms/5s/1ns/1us/2^62ns/MaxInt64ns, in 1/3 of those InitialInterval and MaxInterval independently from {0, 1ns, 1us, 1..8ms} (Initial > Max, Max == 0, no back-off at all), 400ms backoff, 10min / 1h / MaxInt64ns backoff ended by the context only}, partial success with count {0, >0} x error_message {text, text with printf verbs, absent}, " +
	"exporter timeout {unset, 0, negative (-1ns..-10s), 15s..1h, 2^62ns} x {WithTimeout, *_TIMEOUT signal / general variable in 4 spellings, both variables, option over variables} in every scenario but one, {100/200ms, 1ms/1us/1ns} with held requests in that one; size of the partial-success error_message / failure body / status message 0 B..1 MiB on a log scale (1/3 of partial successes, every answer of the 'sized' scenario ~1/8 of the cases); payload 1..3 items, 1/7: 3..2049 items; gRPC: WithGRPCConn 1/5, exporter life cycle {New; trace: NewUnstarted->Shutdown->Start, Start twice; all: Shutdown before the export}, gzip on/off, WithHeaders with 0/1/2 pairs, exporter age (export made MaxElapsedTime(300/500ms)+150ms after construction, optionally after a first successful export on the same instance), optionally 1-2 interfering exports of another payload through a second exporter instance while the export waits for its retry, plan {none, ctx cancelled before, cancel while attempt K is held, cancel / Shutdown after answer K, and for the two trace exporters Shutdown(context with a 200/300 ms or 1 ms deadline, cancelled before, expired before) during a 10 min back-off wait / a held attempt / endless retrying against a collector that answers retryable outcomes for ever}; " +
	"non-trivial = the script contains a retryable answer followed by something; distinct = distinct case encodings"

func TestHTTPRetry(t *testing.T) {
	vk.Run(t, vk.Spec[Case]{
		Property: "C14", Check: "http_retry",
		Rule: "otlptracehttp / otlpmetrichttp / otlploghttp: answers over {200, 200+partial success, the whole 3xx(not followed)/4xx/5xx range incl. 505-511, 520-530, 598, 599, connection closed (FIN/RST), slow, held, client-side temporary / non-temporary network error injected through WithProxy} x Retry-After {absent, 0, 1, 2, garbage; in ~1/21 of the cases 2147483648 / 4294967295 / 4294967296 / 4500000000 with a 300/500 ms budget or 2200000000 with a 5 s budget}; " +
			"Retry-After >= 1 on a retryable answer in 1/16 of the cases (~25 per exporter in quick) (each costs >= 1 s once the unit defect is repaired); " + ruleCommon,
		Quick: 150, Thorough: 1800,
		Gen: genCase(false), Run: run, Known: known,
		CaseTimeout: 5 * time.Minute, ShrinkTime: 12 * time.Second,
	})
}

func TestGRPCRetry(t *testing.T) {
	vk.Run(t, vk.Spec[Case]{
		Property: "C14", Check: "grpc_retry",
		Rule:  "otlptracegrpc / otlpmetricgrpc / otlploggrpc: answers over {OK, OK+partial success, every codes.Code 1..16 and the undefined 17 / 99, slow, held} x RetryInfo {absent, 0, 30ms, 300ms} x {0, 1, 2 other status details before it}; " + ruleCommon,
		Quick: 110, Thorough: 1300,
		Gen: genCase(true), Run: run, Known: known,
		CaseTimeout: 5 * time.Minute, ShrinkTime: 12 * time.Second,
	})
}
