package c14

import (
	"context"
	"fmt"
	"net/http"
	"net/url"
	"os"
	"time"

	"go.opentelemetry.io/otel/attribute"
	"go.opentelemetry.io/otel/exporters/otlp/otlplog/otlploggrpc"
	"go.opentelemetry.io/otel/exporters/otlp/otlplog/otlploghttp"
	"go.opentelemetry.io/otel/exporters/otlp/otlpmetric/otlpmetricgrpc"
	"go.opentelemetry.io/otel/exporters/otlp/otlpmetric/otlpmetrichttp"
	"go.opentelemetry.io/otel/exporters/otlp/otlptrace"
	"go.opentelemetry.io/otel/exporters/otlp/otlptrace/otlptracegrpc"
	"go.opentelemetry.io/otel/exporters/otlp/otlptrace/otlptracehttp"
	"go.opentelemetry.io/otel/log"
	"go.opentelemetry.io/otel/sdk/instrumentation"
	sdklog "go.opentelemetry.io/otel/sdk/log"
	"go.opentelemetry.io/otel/sdk/log/logtest"
	"go.opentelemetry.io/otel/sdk/metric/metricdata"
	"go.opentelemetry.io/otel/sdk/resource"
	sdktrace "go.opentelemetry.io/otel/sdk/trace"
	"go.opentelemetry.io/otel/sdk/trace/tracetest"
	"go.opentelemetry.io/otel/trace"
	"google.golang.org/grpc"
	"google.golang.org/grpc/credentials/insecure"
)

// exporterInfo describes one of the six exporters under test.
type exporterInfo struct {
	signal string
	grpc   bool
}

var exporters = map[string]exporterInfo{
	"otlptracehttp":  {signal: "trace", grpc: false},
	"otlpmetrichttp": {signal: "metric", grpc: false},
	"otlploghttp":    {signal: "log", grpc: false},
	"otlptracegrpc":  {signal: "trace", grpc: true},
	"otlpmetricgrpc": {signal: "metric", grpc: true},
	"otlploggrpc":    {signal: "log", grpc: true},
}

var httpExporters = []string{"otlptracehttp", "otlpmetrichttp", "otlploghttp"}
var grpcExporters = []string{"otlptracegrpc", "otlpmetricgrpc", "otlploggrpc"}

// handle is what the runner needs from an exporter.
type handle struct {
	export   func(context.Context) error
	shutdown func(context.Context) error
	start    func(context.Context) error // trace exporters only (otlptrace.Exporter.Start)
	close    func()                      // releases what the harness made for the exporter (its own gRPC connection)
}

// traceLife constructs a trace exporter along the requested life cycle:
// "shutdown_before_start": NewUnstarted -> Shutdown -> Start; otherwise New.
func traceLife(life string, unstarted func() *otlptrace.Exporter, started func() (*otlptrace.Exporter, error)) (*otlptrace.Exporter, error) {
	if life != "shutdown_before_start" {
		return started()
	}
	e := unstarted()
	sctx, sc := context.WithTimeout(context.Background(), time.Second)
	_ = e.Shutdown(sctx) // documented as a no-op on an exporter that was not started
	sc()
	return e, e.Start(context.Background())
}

type retryCfg struct {
	Enabled                          bool
	Initial, MaxInterval, MaxElapsed time.Duration
}

var (
	baseTime = time.Unix(1700000000, 0).UTC()
	res      = resource.NewSchemaless(attribute.String("service.name", "c14"))
	scope    = instrumentation.Scope{Name: "c14/scope", Version: "v1"}
)

func spans(n int, mark string) []sdktrace.ReadOnlySpan {
	var stubs tracetest.SpanStubs
	for i := 0; i < n; i++ {
		stubs = append(stubs, tracetest.SpanStub{
			Name: fmt.Sprintf("%s-span-%d", mark, i),
			SpanContext: trace.NewSpanContext(trace.SpanContextConfig{
				TraceID:    trace.TraceID{1, 2, 3, 4, 5, 6, 7, 8, 9, 10, 11, 12, 13, 14, 15, byte(16 + i)},
				SpanID:     trace.SpanID{1, 2, 3, 4, 5, 6, 7, byte(8 + i)},
				TraceFlags: trace.FlagsSampled,
			}),
			SpanKind:             trace.SpanKindClient,
			StartTime:            baseTime,
			EndTime:              baseTime.Add(time.Duration(i+1) * time.Millisecond),
			Attributes:           []attribute.KeyValue{attribute.Int("i", i), attribute.String("pad", "0123456789abcdef0123456789abcdef")},
			Resource:             res,
			InstrumentationScope: scope,
		})
	}
	return stubs.Snapshots()
}

func metrics(n int, mark string) *metricdata.ResourceMetrics {
	rm := &metricdata.ResourceMetrics{Resource: res}
	sm := metricdata.ScopeMetrics{Scope: scope}
	for i := 0; i < n; i++ {
		sm.Metrics = append(sm.Metrics, metricdata.Metrics{
			Name: fmt.Sprintf("%s-counter-%d", mark, i), Description: "scripted", Unit: "1",
			Data: metricdata.Sum[int64]{
				Temporality: metricdata.CumulativeTemporality, IsMonotonic: true,
				DataPoints: []metricdata.DataPoint[int64]{{
					Attributes: attribute.NewSet(attribute.Int("i", i)),
					StartTime:  baseTime, Time: baseTime.Add(time.Second), Value: int64(10 + i),
				}},
			},
		})
	}
	rm.ScopeMetrics = []metricdata.ScopeMetrics{sm}
	return rm
}

func records(n int, mark string) []sdklog.Record {
	out := make([]sdklog.Record, 0, n)
	for i := 0; i < n; i++ {
		f := logtest.RecordFactory{
			Timestamp: baseTime, ObservedTimestamp: baseTime.Add(time.Millisecond),
			Severity: log.SeverityInfo, SeverityText: "INFO",
			Body:                 log.StringValue(fmt.Sprintf("%s-record-%d 0123456789abcdef0123456789abcdef", mark, i)),
			Attributes:           []log.KeyValue{log.Int("i", i)},
			Resource:             res,
			InstrumentationScope: &scope,
		}
		out = append(out, f.NewRecord())
	}
	return out
}

// newHandle builds the named exporter against addr through its public
// constructor and options only.
// handleOpts is everything a case configures on an exporter.
type handleOpts struct {
	rc      retryCfg
	timeout time.Duration // WithTimeout(timeout) when timeoutSet
	// timeoutSet: pass WithTimeout at all
	timeoutSet bool
	// env: environment variables set while the exporter is constructed (the
	// exporters read their configuration at construction only), removed afterwards
	env map[string]string
	// ownConn (gRPC exporters): hand the exporter a connection made by the
	// harness (WithGRPCConn) instead of the endpoint; closed by handle.close
	ownConn bool
	gz      bool
	items   int
	life    string            // life cycle before the export (see Case.Life)
	mark    string            // payload marker (item names start with it)
	headers map[string]string // WithHeaders, nil = option not passed
	// proxy (HTTP exporters only): WithProxy, nil = option not passed
	proxy func(*http.Request) (*url.URL, error)
}

func newHandle(name, addr string, o handleOpts) (handle, error) {
	ctx := context.Background()
	rc, timeout, gz, items := o.rc, o.timeout, o.gz, o.items
	for k, v := range o.env {
		prev, had := os.LookupEnv(k)
		_ = os.Setenv(k, v)
		defer func(k, prev string, had bool) {
			if had {
				_ = os.Setenv(k, prev)
			} else {
				_ = os.Unsetenv(k)
			}
		}(k, prev, had)
	}
	var conn *grpc.ClientConn
	closeConn := func() {}
	if o.ownConn {
		cc, err := grpc.NewClient(addr, grpc.WithTransportCredentials(insecure.NewCredentials()))
		if err != nil {
			return handle{}, err
		}
		conn, closeConn = cc, func() { _ = cc.Close() }
	}
	switch name {
	case "otlptracehttp":
		opts := []otlptracehttp.Option{otlptracehttp.WithEndpoint(addr), otlptracehttp.WithInsecure(),
			otlptracehttp.WithRetry(otlptracehttp.RetryConfig{Enabled: rc.Enabled, InitialInterval: rc.Initial, MaxInterval: rc.MaxInterval, MaxElapsedTime: rc.MaxElapsed})}
		if o.timeoutSet {
			opts = append(opts, otlptracehttp.WithTimeout(timeout))
		}
		if gz {
			opts = append(opts, otlptracehttp.WithCompression(otlptracehttp.GzipCompression))
		}
		if o.headers != nil {
			opts = append(opts, otlptracehttp.WithHeaders(o.headers))
		}
		if o.proxy != nil {
			opts = append(opts, otlptracehttp.WithProxy(o.proxy))
		}
		e, err := traceLife(o.life, func() *otlptrace.Exporter { return otlptracehttp.NewUnstarted(opts...) },
			func() (*otlptrace.Exporter, error) { return otlptracehttp.New(ctx, opts...) })
		if err != nil {
			return handle{}, err
		}
		ss := spans(items, o.mark)
		return handle{export: func(ctx context.Context) error { return e.ExportSpans(ctx, ss) }, shutdown: e.Shutdown, start: e.Start}, nil
	case "otlptracegrpc":
		opts := []otlptracegrpc.Option{otlptracegrpc.WithEndpoint(addr), otlptracegrpc.WithInsecure(),
			otlptracegrpc.WithRetry(otlptracegrpc.RetryConfig{Enabled: rc.Enabled, InitialInterval: rc.Initial, MaxInterval: rc.MaxInterval, MaxElapsedTime: rc.MaxElapsed})}
		if o.timeoutSet {
			opts = append(opts, otlptracegrpc.WithTimeout(timeout))
		}
		if gz {
			opts = append(opts, otlptracegrpc.WithCompressor("gzip"))
		}
		if o.headers != nil {
			opts = append(opts, otlptracegrpc.WithHeaders(o.headers))
		}
		if conn != nil {
			opts = append(opts, otlptracegrpc.WithGRPCConn(conn))
		}
		e, err := traceLife(o.life, func() *otlptrace.Exporter { return otlptracegrpc.NewUnstarted(opts...) },
			func() (*otlptrace.Exporter, error) { return otlptracegrpc.New(ctx, opts...) })
		if err != nil {
			closeConn()
			return handle{}, err
		}
		ss := spans(items, o.mark)
		return handle{export: func(ctx context.Context) error { return e.ExportSpans(ctx, ss) }, shutdown: e.Shutdown, start: e.Start, close: closeConn}, nil
	case "otlpmetrichttp":
		opts := []otlpmetrichttp.Option{otlpmetrichttp.WithEndpoint(addr), otlpmetrichttp.WithInsecure(),
			otlpmetrichttp.WithRetry(otlpmetrichttp.RetryConfig{Enabled: rc.Enabled, InitialInterval: rc.Initial, MaxInterval: rc.MaxInterval, MaxElapsedTime: rc.MaxElapsed})}
		if o.timeoutSet {
			opts = append(opts, otlpmetrichttp.WithTimeout(timeout))
		}
		if gz {
			opts = append(opts, otlpmetrichttp.WithCompression(otlpmetrichttp.GzipCompression))
		}
		if o.headers != nil {
			opts = append(opts, otlpmetrichttp.WithHeaders(o.headers))
		}
		if o.proxy != nil {
			opts = append(opts, otlpmetrichttp.WithProxy(o.proxy))
		}
		e, err := otlpmetrichttp.New(ctx, opts...)
		if err != nil {
			return handle{}, err
		}
		rm := metrics(items, o.mark)
		return handle{export: func(ctx context.Context) error { return e.Export(ctx, rm) }, shutdown: e.Shutdown}, nil
	case "otlpmetricgrpc":
		opts := []otlpmetricgrpc.Option{otlpmetricgrpc.WithEndpoint(addr), otlpmetricgrpc.WithInsecure(),
			otlpmetricgrpc.WithRetry(otlpmetricgrpc.RetryConfig{Enabled: rc.Enabled, InitialInterval: rc.Initial, MaxInterval: rc.MaxInterval, MaxElapsedTime: rc.MaxElapsed})}
		if o.timeoutSet {
			opts = append(opts, otlpmetricgrpc.WithTimeout(timeout))
		}
		if gz {
			opts = append(opts, otlpmetricgrpc.WithCompressor("gzip"))
		}
		if o.headers != nil {
			opts = append(opts, otlpmetricgrpc.WithHeaders(o.headers))
		}
		if conn != nil {
			opts = append(opts, otlpmetricgrpc.WithGRPCConn(conn))
		}
		e, err := otlpmetricgrpc.New(ctx, opts...)
		if err != nil {
			return handle{}, err
		}
		rm := metrics(items, o.mark)
		return handle{export: func(ctx context.Context) error { return e.Export(ctx, rm) }, shutdown: e.Shutdown, close: closeConn}, nil
	case "otlploghttp":
		opts := []otlploghttp.Option{otlploghttp.WithEndpoint(addr), otlploghttp.WithInsecure(),
			otlploghttp.WithRetry(otlploghttp.RetryConfig{Enabled: rc.Enabled, InitialInterval: rc.Initial, MaxInterval: rc.MaxInterval, MaxElapsedTime: rc.MaxElapsed})}
		if o.timeoutSet {
			opts = append(opts, otlploghttp.WithTimeout(timeout))
		}
		if gz {
			opts = append(opts, otlploghttp.WithCompression(otlploghttp.GzipCompression))
		}
		if o.headers != nil {
			opts = append(opts, otlploghttp.WithHeaders(o.headers))
		}
		if o.proxy != nil {
			opts = append(opts, otlploghttp.WithProxy(o.proxy))
		}
		e, err := otlploghttp.New(ctx, opts...)
		if err != nil {
			return handle{}, err
		}
		rs := records(items, o.mark)
		return handle{export: func(ctx context.Context) error { return e.Export(ctx, rs) }, shutdown: e.Shutdown}, nil
	case "otlploggrpc":
		opts := []otlploggrpc.Option{otlploggrpc.WithEndpoint(addr), otlploggrpc.WithInsecure(),
			otlploggrpc.WithRetry(otlploggrpc.RetryConfig{Enabled: rc.Enabled, InitialInterval: rc.Initial, MaxInterval: rc.MaxInterval, MaxElapsedTime: rc.MaxElapsed})}
		if o.timeoutSet {
			opts = append(opts, otlploggrpc.WithTimeout(timeout))
		}
		if gz {
			opts = append(opts, otlploggrpc.WithCompressor("gzip"))
		}
		if o.headers != nil {
			opts = append(opts, otlploggrpc.WithHeaders(o.headers))
		}
		if conn != nil {
			opts = append(opts, otlploggrpc.WithGRPCConn(conn))
		}
		e, err := otlploggrpc.New(ctx, opts...)
		if err != nil {
			return handle{}, err
		}
		rs := records(items, o.mark)
		return handle{export: func(ctx context.Context) error { return e.Export(ctx, rs) }, shutdown: e.Shutdown, close: closeConn}, nil
	}
	return handle{}, fmt.Errorf("unknown exporter %q", name)
}
