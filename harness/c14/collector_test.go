package c14

import (
	"bytes"
	"compress/gzip"
	"context"
	"fmt"
	"io"
	"net"
	"net/http"
	"net/http/httptest"
	"net/url"
	"strconv"
	"strings"
	"sync"
	"sync/atomic"
	"time"

	collogpb "go.opentelemetry.io/proto/otlp/collector/logs/v1"
	colmetricpb "go.opentelemetry.io/proto/otlp/collector/metrics/v1"
	coltracepb "go.opentelemetry.io/proto/otlp/collector/trace/v1"
	"google.golang.org/genproto/googleapis/rpc/errdetails"
	"google.golang.org/grpc"
	"google.golang.org/grpc/codes"
	"google.golang.org/grpc/metadata"
	"google.golang.org/grpc/status"
	"google.golang.org/protobuf/proto"
	"google.golang.org/protobuf/protoadapt"
	"google.golang.org/protobuf/types/known/durationpb"
)

// Outcomes of one attempt as seen by the collector.
const (
	oPending      = "pending"      // handler still running when the log was read
	oSuccess      = "success"      // 2xx / OK sent
	oPartial      = "partial"      // 2xx / OK with a partial-success message sent
	oRetryable    = "retryable"    // a response of the statement's retryable table sent
	oNonRetryable = "nonretryable" // any other failure response sent
	oNetErr       = "neterr"       // connection torn down without a response
	oAbandoned    = "abandoned"    // the client went away before the collector answered
	// injected on the client side through the exporter's WithProxy option: the
	// attempt fails inside http.Client.Do before anything is sent
	oTempNetErr = "temporary_network_error" // error with Temporary() == true, Timeout() == false
	oPermNetErr = "permanent_network_error" // error with Temporary() == false
)

// entry is one attempt in the collector's log. Times are offsets from the
// collector's creation (monotonic clock).
type entry struct {
	Step    int
	Arrive  time.Duration
	Body    []byte // payload after content decoding
	BodySet bool   // the handler got as far as recording the payload
	BodyErr string
	Outcome string
	RespAt  time.Duration // taken immediately BEFORE the response is handed to the transport
	Hint    time.Duration // server-supplied delay carried by the response (0 = none)
	Desc    string
	// HeaderMiss names a header configured with WithHeaders that the request
	// did not carry ("" = all present).
	HeaderMiss string
}

// collector is the scripted in-process OTLP receiver shared by the HTTP and
// the gRPC front end: the n-th request is answered by script[n].
type collector struct {
	signal string // trace | metric | log
	grpc   bool
	script []Step
	// endless: requests beyond the script are answered with the script's last step
	endless bool
	tag     string // unique marker put into partial-success messages
	t0      time.Time

	mu        sync.Mutex
	log       []*entry
	firstBody []byte

	done chan struct{} // closed on teardown: releases every held handler

	// warm: a warm-up export (made before the case's export through the same
	// exporter) is in progress: answer with success, do not consume the script.
	warm     atomic.Bool
	warmSeen atomic.Int32

	wantHeaders map[string]string // configured with WithHeaders on the case's exporter
	interf      []entry           // requests of the interfering exporter (role header), always answered with success

	// hooks (called without the lock held)
	onArrive  func(step int)
	onRespond func(step int)
}

func newCollector(signal string, isGRPC bool, script []Step, tag string) *collector {
	return &collector{signal: signal, grpc: isGRPC, script: script, tag: tag, t0: time.Now(), done: make(chan struct{})}
}

func (c *collector) now() time.Duration { return time.Since(c.t0) }

func (c *collector) snapshot() []entry {
	c.mu.Lock()
	defer c.mu.Unlock()
	out := make([]entry, len(c.log))
	for i, e := range c.log {
		out[i] = *e
	}
	return out
}

const roleHeader = "x-c14-role" // set (to "interferer") only on the interfering exporter

func (c *collector) arrive(header func(string) string) (*entry, Step, bool) {
	t := c.now()
	miss := ""
	for k, v := range c.wantHeaders {
		if header(k) != v && (miss == "" || k < miss) {
			miss = k
		}
	}
	c.mu.Lock()
	e := &entry{Step: len(c.log), Arrive: t, Outcome: oPending, HeaderMiss: miss}
	c.log = append(c.log, e)
	c.mu.Unlock()
	if c.onArrive != nil {
		c.onArrive(e.Step)
	}
	if c.scripted(e.Step) {
		return e, c.stepAt(e.Step), true
	}
	return e, Step{}, false
}

// shareBody (called with the lock held) returns the first recorded body
// instead of b when the two are byte-identical, so that a long run of identical
// re-sends costs no memory.
func (c *collector) shareBody(b []byte) []byte {
	if c.firstBody == nil {
		c.firstBody = b
		return b
	}
	if bytes.Equal(b, c.firstBody) {
		return c.firstBody
	}
	return b
}

func (c *collector) set(e *entry, f func(*entry)) {
	c.mu.Lock()
	f(e)
	c.mu.Unlock()
}

func (c *collector) responded(e *entry) {
	if c.onRespond != nil {
		c.onRespond(e.Step)
	}
}

// proxyErr is what the scripted proxy function fails with.
type proxyErr struct{ temporary bool }

func (e proxyErr) Error() string {
	if e.temporary {
		return "c14: scripted temporary network error"
	}
	return "c14: scripted permanent network error"
}
func (e proxyErr) Temporary() bool { return e.temporary }
func (e proxyErr) Timeout() bool   { return false }

// proxy is handed to the HTTP exporters' WithProxy option. net/http calls it
// once per round trip, on the exporting goroutine, before anything is sent: for
// a proxy_* step the attempt is logged here and fails with the scripted error,
// otherwise (nil, nil) = "no proxy" and the request goes to the collector.
func (c *collector) proxy(*http.Request) (*url.URL, error) {
	if c.warm.Load() {
		return nil, nil
	}
	t := c.now()
	c.mu.Lock()
	i := len(c.log)
	if i >= len(c.script) || (c.script[i].Kind != "proxy_temporary_error" && c.script[i].Kind != "proxy_permanent_error") {
		c.mu.Unlock()
		return nil, nil
	}
	e := &entry{Step: i, Arrive: t, RespAt: t, Outcome: oPermNetErr, Desc: "proxy function failed with a non-temporary error"}
	if c.script[i].Kind == "proxy_temporary_error" {
		e.Outcome, e.Desc = oTempNetErr, "proxy function failed with a Temporary() non-Timeout() error"
	}
	c.log = append(c.log, e)
	c.mu.Unlock()
	if c.onArrive != nil {
		c.onArrive(i)
	}
	c.responded(e)
	return nil, proxyErr{temporary: e.Outcome == oTempNetErr}
}

func (c *collector) interferer(body []byte, err error) {
	e := entry{Arrive: c.now(), Body: body, BodySet: true, Outcome: oSuccess}
	if err != nil {
		e.BodyErr = err.Error()
	}
	c.mu.Lock()
	c.interf = append(c.interf, e)
	c.mu.Unlock()
}

func (c *collector) interferers() []entry {
	c.mu.Lock()
	defer c.mu.Unlock()
	return append([]entry(nil), c.interf...)
}

func (c *collector) partialMsg(step int) string {
	st := c.stepAt(step)
	return partialText(c.tag, step, st.Msg, st.Pad)
}

// filler is n bytes of text that differs from position to position (a run of
// numbered records), so that a shortened, repeated or shifted copy is not equal to it.
func filler(n int) string {
	if n <= 0 {
		return ""
	}
	b := make([]byte, 0, n+16)
	for i := 0; len(b) < n; i++ {
		b = append(b, " #"...)
		b = strconv.AppendInt(b, int64(i), 10)
	}
	return string(b[:n])
}

// percentTail is appended to the error_message for the shape "percent": the
// message is data and has to arrive at the error handler as it was sent.
const percentTail = " 100%d of %s rows %v %!x(MISSING) 5%"

// partialText is the error_message sent for a partial success of the given shape.
func partialText(tag string, step int, shape string, pad int) string {
	switch shape {
	case "empty":
		return ""
	case "percent":
		return fmt.Sprintf("%s-k%d rejected", tag, step) + filler(pad) + percentTail
	}
	return fmt.Sprintf("%s-k%d rejected", tag, step) + filler(pad)
}

// maxLog: requests beyond this many are answered with a terminal failure
// whatever the script says (a guard of the harness against a client that
// hammers the collector without end).
const maxLog = 30000

// stepAt is the scripted answer to the n-th request: script[n]; beyond the
// script the last step again when the script is endless.
func (c *collector) stepAt(n int) Step {
	if n < len(c.script) {
		return c.script[n]
	}
	if c.endless && len(c.script) > 0 && n < maxLog {
		return c.script[len(c.script)-1]
	}
	return Step{}
}

func (c *collector) scripted(n int) bool {
	return n < len(c.script) || (c.endless && len(c.script) > 0 && n < maxLog)
}

// ---------------------------------------------------------------------
// HTTP front end

// httpRetryable is the statement's table for OTLP/HTTP.
func httpRetryable(code int) bool {
	return code == 429 || code == 502 || code == 503 || code == 504
}

// retryAfterSeconds interprets a Retry-After header value as RFC 9110
// delay-seconds (1*DIGIT). Anything else carries no delay for this check.
// maxRetryAfter: larger values are not generated (N seconds still fits a time.Duration).
const maxRetryAfter = 9_000_000_000

func retryAfterSeconds(v string) (int64, bool) {
	if v == "" {
		return 0, false
	}
	for _, r := range v {
		if r < '0' || r > '9' {
			return 0, false
		}
	}
	n, err := strconv.ParseInt(v, 10, 64)
	if err != nil || n > maxRetryAfter {
		return 0, false
	}
	return n, true
}

func (c *collector) partialBody(step int, rejected int64) []byte {
	var m proto.Message
	switch c.signal {
	case "trace":
		m = &coltracepb.ExportTraceServiceResponse{PartialSuccess: &coltracepb.ExportTracePartialSuccess{RejectedSpans: rejected, ErrorMessage: c.partialMsg(step)}}
	case "metric":
		m = &colmetricpb.ExportMetricsServiceResponse{PartialSuccess: &colmetricpb.ExportMetricsPartialSuccess{RejectedDataPoints: rejected, ErrorMessage: c.partialMsg(step)}}
	default:
		m = &collogpb.ExportLogsServiceResponse{PartialSuccess: &collogpb.ExportLogsPartialSuccess{RejectedLogRecords: rejected, ErrorMessage: c.partialMsg(step)}}
	}
	b, _ := proto.Marshal(m)
	return b
}

func readHTTPBody(r *http.Request) ([]byte, error) {
	raw, rerr := io.ReadAll(r.Body)
	body := raw
	if rerr == nil && r.Header.Get("Content-Encoding") == "gzip" {
		zr, err := gzip.NewReader(bytes.NewReader(raw))
		if err != nil {
			rerr = err
		} else {
			body, rerr = io.ReadAll(zr)
		}
	}
	return body, rerr
}

func (c *collector) ServeHTTP(w http.ResponseWriter, r *http.Request) {
	if r.Header.Get(roleHeader) != "" {
		c.interferer(readHTTPBody(r))
		w.Header().Set("Content-Type", "application/x-protobuf")
		w.WriteHeader(200)
		return
	}
	if c.warm.Load() {
		_, _ = readHTTPBody(r)
		c.warmSeen.Add(1)
		w.Header().Set("Content-Type", "application/x-protobuf")
		w.WriteHeader(200)
		return
	}
	e, st, ok := c.arrive(r.Header.Get)
	body, rerr := readHTTPBody(r)
	c.set(e, func(e *entry) {
		e.Body, e.BodySet = c.shareBody(body), true
		if rerr != nil {
			e.BodyErr = rerr.Error()
		}
	})
	if !ok {
		// beyond the script: the script's last step is terminal, so this
		// request should not exist; answer with a terminal failure.
		st = Step{Kind: "status", Code: 400}
	}
	send := func() {
		code := st.Code
		outcome := oNonRetryable
		var payload []byte
		switch {
		case st.Kind == "partial":
			code, outcome = 200, oPartial
			payload = c.partialBody(e.Step, st.Rejected)
			w.Header().Set("Content-Type", "application/x-protobuf")
		case code >= 200 && code <= 299:
			outcome = oSuccess
			w.Header().Set("Content-Type", "application/x-protobuf")
		case httpRetryable(code):
			outcome = oRetryable
			payload = []byte("scripted failure" + filler(st.Pad))
		default:
			payload = []byte("scripted failure" + filler(st.Pad))
		}
		var hint time.Duration
		if st.RetryAfter != "" {
			w.Header().Set("Retry-After", st.RetryAfter)
			if n, ok := retryAfterSeconds(st.RetryAfter); ok && outcome == oRetryable {
				hint = time.Duration(n) * time.Second
			}
		}
		c.set(e, func(e *entry) {
			e.Outcome, e.Hint, e.RespAt = outcome, hint, c.now()
			e.Desc = fmt.Sprintf("HTTP %d Retry-After=%q", code, st.RetryAfter)
			if st.Pad > 0 {
				e.Desc += fmt.Sprintf(" body of %d bytes", len(payload))
			}
		})
		w.WriteHeader(code)
		_, _ = w.Write(payload)
		if f, ok := w.(http.Flusher); ok {
			f.Flush()
		}
		c.responded(e)
	}
	abandoned := func() {
		c.set(e, func(e *entry) {
			e.Outcome, e.RespAt, e.Desc = oAbandoned, c.now(), "client went away while the collector held the request"
		})
		c.responded(e)
	}
	switch st.Kind {
	case "reset":
		c.set(e, func(e *entry) { e.Outcome, e.RespAt, e.Desc = oNetErr, c.now(), "connection closed without a response" })
		if hj, ok := w.(http.Hijacker); ok {
			if conn, _, err := hj.Hijack(); err == nil {
				if tc, ok := conn.(*net.TCPConn); ok && st.Code == 1 {
					_ = tc.SetLinger(0) // RST instead of FIN
				}
				_ = conn.Close()
			}
		}
		c.responded(e)
	case "slow":
		t := time.NewTimer(time.Duration(st.DelayMS) * time.Millisecond)
		defer t.Stop()
		select {
		case <-t.C:
			send()
		case <-r.Context().Done():
			abandoned()
		case <-c.done:
			abandoned()
		}
	case "hold":
		select {
		case <-r.Context().Done():
		case <-c.done:
		}
		abandoned()
	default:
		send()
	}
}

func (c *collector) startHTTP() (addr string, stop func()) {
	srv := httptest.NewServer(c)
	return srv.Listener.Addr().String(), func() {
		close(c.done)
		srv.CloseClientConnections()
		srv.Close()
	}
}

// ---------------------------------------------------------------------
// gRPC front end

// grpcRetryable is the statement's table for OTLP/gRPC.
func grpcRetryable(code codes.Code, hasRetryInfo bool) bool {
	switch code {
	case codes.Canceled, codes.DeadlineExceeded, codes.Aborted, codes.OutOfRange, codes.Unavailable, codes.DataLoss:
		return true
	case codes.ResourceExhausted:
		return hasRetryInfo
	}
	return false
}

var detMarshal = proto.MarshalOptions{Deterministic: true}

// serveGRPC handles one unary Export call. ok/partial build the two success
// responses of the signal.
func (c *collector) serveGRPC(ctx context.Context, req proto.Message, okResp func() any, partial func(rejected int64, msg string) any) (any, error) {
	md, _ := metadata.FromIncomingContext(ctx)
	header := func(k string) string {
		if v := md.Get(k); len(v) > 0 {
			return v[0]
		}
		return ""
	}
	if header(roleHeader) != "" {
		c.interferer(detMarshal.Marshal(req))
		return okResp(), nil
	}
	if c.warm.Load() {
		c.warmSeen.Add(1)
		return okResp(), nil
	}
	e, st, known := c.arrive(header)
	body, merr := detMarshal.Marshal(req)
	c.set(e, func(e *entry) {
		e.Body, e.BodySet = c.shareBody(body), true
		if merr != nil {
			e.BodyErr = merr.Error()
		}
	})
	if !known {
		st = Step{Kind: "status", Code: int(codes.InvalidArgument), RetryInfoMS: -1}
	}
	send := func() (any, error) {
		code := codes.Code(st.Code)
		if st.Kind == "partial" {
			msg := c.partialMsg(e.Step)
			c.set(e, func(e *entry) {
				e.Outcome, e.RespAt, e.Desc = oPartial, c.now(), fmt.Sprintf("gRPC OK + partial success, error_message of %d bytes", len(msg))
			})
			defer c.responded(e)
			return partial(st.Rejected, msg), nil
		}
		if code == codes.OK {
			c.set(e, func(e *entry) { e.Outcome, e.RespAt, e.Desc = oSuccess, c.now(), "gRPC OK" })
			defer c.responded(e)
			return okResp(), nil
		}
		s := status.New(code, "scripted failure"+filler(st.Pad))
		var hint time.Duration
		// other details first (ExtraDetails of them), then the RetryInfo: the
		// statement speaks of a status that CARRIES retry info, not of its position
		var details []protoadapt.MessageV1
		for i := 0; i < st.ExtraDetails; i++ {
			if i%2 == 0 {
				details = append(details, &errdetails.ErrorInfo{Reason: "SCRIPTED", Domain: "c14.example"})
			} else {
				details = append(details, &errdetails.DebugInfo{Detail: "scripted failure"})
			}
		}
		if st.RetryInfoMS >= 0 {
			hint = time.Duration(st.RetryInfoMS) * time.Millisecond
			details = append(details, &errdetails.RetryInfo{RetryDelay: durationpb.New(hint)})
		}
		if len(details) > 0 {
			if ws, err := s.WithDetails(details...); err == nil {
				s = ws
			}
		}
		outcome := oNonRetryable
		if grpcRetryable(code, st.RetryInfoMS >= 0) {
			outcome = oRetryable
		} else {
			hint = 0
		}
		c.set(e, func(e *entry) {
			e.Outcome, e.Hint, e.RespAt = outcome, hint, c.now()
			e.Desc = fmt.Sprintf("gRPC %s RetryInfo=%dms", code, st.RetryInfoMS)
			if st.Pad > 0 {
				e.Desc += fmt.Sprintf(" status message of %d bytes", st.Pad+16)
			}
			if st.ExtraDetails > 0 {
				e.Desc += fmt.Sprintf(" after %d other details", st.ExtraDetails)
			}
		})
		defer c.responded(e)
		return nil, s.Err()
	}
	abandoned := func() (any, error) {
		c.set(e, func(e *entry) {
			e.Outcome, e.RespAt, e.Desc = oAbandoned, c.now(), "client went away while the collector held the request"
		})
		c.responded(e)
		return nil, status.Error(codes.Canceled, "abandoned")
	}
	switch st.Kind {
	case "slow":
		t := time.NewTimer(time.Duration(st.DelayMS) * time.Millisecond)
		defer t.Stop()
		select {
		case <-t.C:
			return send()
		case <-ctx.Done():
			return abandoned()
		case <-c.done:
			return abandoned()
		}
	case "hold":
		select {
		case <-ctx.Done():
		case <-c.done:
		}
		return abandoned()
	}
	return send()
}

type traceSvc struct {
	coltracepb.UnimplementedTraceServiceServer
	c *collector
}

func (s traceSvc) Export(ctx context.Context, req *coltracepb.ExportTraceServiceRequest) (*coltracepb.ExportTraceServiceResponse, error) {
	r, err := s.c.serveGRPC(ctx, req,
		func() any { return &coltracepb.ExportTraceServiceResponse{} },
		func(n int64, msg string) any {
			return &coltracepb.ExportTraceServiceResponse{PartialSuccess: &coltracepb.ExportTracePartialSuccess{RejectedSpans: n, ErrorMessage: msg}}
		})
	if err != nil {
		return nil, err
	}
	return r.(*coltracepb.ExportTraceServiceResponse), nil
}

type metricSvc struct {
	colmetricpb.UnimplementedMetricsServiceServer
	c *collector
}

func (s metricSvc) Export(ctx context.Context, req *colmetricpb.ExportMetricsServiceRequest) (*colmetricpb.ExportMetricsServiceResponse, error) {
	r, err := s.c.serveGRPC(ctx, req,
		func() any { return &colmetricpb.ExportMetricsServiceResponse{} },
		func(n int64, msg string) any {
			return &colmetricpb.ExportMetricsServiceResponse{PartialSuccess: &colmetricpb.ExportMetricsPartialSuccess{RejectedDataPoints: n, ErrorMessage: msg}}
		})
	if err != nil {
		return nil, err
	}
	return r.(*colmetricpb.ExportMetricsServiceResponse), nil
}

type logSvc struct {
	collogpb.UnimplementedLogsServiceServer
	c *collector
}

func (s logSvc) Export(ctx context.Context, req *collogpb.ExportLogsServiceRequest) (*collogpb.ExportLogsServiceResponse, error) {
	r, err := s.c.serveGRPC(ctx, req,
		func() any { return &collogpb.ExportLogsServiceResponse{} },
		func(n int64, msg string) any {
			return &collogpb.ExportLogsServiceResponse{PartialSuccess: &collogpb.ExportLogsPartialSuccess{RejectedLogRecords: n, ErrorMessage: msg}}
		})
	if err != nil {
		return nil, err
	}
	return r.(*collogpb.ExportLogsServiceResponse), nil
}

func (c *collector) startGRPC() (addr string, stop func(), err error) {
	lis, err := net.Listen("tcp", "127.0.0.1:0")
	if err != nil {
		return "", nil, err
	}
	srv := grpc.NewServer(grpc.WaitForHandlers(true)) // Stop returns only when every handler has logged its outcome
	coltracepb.RegisterTraceServiceServer(srv, traceSvc{c: c})
	colmetricpb.RegisterMetricsServiceServer(srv, metricSvc{c: c})
	collogpb.RegisterLogsServiceServer(srv, logSvc{c: c})
	go func() { _ = srv.Serve(lis) }()
	return lis.Addr().String(), func() {
		close(c.done)
		srv.Stop()
	}, nil
}

// payloadMarked reports whether every item name of the payload starts with mark.
func payloadMarked(signal string, body []byte, mark string) bool {
	names, err := payloadNames(signal, body)
	if err != nil || len(names) == 0 {
		return false
	}
	for _, n := range names {
		if !strings.HasPrefix(n, mark+"-") {
			return false
		}
	}
	return true
}

// payloadNames decodes an export request and lists the item names (span name,
// metric name, log body).
func payloadNames(signal string, body []byte) ([]string, error) {
	var out []string
	switch signal {
	case "trace":
		var m coltracepb.ExportTraceServiceRequest
		if err := proto.Unmarshal(body, &m); err != nil {
			return nil, err
		}
		for _, rs := range m.ResourceSpans {
			for _, ss := range rs.ScopeSpans {
				for _, sp := range ss.Spans {
					out = append(out, sp.Name)
				}
			}
		}
	case "metric":
		var m colmetricpb.ExportMetricsServiceRequest
		if err := proto.Unmarshal(body, &m); err != nil {
			return nil, err
		}
		for _, rm := range m.ResourceMetrics {
			for _, sm := range rm.ScopeMetrics {
				for _, mt := range sm.Metrics {
					out = append(out, mt.Name)
				}
			}
		}
	default:
		var m collogpb.ExportLogsServiceRequest
		if err := proto.Unmarshal(body, &m); err != nil {
			return nil, err
		}
		for _, rl := range m.ResourceLogs {
			for _, sl := range rl.ScopeLogs {
				for _, lr := range sl.LogRecords {
					out = append(out, lr.GetBody().GetStringValue())
				}
			}
		}
	}
	return out, nil
}

// payloadItems decodes an export request of the signal and counts the
// top-level resource entries (sanity of the re-sent payload).
func payloadItems(signal string, body []byte) (int, error) {
	switch signal {
	case "trace":
		var m coltracepb.ExportTraceServiceRequest
		if err := proto.Unmarshal(body, &m); err != nil {
			return 0, err
		}
		n := 0
		for _, rs := range m.ResourceSpans {
			for _, ss := range rs.ScopeSpans {
				n += len(ss.Spans)
			}
		}
		return n, nil
	case "metric":
		var m colmetricpb.ExportMetricsServiceRequest
		if err := proto.Unmarshal(body, &m); err != nil {
			return 0, err
		}
		n := 0
		for _, rm := range m.ResourceMetrics {
			for _, sm := range rm.ScopeMetrics {
				n += len(sm.Metrics)
			}
		}
		return n, nil
	default:
		var m collogpb.ExportLogsServiceRequest
		if err := proto.Unmarshal(body, &m); err != nil {
			return 0, err
		}
		n := 0
		for _, rl := range m.ResourceLogs {
			for _, sl := range rl.ScopeLogs {
				n += len(sl.LogRecords)
			}
		}
		return n, nil
	}
}
