package c19

import (
	"encoding/json"
	"fmt"
	"os"
	"os/exec"
	"regexp"
	"sort"
	"strings"
	"testing"

	"go.opentelemetry.io/otel/attribute"
	"go.opentelemetry.io/otel/sdk/resource"
	"go.opentelemetry.io/otel/verif/internal/vk"
	"pgregory.net/rapid"
)

// resource.Default() is computed once per process, so every case of this
// sub-check runs it in a CHILD process (this test binary re-executed with
// -test.run ^TestDefaultChild$ and the case's environment).
//
// Oracle ("environment values and later detectors take precedence over SDK
// defaults"): Default() is the fold service-name default -> environment ->
// telemetry SDK (plus, with OTEL_GO_X_RESOURCE=true, a generated
// service.instance.id as the EARLIEST detector). Hence every attribute the
// environment supplies, except the telemetry.sdk.* keys the later SDK
// detector owns, is in Default() with the environment's value; the service
// name is OTEL_SERVICE_NAME, else the environment's service.name, else an
// "unknown_service..." default; service.instance.id is the environment's if
// supplied, else a UUID when the experimental flag is on, else absent.

// DefCase is one generated environment.
type DefCase struct {
	Pairs   [][2]string `json:"pairs"`        // OTEL_RESOURCE_ATTRIBUTES key/value pairs (plain ASCII, no escaping needed)
	SvcName string      `json:"service_name"` // OTEL_SERVICE_NAME, "" = unset
	Flag    string      `json:"flag"`         // OTEL_GO_X_RESOURCE: "" unset | "true" | "false" | "TRUE"
}

var defKeys = []string{"service.name", "service.instance.id", "service.namespace", "host.name", "k1", "k2", "deployment.environment", "telemetry.sdk.name"}
var defVals = []string{"a", "b", "svc-1", "id-42", "x.y", "0"}

func genDef(t *rapid.T) DefCase {
	c := DefCase{}
	n := rapid.IntRange(0, 5).Draw(t, "npairs")
	seen := map[string]bool{}
	for i := 0; i < n; i++ {
		k := rapid.SampledFrom(defKeys).Draw(t, "key")
		if seen[k] {
			continue
		}
		seen[k] = true
		c.Pairs = append(c.Pairs, [2]string{k, rapid.SampledFrom(defVals).Draw(t, "val")})
	}
	c.SvcName = rapid.SampledFrom([]string{"", "", "named", "other"}).Draw(t, "svc")
	c.Flag = rapid.SampledFrom([]string{"", "true", "true", "false", "TRUE"}).Draw(t, "flag")
	return c
}

const childMarker = "C19DEFAULT:"

// TestDefaultChild is the child side: it prints resource.Default() and exits.
func TestDefaultChild(t *testing.T) {
	if os.Getenv("VERIF_C19_CHILD") != "1" {
		t.Skip("child mode only")
	}
	out := map[string]string{}
	for _, kv := range resource.Default().Attributes() {
		out[string(kv.Key)] = kv.Value.Emit()
	}
	b, _ := json.Marshal(out)
	fmt.Println(childMarker + string(b))
}

var uuidRe = regexp.MustCompile(`^[0-9a-f]{8}-[0-9a-f]{4}-[0-9a-f]{4}-[0-9a-f]{4}-[0-9a-f]{12}$`)

func runDef(c DefCase) ([]vk.Violation, vk.Info) {
	var vs []vk.Violation
	var info vk.Info
	bad := func(kind, format string, a ...any) { vs = append(vs, vk.V(kind, format, a...)) }

	var parts []string
	env := map[string]string{}
	for _, p := range c.Pairs {
		parts = append(parts, p[0]+"="+p[1])
		env[p[0]] = p[1]
	}
	cmd := exec.Command(os.Args[0], "-test.run", "^TestDefaultChild$", "-test.count", "1", "-test.v")
	cmd.Env = []string{"VERIF_C19_CHILD=1", "PATH=" + os.Getenv("PATH"), "HOME=" + os.Getenv("HOME"), "VERIF_OUT=" + os.TempDir()}
	if len(parts) > 0 {
		cmd.Env = append(cmd.Env, "OTEL_RESOURCE_ATTRIBUTES="+strings.Join(parts, ","))
	}
	if c.SvcName != "" {
		cmd.Env = append(cmd.Env, "OTEL_SERVICE_NAME="+c.SvcName)
	}
	if c.Flag != "" {
		cmd.Env = append(cmd.Env, "OTEL_GO_X_RESOURCE="+c.Flag)
	}
	outb, err := cmd.CombinedOutput()
	got := map[string]string{}
	found := false
	for _, line := range strings.Split(string(outb), "\n") {
		if i := strings.Index(line, childMarker); i >= 0 {
			found = json.Unmarshal([]byte(line[i+len(childMarker):]), &got) == nil
		}
	}
	if err != nil || !found {
		bad("child_failed", "the child process computing resource.Default() failed: %v; output: %s", err, string(outb))
		return vs, info
	}
	var keys []string
	for k := range env {
		keys = append(keys, k)
	}
	sort.Strings(keys)
	for _, k := range keys {
		if strings.HasPrefix(k, "telemetry.sdk.") || k == "service.name" {
			continue // owned by a later detector / handled below
		}
		if got[k] != env[k] {
			bad("default_env_value_lost", "Default(): %q = %q, the environment supplies %q (OTEL_RESOURCE_ATTRIBUTES=%q OTEL_GO_X_RESOURCE=%q)", k, got[k], env[k], strings.Join(parts, ","), c.Flag)
		}
	}
	wantSvc := c.SvcName
	if wantSvc == "" {
		wantSvc = env["service.name"]
	}
	switch {
	case wantSvc != "" && got[string(attribute.Key("service.name"))] != wantSvc:
		bad("default_service_name", "Default(): service.name = %q, expected %q (OTEL_SERVICE_NAME=%q, OTEL_RESOURCE_ATTRIBUTES=%q)", got["service.name"], wantSvc, c.SvcName, strings.Join(parts, ","))
	case wantSvc == "" && !strings.HasPrefix(got["service.name"], "unknown_service"):
		bad("default_service_name", "Default(): service.name = %q, expected the unknown_service default", got["service.name"])
	}
	flagOn := strings.EqualFold(c.Flag, "true")
	if _, supplied := env["service.instance.id"]; !supplied {
		id, present := got["service.instance.id"]
		switch {
		case flagOn && (!present || !uuidRe.MatchString(id)):
			bad("default_instance_id", "Default() with OTEL_GO_X_RESOURCE=%q: service.instance.id = %q (present %v), expected a generated UUID", c.Flag, id, present)
		case !flagOn && present:
			bad("default_instance_id", "Default() with OTEL_GO_X_RESOURCE=%q: unexpected service.instance.id %q", c.Flag, id)
		}
	}
	if got["telemetry.sdk.language"] != "go" || got["telemetry.sdk.name"] != "opentelemetry" {
		bad("default_sdk_attrs", "Default(): telemetry.sdk.language=%q telemetry.sdk.name=%q", got["telemetry.sdk.language"], got["telemetry.sdk.name"])
	}
	_, hasID := env["service.instance.id"]
	info.NonTrivial = len(env) > 0 || c.SvcName != ""
	info.ClassIf(flagOn, "experimental_resource_flag_on")
	info.ClassIf(flagOn && hasID, "flag_on_and_env_supplies_service.instance.id")
	info.ClassIf(c.SvcName != "" && env["service.name"] != "", "service_name_in_both_variables")
	return vs, info
}

func TestDefaultResource(t *testing.T) {
	if os.Getenv("VERIF_C19_CHILD") == "1" {
		t.Skip("child mode")
	}
	vk.Run(t, vk.Spec[DefCase]{
		Property: "C19", Check: "default_resource",
		Rule: "generated environments (0..5 OTEL_RESOURCE_ATTRIBUTES pairs over service.* / host / telemetry.sdk keys, OTEL_SERVICE_NAME set or not, OTEL_GO_X_RESOURCE unset/true/false/TRUE); resource.Default() is computed in a fresh child process per case and compared with the precedence model (environment over SDK defaults, OTEL_SERVICE_NAME first, telemetry SDK detector last); non-trivial = the environment supplies at least one attribute or the service name; distinct = distinct case encodings",
		Quick: 120, Thorough: 1500,
		Gen: genDef, Run: runDef,
	})
}
