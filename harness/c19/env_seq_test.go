package c19

// Check "env_seq": SEVERAL environments, one after the other, in ONE process.
//
// The statement is quantified over "all environment strings": the resource
// built from an environment is a function of THAT environment, whatever
// environments the process built resources from before (a long-running
// program, a test binary or a multi-tenant host changes OTEL_SERVICE_NAME /
// OTEL_RESOURCE_ATTRIBUTES between two providers). A case is a chain of 2..4
// environments; every environment after the first is derived from its
// predecessor so that the two SHARE some of {attribute list, service name}
// and DIFFER in the rest:
//
//   same_attrs    the list is byte-identical, OTEL_SERVICE_NAME is re-drawn
//                 (different name / removed / emptied / newly set)
//   same_svc      OTEL_SERVICE_NAME stays, the list is a fresh one
//   edit_value    one well-formed pair gets another value (same keys, same
//                 number of pairs; optionally the same length)
//   drop_pair / add_pair / respell (same decoded content, other escapes,
//                 padding, hex case) / reorder
//   same          nothing changes (the answer must not change either)
//   fresh         both re-drawn
//
// Every environment of the chain is judged by the oracle of check "env"
// against the model of ITS OWN environment only, through New(WithFromEnv()),
// Environment(), Detect(environment detector) and the neighbour composition.
// No assertion relates two steps to each other.

import (
	"fmt"
	"testing"

	"go.opentelemetry.io/otel/verif/internal/vk"
	"pgregory.net/rapid"
)

// EnvSeqCase is a chain of environments; Ops[i] names how Steps[i] was derived
// from Steps[i-1] (Ops[0] = "first").
type EnvSeqCase struct {
	Steps []EnvCase `json:"steps"`
	Ops   []string  `json:"ops"`
}

func cloneEnvCase(c EnvCase) EnvCase {
	out := c
	out.Pairs = nil
	for _, p := range c.Pairs {
		q := p
		q.Mask = append([]bool(nil), p.Mask...)
		q.Pad = append([]string(nil), p.Pad...)
		out.Pairs = append(out.Pairs, q)
	}
	out.Outer = append([]string(nil), c.Outer...)
	out.Pre = append([]vk.KV(nil), c.Pre...)
	out.Post = append([]vk.KV(nil), c.Post...)
	return out
}

func goodPairIdx(c EnvCase) []int {
	var out []int
	for i, p := range c.Pairs {
		if p.Kind == "good" {
			out = append(out, i)
		}
	}
	return out
}

func genEnvSeq(t *rapid.T) EnvSeqCase {
	first := genEnv(t)
	// the chain is about lists that are looked at again: make the first one
	// non-empty most of the time
	if len(first.Pairs) == 0 && rapid.IntRange(0, 3).Draw(t, "seq.force_pairs") != 0 {
		first.AttrsSet = true
		used := map[string]bool{}
		uniq := func(k string, i int) string {
			if used[k] {
				k += "." + fmt.Sprint(i)
			}
			used[k] = true
			return k
		}
		n := rapid.IntRange(1, 3).Draw(t, "seq.npairs")
		for i := 0; i < n; i++ {
			first.Pairs = append(first.Pairs, genEnvPair(t, i, uniq, 17, []string{svcKey}))
		}
		first.Outer = rapid.SliceOfN(rapid.SampledFrom(ows), 2, 2).Draw(t, "seq.outer")
	}
	c := EnvSeqCase{Steps: []EnvCase{first}, Ops: []string{"first"}}
	n := rapid.IntRange(2, 4).Draw(t, "seq.len")
	for len(c.Steps) < n {
		prev := c.Steps[len(c.Steps)-1]
		fresh := genEnv(t)
		next := cloneEnvCase(prev)
		// neighbours and schema option belong to the step
		next.Pre, next.Post, next.SchemaOpt, next.Schema = fresh.Pre, fresh.Post, fresh.SchemaOpt, fresh.Schema
		op := rapid.SampledFrom([]string{"same_attrs", "same_attrs", "same_attrs", "same_svc", "same_svc", "edit_value", "edit_value", "drop_pair", "add_pair", "respell", "reorder", "same", "fresh"}).Draw(t, "seq.op")
		good := goodPairIdx(prev)
		switch op {
		case "same_attrs":
			switch rapid.SampledFrom([]string{"redraw", "redraw", "remove", "empty"}).Draw(t, "seq.svc") {
			case "redraw":
				next.SvcMode, next.Svc = "set", genSvcName(t)
				if prev.SvcMode == "set" && next.Svc == prev.Svc {
					next.Svc += "2"
				}
			case "remove":
				next.SvcMode, next.Svc = "unset", ""
			case "empty":
				next.SvcMode, next.Svc = "empty", ""
			}
		case "same_svc":
			next.AttrsSet, next.Pairs, next.Outer = fresh.AttrsSet, fresh.Pairs, fresh.Outer
		case "edit_value":
			if len(good) == 0 {
				op = "same"
				break
			}
			i := rapid.SampledFrom(good).Draw(t, "seq.edit.i")
			old := next.Pairs[i].V
			if rapid.Bool().Draw(t, "seq.edit.samelen") && len(old) > 0 {
				// same length: replace the last byte by another plain letter
				b := []byte(old)
				nb := byte('a' + rapid.IntRange(0, 25).Draw(t, "seq.edit.b"))
				if nb == b[len(b)-1] {
					nb = 'A' + (nb - 'a')
				}
				b[len(b)-1] = nb
				next.Pairs[i].V = vk.Str(b)
			} else {
				next.Pairs[i].V = genValue(t)
				if next.Pairs[i].V == old {
					next.Pairs[i].V += "x"
				}
			}
			if next.Pairs[i].Enc == 2 {
				next.Pairs[i].Mask = rapid.SliceOfN(rapid.Bool(), len(next.Pairs[i].V), len(next.Pairs[i].V)).Draw(t, "seq.edit.mask")
			}
		case "drop_pair":
			if len(next.Pairs) == 0 {
				op = "same"
				break
			}
			i := rapid.IntRange(0, len(next.Pairs)-1).Draw(t, "seq.drop.i")
			next.Pairs = append(next.Pairs[:i:i], next.Pairs[i+1:]...)
		case "add_pair":
			used := map[string]bool{}
			for _, p := range next.Pairs {
				used[string(p.K)] = true
			}
			uniq := func(k string, i int) string {
				for used[k] {
					k += "." + fmt.Sprint(i)
				}
				used[k] = true
				return k
			}
			p := genEnvPair(t, len(next.Pairs)+10, uniq, 17, []string{svcKey})
			at := rapid.IntRange(0, len(next.Pairs)).Draw(t, "seq.add.at")
			ps := append([]EnvPair(nil), next.Pairs[:at]...)
			ps = append(ps, p)
			next.Pairs = append(ps, next.Pairs[at:]...)
			next.AttrsSet = true
			if len(next.Outer) == 0 {
				next.Outer = []string{"", ""}
			}
		case "respell":
			for i := range next.Pairs {
				p := &next.Pairs[i]
				p.Pad = rapid.SliceOfN(rapid.SampledFrom(ows), 4, 4).Draw(t, "seq.respell.pad")
				p.Lower = rapid.Bool().Draw(t, "seq.respell.lower")
				if p.Kind == "good" || p.Kind == "emptykey" {
					p.Enc = rapid.IntRange(0, 2).Draw(t, "seq.respell.enc")
					p.Mask = nil
					if p.Enc == 2 {
						p.Mask = rapid.SliceOfN(rapid.Bool(), len(p.V), len(p.V)).Draw(t, "seq.respell.mask")
					}
				}
			}
		case "reorder":
			if len(next.Pairs) >= 2 {
				perm := rapid.Permutation(next.Pairs).Draw(t, "seq.perm")
				next.Pairs = perm
			} else {
				op = "same"
			}
		case "same":
		case "fresh":
			next.AttrsSet, next.Pairs, next.Outer = fresh.AttrsSet, fresh.Pairs, fresh.Outer
			next.SvcMode, next.Svc = fresh.SvcMode, fresh.Svc
		}
		c.Steps = append(c.Steps, next)
		c.Ops = append(c.Ops, op)
	}
	return c
}

func envSvcValue(c EnvCase) string {
	if c.SvcMode == "set" {
		return "set:" + string(c.Svc)
	}
	return "none"
}

func runEnvSeq(c EnvSeqCase) ([]vk.Violation, vk.Info) {
	var vs []vk.Violation
	var info vk.Info
	seen := map[string]bool{}
	for i, step := range c.Steps {
		svs, sinfo := runEnv(step)
		op := "first"
		if i < len(c.Ops) {
			op = c.Ops[i]
		}
		for _, v := range svs {
			hist := ""
			for j := 0; j < i; j++ {
				e, _ := renderEnv(c.Steps[j])
				hist += fmt.Sprintf(" [%d: %s=%q %s=%q(%s)]", j+1, envAttrs, e, envSvc, c.Steps[j].Svc, c.Steps[j].SvcMode)
			}
			kind := v.Kind
			if i > 0 {
				kind = "later_environment:" + v.Kind
			}
			vs = append(vs, vk.V(kind, "environment %d of %d in one process (derived by %q): %s; environments this process built resources from before:%s", i+1, len(c.Steps), op, v.Msg, hist))
		}
		info.NonTrivial = info.NonTrivial || sinfo.NonTrivial
		if i == 0 {
			continue
		}
		prev := c.Steps[i-1]
		pe, _ := renderEnv(prev)
		ne, _ := renderEnv(step)
		sameList := prev.AttrsSet == step.AttrsSet && pe == ne
		nonEmpty := step.AttrsSet && len(step.Pairs) > 0
		ps, ns := envSvcValue(prev), envSvcValue(step)
		add := func(cond bool, l string) {
			if cond && !seen[l] {
				seen[l] = true
				info.Class(l)
			}
		}
		add(true, "op:"+op)
		add(sameList && nonEmpty && ps != ns && ps != "none" && ns != "none", "same_list_then_other_OTEL_SERVICE_NAME")
		add(sameList && nonEmpty && ps != "none" && ns == "none", "same_list_then_OTEL_SERVICE_NAME_removed")
		add(sameList && nonEmpty && ps == "none" && ns != "none", "same_list_then_OTEL_SERVICE_NAME_added")
		add(!sameList && ps == ns && ps != "none", "same_OTEL_SERVICE_NAME_then_other_list")
		add(!sameList && len(pe) == len(ne) && nonEmpty, "other_list_of_the_same_length")
		add(sameList && ps == ns, "identical_environment_again")
		add(nonEmpty && !prev.AttrsSet || (prev.AttrsSet && len(prev.Pairs) > 0 && !nonEmpty), "list_appears_or_disappears")
	}
	info.Class(fmt.Sprintf("environments=%d", len(c.Steps)))
	return vs, info
}

func TestEnvSeq(t *testing.T) {
	vk.Run(t, vk.Spec[EnvSeqCase]{
		Property: "C19", Check: "env_seq",
		Rule: "a chain of 2..4 environments (generator of check env) used one after the other in one process; each is derived from its predecessor by one of: same list with another / removed / emptied / newly set OTEL_SERVICE_NAME, " +
			"same OTEL_SERVICE_NAME with a fresh list, one value edited (optionally same length), pair dropped / added, list re-spelled (escapes, padding, hex case) or re-ordered, unchanged, both fresh; " +
			"every environment is judged by the oracle of check env against the model of its own environment only (New(WithFromEnv()), Environment(), Detect(environment detector), neighbour composition); " +
			"non-trivial = some environment of the chain is non-trivial for check env; distinct = distinct case encodings",
		Quick: 12000, Thorough: 150000,
		Gen: genEnvSeq, Run: runEnvSeq,
	})
}
