package c19

// Check "builtin_fold": the library's OWN detector options (WithHost,
// WithHostID, WithOS*, WithProcess*, WithContainer*, WithTelemetrySDK) between
// WithAttributes neighbours and an optional WithSchemaURL.
//
// detect_fold drives New / Detect with fake detectors; this check reaches the
// entry points of config.go that real programs use. Oracle (differential
// against the public single-option results, no constants of the detectors):
// "detectors are called in the order given, each produced resource is merged
// into the previous one", so New(o1, ..., on) must hold exactly the fold of the
// merge model over New(o1), ..., New(on) evaluated in the same process: the
// exact right-biased union (later option wins, also when the value type
// changes, e.g. process.pid INT64 overridden by a string) and the pairwise
// schema URL rule; a schema conflict (WithSchemaURL differing from the URL the
// builtin detectors carry) must be reported with ErrSchemaURLConflict and must
// not cost any attribute. Errors of the builtin detectors themselves (a
// sandbox without /etc/machine-id, ...) are not asserted: whatever a single
// option yields is what the composition must hold.

import (
	"context"
	"errors"
	"fmt"
	"testing"

	"go.opentelemetry.io/otel/sdk/resource"
	"go.opentelemetry.io/otel/verif/internal/vk"
	"pgregory.net/rapid"
)

var builtinOptions = map[string]func() resource.Option{
	"Host":                      resource.WithHost,
	"HostID":                    resource.WithHostID,
	"TelemetrySDK":              resource.WithTelemetrySDK,
	"OS":                        resource.WithOS,
	"OSType":                    resource.WithOSType,
	"OSDescription":             resource.WithOSDescription,
	"Process":                   resource.WithProcess,
	"ProcessPID":                resource.WithProcessPID,
	"ProcessExecutableName":     resource.WithProcessExecutableName,
	"ProcessExecutablePath":     resource.WithProcessExecutablePath,
	"ProcessCommandArgs":        resource.WithProcessCommandArgs,
	"ProcessOwner":              resource.WithProcessOwner,
	"ProcessRuntimeName":        resource.WithProcessRuntimeName,
	"ProcessRuntimeVersion":     resource.WithProcessRuntimeVersion,
	"ProcessRuntimeDescription": resource.WithProcessRuntimeDescription,
	"Container":                 resource.WithContainer,
	"ContainerID":               resource.WithContainerID,
}

var builtinNames = []string{"Host", "HostID", "TelemetrySDK", "TelemetrySDK", "OS", "OSType", "OSDescription", "Process", "Process", "ProcessPID", "ProcessPID",
	"ProcessExecutableName", "ProcessExecutablePath", "ProcessCommandArgs", "ProcessOwner", "ProcessRuntimeName", "ProcessRuntimeVersion", "ProcessRuntimeDescription", "Container", "ContainerID"}

// keys of the resource semantic conventions the builtin detectors write
// (documentation of the options in config.go) plus keys nobody else writes.
var builtinKeys = []string{"host.name", "host.id", "os.type", "os.description", "process.pid", "process.executable.name", "process.executable.path",
	"process.command_args", "process.owner", "process.runtime.name", "process.runtime.version", "process.runtime.description", "container.id",
	"telemetry.sdk.name", "telemetry.sdk.language", "telemetry.sdk.version", "service.name", "x", "y"}

// BSlot is one option: a builtin detector option, or WithAttributes(KVs...).
type BSlot struct {
	Builtin string  `json:"builtin,omitempty"`
	KVs     []vk.KV `json:"kvs,omitempty"`
}

// BuiltinCase is one option list.
type BuiltinCase struct {
	Slots []BSlot `json:"slots"`
	// SchemaOpt: none | same (the URL New(WithTelemetrySDK()) carries) | other
	SchemaOpt string `json:"schema_opt"`
	Other     string `json:"other,omitempty"`
	SchemaPos int    `json:"schema_pos"` // position of WithSchemaURL in the option list (clamped)
}

func genBuiltin(t *rapid.T) BuiltinCase {
	c := BuiltinCase{}
	n := vk.GenLen(6, 2, 3, 4).Draw(t, "nslots")
	for i := 0; i < n; i++ {
		if rapid.IntRange(0, 2).Draw(t, "is_attrs") == 0 {
			c.Slots = append(c.Slots, BSlot{KVs: genKVList(t, fmt.Sprintf("kvs%d", i), builtinKeys, 4)})
		} else {
			c.Slots = append(c.Slots, BSlot{Builtin: rapid.SampledFrom(builtinNames).Draw(t, "builtin")})
		}
	}
	c.SchemaOpt = rapid.SampledFrom([]string{"none", "none", "same", "other"}).Draw(t, "schema_opt")
	if c.SchemaOpt == "other" {
		c.Other = pickSchema(t, "other", genSchemaPool(t, "schemas"))
		if c.Other == "" {
			c.SchemaOpt = "none"
		}
	}
	c.SchemaPos = rapid.IntRange(0, n).Draw(t, "schema_pos")
	return c
}

func runBuiltin(c BuiltinCase) ([]vk.Violation, vk.Info) {
	rep := &reporter{}
	var info vk.Info
	ctx := context.Background()

	schemaOpt := ""
	switch c.SchemaOpt {
	case "same":
		r, _ := resource.New(ctx, resource.WithTelemetrySDK())
		schemaOpt = r.SchemaURL()
	case "other":
		schemaOpt = c.Other
	}
	var opts []resource.Option
	var desc []string
	want := rmodel{newAttrModel(), schemaOpt}
	conflict, overrides, builtinOverridden, builtinOverrides, typeChange, nBuiltin := false, false, false, false, false, 0
	var frees []func()
	for _, s := range c.Slots {
		var opt resource.Option
		if s.Builtin != "" {
			mk, ok := builtinOptions[s.Builtin]
			if !ok {
				panic("harness bug: unknown builtin " + s.Builtin)
			}
			opt = mk()
			nBuiltin++
			desc = append(desc, "With"+s.Builtin+"()")
		} else {
			kvs, free := lend(s.KVs)
			frees = append(frees, free)
			opt = resource.WithAttributes(kvs...)
			desc = append(desc, fmt.Sprintf("WithAttributes(%v)", renderSlice(vk.ToAttrs(s.KVs))))
		}
		// the single-option reference (a fresh option value for the builtin)
		var single *resource.Resource
		if s.Builtin != "" {
			single, _ = resource.New(ctx, builtinOptions[s.Builtin]())
		} else {
			single, _ = resource.New(ctx, resource.WithAttributes(vk.ToAttrs(s.KVs)...))
		}
		sm := rmodel{modelOfSlice(single.Attributes()), single.SchemaURL()}
		for k, v := range sm.attrs.val {
			if old, ok := want.attrs.val[k]; ok && vk.ValueKey(old) != vk.ValueKey(v) {
				overrides = true
				builtinOverrides = builtinOverrides || s.Builtin != ""
				builtinOverridden = builtinOverridden || s.Builtin == ""
				typeChange = typeChange || old.Type() != v.Type()
			}
		}
		var cf bool
		want, cf = mergeModel(want, sm)
		conflict = conflict || cf
		opts = append(opts, opt)
	}
	if c.SchemaOpt != "none" {
		pos := c.SchemaPos
		if pos > len(opts) {
			pos = len(opts)
		}
		opts = append(opts[:pos:pos], append([]resource.Option{resource.WithSchemaURL(schemaOpt)}, opts[pos:]...)...)
		desc = append(desc[:pos:pos], append([]string{fmt.Sprintf("WithSchemaURL(%q)", schemaOpt)}, desc[pos:]...)...)
	}
	got, err := resource.New(ctx, opts...)
	label := fmt.Sprintf("New(%v)", desc)
	if !sameStrings(renderSlice(got.Attributes()), want.attrs.render()) {
		kind := "builtin_fold_attributes"
		if conflict {
			kind = "builtin_fold_attributes_lost_on_schema_conflict"
		}
		rep.bad(kind, "%s: Attributes() = %v, the fold of the single-option results in option order is %v (error %v)", label, renderSlice(got.Attributes()), want.attrs.render(), err)
	}
	if conflict {
		if !errors.Is(err, resource.ErrSchemaURLConflict) {
			rep.bad("builtin_fold_conflict_not_reported", "%s: the options carry different schema URLs but the error is %v (schema URL %q)", label, err, got.SchemaURL())
		}
	} else if got.SchemaURL() != want.schema {
		rep.bad("builtin_fold_schema", "%s: schema URL %q, want %q (error %v)", label, got.SchemaURL(), want.schema, err)
	}
	// hostile caller: scribble over the lent slices, the resource is immutable
	before := renderSlice(got.Attributes())
	for _, f := range frees {
		f()
	}
	if !sameStrings(renderSlice(got.Attributes()), before) {
		rep.bad("builtin_fold_retained_caller_slice", "%s: the resource changed after the caller overwrote the slices it had lent", label)
	}

	info.NonTrivial = overrides && nBuiltin > 0
	info.ClassIf(builtinOverrides, "builtin_detector_overrides_earlier_WithAttributes")
	info.ClassIf(builtinOverridden, "later_WithAttributes_overrides_builtin_or_earlier")
	info.ClassIf(typeChange, "override_changes_value_type")
	info.ClassIf(conflict, "schema_conflict_with_builtin_detectors")
	info.ClassIf(c.SchemaOpt == "same", "WithSchemaURL_same_as_builtin")
	info.ClassIf(nBuiltin >= 2, ">=2_builtin_options")
	info.ClassIf(err != nil && !conflict, "builtin_detector_error(not asserted)")
	for _, s := range c.Slots {
		info.ClassIf(s.Builtin != "", "With"+s.Builtin)
	}
	return rep.vs, dedupe(info)
}

func TestBuiltinFold(t *testing.T) {
	vk.Run(t, vk.Spec[BuiltinCase]{
		Property: "C19", Check: "builtin_fold",
		Rule: "option lists of 0..6 slots, each one of the library's builtin detector options (WithHost, WithHostID, WithTelemetrySDK, WithOS*, WithProcess*, WithContainer*) or WithAttributes with a generated kv list over the keys those detectors write (any value type) and fresh keys, lent in slices with spare capacity; optional WithSchemaURL (the URL the builtin detectors carry, or another one) at any position; " +
			"New(options...) must equal the fold of the merge model over the single-option results New(option) of the same process (exact union, later option wins, pairwise schema rule, conflict reported without losing attributes); non-trivial = a builtin option is present and some slot overrides an earlier slot's key with a different value; distinct = distinct case encodings",
		Quick: 6000, Thorough: 80000,
		Gen: genBuiltin, Run: runBuiltin,
	})
}
