// Package c19 decides property C19 (resource merging is a right-biased union
// with well-defined schema handling) with three generated checks and one
// native fuzz target:
//
//   - merge_algebra (this file): pairs and triples of resources built from
//     generated key-value lists / nil / Empty() are merged and compared with a
//     map model (union, right operand wins) and the schema URL case analysis of
//     the statement; identity, idempotence, associativity, Equal/Equivalent and
//     the accessors are checked against the same model.
//   - env (env_test.go): OTEL_RESOURCE_ATTRIBUTES rendered from a generated map
//     by a reference percent-encoder, plus malformed pairs and
//     OTEL_SERVICE_NAME, must decode to exactly the generated map.
//   - env_seq (env_seq_test.go): chains of 2..4 environments used one after
//     the other in ONE process, each sharing the list or the service name with
//     its predecessor and differing in the rest; every result is judged against
//     the model of its own environment (no state may leak between builds).
//   - detect_fold (detect_test.go): resource.Detect / resource.New over
//     generated lists of fake detectors must equal the left fold of the merge
//     model over the detectors whose resource is to be kept.
//   - default_resource (default_test.go) and default_first_use
//     (default_first_test.go): resource.Default() observed in a fresh child
//     process per generated environment; the latter under every kind of
//     malformed list element (partial detector failure on the FIRST call),
//     concurrent first callers, compared with the case's model and with the
//     public composition New(WithFromEnv(), WithTelemetrySDK()).
//   - builtin_fold (builtin_test.go): the library's builtin detector options
//     between WithAttributes neighbours / WithSchemaURL must equal the fold of
//     the single-option results.
//   - FuzzEnvAttrs (fuzz_test.go): native fuzzing of the environment string.
//
// Schema URLs (schema_test.go) are opaque strings for every oracle: "common"
// means the same string, any other two non-empty URLs "differ". Each case
// draws a small pool (a base, near misses of it by one edit, an unrelated
// URL); operands are built at every public place that stores a schema URL:
// NewWithAttributes, New(WithSchemaURL, ...) in several option spellings, and
// (detect_fold) resource.StringDetector.
//
// Readings of the statement chosen where it is ambiguous (conservative):
//
//   - "valid" for a constructor item is attribute.KeyValue.Valid as documented
//     ("invalid items will be dropped"): non-empty key and a value type other
//     than INVALID. When the LAST occurrence of a key carries an INVALID value
//     while an earlier occurrence is valid, "last value wins" and "invalid items
//     are dropped" can be composed in two orders; both outcomes (key absent /
//     key carries the last valid value) are accepted for exactly those keys.
//   - Equality is asserted only where bitwise and Go (==) equality of the
//     models agree (+0 vs -0, NaN payloads are not asserted either way, as in
//     C05). NaN inside FLOAT64SLICE values is excluded by the generator (C05
//     known finding: such a set is not equal to itself).
//   - Associativity is asserted on attributes. Schema URLs are asserted step
//     by step with the pairwise rule of the statement (each single Merge obeys
//     "non-empty one / common one / empty + conflict error"); no direct
//     comparison of the two association orders' schema URLs is made when a
//     conflict arises.
//   - A resource built with schema URL S by any constructor has schema URL S
//     (that is what "the non-empty one / the common one" refers to); New with
//     one WithSchemaURL and schemaless WithAttributes options has nothing to
//     conflict and must not report an error.
//   - WithFromEnv is a detector at the position of its option: neighbours
//     given with WithAttributes before / after it lose / win on shared keys
//     ("give OTEL_SERVICE_NAME and later detectors precedence").
//   - A nil result of Merge is not required to be non-nil (nil is documented
//     as equivalent to the empty resource); it is observed through the
//     nil-safe accessors.
package c19

import (
	"context"
	"errors"
	"fmt"
	"math"
	"sort"
	"strconv"
	"strings"
	"testing"
	"unicode/utf8"

	"go.opentelemetry.io/otel/attribute"
	"go.opentelemetry.io/otel/sdk/resource"
	"go.opentelemetry.io/otel/verif/internal/vk"
	"pgregory.net/rapid"
)

// ---------------------------------------------------------------------
// case data

// Res describes how one operand resource is built.
type Res struct {
	// nil | empty | schemaless (NewSchemaless) | attrs (NewWithAttributes) |
	// new (resource.New with WithSchemaURL + WithAttributes, the other public
	// place that stores a schema URL).
	Kind   string  `json:"kind"`
	Schema string  `json:"schema"` // used by kinds attrs and new
	KVs    []vk.KV `json:"kvs"`
	// Variant (kind new): 0 WithSchemaURL first, 1 WithSchemaURL last, 2 the
	// list split over two WithAttributes options (only WithSchemaURL when the
	// list is empty), 3 WithSchemaURL only when the list is empty, else as 0.
	Variant int `json:"variant,omitempty"`
}

// MergeCase is one generated triple.
type MergeCase struct {
	A Res `json:"a"`
	B Res `json:"b"`
	C Res `json:"c"`
}

var (
	// wildKeys: keys are arbitrary non-empty strings for the statement; this
	// alphabet holds prefixes of each other, letter case, delimiters of the
	// text encodings, white space, NUL, multi-byte and invalid UTF-8.
	wildKeys  = []string{"k", "kk", "k.k", "K", "k ", " k", "k=", "k,", "k\\", "k=v,k", "k\x00", "k\xff", "\xff", "é", "e\u0301", "世", "\t", "service.name", "service.name "}
	shortKeys = []string{"a", "b", "c", "d", "e"}
	longKeys  = []string{"a", "b", "c", "d", "e", "f", "g", "h", "i", "j", "k", "l", "m", "n", "aa", "A", "service.name"}
)

// noNaNSlices replaces NaN elements of float slices (C05 known finding).
func noNaNSlices(kvs []vk.KV) []vk.KV {
	for i := range kvs {
		for j, f := range kvs[i].FS {
			if math.IsNaN(float64(f)) {
				kvs[i].FS[j] = 0.25
			}
		}
	}
	return kvs
}

func genKVList(t *rapid.T, label string, keys []string, max int) []vk.KV {
	o := vk.KVOpts{Keys: keys, EmptyKey: true, Invalid: true, InvalidUTF8: true, NaN: true, MaxSlice: 3, MaxTextParts: 3}
	corners := []int{1, 2, 3, 5}
	if max > 10 {
		corners = []int{2, 5, 12, max}
	}
	if max > 20 {
		corners = []int{max / 2, max, max, max - 1}
	}
	return noNaNSlices(vk.GenKVs(o, max, corners...).Draw(t, label))
}

func genRes(t *rapid.T, label string, keys []string, max int, pool []string) Res {
	r := Res{Kind: rapid.SampledFrom([]string{"nil", "empty", "schemaless", "schemaless", "attrs", "attrs", "attrs", "attrs", "attrs", "new", "new", "new"}).Draw(t, label+".kind")}
	switch r.Kind {
	case "schemaless":
		r.KVs = genKVList(t, label+".kvs", keys, max)
	case "attrs":
		r.Schema = pickSchemaBiased(t, label+".schema", pool)
		r.KVs = genKVList(t, label+".kvs", keys, max)
	case "new":
		r.Schema = pickSchemaBiased(t, label+".schema", pool)
		r.Variant = rapid.IntRange(0, 3).Draw(t, label+".variant")
		if rapid.IntRange(0, 3).Draw(t, label+".bare") != 0 {
			r.KVs = genKVList(t, label+".kvs", keys, max)
		}
	}
	return r
}

func cloneKVs(in []vk.KV) []vk.KV { return append([]vk.KV{}, in...) }

// derive builds an operand related to src: same list (possibly other schema),
// one value changed, or the list reversed.
func derive(t *rapid.T, label string, src Res, keys []string, pool []string) Res {
	r := Res{Kind: rapid.SampledFrom([]string{"attrs", "attrs", "new"}).Draw(t, label+".kind"), Schema: pickSchema(t, label+".schema", pool), KVs: cloneKVs(src.KVs)}
	if r.Kind == "new" {
		r.Variant = rapid.IntRange(0, 3).Draw(t, label+".variant")
	}
	if src.schema() != "" && rapid.Bool().Draw(t, label+".sameschema") {
		r.Schema = src.schema() // the same URL through another construction site
	}
	switch rapid.IntRange(0, 2).Draw(t, label+".how") {
	case 0: // identical list
	case 1: // one more item (changes or adds a key)
		o := vk.KVOpts{Keys: keys, EmptyKey: true, Invalid: true, InvalidUTF8: true, NaN: true, MaxSlice: 3, MaxTextParts: 3}
		extra := noNaNSlices([]vk.KV{vk.GenKV(o).Draw(t, label+".extra")})
		if len(r.KVs) > 0 && rapid.Bool().Draw(t, label+".samekey") {
			extra[0].K = r.KVs[rapid.IntRange(0, len(r.KVs)-1).Draw(t, label+".at")].K
		}
		r.KVs = append(r.KVs, extra[0])
	default: // reversed (another duplicate wins)
		for i, j := 0, len(r.KVs)-1; i < j; i, j = i+1, j-1 {
			r.KVs[i], r.KVs[j] = r.KVs[j], r.KVs[i]
		}
	}
	return r
}

func genMerge(t *rapid.T) MergeCase {
	keys, max := shortKeys, 7
	switch a := rapid.IntRange(0, 59).Draw(t, "alphabet"); {
	case a < 12:
		keys, max = longKeys, 20
	case a < 18:
		keys, max = wildKeys, 12
	case a == 18:
		// sizes on a log scale: 16 .. 384 distinct keys, lists of up to that many items
		n := 16 << rapid.SampledFrom([]int{0, 1, 2, 3, 3, 4, 4, 4}).Draw(t, "big.log2")
		n += rapid.IntRange(0, n/2).Draw(t, "big.extra") * rapid.IntRange(0, 1).Draw(t, "big.exact")
		keys = make([]string, n)
		for i := range keys {
			keys[i] = fmt.Sprintf("k%03d", i)
		}
		max = n + n/4
	}
	pool := genSchemaPool(t, "schemas")
	c := MergeCase{}
	c.A = genRes(t, "a", keys, max, pool)
	if rapid.IntRange(0, 2).Draw(t, "b.rel") == 0 {
		c.B = derive(t, "b", c.A, keys, pool)
	} else {
		c.B = genRes(t, "b", keys, max, pool)
	}
	switch rapid.IntRange(0, 5).Draw(t, "c.rel") {
	case 0:
		c.C = derive(t, "c", c.A, keys, pool)
	case 1:
		c.C = derive(t, "c", c.B, keys, pool)
	default:
		c.C = genRes(t, "c", keys, max, pool)
	}
	return c
}

// lend returns the list in a caller-owned slice with spare capacity
// (len%3 free slots, so len == cap occurs too) and the function with which
// the caller later scribbles over the whole backing array.
func lend(kvs []vk.KV) ([]attribute.KeyValue, func()) {
	buf := make([]attribute.KeyValue, len(kvs), len(kvs)+len(kvs)%3)
	copy(buf, vk.ToAttrs(kvs))
	return buf, func() {
		all := buf[:cap(buf)]
		for i := range all {
			all[i] = attribute.String("scribbled.by.caller", "x")
		}
	}
}

// build constructs the operand through the public constructors as a hostile
// caller: the list is lent in a slice with spare capacity (the constructors
// may reorder it) and is scribbled over as soon as the constructor has
// returned; the resource must have copied what it keeps.
func (r Res) build() *resource.Resource {
	res, _ := r.buildErr()
	return res
}

// buildErr also returns the error of the constructor (kind new only).
func (r Res) buildErr() (*resource.Resource, error) {
	switch r.Kind {
	case "new":
		var opts []resource.Option
		var scribbles []func()
		attrOpt := func(kvs []vk.KV) {
			buf, scribble := lend(kvs)
			scribbles = append(scribbles, scribble)
			opts = append(opts, resource.WithAttributes(buf...))
		}
		bare := len(r.KVs) == 0 && r.Variant >= 2
		switch {
		case bare:
			opts = append(opts, resource.WithSchemaURL(r.Schema))
		case r.Variant == 1:
			attrOpt(r.KVs)
			opts = append(opts, resource.WithSchemaURL(r.Schema))
		case r.Variant == 2 && r.splittable():
			opts = append(opts, resource.WithSchemaURL(r.Schema))
			attrOpt(r.KVs[:len(r.KVs)/2])
			attrOpt(r.KVs[len(r.KVs)/2:])
		default:
			opts = append(opts, resource.WithSchemaURL(r.Schema))
			attrOpt(r.KVs)
		}
		res, err := resource.New(context.Background(), opts...)
		for _, f := range scribbles {
			f()
		}
		return res, err
	}
	return r.buildPlain(), nil
}

// splittable: the list may be handed over as two WithAttributes options
// without changing what the statement promises for it. A list holding an
// INVALID value is not split: "last value wins" and "invalid items are
// dropped" compose differently across two lists (package comment).
func (r Res) splittable() bool {
	for _, kv := range r.KVs {
		if kv.T == "invalid" {
			return false
		}
	}
	return true
}

func (r Res) buildPlain() *resource.Resource {
	switch r.Kind {
	case "nil":
		return nil
	case "empty":
		return resource.Empty()
	case "schemaless":
		buf, scribble := lend(r.KVs)
		res := resource.NewSchemaless(buf...)
		scribble()
		return res
	case "attrs":
		buf, scribble := lend(r.KVs)
		res := resource.NewWithAttributes(r.Schema, buf...)
		scribble()
		return res
	}
	panic("harness bug: unknown resource kind " + r.Kind)
}

func (r Res) schema() string {
	if r.Kind == "attrs" || r.Kind == "new" {
		return r.Schema
	}
	return ""
}

// ---------------------------------------------------------------------
// reference model

// attrModel is key -> value, bit-exact.
type attrModel struct {
	val map[string]attribute.Value
	// memo of render(): models are filled first and only read afterwards; the
	// memo is dropped whenever the number of keys differs (cost only).
	memo *[]string
}

func newAttrModel() attrModel {
	return attrModel{val: map[string]attribute.Value{}, memo: new([]string)}
}

func (m attrModel) keys() []string {
	ks := make([]string, 0, len(m.val))
	for k := range m.val {
		ks = append(ks, k)
	}
	sort.Strings(ks)
	return ks
}

func renderKV(k string, v attribute.Value) string { return strconv.Quote(k) + "=" + vk.ValueKey(v) }

func (m attrModel) render() []string {
	if m.memo != nil && len(m.val) > 0 && len(*m.memo) == len(m.val) {
		return *m.memo
	}
	ks := m.keys()
	out := make([]string, len(ks))
	for i, k := range ks {
		out[i] = renderKV(k, m.val[k])
	}
	if m.memo != nil {
		*m.memo = out
	}
	return out
}

// kvs lists the model as key-values in key order.
func (m attrModel) kvs() []attribute.KeyValue {
	ks := m.keys()
	out := make([]attribute.KeyValue, len(ks))
	for i, k := range ks {
		out[i] = attribute.KeyValue{Key: attribute.Key(k), Value: m.val[k]}
	}
	return out
}

func modelOfSlice(kvs []attribute.KeyValue) attrModel {
	m := newAttrModel()
	for _, kv := range kvs {
		m.val[string(kv.Key)] = kv.Value
	}
	return m
}

// union is the right-biased union: b's value wins on shared keys.
func union(a, b attrModel) attrModel {
	m := newAttrModel()
	for k, v := range a.val {
		m.val[k] = v
	}
	for k, v := range b.val {
		m.val[k] = v
	}
	return m
}

func renderSlice(kvs []attribute.KeyValue) []string {
	out := make([]string, len(kvs))
	for i, kv := range kvs {
		out[i] = renderKV(string(kv.Key), kv.Value)
	}
	return out
}

func sameStrings(a, b []string) bool {
	if len(a) != len(b) {
		return false
	}
	for i := range a {
		if a[i] != b[i] {
			return false
		}
	}
	return true
}

func (m attrModel) bitEqual(o attrModel) bool { return sameStrings(m.render(), o.render()) }

// goEqualValue is Go-level (==) equality of typed values: floats compare as
// floats (NaN != NaN, +0 == -0).
func goEqualValue(a, b attribute.Value) bool {
	if a.Type() != b.Type() {
		return false
	}
	switch a.Type() {
	case attribute.FLOAT64:
		return a.AsFloat64() == b.AsFloat64()
	case attribute.FLOAT64SLICE:
		x, y := a.AsFloat64Slice(), b.AsFloat64Slice()
		if len(x) != len(y) {
			return false
		}
		for i := range x {
			if x[i] != y[i] {
				return false
			}
		}
		return true
	}
	return vk.ValueKey(a) == vk.ValueKey(b)
}

func (m attrModel) goEqual(o attrModel) bool {
	if !sameStrings(m.keys(), o.keys()) {
		return false
	}
	for k, v := range m.val {
		if !goEqualValue(v, o.val[k]) {
			return false
		}
	}
	return true
}

// ctorModel is what a constructor must keep of an input list.
type ctorModel struct {
	strict attrModel // last occurrence per key, kept when it is valid
	// maybe: keys whose last occurrence has an INVALID value but which have an
	// earlier valid occurrence -> the last valid value. Such a key may be
	// absent or carry that value (see the package comment).
	maybe       map[string]attribute.Value
	droppedAny  bool // the list holds at least one invalid item
	duplicates  bool
	emptyKeySet bool
}

func newCtorModel(kvs []attribute.KeyValue) ctorModel {
	cm := ctorModel{strict: newAttrModel(), maybe: map[string]attribute.Value{}}
	lastValid := map[string]attribute.Value{}
	seen := map[string]bool{}
	for _, kv := range kvs {
		k := string(kv.Key)
		if seen[k] {
			cm.duplicates = true
		}
		seen[k] = true
		if k == "" {
			cm.droppedAny, cm.emptyKeySet = true, true
			continue
		}
		if kv.Value.Type() == attribute.INVALID {
			cm.droppedAny = true
			delete(cm.strict.val, k)
			if v, ok := lastValid[k]; ok {
				cm.maybe[k] = v
			}
			continue
		}
		lastValid[k] = kv.Value
		cm.strict.val[k] = kv.Value
		delete(cm.maybe, k)
	}
	return cm
}

// rmodel is the model of a resource.
type rmodel struct {
	attrs  attrModel
	schema string
}

// mergeModel is the statement: union with b winning; the schema URL is the
// non-empty one, the common one, or "" together with a conflict.
func mergeModel(a, b rmodel) (rmodel, bool) {
	u := union(a.attrs, b.attrs)
	switch {
	case a.schema == "":
		return rmodel{u, b.schema}, false
	case b.schema == "":
		return rmodel{u, a.schema}, false
	case a.schema == b.schema:
		return rmodel{u, a.schema}, false
	}
	return rmodel{u, ""}, true
}

// ---------------------------------------------------------------------
// observation helpers

type reporter struct {
	vs []vk.Violation
}

func (r *reporter) bad(kind, format string, a ...any) {
	r.vs = append(r.vs, vk.V(kind, format, a...))
}

// refString is the documented default encoding "k=v,k=v" (keys sorted, '\\',
// '=' and ',' escaped) of a model, produced through an attribute.Set built
// from the model rather than from the resource under test.
func refString(m attrModel) string {
	s := attribute.NewSet(m.kvs()...)
	return s.Encoded(attribute.DefaultEncoder())
}

// checkAccessors compares every read accessor of r with the model.
func checkAccessors(rep *reporter, label string, r *resource.Resource, m rmodel) {
	want := m.attrs.render()
	got := r.Attributes()
	if !sameStrings(renderSlice(got), want) {
		rep.bad("attributes_model", "%s: Attributes() = %v, model %v", label, renderSlice(got), want)
	}
	for i := 1; i < len(got); i++ {
		if !(got[i-1].Key < got[i].Key) {
			rep.bad("attributes_not_sorted", "%s: keys %q, %q at %d", label, got[i-1].Key, got[i].Key, i)
		}
	}
	for _, kv := range got {
		if !kv.Valid() {
			rep.bad("invalid_item_kept", "%s: resource holds the invalid item %s", label, renderKV(string(kv.Key), kv.Value))
		}
	}
	if r.Len() != len(want) {
		rep.bad("len", "%s: Len() = %d, model %d", label, r.Len(), len(want))
	}
	var iter []attribute.KeyValue
	it := r.Iter()
	for it.Next() {
		iter = append(iter, it.Attribute())
		if len(iter) > len(want)+4 {
			break
		}
	}
	if !sameStrings(renderSlice(iter), want) {
		rep.bad("iter", "%s: Iter() yields %v, model %v", label, renderSlice(iter), want)
	}
	set := r.Set()
	if set == nil {
		rep.bad("set_nil", "%s: Set() returned nil", label)
	} else {
		if !sameStrings(renderSlice(set.ToSlice()), want) || set.Len() != len(want) {
			rep.bad("set", "%s: Set() = %v (Len %d), model %v", label, renderSlice(set.ToSlice()), set.Len(), want)
		}
		ms := attribute.NewSet(m.attrs.kvs()...)
		if set.Equivalent() != ms.Equivalent() || r.Equivalent() != ms.Equivalent() {
			rep.bad("equivalent_model", "%s: Equivalent() differs from the identity of a set built from the model %v", label, want)
		}
	}
	if s, ref := r.String(), refString(m.attrs); s != ref {
		rep.bad("string", "%s: String() = %q, reference %q", label, s, ref)
	}
	if enc := r.Encoded(attribute.DefaultEncoder()); enc != r.String() {
		rep.bad("string_encoded", "%s: String() %q != Encoded(DefaultEncoder()) %q", label, r.String(), enc)
	}
	if r.SchemaURL() != m.schema {
		rep.bad("schema_url", "%s: SchemaURL() = %q, model %q", label, r.SchemaURL(), m.schema)
	}
	// hostile caller on the OUTPUT side: the slices handed out are the
	// caller's; it overwrites them. (No assertion here: every resource is read
	// again by the following merges and at the end of the case.)
	for i := range got {
		got[i] = attribute.String("scribbled.by.caller", "out")
	}
	if set != nil {
		sl := set.ToSlice()
		for i := range sl {
			sl[i] = attribute.String("scribbled.by.caller", "out")
		}
	}
}

// checkCtor compares a freshly constructed operand with its input list and
// returns the model used for it from then on.
func checkCtor(rep *reporter, label string, spec Res, r *resource.Resource) (rmodel, ctorModel) {
	cm := newCtorModel(vk.ToAttrs(spec.KVs))
	got := r.Attributes()
	obs := modelOfSlice(got)
	ok := true
	for _, kv := range got {
		k := string(kv.Key)
		if v, in := cm.strict.val[k]; in {
			if vk.ValueKey(v) != vk.ValueKey(kv.Value) {
				ok = false
				rep.bad("ctor_wrong_value", "%s: key %q = %s, the last value in the list is %s", label, k, vk.ValueKey(kv.Value), vk.ValueKey(v))
			}
			continue
		}
		if v, in := cm.maybe[k]; in {
			if vk.ValueKey(v) != vk.ValueKey(kv.Value) {
				ok = false
				rep.bad("ctor_wrong_value", "%s: key %q = %s, the last valid value in the list is %s", label, k, vk.ValueKey(kv.Value), vk.ValueKey(v))
			}
			continue
		}
		ok = false
		rep.bad("ctor_kept_invalid", "%s: constructor kept %s which is not a valid item of the list", label, renderKV(k, kv.Value))
	}
	for _, k := range cm.strict.keys() {
		if _, in := obs.val[k]; !in {
			ok = false
			rep.bad("ctor_lost_valid", "%s: constructor lost the valid key %q (%s)", label, k, vk.ValueKey(cm.strict.val[k]))
		}
	}
	m := rmodel{attrs: cm.strict, schema: spec.schema()}
	if ok {
		// identical to cm.strict except for the accepted ambiguity.
		m.attrs = obs
	}
	checkAccessors(rep, label, r, m)
	return m, cm
}

// checkMerge performs Merge(x, y) and compares it with the model.
func checkMerge(rep *reporter, label string, x, y *resource.Resource, xm, ym rmodel) (*resource.Resource, rmodel, bool) {
	wm, conflict := mergeModel(xm, ym)
	got, err := resource.Merge(x, y)
	if want, have := wm.attrs.render(), renderSlice(got.Attributes()); !sameStrings(have, want) {
		kind := "merge_union"
		if conflict {
			kind = "merge_conflict_loses_attributes"
		}
		rep.bad(kind, "%s: attributes %v, model %v (left %v, right %v)", label, have, want, xm.attrs.render(), ym.attrs.render())
	}
	if conflict {
		if err == nil || !errors.Is(err, resource.ErrSchemaURLConflict) {
			rep.bad("conflict_not_reported", "%s: schema URLs %q and %q differ, error = %v", label, xm.schema, ym.schema, err)
		}
		if got.SchemaURL() != "" {
			rep.bad("conflict_schema_not_empty", "%s: schema URLs %q and %q differ, result has %q", label, xm.schema, ym.schema, got.SchemaURL())
		}
	} else {
		if err != nil {
			rep.bad("merge_spurious_error", "%s: schema URLs %q and %q do not conflict, error = %v", label, xm.schema, ym.schema, err)
		}
		if got.SchemaURL() != wm.schema {
			rep.bad("merge_schema", "%s: schema URLs %q and %q give %q, statement %q", label, xm.schema, ym.schema, got.SchemaURL(), wm.schema)
		}
	}
	// the operands are immutable
	if !sameStrings(renderSlice(x.Attributes()), xm.attrs.render()) || x.SchemaURL() != xm.schema {
		rep.bad("merge_mutates_operand", "%s: left operand changed to %v / %q", label, renderSlice(x.Attributes()), x.SchemaURL())
	}
	if !sameStrings(renderSlice(y.Attributes()), ym.attrs.render()) || y.SchemaURL() != ym.schema {
		rep.bad("merge_mutates_operand", "%s: right operand changed to %v / %q", label, renderSlice(y.Attributes()), y.SchemaURL())
	}
	checkAccessors(rep, label, got, rmodel{wm.attrs, got.SchemaURL()})
	return got, wm, conflict
}

// checkIdentity asserts that r merged with e (nil / empty) on either side is r.
func checkIdentity(rep *reporter, label string, r, e *resource.Resource, m rmodel) {
	for _, side := range []string{"right", "left"} {
		var got *resource.Resource
		var err error
		if side == "right" {
			got, err = resource.Merge(r, e)
		} else {
			got, err = resource.Merge(e, r)
		}
		if err != nil {
			rep.bad("identity_error", "%s (%s): error %v", label, side, err)
		}
		if !sameStrings(renderSlice(got.Attributes()), m.attrs.render()) {
			rep.bad("identity_attributes", "%s (%s): attributes %v, operand %v", label, side, renderSlice(got.Attributes()), m.attrs.render())
		}
		if got.SchemaURL() != m.schema {
			rep.bad("identity_schema", "%s (%s): schema URL %q, operand %q", label, side, got.SchemaURL(), m.schema)
		}
		if !got.Equal(r) || !r.Equal(got) {
			rep.bad("identity_not_equal", "%s (%s): result is not Equal to the operand", label, side)
		}
	}
}

// checkEqual relates Equal / Equivalent (as a real map key) to the models.
func checkEqual(rep *reporter, label string, x, y *resource.Resource, xm, ym attrModel) (be, ge bool) {
	eq := x.Equal(y)
	if eq != y.Equal(x) {
		rep.bad("equal_not_symmetric", "%s: x.Equal(y) = %v, y.Equal(x) = %v", label, eq, !eq)
	}
	if eq != (x.Equivalent() == y.Equivalent()) {
		rep.bad("equal_vs_equivalent", "%s: Equal = %v but Equivalent() == is %v", label, eq, !eq)
	}
	idx := map[attribute.Distinct]string{x.Equivalent(): "x"}
	_, hit := idx[y.Equivalent()]
	if hit != eq {
		rep.bad("equal_vs_map_key", "%s: Equal = %v but map lookup by Equivalent() = %v", label, eq, hit)
	}
	be, ge = xm.bitEqual(ym), xm.goEqual(ym)
	switch {
	case be && !eq:
		rep.bad("same_mapping_not_equal", "%s: resources with the identical mapping %v are not Equal", label, xm.render())
	case !be && !ge && eq:
		rep.bad("different_mapping_equal", "%s: resources with different mappings are Equal: %v vs %v", label, xm.render(), ym.render())
	}
	if be && !hit {
		rep.bad("map_key_identity", "%s: identical mapping %v misses as map key", label, xm.render())
	}
	return be, ge
}

// overlap reports shared keys with different / identical values.
func overlap(a, b attrModel) (diff, same bool) {
	for k, v := range a.val {
		if w, ok := b.val[k]; ok {
			if vk.ValueKey(v) != vk.ValueKey(w) {
				diff = true
			} else {
				same = true
			}
		}
	}
	return
}

func distinctNonEmpty(ss ...string) int {
	m := map[string]bool{}
	for _, s := range ss {
		if s != "" {
			m[s] = true
		}
	}
	return len(m)
}

func runMerge(c MergeCase) ([]vk.Violation, vk.Info) {
	rep := &reporter{}
	var info vk.Info

	built := map[string]*resource.Resource{}
	for _, op := range []struct {
		n string
		s Res
	}{{"a", c.A}, {"b", c.B}, {"c", c.C}} {
		r, err := op.s.buildErr()
		if err != nil {
			// one schema URL option and schemaless attribute options: nothing differs.
			rep.bad("new_spurious_error", "%s: resource.New(WithSchemaURL(%q), WithAttributes...) (variant %d) returned the error %v", op.n, op.s.Schema, op.s.Variant, err)
		}
		built[op.n] = r
	}
	a, b, cc := built["a"], built["b"], built["c"]
	am, acm := checkCtor(rep, "a", c.A, a)
	bm, bcm := checkCtor(rep, "b", c.B, b)
	cm, ccm := checkCtor(rep, "c", c.C, cc)

	// a second build of the same description is an equal resource.
	a2 := c.A.build()
	checkEqual(rep, "a vs rebuilt a", a, a2, am.attrs, am.attrs)

	// --- pairs ---
	ab, abm, confAB := checkMerge(rep, "Merge(a,b)", a, b, am, bm)
	bc, bcmod, confBC := checkMerge(rep, "Merge(b,c)", b, cc, bm, cm)
	_, _, confBA := checkMerge(rep, "Merge(b,a)", b, a, bm, am)

	// --- identity ---
	for _, op := range []struct {
		n string
		r *resource.Resource
		m rmodel
	}{{"a", a, am}, {"b", b, bm}} {
		checkIdentity(rep, "identity "+op.n+" with nil", op.r, nil, op.m)
		checkIdentity(rep, "identity "+op.n+" with Empty()", op.r, resource.Empty(), op.m)
		checkIdentity(rep, "identity "+op.n+" with NewSchemaless()", op.r, resource.NewSchemaless(), op.m)
	}

	// --- idempotence ---
	for _, op := range []struct {
		n string
		r *resource.Resource
		m rmodel
	}{{"a", a, am}, {"Merge(a,b)", ab, rmodel{abm.attrs, ab.SchemaURL()}}} {
		got, err := resource.Merge(op.r, op.r)
		if err != nil {
			rep.bad("idempotence_error", "Merge(%s,%s): error %v", op.n, op.n, err)
		}
		if !sameStrings(renderSlice(got.Attributes()), op.m.attrs.render()) || got.SchemaURL() != op.m.schema {
			rep.bad("not_idempotent", "Merge(%s,%s) = %v / %q, operand %v / %q", op.n, op.n, renderSlice(got.Attributes()), got.SchemaURL(), op.m.attrs.render(), op.m.schema)
		}
		if !got.Equal(op.r) {
			rep.bad("not_idempotent", "Merge(%s,%s) is not Equal to %s", op.n, op.n, op.n)
		}
	}

	// --- associativity (attributes); schema URLs step by step ---
	l, lm, confL := checkMerge(rep, "Merge(Merge(a,b),c)", ab, cc, rmodel{abm.attrs, ab.SchemaURL()}, cm)
	r, rm, confR := checkMerge(rep, "Merge(a,Merge(b,c))", a, bc, am, rmodel{bcmod.attrs, bc.SchemaURL()})
	if !lm.attrs.bitEqual(rm.attrs) {
		panic("harness bug: the model union is not associative")
	}
	if !sameStrings(renderSlice(l.Attributes()), renderSlice(r.Attributes())) {
		rep.bad("not_associative", "Merge(Merge(a,b),c) = %v, Merge(a,Merge(b,c)) = %v", renderSlice(l.Attributes()), renderSlice(r.Attributes()))
	}
	if !l.Equal(r) || l.Equivalent() != r.Equivalent() {
		rep.bad("not_associative", "the two association orders are not Equal")
	}
	nURLs := distinctNonEmpty(am.schema, bm.schema, cm.schema)
	if nURLs <= 1 {
		want := am.schema + bm.schema + cm.schema
		if nURLs == 1 {
			for _, s := range []string{am.schema, bm.schema, cm.schema} {
				if s != "" {
					want = s
				}
			}
		}
		if l.SchemaURL() != want || r.SchemaURL() != want {
			rep.bad("triple_schema", "schema URLs %q,%q,%q: left-assoc %q, right-assoc %q, want %q", am.schema, bm.schema, cm.schema, l.SchemaURL(), r.SchemaURL(), want)
		}
	}

	// --- Equal / Equivalent ---
	beAB, geAB := checkEqual(rep, "a vs b", a, b, am.attrs, bm.attrs)
	beAC, geAC := checkEqual(rep, "a vs c", a, cc, am.attrs, cm.attrs)
	checkEqual(rep, "b vs c", b, cc, bm.attrs, cm.attrs)
	checkEqual(rep, "a vs Merge(a,b)", a, ab, am.attrs, abm.attrs)

	// --- hostile caller: two constructor lists in ONE caller-owned array ---
	// q = append(p, more...) is prepared before the first constructor runs,
	// the shorter list is used first, each list once (the constructors may
	// reorder the slice they are given, preserving last-value-wins, so this is
	// the order in which the caller's expectation is well defined). Each
	// resource must be the model of ITS list as the caller built it.
	arr := make([]attribute.KeyValue, 0, len(c.A.KVs)+len(c.C.KVs)+1)
	p := append(arr, vk.ToAttrs(c.A.KVs)...)
	q := append(p, vk.ToAttrs(c.C.KVs)...)
	specP := Res{Kind: "attrs", Schema: c.B.schema(), KVs: c.A.KVs}
	specQ := Res{Kind: "schemaless", KVs: append(cloneKVs(c.A.KVs), c.C.KVs...)}
	x := resource.NewWithAttributes(specP.Schema, p...)
	xm, _ := checkCtor(rep, "shared kv array, shorter list", specP, x)
	y := resource.NewSchemaless(q...)
	ym, _ := checkCtor(rep, "shared kv array, longer list prepared before the first constructor call", specQ, y)
	for i := range arr[:cap(arr)] {
		arr[:cap(arr)][i] = attribute.String("scribbled.by.caller", "x")
	}

	// --- retained output: nothing handed out earlier may have changed ---
	for _, h := range []struct {
		n string
		r *resource.Resource
		m rmodel
	}{
		{"a", a, am}, {"b", b, bm}, {"c", cc, cm},
		{"Merge(a,b)", ab, rmodel{abm.attrs, ab.SchemaURL()}}, {"Merge(b,c)", bc, rmodel{bcmod.attrs, bc.SchemaURL()}},
		{"Merge(Merge(a,b),c)", l, rmodel{lm.attrs, l.SchemaURL()}}, {"Merge(a,Merge(b,c))", r, rmodel{rm.attrs, r.SchemaURL()}},
		{"shared kv array, shorter list", x, xm}, {"shared kv array, longer list", y, ym},
	} {
		if !sameStrings(renderSlice(h.r.Attributes()), h.m.attrs.render()) || h.r.SchemaURL() != h.m.schema {
			rep.bad("retained_resource_changed", "%s: at the end of the case the resource reads %v / %q, it was %v / %q", h.n, renderSlice(h.r.Attributes()), h.r.SchemaURL(), h.m.attrs.render(), h.m.schema)
		}
	}

	// --- classification ---
	info.ClassIf(len(c.A.KVs) > 0 && len(c.C.KVs) > 0, "ctor_lists_share_caller_array")
	dAB, sAB := overlap(am.attrs, bm.attrs)
	dBC, _ := overlap(bm.attrs, cm.attrs)
	dAC, _ := overlap(am.attrs, cm.attrs)
	info.NonTrivial = dAB || dBC || dAC
	info.ClassIf(dAB, "a_b_overlap_different_values")
	info.ClassIf(sAB, "a_b_overlap_same_values")
	info.ClassIf(dAB && dBC && dAC, "all_pairs_overlap_different")
	info.ClassIf(confAB || confBA, "pair_schema_conflict")
	info.ClassIf(confL || confR || confAB || confBC, "triple_schema_conflict")
	info.ClassIf(nURLs == 1 && (am.schema == "" || bm.schema == "" || cm.schema == ""), "schema_inherited_from_one_side")
	info.ClassIf(am.schema != "" && am.schema == bm.schema, "a_b_common_schema")
	info.ClassIf(am.schema != "" && am.schema == bm.schema && c.A.Kind != c.B.Kind, "a_b_common_schema_from_different_constructors")
	schemaClasses(info.ClassIf, am.schema, bm.schema, cm.schema)
	info.ClassIf(nearMiss(am.schema, bm.schema), "a_b_conflict_by_one_edit_only")
	for _, s := range []Res{c.A, c.B, c.C} {
		info.ClassIf(s.Kind == "nil", "operand_nil")
		info.ClassIf(s.Kind == "empty", "operand_Empty()")
		info.ClassIf(s.Kind == "schemaless", "operand_NewSchemaless")
		info.ClassIf(s.Kind == "new", "operand_New(WithSchemaURL,WithAttributes)")
		info.ClassIf(s.Kind == "new" && len(s.KVs) == 0 && s.Variant >= 2, "operand_New(WithSchemaURL)_only")
		info.ClassIf(s.Kind == "new" && len(s.KVs) > 1 && s.Variant == 2 && s.splittable(), "operand_New_two_WithAttributes_options")
	}
	for _, m := range []ctorModel{acm, bcm, ccm} {
		info.ClassIf(m.droppedAny, "ctor_drops_invalid_item")
		info.ClassIf(m.emptyKeySet, "ctor_empty_key")
		info.ClassIf(m.duplicates, "ctor_duplicate_keys")
		info.ClassIf(len(m.maybe) > 0, "ctor_last_duplicate_invalid(ambiguous)")
		info.ClassIf(len(m.strict.val) >= 11, "ctor_>=11_keys")
		info.ClassIf(len(m.strict.val) >= 33, "ctor_>=33_keys")
		info.ClassIf(len(m.strict.val) >= 129, "ctor_>=129_keys")
	}
	info.ClassIf(len(abm.attrs.val) >= 129, "Merge(a,b)_>=129_keys")
	for _, kv := range c.A.KVs {
		k := string(kv.K)
		info.ClassIf(strings.ContainsAny(k, "=,\\ \t\x00") || !utf8.ValidString(k), "key_with_delimiter_space_or_invalid_utf8")
	}
	info.ClassIf(len(am.attrs.val) == 0 && len(c.A.KVs) > 0, "only_invalid_items")
	info.ClassIf(beAB, "a_b_equal")
	info.ClassIf(beAB && am.schema != bm.schema, "a_b_equal_different_schema")
	info.ClassIf(!beAB && !geAB, "a_b_different")
	info.ClassIf(beAB != geAB || beAC != geAC, "equal_under_one_notion_only(not asserted)")
	return rep.vs, dedupe(info)
}

// dedupe removes repeated class labels of one case.
func dedupe(info vk.Info) vk.Info {
	seen := map[string]bool{}
	out := info.Classes[:0]
	for _, c := range info.Classes {
		if !seen[c] {
			seen[c] = true
			out = append(out, c)
		}
	}
	info.Classes = out
	return info
}

func TestMergeAlgebra(t *testing.T) {
	vk.Run(t, vk.Spec[MergeCase]{
		Property: "C19", Check: "merge_algebra",
		Rule: "triples of resources: nil | Empty() | NewSchemaless(kvs) | NewWithAttributes(url, kvs) | New(WithSchemaURL(url), WithAttributes(kvs)...) (option order / split varied) with url \"\" or drawn from a per-case pool of opaque strings " +
			"(a realistic or free-form base, two near misses of it by ONE edit: appended / prepended / inserted '/', white space, '#', '?', '.', port, escape, NUL; dropped first / last rune; letter case; http vs https; and an unrelated URL) and kv lists of 0..20 items (1 case in 60: up to ~450 items over 16..384 keys, log scale; 1 in 10: keys with delimiters, white space, NUL, multi-byte and invalid UTF-8) over all value types " +
			"(empty keys, INVALID values, duplicates, invalid UTF-8; no NaN inside float slices), b and c sometimes derived from a / b (same list, one more item, reversed); " +
			"hostile caller: every list is lent in a slice with spare capacity and scribbled over after the constructor returned, two lists share one caller-owned array (append(p, more...) prepared up front), every resource is re-checked at the end; " +
			"non-trivial = at least one pair of operands shares a key with different values; distinct = distinct case encodings",
		Quick: 35000, Thorough: 500000,
		Gen: genMerge, Run: runMerge,
	})
}
