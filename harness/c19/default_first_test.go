package c19

// Check "default_first_use": the FIRST resource.Default() of a process under
// every kind of environment the env check knows, the partially failing ones
// included.
//
// resource.Default() is the one resource every provider of the SDK falls back
// to; it is "built from OTEL_RESOURCE_ATTRIBUTES / OTEL_SERVICE_NAME" through a
// fixed detector list and computed once per process. The statement quantifies
// over "all environment strings, and all detector orders and partial
// failures", so the clauses "keep only valid keys, decode percent-escapes
// losslessly, give OTEL_SERVICE_NAME and later detectors precedence" and
// "never silently losing attributes" apply to it also when a detector of that
// list reports a partial error: only the malformed list element may be
// missing.
//
// Each case is one environment (OTEL_RESOURCE_ATTRIBUTES rendered from pairs of
// every kind at every position, by the reference percent-encoder of
// env_test.go; OTEL_SERVICE_NAME unset / empty / set; OTEL_GO_X_RESOURCE) plus
// a small program for a fresh CHILD process: how many goroutines make the
// first Default() call together, and whether the public reference
// compositions are evaluated before or after it. The child prints Default()
// and, from the same process and environment, resource.New(WithFromEnv()),
// New(WithFromEnv(), WithTelemetrySDK()) and New(WithTelemetrySDK()).
//
// Two oracles, both independent of Default()'s implementation:
//
//  1. the model of the case: every well-formed pair (decoded value) and the
//     service name are in Default(); the keys the telemetry SDK detector owns
//     (= the keys of New(WithTelemetrySDK())) carry that detector's values
//     ("later detectors take precedence"); nothing else is in Default()
//     except service.name and, with the experimental flag, service.instance.id.
//  2. the documented composition: Default() is the default service name,
//     then the environment, then the telemetry SDK. Hence every attribute of
//     New(WithFromEnv(), WithTelemetrySDK()) is in Default() with the same
//     value, and Default()'s schema URL is the one of that composition (the
//     "non-empty / common one") unless a schema conflict was reported.
//
// All first callers, and a later call, must get equal resources with equal
// map identities; so must a resource rebuilt from Default()'s own attributes
// ("equal resources have equal map identities"). Whether the partial error reaches the global error handler
// is recorded as a class label only (the statement does not promise it for
// Default()).

import (
	"context"
	"encoding/json"
	"errors"
	"fmt"
	"os"
	"os/exec"
	"sort"
	"strconv"
	"strings"
	"sync"
	"testing"

	"go.opentelemetry.io/otel"
	"go.opentelemetry.io/otel/attribute"
	"go.opentelemetry.io/otel/sdk/resource"
	"go.opentelemetry.io/otel/verif/internal/vk"
	"pgregory.net/rapid"
)

// DefFirstCase is one environment plus the child's program.
type DefFirstCase struct {
	AttrsSet bool      `json:"attrs_set"`
	Pairs    []EnvPair `json:"pairs"`
	Outer    []string  `json:"outer"`
	SvcMode  string    `json:"svc_mode"` // unset | empty | set
	Svc      vk.Str    `json:"svc"`
	Flag     string    `json:"flag"`      // OTEL_GO_X_RESOURCE: "" unset | true | false | TRUE
	Callers  int       `json:"callers"`   // goroutines making the first Default() call together
	RefFirst bool      `json:"ref_first"` // evaluate the reference compositions before the first Default()
}

// keys the default detectors themselves produce, so that the environment
// competes with earlier (service.name, service.instance.id) and later
// (telemetry.sdk.*) detectors; telemetry.sdk.extra is a neighbour nobody owns.
var defFirstWellKnown = []string{svcKey, svcKey, "service.instance.id", "telemetry.sdk.name", "telemetry.sdk.language", "telemetry.sdk.version", "telemetry.sdk.extra", "service.namespace", "host.name"}

func genDefFirst(t *rapid.T) DefFirstCase {
	c := DefFirstCase{}
	c.AttrsSet = rapid.IntRange(0, 11).Draw(t, "attrs_set") != 0
	used := map[string]bool{}
	uniq := func(k string, i int) string {
		if used[k] {
			k += "." + strconv.Itoa(i)
		}
		used[k] = true
		return k
	}
	if c.AttrsSet {
		n := vk.GenLen(8, 1, 2, 3).Draw(t, "npairs")
		if rapid.IntRange(0, 11).Draw(t, "long_list") == 0 {
			n = rapid.IntRange(9, 48).Draw(t, "npairs.long")
		}
		// three regimes: all well-formed, mostly well-formed with malformed
		// neighbours, mostly malformed
		goodOf20 := rapid.SampledFrom([]int{20, 13, 13, 10, 4}).Draw(t, "good_of_20")
		for i := 0; i < n; i++ {
			c.Pairs = append(c.Pairs, genEnvPair(t, i, uniq, goodOf20, defFirstWellKnown))
		}
		c.Outer = rapid.SliceOfN(rapid.SampledFrom(ows), 2, 2).Draw(t, "outer")
	}
	c.SvcMode = rapid.SampledFrom([]string{"unset", "unset", "empty", "set", "set"}).Draw(t, "svc_mode")
	if c.SvcMode == "set" {
		c.Svc = genSvcName(t)
	}
	c.Flag = rapid.SampledFrom([]string{"", "", "true", "false", "TRUE"}).Draw(t, "flag")
	c.Callers = rapid.SampledFrom([]int{1, 1, 2, 4, 8}).Draw(t, "callers")
	c.RefFirst = rapid.Bool().Draw(t, "ref_first")
	return c
}

// --- child side ---------------------------------------------------------

type childKV struct {
	K vk.Str `json:"k"`
	T string `json:"t"`
	V vk.Str `json:"v"`
}

type childRes struct {
	Attrs  []childKV `json:"attrs"`
	Schema string    `json:"schema"`
}

type childOut struct {
	Default childRes `json:"default"`
	// the other first callers and a later call compared with caller 0
	CallersEqual      bool `json:"callers_equal"`
	CallersEquivalent bool `json:"callers_equivalent"`
	LaterEqual        bool `json:"later_equal"`
	// a resource rebuilt from Default()'s own attribute list
	RebuiltEqual      bool `json:"rebuilt_equal"`
	RebuiltEquivalent bool `json:"rebuilt_equivalent"`
	// errors the global handler received during the first Default()
	Handled         []string `json:"handled"`
	HandledPartial  bool     `json:"handled_partial"`
	HandledConflict bool     `json:"handled_conflict"`
	// public reference compositions, same process, same environment
	Env        childRes `json:"env"` // New(WithFromEnv())
	EnvErr     string   `json:"env_err"`
	EnvPartial bool     `json:"env_partial"`
	EnvSDK     childRes `json:"env_sdk"` // New(WithFromEnv(), WithTelemetrySDK())
	SDK        childRes `json:"sdk"`     // New(WithTelemetrySDK())
	SDKErr     string   `json:"sdk_err"`
}

func snapshot(r *resource.Resource) childRes {
	out := childRes{Schema: r.SchemaURL(), Attrs: []childKV{}}
	for _, kv := range r.Attributes() {
		out.Attrs = append(out.Attrs, childKV{K: vk.Str(kv.Key), T: kv.Value.Type().String(), V: vk.Str(kv.Value.Emit())})
	}
	return out
}

const childFirstMarker = "C19DEFAULTFIRST:"

// TestDefaultFirstChild is the child side of default_first_use.
func TestDefaultFirstChild(t *testing.T) {
	if os.Getenv("VERIF_C19_CHILD") != "2" {
		t.Skip("child mode only")
	}
	callers, _ := strconv.Atoi(os.Getenv("VERIF_C19_CALLERS"))
	if callers < 1 {
		callers = 1
	}
	var out childOut
	ctx := context.Background()
	refs := func() {
		silent := otel.ErrorHandlerFunc(func(error) {})
		otel.SetErrorHandler(silent)
		r, err := resource.New(ctx, resource.WithFromEnv())
		out.Env = snapshot(r)
		if err != nil {
			out.EnvErr = err.Error()
			out.EnvPartial = errors.Is(err, resource.ErrPartialResource)
		}
		r, _ = resource.New(ctx, resource.WithFromEnv(), resource.WithTelemetrySDK())
		out.EnvSDK = snapshot(r)
		r, err = resource.New(ctx, resource.WithTelemetrySDK())
		out.SDK = snapshot(r)
		if err != nil {
			out.SDKErr = err.Error()
		}
	}
	if os.Getenv("VERIF_C19_REFFIRST") == "1" {
		refs()
	}
	var mu sync.Mutex
	otel.SetErrorHandler(otel.ErrorHandlerFunc(func(err error) {
		mu.Lock()
		defer mu.Unlock()
		out.Handled = append(out.Handled, err.Error())
		out.HandledPartial = out.HandledPartial || errors.Is(err, resource.ErrPartialResource)
		out.HandledConflict = out.HandledConflict || errors.Is(err, resource.ErrSchemaURLConflict)
	}))
	got := make([]*resource.Resource, callers)
	start := make(chan struct{})
	var wg sync.WaitGroup
	for i := 0; i < callers; i++ {
		wg.Add(1)
		go func(i int) {
			defer wg.Done()
			<-start
			got[i] = resource.Default()
		}(i)
	}
	close(start)
	wg.Wait()
	mu.Lock()
	out.Default = snapshot(got[0])
	mu.Unlock()
	out.CallersEqual, out.CallersEquivalent = true, true
	for _, r := range got[1:] {
		out.CallersEqual = out.CallersEqual && got[0].Equal(r) && r.SchemaURL() == got[0].SchemaURL()
		out.CallersEquivalent = out.CallersEquivalent && got[0].Equivalent() == r.Equivalent()
	}
	later := resource.Default()
	out.LaterEqual = got[0].Equal(later) && later.SchemaURL() == got[0].SchemaURL() && got[0].Equivalent() == later.Equivalent()
	rebuilt := resource.NewWithAttributes(got[0].SchemaURL(), got[0].Attributes()...)
	out.RebuiltEqual = rebuilt.Equal(got[0]) && got[0].Equal(rebuilt)
	out.RebuiltEquivalent = rebuilt.Equivalent() == got[0].Equivalent()
	if os.Getenv("VERIF_C19_REFFIRST") != "1" {
		refs()
	}
	mu.Lock()
	b, _ := json.Marshal(out)
	mu.Unlock()
	fmt.Println(childFirstMarker + string(b))
}

// --- parent side --------------------------------------------------------

func (r childRes) model() (map[string]childKV, []string) {
	m := map[string]childKV{}
	var keys []string
	for _, kv := range r.Attrs {
		m[string(kv.K)] = kv
		keys = append(keys, string(kv.K))
	}
	sort.Strings(keys)
	return m, keys
}

func runDefFirst(c DefFirstCase) ([]vk.Violation, vk.Info) {
	rep := &reporter{}
	var info vk.Info

	envStr, escapes := renderEnv(EnvCase{Pairs: c.Pairs, Outer: c.Outer})
	cmd := exec.Command(os.Args[0], "-test.run", "^TestDefaultFirstChild$", "-test.count", "1", "-test.v")
	cmd.Env = []string{"VERIF_C19_CHILD=2", "PATH=" + os.Getenv("PATH"), "HOME=" + os.Getenv("HOME"), "VERIF_OUT=" + os.TempDir(),
		"VERIF_C19_CALLERS=" + strconv.Itoa(c.Callers)}
	if c.RefFirst {
		cmd.Env = append(cmd.Env, "VERIF_C19_REFFIRST=1")
	}
	if c.AttrsSet {
		cmd.Env = append(cmd.Env, envAttrs+"="+envStr)
	}
	switch c.SvcMode {
	case "empty":
		cmd.Env = append(cmd.Env, envSvc+"=")
	case "set":
		cmd.Env = append(cmd.Env, envSvc+"="+string(c.Svc))
	}
	if c.Flag != "" {
		cmd.Env = append(cmd.Env, "OTEL_GO_X_RESOURCE="+c.Flag)
	}
	ctxMsg := fmt.Sprintf("%s=%q(set %v) %s=%q(%s) OTEL_GO_X_RESOURCE=%q callers=%d ref_first=%v", envAttrs, envStr, c.AttrsSet, envSvc, c.Svc, c.SvcMode, c.Flag, c.Callers, c.RefFirst)
	outb, err := cmd.CombinedOutput()
	var out childOut
	found := false
	for _, line := range strings.Split(string(outb), "\n") {
		if i := strings.Index(line, childFirstMarker); i >= 0 {
			found = json.Unmarshal([]byte(line[i+len(childFirstMarker):]), &out) == nil
		}
	}
	if err != nil || !found {
		rep.bad("child_failed", "the child process computing resource.Default() failed: %v; %s; output: %s", err, ctxMsg, string(outb))
		return rep.vs, info
	}

	// --- expectation from the case ---
	want := map[string]string{}
	badKeys := map[string]bool{}
	var nGood, nNoEq, nBad, nEmptyKey, nEmpty, firstMalformed, lastMalformed = 0, 0, 0, 0, 0, -1, -1
	for i, p := range c.Pairs {
		switch p.Kind {
		case "good":
			nGood++
			want[string(p.K)] = string(p.V)
			continue
		case "noeq":
			nNoEq++
		case "badesc":
			nBad++
			badKeys[string(p.K)] = true
		case "emptykey":
			nEmptyKey++
		case "empty":
			nEmpty++
		}
		if firstMalformed < 0 {
			firstMalformed = i
		}
		lastMalformed = i
	}
	malformed := nNoEq + nBad + nEmptyKey + nEmpty
	if !c.AttrsSet {
		want, badKeys = map[string]string{}, map[string]bool{}
	}
	def, defKeys := out.Default.model()
	sdk, sdkKeys := out.SDK.model()
	envsdk, envsdkKeys := out.EnvSDK.model()
	flagOn := strings.EqualFold(c.Flag, "true")

	// 1a. every well-formed pair survives, with the generated value
	var wantKeys []string
	for k := range want {
		wantKeys = append(wantKeys, k)
	}
	sort.Strings(wantKeys)
	envBeatsDefaultSvc, envBeatsInstanceID, sdkBeatsEnv := false, false, false
	for _, k := range wantKeys {
		if _, owned := sdk[k]; owned {
			sdkBeatsEnv = sdkBeatsEnv || want[k] != string(sdk[k].V)
			continue // the later telemetry SDK detector wins, see 1c
		}
		if k == svcKey && c.SvcMode == "set" {
			continue // OTEL_SERVICE_NAME wins, see 1b
		}
		envBeatsDefaultSvc = envBeatsDefaultSvc || k == svcKey
		envBeatsInstanceID = envBeatsInstanceID || (k == "service.instance.id" && flagOn)
		got, ok := def[k]
		switch {
		case !ok && malformed > 0:
			rep.bad("default_malformed_pair_costs_good_pair", "Default(): key %q of a well-formed pair is missing although only its neighbours are malformed; Default() = %v; %s", k, renderChild(out.Default), ctxMsg)
		case !ok:
			rep.bad("default_env_value_lost", "Default(): key %q supplied by the environment is missing; Default() = %v; %s", k, renderChild(out.Default), ctxMsg)
		case got.T != attribute.STRING.String() || string(got.V) != want[k]:
			rep.bad("default_env_value_not_lossless", "Default(): key %q = %s %q, the environment supplies the string %q; %s", k, got.T, string(got.V), want[k], ctxMsg)
		}
	}
	// 1b. service name: OTEL_SERVICE_NAME, else the list's, else a default
	gotSvc, hasSvc := def[svcKey]
	envSvcVal, envHasSvc := want[svcKey]
	switch {
	case c.SvcMode == "set":
		if !hasSvc || string(gotSvc.V) != string(c.Svc) {
			rep.bad("default_service_name_precedence", "Default(): service.name = %q (present %v), OTEL_SERVICE_NAME is %q; %s", string(gotSvc.V), hasSvc, string(c.Svc), ctxMsg)
		}
	case envHasSvc:
		// reported by 1a
	default:
		if !hasSvc || !strings.HasPrefix(string(gotSvc.V), "unknown_service") {
			rep.bad("default_service_name", "Default(): service.name = %q (present %v), expected the unknown_service default; %s", string(gotSvc.V), hasSvc, ctxMsg)
		}
	}
	// 1c. the later telemetry SDK detector owns its keys
	if out.SDKErr != "" || len(sdkKeys) == 0 {
		rep.bad("default_sdk_reference", "New(WithTelemetrySDK()) = %v, error %q", renderChild(out.SDK), out.SDKErr)
	}
	for _, k := range sdkKeys {
		if got, ok := def[k]; !ok || got != sdk[k] {
			rep.bad("default_sdk_attrs", "Default(): %q = %q (present %v), the telemetry SDK detector (last in the list) supplies %q; Default() = %v; %s", k, string(got.V), ok, string(sdk[k].V), renderChild(out.Default), ctxMsg)
		}
	}
	if l, n := string(sdk["telemetry.sdk.language"].V), string(sdk["telemetry.sdk.name"].V); l != "go" || n != "opentelemetry" {
		rep.bad("default_sdk_reference", "New(WithTelemetrySDK()): telemetry.sdk.language=%q telemetry.sdk.name=%q", l, n)
	}
	// 1d. service.instance.id
	if _, supplied := want["service.instance.id"]; !supplied && !badKeys["service.instance.id"] {
		id, present := def["service.instance.id"]
		switch {
		case flagOn && (!present || !uuidRe.MatchString(string(id.V))):
			rep.bad("default_instance_id", "Default() with OTEL_GO_X_RESOURCE=%q: service.instance.id = %q (present %v), expected a generated UUID; %s", c.Flag, string(id.V), present, ctxMsg)
		case !flagOn && present:
			rep.bad("default_instance_id", "Default() with OTEL_GO_X_RESOURCE=%q: unexpected service.instance.id %q; %s", c.Flag, string(id.V), ctxMsg)
		}
	}
	// 1e. nothing else
	for _, k := range defKeys {
		_, w := want[k]
		_, s := sdk[k]
		switch {
		case k == "":
			rep.bad("default_empty_key_kept", "Default() holds an empty key; %s", ctxMsg)
		case w || s || k == svcKey || k == "service.instance.id":
		case badKeys[k]:
			if def[k].T != attribute.STRING.String() {
				rep.bad("default_value_not_string", "Default(): key %q has type %s; %s", k, def[k].T, ctxMsg)
			}
		default:
			rep.bad("default_unexpected_key", "Default(): key %q (= %q) was supplied by nobody; %s", k, string(def[k].V), ctxMsg)
		}
	}

	// 2. the documented composition, evaluated through the public API in the
	// same process: default service name -> environment -> telemetry SDK.
	for _, k := range envsdkKeys {
		if got, ok := def[k]; !ok || got != envsdk[k] {
			rep.bad("default_differs_from_composition", "Default(): %q = %s %q (present %v) but New(WithFromEnv(), WithTelemetrySDK()) in the same process has %s %q; Default() = %v; %s", k, got.T, string(got.V), ok, envsdk[k].T, string(envsdk[k].V), renderChild(out.Default), ctxMsg)
		}
	}
	for _, k := range defKeys {
		if _, ok := envsdk[k]; !ok && k != svcKey && k != "service.instance.id" {
			rep.bad("default_differs_from_composition", "Default(): key %q (= %q) is not in New(WithFromEnv(), WithTelemetrySDK()) of the same process; %s", k, string(def[k].V), ctxMsg)
		}
	}
	if out.Default.Schema != out.EnvSDK.Schema && !(out.Default.Schema == "" && out.HandledConflict) {
		rep.bad("default_schema", "Default(): schema URL %q, the composition New(WithFromEnv(), WithTelemetrySDK()) has %q and no schema conflict was reported (handled errors %q); %s", out.Default.Schema, out.EnvSDK.Schema, out.Handled, ctxMsg)
	}

	// 3. one resource for everybody
	if !out.CallersEqual || !out.CallersEquivalent {
		rep.bad("default_first_callers_disagree", "%d goroutines made the first Default() call together and got resources that are not equal (Equal %v, same Equivalent() %v); %s", c.Callers, out.CallersEqual, out.CallersEquivalent, ctxMsg)
	}
	if !out.LaterEqual {
		rep.bad("default_later_call_differs", "a later Default() call differs from the first one; %s", ctxMsg)
	}

	if !out.RebuiltEqual || !out.RebuiltEquivalent {
		rep.bad("default_map_identity", "NewWithAttributes(Default().SchemaURL(), Default().Attributes()...) vs Default(): Equal %v, same Equivalent() %v; Default() = %v; %s", out.RebuiltEqual, out.RebuiltEquivalent, renderChild(out.Default), ctxMsg)
	}

	info.NonTrivial = (malformed > 0 && (nGood > 0 || c.SvcMode == "set")) || escapes > 0 || (c.SvcMode == "set" && envHasSvc && envSvcVal != string(c.Svc)) || sdkBeatsEnv
	info.ClassIf(malformed > 0, "first_Default_under_partial_environment")
	info.ClassIf(malformed > 0 && nGood > 0, "malformed_next_to_good_pairs")
	info.ClassIf(malformed > 0 && c.SvcMode == "set", "malformed_with_OTEL_SERVICE_NAME")
	info.ClassIf(malformed > 0 && nGood == 0 && c.SvcMode != "set", "only_malformed_elements")
	info.ClassIf(malformed > 0 && firstMalformed == 0, "malformed_first")
	info.ClassIf(malformed > 0 && lastMalformed == len(c.Pairs)-1, "malformed_last")
	info.ClassIf(malformed > 0 && firstMalformed > 0 && lastMalformed < len(c.Pairs)-1, "malformed_only_inside")
	info.ClassIf(nNoEq > 0, "element_without_=")
	info.ClassIf(nBad > 0, "invalid_escape")
	info.ClassIf(nEmptyKey > 0, "empty_key")
	info.ClassIf(nEmpty > 0, "empty_element")
	info.ClassIf(malformed == 0 && nGood > 0, "all_well_formed")
	info.ClassIf(!c.AttrsSet, "attrs_unset")
	info.ClassIf(len(c.Pairs) > 8, "list_of_9..48_elements")
	info.ClassIf(out.EnvPartial, "New(WithFromEnv())_reports_partial_resource")
	info.ClassIf(out.HandledPartial, "partial_error_reached_the_error_handler")
	info.ClassIf(out.EnvPartial && !out.HandledPartial, "partial_error_NOT_handled_by_Default(not asserted)")
	info.ClassIf(len(out.Handled) > 0 && !out.HandledPartial, "only_other_errors_handled")
	info.ClassIf(escapes > 0, "percent_escapes>=1")
	info.ClassIf(c.SvcMode == "set" && envHasSvc, "service_name_in_both_variables")
	info.ClassIf(c.SvcMode != "set" && envBeatsDefaultSvc, "list_service.name_over_default("+c.SvcMode+")")
	info.ClassIf(sdkBeatsEnv, "telemetry_sdk_detector_overrides_environment")
	info.ClassIf(flagOn, "experimental_resource_flag_on")
	info.ClassIf(envBeatsInstanceID, "environment_overrides_generated_service.instance.id")
	info.ClassIf(c.Callers > 1, "concurrent_first_callers")
	info.ClassIf(c.Callers > 1 && malformed > 0, "concurrent_first_callers_under_partial_environment")
	info.ClassIf(c.RefFirst, "reference_compositions_before_Default")
	return rep.vs, info
}

func renderChild(r childRes) []string {
	out := make([]string, 0, len(r.Attrs)+1)
	for _, kv := range r.Attrs {
		out = append(out, strconv.Quote(string(kv.K))+"="+strconv.Quote(string(kv.V)))
	}
	return append(out, "schema="+strconv.Quote(r.Schema))
}

func TestDefaultFirstUse(t *testing.T) {
	if os.Getenv("VERIF_C19_CHILD") != "" {
		t.Skip("child mode")
	}
	vk.Run(t, vk.Spec[DefFirstCase]{
		Property: "C19", Check: "default_first_use",
		Rule: "one environment per case: OTEL_RESOURCE_ATTRIBUTES unset or 0..8 (sometimes up to 48) elements of every kind the env check knows (well-formed with hostile values through the reference percent-encoder, no '=', undecodable escape, empty key, empty element) at every position, in three regimes (all / mostly / hardly well-formed), keys fresh or the ones the default detectors produce themselves (service.name, service.instance.id, telemetry.sdk.*); OTEL_SERVICE_NAME unset | empty | set; OTEL_GO_X_RESOURCE unset/true/false/TRUE; " +
			"a fresh child process makes its FIRST resource.Default() call from 1..8 goroutines together, before or after evaluating New(WithFromEnv()), New(WithFromEnv(), WithTelemetrySDK()) and New(WithTelemetrySDK()) there; Default() is compared with the model of the case (only malformed elements missing, OTEL_SERVICE_NAME and the later telemetry SDK detector win, nothing else present) and with the public composition of the same process (attributes and schema URL); " +
			"non-trivial = a malformed element next to a well-formed pair or OTEL_SERVICE_NAME, or >= 1 percent escape, or OTEL_SERVICE_NAME / the SDK detector overriding a different value of the list; distinct = distinct case encodings",
		Quick: 500, Thorough: 6000,
		Gen: genDefFirst, Run: runDefFirst,
	})
}
