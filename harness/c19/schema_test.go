package c19

// Schema URL dimension shared by all generated checks of C19.
//
// The statement quantifies over "any schema URLs" and decides the result of a
// merge by string identity of the two URLs ("the non-empty one, the common
// one, or empty together with a conflict error when the two DIFFER"). A schema
// URL is therefore an opaque string for the oracle: two URLs are common iff
// they are the same string, every other pair of non-empty URLs differs. The
// generator draws, per case, a small pool of URLs so that (a) the same URL on
// two operands is frequent, and (b) NEAR MISSES are frequent: URLs that differ
// by one edit only (a trailing or leading byte such as '/', white space, '#',
// '?', '.', a port, an escape; a dropped byte; letter case). Any
// normalisation, truncation or folding applied at ONE of the places that store
// or compare a schema URL shows as a wrong URL, a spurious conflict or a
// missed conflict.

import (
	"strings"
	"unicode/utf8"

	"pgregory.net/rapid"
)

var (
	schemaBases = []string{
		"https://opentelemetry.io/schemas/1.26.0",
		"https://opentelemetry.io/schemas/1.4.0",
		"http://example.com/schemas",
		"https://s1",
		"https://s2",
		"s",
		"",
	}
	schemaRunes = []rune("abzAZ019:/.?#%-_~@&=+ \t世é")
	schemaFrags = []string{
		"/", "/", "//", " ", "\t", "\n", "\r\n", "#", "?", ".", "/.", "/..", "%2F", "%2f", "%20", ":", ":443",
		"0", "a", "A", " ", "é", "\x00", ",", "=", "\\", "\"",
	}
)

func genSchemaBase(t *rapid.T, label string) string {
	if rapid.IntRange(0, 2).Draw(t, label+".free") == 0 {
		return genRunes(t, label+".runes", schemaRunes, 0, 8)
	}
	return rapid.SampledFrom(schemaBases).Draw(t, label+".base")
}

// editSchema applies one small edit to s.
func editSchema(t *rapid.T, label, s string) string {
	frag := rapid.SampledFrom(schemaFrags).Draw(t, label+".frag")
	switch rapid.IntRange(0, 9).Draw(t, label+".edit") {
	case 0, 1, 2:
		return s + frag
	case 3:
		return frag + s
	case 4:
		if _, n := utf8.DecodeLastRuneInString(s); n > 0 {
			return s[:len(s)-n]
		}
		return s + frag
	case 5:
		if _, n := utf8.DecodeRuneInString(s); n > 0 {
			return s[n:]
		}
		return frag + s
	case 6:
		if u := strings.ToUpper(s); u != s {
			return u
		}
		return strings.ToLower(s)
	case 7:
		if len(s) > 0 {
			at := rapid.IntRange(0, len(s)).Draw(t, label+".at")
			for at < len(s) && !utf8.RuneStart(s[at]) {
				at++
			}
			return s[:at] + frag + s[at:]
		}
		return frag
	case 8:
		if strings.HasPrefix(s, "https://") {
			return "http://" + s[len("https://"):]
		}
		if strings.HasPrefix(s, "http://") {
			return "https://" + s[len("http://"):]
		}
		return s + frag
	}
	return s + frag + frag
}

// genSchemaPool draws the non-empty schema URLs of one case: a base, two
// near misses of it (the second possibly a near miss of the first) and an
// unrelated URL. The pool never holds "" and holds no duplicates.
func genSchemaPool(t *rapid.T, label string) []string {
	base := genSchemaBase(t, label+".b")
	n1 := editSchema(t, label+".n1", base)
	src := base
	if rapid.Bool().Draw(t, label+".chain") {
		src = n1
	}
	n2 := editSchema(t, label+".n2", src)
	other := genSchemaBase(t, label+".o")
	var pool []string
	seen := map[string]bool{"": true}
	for _, s := range []string{base, n1, n2, other} {
		if !utf8.ValidString(s) {
			panic("harness bug: schema generator produced invalid UTF-8")
		}
		if !seen[s] {
			seen[s] = true
			pool = append(pool, s)
		}
	}
	if len(pool) == 0 {
		pool = []string{"https://s1"}
	}
	return pool
}

// pickSchema draws "" or a member of the pool.
func pickSchema(t *rapid.T, label string, pool []string) string {
	i := rapid.IntRange(0, len(pool)+1).Draw(t, label)
	switch {
	case i == 0:
		return ""
	case i > len(pool):
		return pool[0] // the base twice as often: common URLs stay frequent
	}
	return pool[i-1]
}

// pickSchemaBiased prefers a non-empty URL.
func pickSchemaBiased(t *rapid.T, label string, pool []string) string {
	if rapid.IntRange(0, 4).Draw(t, label+".empty") == 0 {
		return ""
	}
	return pickSchema(t, label, pool)
}

// foldSchema is a coarse normal form used for CLASS LABELS only (never by an
// oracle): what a well-meaning normalisation might identify.
func foldSchema(s string) string {
	s = strings.ToLower(strings.TrimSpace(s))
	s = strings.TrimRight(s, "/#?.")
	return s
}

// nearMiss: two different non-empty URLs with the same coarse normal form.
func nearMiss(a, b string) bool {
	return a != "" && b != "" && a != b && foldSchema(a) == foldSchema(b)
}

func schemaClasses(add func(bool, string), ss ...string) {
	for _, s := range ss {
		add(strings.HasSuffix(s, "/"), "schema_url_trailing_slash")
		add(s != "" && s != strings.TrimSpace(s), "schema_url_edge_white_space")
		add(s != "" && foldSchema(s) == "", "schema_url_only_punctuation_or_space")
		add(s != "" && strings.ToLower(s) != s, "schema_url_upper_case")
		add(strings.ContainsAny(s, "#?%"), "schema_url_fragment_query_or_escape")
		add(len(s) != utf8.RuneCountInString(s), "schema_url_multi_byte")
	}
	for i := range ss {
		for j := i + 1; j < len(ss); j++ {
			add(nearMiss(ss[i], ss[j]), "schema_urls_differ_by_one_edit_only")
		}
	}
}
