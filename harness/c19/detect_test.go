package c19

// Check "detect_fold": resource.Detect(ctx, detectors...) and
// resource.New(ctx, [WithSchemaURL], WithDetectors / WithAttributes ...) over
// generated lists of fake detectors.
//
// Documented behaviour the oracle is derived from (auto.go, resource.go):
// detectors are called sequentially in the order given and each produced
// resource is merged INTO the previous result (so later detectors win on
// shared keys); a detector error that wraps ErrPartialResource keeps the
// detector's resource, any other detector error skips that detector's
// resource and is wrapped by the returned error; a schema URL conflict between
// merged resources is reported with an error containing ErrSchemaURLConflict
// and never costs attributes. New starts the fold from an attribute-less
// resource carrying the WithSchemaURL option.
//
// Conservative readings: after a conflict the final schema URL may be "" (what
// the statement says for the conflicting merge) or whatever the pure fold of
// the pairwise rule yields when later detectors carry a URL again; both are
// accepted. Which error values the returned error wraps is asserted only in
// the direction the documentation promises (every non-partial detector error,
// ErrPartialResource when a detector reported a partial resource,
// ErrSchemaURLConflict when the fold conflicts, nil when nothing went wrong).
//
// Hostile caller (path 3, "shared array"): all detectors of the case live in
// ONE caller-owned array with spare capacity. Two option lists are prepared
// up front, as real code does with a shared "common" group: optsA =
// WithDetectors(common...) + a following detector-carrying option, optsB =
// WithDetectors(append(common, rest...)...) + WithAttributes(...), the kv
// lists lent in slices with spare capacity too. The lists are evaluated one after the other, twice, followed by a
// plain Detect over the caller's own slice ("the caller's NEXT call"). Every
// result must be the fold of ITS list as the caller built it: that is the
// statement (exact right-biased union in list order, no attribute lost)
// quantified over "all detector orders"; whether the library wrote into the
// caller's detector array is only recorded as a class label, the assertion
// is the result of the next call. Every resource handed out is fingerprinted
// and re-checked at the end of the case, after the caller has scribbled over
// all slices it lent (Resource is documented as immutable).

import (
	"context"
	"errors"
	"fmt"
	"testing"

	"go.opentelemetry.io/otel/attribute"
	"go.opentelemetry.io/otel/sdk/resource"
	"go.opentelemetry.io/otel/verif/internal/vk"
	"pgregory.net/rapid"
)

// Det describes one fake detector.
type Det struct {
	Res Res `json:"res"`
	// Err: "" | partial (wraps ErrPartialResource) | partial_deep (wraps it
	// twice) | other (an unrelated error).
	Err string `json:"err"`
	// ViaOption: on the New path hand a schemaless, error-free resource over
	// as WithAttributes(kvs...) instead of a detector.
	ViaOption bool `json:"via_option"`
	// Split: on the New path start a new WithDetectors option here.
	Split bool `json:"split"`
	// StrDet: the detector is the library's own resource.StringDetector(
	// Res.Schema, key, fn) for the single string key-value of Res (kind attrs);
	// Err "other" makes fn fail. An empty key makes StringDetector itself
	// report an (unrelated) error and no resource.
	StrDet bool `json:"str_det,omitempty"`
}

// effErr is the error class the detector ends up reporting.
func (d Det) effErr() string {
	if d.StrDet && len(d.Res.KVs) == 1 && d.Res.KVs[0].K == "" {
		return "other"
	}
	return d.Err
}

// DetCase is one detector list.
type DetCase struct {
	Dets      []Det  `json:"dets"`
	SchemaOpt bool   `json:"schema_opt"`
	Schema    string `json:"schema"`
	// shared-array scenario (path 3)
	Spare   int     `json:"spare"`    // free slots of the caller's detector array beyond the full list
	Prefix  int     `json:"prefix"`   // the common group is Dets[:Prefix]
	TailA   []vk.KV `json:"tail_a"`   // kv list of the option following WithDetectors(common...)
	TailB   []vk.KV `json:"tail_b"`   // optsB ends with WithAttributes(TailA ++ TailB)
	TailDet bool    `json:"tail_det"` // the option following common is WithDetectors(one detector) instead of WithAttributes
	NoTailA bool    `json:"no_tail_a"`
}

func genDetect(t *rapid.T) DetCase {
	keys := shortKeys
	switch rapid.IntRange(0, 7).Draw(t, "alphabet") {
	case 0:
		keys = longKeys
	case 1:
		keys = wildKeys
	}
	c := DetCase{}
	n := vk.GenLen(6, 2, 3, 4).Draw(t, "ndets")
	// schema URLs: mostly one URL (so that conflict-free folds with URLs are
	// frequent), sometimes any.
	urls := genSchemaPool(t, "schemas")
	if rapid.Bool().Draw(t, "oneurl") {
		urls = urls[:1]
	}
	strOpts := vk.KVOpts{Keys: keys, EmptyKey: true, InvalidUTF8: true, MaxTextParts: 3}
	for i := 0; i < n; i++ {
		d := Det{}
		d.Res = genRes(t, fmt.Sprintf("d%d", i), keys, 5, urls)
		if d.Res.Kind == "attrs" || d.Res.Kind == "new" {
			d.Res.Schema = pickSchema(t, "schema", urls)
		}
		d.Err = rapid.SampledFrom([]string{"", "", "", "", "partial", "partial_deep", "other", "other"}).Draw(t, "err")
		if rapid.IntRange(0, 5).Draw(t, "str_det") == 0 {
			kv := vk.GenKV(strOpts).Draw(t, "str_det.kv")
			kv = vk.KV{K: kv.K, T: "str", S: vk.Str(vk.GenText(3, true).Draw(t, "str_det.v"))}
			d.StrDet = true
			d.Res = Res{Kind: "attrs", Schema: pickSchema(t, "str_det.schema", urls), KVs: []vk.KV{kv}}
			d.Err = rapid.SampledFrom([]string{"", "", "", "other"}).Draw(t, "str_det.err")
		}
		d.ViaOption = rapid.Bool().Draw(t, "via_option")
		d.Split = rapid.Bool().Draw(t, "split")
		c.Dets = append(c.Dets, d)
	}
	if rapid.IntRange(0, 2).Draw(t, "schema_opt") == 0 {
		c.SchemaOpt = true
		c.Schema = pickSchema(t, "opt_schema", urls)
	}
	c.Spare = rapid.IntRange(0, 2).Draw(t, "spare")
	c.Prefix = rapid.IntRange(0, n).Draw(t, "prefix")
	if n >= 2 && rapid.Bool().Draw(t, "prefix.inner") {
		c.Prefix = rapid.IntRange(1, n-1).Draw(t, "prefix.in")
	}
	c.TailA = genKVList(t, "tail_a", keys, 3)
	c.TailB = genKVList(t, "tail_b", keys, 3)
	c.TailDet = rapid.IntRange(0, 2).Draw(t, "tail_det") == 0
	c.NoTailA = rapid.IntRange(0, 5).Draw(t, "no_tail_a") == 0
	return c
}

type fakeDetector struct {
	idx   int
	res   *resource.Resource
	err   error
	calls *[]int
	inner resource.Detector // when set: log the call and delegate
}

func (d fakeDetector) Detect(ctx context.Context) (*resource.Resource, error) {
	*d.calls = append(*d.calls, d.idx)
	if d.inner != nil {
		return d.inner.Detect(ctx)
	}
	return d.res, d.err
}

// instantiate builds fresh detectors (fresh resources and error values).
func instantiate(c DetCase, calls *[]int) ([]fakeDetector, []error) {
	dets := make([]fakeDetector, len(c.Dets))
	sentinels := make([]error, len(c.Dets))
	for i, d := range c.Dets {
		if d.StrDet && len(d.Res.KVs) == 1 {
			kv := d.Res.KVs[0]
			var ferr error
			if d.Err == "other" {
				sentinels[i] = fmt.Errorf("string source %d failed", i)
				ferr = sentinels[i]
			}
			val := string(kv.S)
			dets[i] = fakeDetector{idx: i, calls: calls, inner: resource.StringDetector(d.Res.Schema, attribute.Key(kv.K), func() (string, error) { return val, ferr })}
			continue
		}
		fd := fakeDetector{idx: i, res: d.Res.build(), calls: calls}
		switch d.Err {
		case "partial":
			fd.err = fmt.Errorf("detector %d: %w", i, resource.ErrPartialResource)
		case "partial_deep":
			fd.err = fmt.Errorf("detector %d: %w", i, fmt.Errorf("%w: missing value", resource.ErrPartialResource))
		case "other":
			sentinels[i] = fmt.Errorf("detector %d failed", i)
			if i%2 == 0 {
				fd.err = sentinels[i]
			} else {
				fd.err = fmt.Errorf("wrapped: %w", sentinels[i])
			}
		}
		dets[i] = fd
	}
	return dets, sentinels
}

// tailIdx is the call-log identity of the detector carrying a tail kv list.
const tailIdx = 100

// planItem is one element of a detector list as the caller built it.
type planItem struct {
	idx    int // index into DetCase.Dets, or tailIdx
	det    Det
	silent bool // handed over as WithAttributes: its call is not observable
}

// expectation is what the statement and the documentation promise for a plan.
type expectation struct {
	model           rmodel
	conflict        bool
	overlapDiff     bool
	ambiguous       bool // constructor ambiguity (package comment): attributes not asserted
	nOther          int
	nPartial        int
	others          []int // indices of detectors with an unrelated error
	calls           []int
	failingInMiddle bool
}

func expect(plan []planItem, start rmodel) expectation {
	e := expectation{model: start}
	for i, it := range plan {
		d := it.det
		if !it.silent {
			e.calls = append(e.calls, it.idx)
		}
		derr := d.effErr()
		switch derr {
		case "other":
			e.nOther++
			e.others = append(e.others, it.idx)
		case "partial", "partial_deep":
			e.nPartial++
		}
		if derr != "" && i < len(plan)-1 {
			e.failingInMiddle = true
		}
		if derr == "other" || d.Res.Kind == "nil" {
			continue
		}
		cm := newCtorModel(vk.ToAttrs(d.Res.KVs))
		if len(cm.maybe) > 0 {
			e.ambiguous = true
		}
		dm := rmodel{cm.strict, d.Res.schema()}
		df, _ := overlap(e.model.attrs, dm.attrs)
		e.overlapDiff = e.overlapDiff || df
		var cf bool
		e.model, cf = mergeModel(e.model, dm)
		e.conflict = e.conflict || cf
	}
	return e
}

func fingerprint(r *resource.Resource) string {
	return fmt.Sprintf("%q|%v", r.SchemaURL(), renderSlice(r.Attributes()))
}

func runDetect(c DetCase) ([]vk.Violation, vk.Info) {
	rep := &reporter{}
	var info vk.Info
	ctx := context.Background()

	type held struct {
		label string
		r     *resource.Resource
		fp    string
	}
	var handedOut []held

	verify := func(label string, r *resource.Resource, err error, e expectation, calls []int, sentinels []error) {
		handedOut = append(handedOut, held{label, r, fingerprint(r)})
		if r == nil {
			rep.bad("detect_nil_resource", "%s: returned a nil resource (err = %v)", label, err)
		}
		if !e.ambiguous {
			if want, have := e.model.attrs.render(), renderSlice(r.Attributes()); !sameStrings(have, want) {
				rep.bad("detect_fold", "%s: attributes %v, left fold of Merge over the kept detectors of the list as the caller built it %v", label, have, want)
			}
		}
		if e.conflict {
			if err == nil || !errors.Is(err, resource.ErrSchemaURLConflict) {
				rep.bad("detect_conflict_not_reported", "%s: the fold meets conflicting schema URLs, error = %v", label, err)
			}
			if s := r.SchemaURL(); s != "" && s != e.model.schema {
				rep.bad("detect_schema", "%s: schema URL %q after a conflict, want \"\" or %q", label, s, e.model.schema)
			}
		} else if r.SchemaURL() != e.model.schema {
			rep.bad("detect_schema", "%s: schema URL %q, fold %q", label, r.SchemaURL(), e.model.schema)
		}
		for _, i := range e.others {
			if s := sentinels[i]; s != nil && (err == nil || !errors.Is(err, s)) {
				rep.bad("detect_error_not_wrapped", "%s: the error of detector %d is not wrapped by the returned error %v", label, i, err)
			}
		}
		if e.nPartial > 0 && (err == nil || !errors.Is(err, resource.ErrPartialResource)) {
			rep.bad("detect_partial_not_reported", "%s: a detector reported a partial resource, returned error = %v", label, err)
		}
		if e.nPartial == 0 && e.nOther == 0 && !e.conflict && err != nil {
			rep.bad("detect_spurious_error", "%s: no detector failed and no schema URL conflict, error = %v", label, err)
		}
		if fmt.Sprint(calls) != fmt.Sprint(e.calls) {
			rep.bad("detect_call_order", "%s: detectors called in order %v, want each once in order %v", label, calls, e.calls)
		}
		checkAccessors(rep, label, r, rmodel{modelOfSlice(r.Attributes()), r.SchemaURL()})
	}

	full := make([]planItem, len(c.Dets))
	for i, d := range c.Dets {
		full[i] = planItem{idx: i, det: d}
	}
	junk := fakeDetector{idx: -99, res: resource.NewSchemaless(attribute.String("scribbled.by.caller", "x")), calls: new([]int)}
	var scribbles []func()

	// --- path 1: Detect (list lent with spare capacity) ---
	var calls1 []int
	dets1, sent1 := instantiate(c, &calls1)
	list := make([]resource.Detector, len(dets1), len(dets1)+1+c.Spare)
	for i := range dets1 {
		list[i] = dets1[i]
	}
	r1, err1 := resource.Detect(ctx, list...)
	e1 := expect(full, rmodel{newAttrModel(), ""})
	verify("Detect", r1, err1, e1, calls1, sent1)
	for i := range list[:cap(list)] {
		list[:cap(list)][i] = junk
	}

	// --- path 2: New, options split ---
	var calls2 []int
	dets2, sent2 := instantiate(c, &calls2)
	var opts []resource.Option
	start := rmodel{newAttrModel(), ""}
	schemaFirst := len(c.Dets)%2 == 0
	if c.SchemaOpt {
		start.schema = c.Schema
		if schemaFirst {
			opts = append(opts, resource.WithSchemaURL(c.Schema))
		}
	}
	var group []resource.Detector
	flush := func() {
		if len(group) > 0 {
			opts = append(opts, resource.WithDetectors(group...))
			group = nil
		}
	}
	viaOption := false
	plan2 := make([]planItem, len(full))
	copy(plan2, full)
	for i, d := range c.Dets {
		if d.ViaOption && d.Err == "" && d.Res.Kind == "schemaless" {
			// WithAttributes(kvs...) stands for a detector returning
			// (NewSchemaless(kvs...), nil); its call is not observable.
			flush()
			buf, scribble := lend(d.Res.KVs)
			scribbles = append(scribbles, scribble)
			opts = append(opts, resource.WithAttributes(buf...))
			viaOption = true
			plan2[i].silent = true
			continue
		}
		if d.Split {
			flush()
		}
		group = append(group, dets2[i])
	}
	flush()
	if c.SchemaOpt && !schemaFirst {
		opts = append(opts, resource.WithSchemaURL(c.Schema))
	}
	r2, err2 := resource.New(ctx, opts...)
	e2 := expect(plan2, start)
	verify("New", r2, err2, e2, calls2, sent2)

	if !c.SchemaOpt {
		if !sameStrings(renderSlice(r1.Attributes()), renderSlice(r2.Attributes())) || r1.SchemaURL() != r2.SchemaURL() || !r1.Equal(r2) {
			rep.bad("detect_vs_new", "Detect = %v / %q, New(WithDetectors) = %v / %q", renderSlice(r1.Attributes()), r1.SchemaURL(), renderSlice(r2.Attributes()), r2.SchemaURL())
		}
	}

	// --- path 3: two option lists sharing the caller's arrays ---
	prefix := c.Prefix
	if prefix > len(c.Dets) {
		prefix = len(c.Dets)
	}
	if prefix < 0 {
		prefix = 0
	}
	var calls3 []int
	dets3, sent3 := instantiate(c, &calls3)
	arr := make([]resource.Detector, 0, len(dets3)+c.Spare)
	for i := 0; i < prefix; i++ {
		arr = append(arr, dets3[i])
	}
	common := arr
	all := common
	for i := prefix; i < len(dets3); i++ {
		all = append(all, dets3[i]) // same backing array: cap(arr) >= len(dets3)
	}
	// The kv lists of the two WithAttributes options live in separate
	// caller-owned arrays with spare capacity: the constructors reorder the
	// slice they are given (documented by package attribute), so a longer list
	// sharing the array would legitimately rearrange the shorter one between
	// two evaluations of optsA. (merge_algebra covers the shared kv array in
	// the one order that is well defined: shorter list first, once.)
	tailAB := append(cloneKVs(c.TailA), c.TailB...)
	kvA, scribbleA := lend(c.TailA)
	kvB := make([]attribute.KeyValue, len(tailAB), len(tailAB)+2)
	copy(kvB, vk.ToAttrs(tailAB))
	tailDetA := Det{Res: Res{Kind: "schemaless", KVs: c.TailA}}
	tailDetB := Det{Res: Res{Kind: "schemaless", KVs: tailAB}}

	optsA := []resource.Option{resource.WithDetectors(common...)}
	planA := append([]planItem{}, full[:prefix]...)
	switch {
	case c.NoTailA:
	case c.TailDet:
		optsA = append(optsA, resource.WithDetectors(fakeDetector{idx: tailIdx, res: tailDetA.Res.build(), calls: &calls3}))
		planA = append(planA, planItem{idx: tailIdx, det: tailDetA})
	default:
		optsA = append(optsA, resource.WithAttributes(kvA...))
		planA = append(planA, planItem{idx: tailIdx, det: tailDetA, silent: true})
	}
	optsB := []resource.Option{resource.WithDetectors(all...), resource.WithAttributes(kvB...)}
	planB := append(append([]planItem{}, full...), planItem{idx: tailIdx, det: tailDetB, silent: true})
	eA, eB := expect(planA, rmodel{newAttrModel(), ""}), expect(planB, rmodel{newAttrModel(), ""})

	identities := func() string {
		var ids []int
		for _, d := range all {
			if fd, ok := d.(fakeDetector); ok {
				ids = append(ids, fd.idx)
			} else {
				ids = append(ids, -1)
			}
		}
		return fmt.Sprint(ids)
	}
	builtIDs := identities()
	for round := 1; round <= 2; round++ {
		calls3 = nil
		rA, errA := resource.New(ctx, optsA...)
		verify(fmt.Sprintf("shared array, New(optsA) #%d", round), rA, errA, eA, calls3, sent3)
		calls3 = nil
		rB, errB := resource.New(ctx, optsB...)
		verify(fmt.Sprintf("shared array, New(optsB) after New(optsA) #%d", round), rB, errB, eB, calls3, sent3)
	}
	// the caller's next use of its own slice
	calls3 = nil
	rN, errN := resource.Detect(ctx, all...)
	verify("shared array, Detect(caller's slice) after the New calls", rN, errN, e1, calls3, sent3)
	callerSliceChanged := identities() != builtIDs

	// --- the caller scribbles over everything it lent; nothing handed out may change ---
	for i := range arr[:cap(arr)] {
		arr[:cap(arr)][i] = junk
	}
	scribbleA()
	for i := range kvB[:cap(kvB)] {
		kvB[:cap(kvB)][i] = attribute.String("scribbled.by.caller", "x")
	}
	for _, f := range scribbles {
		f()
	}
	for _, h := range handedOut {
		if fp := fingerprint(h.r); fp != h.fp {
			rep.bad("retained_resource_changed", "%s: the resource handed out was %s and is now %s", h.label, h.fp, fp)
		}
	}

	info.NonTrivial = e1.overlapDiff || e1.failingInMiddle
	info.ClassIf(e1.overlapDiff, "later_detector_overrides_key")
	info.ClassIf(e1.failingInMiddle, "failing_detector_not_last")
	info.ClassIf(e1.nOther > 0, "detector_error_other")
	info.ClassIf(e1.nPartial > 0, "detector_error_partial")
	info.ClassIf(e1.nOther > 0 && e1.nPartial > 0, "both_error_kinds")
	info.ClassIf(e1.nOther >= 2, ">=2_other_errors")
	info.ClassIf(e1.conflict, "schema_conflict_between_detectors")
	info.ClassIf(e2.conflict && !e1.conflict, "schema_conflict_with_WithSchemaURL")
	info.ClassIf(!e1.conflict && r1.SchemaURL() != "", "schema_url_propagated")
	info.ClassIf(e1.ambiguous, "ctor_ambiguity(attributes not asserted)")
	info.ClassIf(viaOption, "WithAttributes_option")
	info.ClassIf(c.SchemaOpt, "WithSchemaURL_option")
	info.ClassIf(len(c.Dets) == 0, "no_detectors")
	inner := prefix >= 1 && prefix < len(c.Dets)
	info.ClassIf(inner && !c.NoTailA, "shared_array:common_prefix_then_option,longer_list_prepared_before")
	if inner && !c.NoTailA && !eB.ambiguous {
		// would the longer list's result differ if the slot after the common
		// group were replaced by optsA's tail detector?
		alt := append([]planItem{}, planB...)
		alt[prefix] = planItem{idx: tailIdx, det: tailDetA}
		info.ClassIf(!expect(alt, rmodel{newAttrModel(), ""}).model.attrs.bitEqual(eB.model.attrs), "shared_array:slot_after_common_matters")
	}
	info.ClassIf(prefix == 0, "shared_array:empty_common_group")
	info.ClassIf(prefix == len(c.Dets), "shared_array:common_is_whole_list")
	info.ClassIf(c.TailDet && !c.NoTailA, "shared_array:following_option_is_WithDetectors")
	info.ClassIf(!c.TailDet && !c.NoTailA, "shared_array:following_option_is_WithAttributes")
	info.ClassIf(callerSliceChanged, "caller_detector_slice_changed(not asserted)")
	var urlsUsed []string
	if c.SchemaOpt {
		urlsUsed = append(urlsUsed, c.Schema)
	}
	for _, d := range c.Dets {
		urlsUsed = append(urlsUsed, d.Res.schema())
		info.ClassIf(d.StrDet, "resource.StringDetector")
		info.ClassIf(d.StrDet && d.effErr() == "other", "resource.StringDetector_fails")
		info.ClassIf(d.StrDet && d.effErr() == "" && c.SchemaOpt && c.Schema != "" && c.Schema == d.Res.Schema, "StringDetector_and_WithSchemaURL_same_url")
		info.ClassIf(d.Res.Kind == "new", "detector_resource_from_New(WithSchemaURL)")
		info.ClassIf(d.Res.Kind == "nil" && d.Err == "", "detector_returns_(nil,nil)")
		info.ClassIf(d.Res.Kind == "nil" && d.Err != "", "detector_returns_(nil,err)")
		info.ClassIf(d.Res.Kind != "nil" && d.Err == "other" && len(d.Res.KVs) > 0, "skipped_resource_has_attributes")
		info.ClassIf(d.Res.Kind != "nil" && (d.Err == "partial" || d.Err == "partial_deep") && len(d.Res.KVs) > 0, "partial_resource_has_attributes")
	}
	schemaClasses(info.ClassIf, urlsUsed...)
	return rep.vs, dedupe(info)
}

func TestDetectFold(t *testing.T) {
	vk.Run(t, vk.Spec[DetCase]{
		Property: "C19", Check: "detect_fold",
		Rule: "lists of 0..6 fake detectors, each returning nil | Empty() | a resource built from a generated kv list with a schema URL (\"\" or one of a per-case pool of opaque strings with near misses, see schema_test.go; built by NewWithAttributes or New(WithSchemaURL...)), or the library's resource.StringDetector(url, key, fn), together with no error | an error wrapping ErrPartialResource (once or twice) | an unrelated error; " +
			"run through resource.Detect and through resource.New (options split into several WithDetectors / WithAttributes, optional WithSchemaURL before or after), " +
			"and as a hostile caller: all detectors in one caller-owned array with spare capacity, optsA = WithDetectors(common prefix) + a following WithAttributes / WithDetectors option and " +
			"optsB = WithDetectors(append(common, rest...)) + WithAttributes prepared up front, evaluated A, B, A, B, then Detect over the caller's slice; " +
			"all lent slices are scribbled over at the end and every resource handed out is re-checked; " +
			"non-trivial = a kept detector overrides a key of an earlier one with a different value, or a failing detector is followed by another detector; distinct = distinct case encodings",
		Quick: 30000, Thorough: 500000,
		Gen: genDetect, Run: runDetect,
	})
}
