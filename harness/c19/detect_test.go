package c19

// Check "detect_fold": resource.Detect(ctx, detectors...) and
// resource.New(ctx, [WithSchemaURL], WithDetectors / WithAttributes ...) over
// generated lists of fake detectors.
//
// Documented behaviour the oracle is derived from (auto.go, resource.go):
// detectors are called sequentially in the order given and each produced
// resource is merged INTO the previous result (so later detectors win on
// shared keys); a detector error that wraps ErrPartialResource keeps the
// detector's resource, any other detector error skips that detector's
// resource and is wrapped by the returned error; a schema URL conflict between
// merged resources is reported with an error containing ErrSchemaURLConflict
// and never costs attributes. New starts the fold from an attribute-less
// resource carrying the WithSchemaURL option.
//
// Conservative readings: after a conflict the final schema URL may be "" (what
// the statement says for the conflicting merge) or whatever the pure fold of
// the pairwise rule yields when later detectors carry a URL again; both are
// accepted. Which error values the returned error wraps is asserted only in
// the direction the documentation promises (every non-partial detector error,
// ErrPartialResource when a detector reported a partial resource,
// ErrSchemaURLConflict when the fold conflicts, nil when nothing went wrong).

import (
	"context"
	"errors"
	"fmt"
	"testing"

	"go.opentelemetry.io/otel/sdk/resource"
	"go.opentelemetry.io/otel/verif/internal/vk"
	"pgregory.net/rapid"
)

// Det describes one fake detector.
type Det struct {
	Res Res `json:"res"`
	// Err: "" | partial (wraps ErrPartialResource) | partial_deep (wraps it
	// twice) | other (an unrelated error).
	Err string `json:"err"`
	// ViaOption: on the New path hand a schemaless, error-free resource over
	// as WithAttributes(kvs...) instead of a detector.
	ViaOption bool `json:"via_option"`
	// Split: on the New path start a new WithDetectors option here.
	Split bool `json:"split"`
}

// DetCase is one detector list.
type DetCase struct {
	Dets      []Det  `json:"dets"`
	SchemaOpt bool   `json:"schema_opt"`
	Schema    string `json:"schema"`
}

func genDetect(t *rapid.T) DetCase {
	keys := shortKeys
	if rapid.IntRange(0, 5).Draw(t, "longalpha") == 0 {
		keys = longKeys
	}
	c := DetCase{}
	n := vk.GenLen(6, 2, 3, 4).Draw(t, "ndets")
	// schema URLs: mostly one URL (so that conflict-free folds with URLs are
	// frequent), sometimes any.
	urls := schemas
	if rapid.Bool().Draw(t, "oneurl") {
		urls = []string{"", rapid.SampledFrom(schemas[1:]).Draw(t, "url")}
	}
	for i := 0; i < n; i++ {
		d := Det{}
		d.Res = genRes(t, fmt.Sprintf("d%d", i), keys, 5)
		if d.Res.Kind == "attrs" {
			d.Res.Schema = rapid.SampledFrom(urls).Draw(t, "schema")
		}
		d.Err = rapid.SampledFrom([]string{"", "", "", "", "partial", "partial_deep", "other", "other"}).Draw(t, "err")
		d.ViaOption = rapid.Bool().Draw(t, "via_option")
		d.Split = rapid.Bool().Draw(t, "split")
		c.Dets = append(c.Dets, d)
	}
	if rapid.IntRange(0, 2).Draw(t, "schema_opt") == 0 {
		c.SchemaOpt = true
		c.Schema = rapid.SampledFrom(urls).Draw(t, "opt_schema")
	}
	return c
}

type fakeDetector struct {
	idx   int
	res   *resource.Resource
	err   error
	calls *[]int
}

func (d fakeDetector) Detect(context.Context) (*resource.Resource, error) {
	*d.calls = append(*d.calls, d.idx)
	return d.res, d.err
}

// instantiate builds fresh detectors (fresh resources and error values).
func instantiate(c DetCase, calls *[]int) ([]fakeDetector, []error) {
	dets := make([]fakeDetector, len(c.Dets))
	sentinels := make([]error, len(c.Dets))
	for i, d := range c.Dets {
		fd := fakeDetector{idx: i, res: d.Res.build(), calls: calls}
		switch d.Err {
		case "partial":
			fd.err = fmt.Errorf("detector %d: %w", i, resource.ErrPartialResource)
		case "partial_deep":
			fd.err = fmt.Errorf("detector %d: %w", i, fmt.Errorf("%w: missing value", resource.ErrPartialResource))
		case "other":
			sentinels[i] = fmt.Errorf("detector %d failed", i)
			if i%2 == 0 {
				fd.err = sentinels[i]
			} else {
				fd.err = fmt.Errorf("wrapped: %w", sentinels[i])
			}
		}
		dets[i] = fd
	}
	return dets, sentinels
}

func runDetect(c DetCase) ([]vk.Violation, vk.Info) {
	rep := &reporter{}
	var info vk.Info
	ctx := context.Background()

	// --- model: left fold of the merge model over the kept detectors ---
	fold := func(start rmodel) (rmodel, bool, bool, bool) {
		acc := start
		conflict, overlapDiff, overlapAny := false, false, false
		for _, d := range c.Dets {
			if d.Err == "other" || d.Res.Kind == "nil" {
				continue
			}
			dm := rmodel{newCtorModel(vk.ToAttrs(d.Res.KVs)).strict, d.Res.schema()}
			df, sm := overlap(acc.attrs, dm.attrs)
			overlapDiff = overlapDiff || df
			overlapAny = overlapAny || df || sm
			var cf bool
			acc, cf = mergeModel(acc, dm)
			conflict = conflict || cf
		}
		return acc, conflict, overlapDiff, overlapAny
	}
	ambiguous := false
	nOther, nPartial := 0, 0
	failingInMiddle := false
	for i, d := range c.Dets {
		if len(newCtorModel(vk.ToAttrs(d.Res.KVs)).maybe) > 0 && d.Err != "other" && d.Res.Kind != "nil" {
			ambiguous = true // constructor ambiguity (see package comment): checked by merge_algebra, skipped here
		}
		switch d.Err {
		case "other":
			nOther++
		case "partial", "partial_deep":
			nPartial++
		}
		if d.Err != "" && i < len(c.Dets)-1 {
			failingInMiddle = true
		}
	}

	check := func(label string, r *resource.Resource, err error, start rmodel, calls, wantCalls []int, sentinels []error) (bool, bool) {
		wm, conflict, overlapDiff, _ := fold(start)
		if r == nil {
			rep.bad("detect_nil_resource", "%s: returned a nil resource (err = %v)", label, err)
		}
		if !ambiguous {
			if want, have := wm.attrs.render(), renderSlice(r.Attributes()); !sameStrings(have, want) {
				rep.bad("detect_fold", "%s: attributes %v, left fold of Merge over the kept detectors %v", label, have, want)
			}
		}
		if conflict {
			if err == nil || !errors.Is(err, resource.ErrSchemaURLConflict) {
				rep.bad("detect_conflict_not_reported", "%s: the fold meets conflicting schema URLs, error = %v", label, err)
			}
			if s := r.SchemaURL(); s != "" && s != wm.schema {
				rep.bad("detect_schema", "%s: schema URL %q after a conflict, want \"\" or %q", label, s, wm.schema)
			}
		} else if r.SchemaURL() != wm.schema {
			rep.bad("detect_schema", "%s: schema URL %q, fold %q", label, r.SchemaURL(), wm.schema)
		}
		for i, s := range sentinels {
			if s != nil && (err == nil || !errors.Is(err, s)) {
				rep.bad("detect_error_not_wrapped", "%s: the error of detector %d is not wrapped by the returned error %v", label, i, err)
			}
		}
		if nPartial > 0 && (err == nil || !errors.Is(err, resource.ErrPartialResource)) {
			rep.bad("detect_partial_not_reported", "%s: a detector reported a partial resource, returned error = %v", label, err)
		}
		if nPartial == 0 && nOther == 0 && !conflict && err != nil {
			rep.bad("detect_spurious_error", "%s: no detector failed and no schema URL conflict, error = %v", label, err)
		}
		if fmt.Sprint(calls) != fmt.Sprint(wantCalls) {
			rep.bad("detect_call_order", "%s: detectors called in order %v, want each once in order %v", label, calls, wantCalls)
		}
		checkAccessors(rep, label, r, rmodel{modelOfSlice(r.Attributes()), r.SchemaURL()})
		return conflict, overlapDiff
	}

	// --- path 1: Detect ---
	var calls1 []int
	dets1, sent1 := instantiate(c, &calls1)
	list := make([]resource.Detector, len(dets1))
	for i := range dets1 {
		list[i] = dets1[i]
	}
	r1, err1 := resource.Detect(ctx, list...)
	wantCalls1 := make([]int, len(c.Dets))
	for i := range wantCalls1 {
		wantCalls1[i] = i
	}
	conflict, overlapDiff := check("Detect", r1, err1, rmodel{newAttrModel(), ""}, calls1, wantCalls1, sent1)

	// --- path 2: New ---
	var calls2 []int
	dets2, sent2 := instantiate(c, &calls2)
	var opts []resource.Option
	start := rmodel{newAttrModel(), ""}
	schemaFirst := len(c.Dets)%2 == 0
	if c.SchemaOpt {
		start.schema = c.Schema
		if schemaFirst {
			opts = append(opts, resource.WithSchemaURL(c.Schema))
		}
	}
	var group []resource.Detector
	flush := func() {
		if len(group) > 0 {
			opts = append(opts, resource.WithDetectors(group...))
			group = nil
		}
	}
	viaOption := false
	var wantCalls2 []int
	for i, d := range c.Dets {
		if d.ViaOption && d.Err == "" && d.Res.Kind == "schemaless" {
			// WithAttributes(kvs...) stands for a detector returning
			// (NewSchemaless(kvs...), nil); its call is not observable.
			flush()
			opts = append(opts, resource.WithAttributes(vk.ToAttrs(d.Res.KVs)...))
			viaOption = true
			continue
		}
		if d.Split {
			flush()
		}
		group = append(group, dets2[i])
		wantCalls2 = append(wantCalls2, i)
	}
	flush()
	if c.SchemaOpt && !schemaFirst {
		opts = append(opts, resource.WithSchemaURL(c.Schema))
	}
	r2, err2 := resource.New(ctx, opts...)
	conflict2, _ := check("New", r2, err2, start, calls2, wantCalls2, sent2)

	if !c.SchemaOpt {
		if !sameStrings(renderSlice(r1.Attributes()), renderSlice(r2.Attributes())) || r1.SchemaURL() != r2.SchemaURL() || !r1.Equal(r2) {
			rep.bad("detect_vs_new", "Detect = %v / %q, New(WithDetectors) = %v / %q", renderSlice(r1.Attributes()), r1.SchemaURL(), renderSlice(r2.Attributes()), r2.SchemaURL())
		}
	}

	info.NonTrivial = overlapDiff || failingInMiddle
	info.ClassIf(overlapDiff, "later_detector_overrides_key")
	info.ClassIf(failingInMiddle, "failing_detector_not_last")
	info.ClassIf(nOther > 0, "detector_error_other")
	info.ClassIf(nPartial > 0, "detector_error_partial")
	info.ClassIf(nOther > 0 && nPartial > 0, "both_error_kinds")
	info.ClassIf(nOther >= 2, ">=2_other_errors")
	info.ClassIf(conflict, "schema_conflict_between_detectors")
	info.ClassIf(conflict2 && !conflict, "schema_conflict_with_WithSchemaURL")
	info.ClassIf(!conflict && r1.SchemaURL() != "", "schema_url_propagated")
	info.ClassIf(ambiguous, "ctor_ambiguity(attributes not asserted)")
	info.ClassIf(viaOption, "WithAttributes_option")
	info.ClassIf(c.SchemaOpt, "WithSchemaURL_option")
	info.ClassIf(len(c.Dets) == 0, "no_detectors")
	for _, d := range c.Dets {
		info.ClassIf(d.Res.Kind == "nil" && d.Err == "", "detector_returns_(nil,nil)")
		info.ClassIf(d.Res.Kind == "nil" && d.Err != "", "detector_returns_(nil,err)")
		info.ClassIf(d.Res.Kind != "nil" && d.Err == "other" && len(d.Res.KVs) > 0, "skipped_resource_has_attributes")
		info.ClassIf(d.Res.Kind != "nil" && (d.Err == "partial" || d.Err == "partial_deep") && len(d.Res.KVs) > 0, "partial_resource_has_attributes")
	}
	return rep.vs, dedupe(info)
}

func TestDetectFold(t *testing.T) {
	vk.Run(t, vk.Spec[DetCase]{
		Property: "C19", Check: "detect_fold",
		Rule: "lists of 0..6 fake detectors, each returning nil | Empty() | a resource built from a generated kv list with a schema URL, together with no error | an error wrapping ErrPartialResource (once or twice) | an unrelated error; " +
			"run through resource.Detect and through resource.New (options split into several WithDetectors / WithAttributes, optional WithSchemaURL before or after); " +
			"non-trivial = a kept detector overrides a key of an earlier one with a different value, or a failing detector is followed by another detector; distinct = distinct case encodings",
		Quick: 50000, Thorough: 600000,
		Gen: genDetect, Run: runDetect,
	})
}
