package c19

// Check "env": OTEL_RESOURCE_ATTRIBUTES / OTEL_SERVICE_NAME.
//
// What the sources promise and what is therefore asserted:
//
//   - OpenTelemetry resource SDK specification: OTEL_RESOURCE_ATTRIBUTES is a
//     W3C-Baggage-like list "key1=value1,key2=value2"; "all attribute values
//     MUST be considered strings and characters outside the baggage-octet
//     range MUST be percent-encoded". The reference encoder below therefore
//     percent-encodes every byte of a VALUE that is outside baggage-octet
//     (and '%' itself), optionally more (any byte may be written as %XX, hex
//     digits of either case). '=' and '+' are baggage-octets and may appear
//     raw in a value. Optional whitespace (space / tab, the OWS of the Baggage
//     grammar) may surround keys, values and pairs. The decoded value must
//     equal the generated one byte for byte (also when it is not valid UTF-8
//     or starts / ends with white space that was percent-encoded).
//   - KEYS are Baggage tokens and are not percent-encoded by the
//     specification; the generator draws them from token characters and a few
//     multi-byte runes, never '%', ',', '=', white space. They must come back
//     verbatim.
//   - OTEL_SERVICE_NAME "sets the value of the service.name resource
//     attribute" and "takes precedence" over service.name in
//     OTEL_RESOURCE_ATTRIBUTES; an empty variable counts as unset.
//   - Detector documentation: invalid source information is omitted and
//     reported with a wrapped ErrPartialResource, the valid parts are used. A
//     pair without '=' must therefore yield an error satisfying
//     errors.Is(err, ErrPartialResource) and must not cost any well-formed
//     pair. For a value with an invalid escape ("%zz") nothing is documented
//     about the value; asserted is only: the key is kept with some value, or
//     the pair is dropped AND the error is a partial-resource error (never a
//     silent loss), and the well-formed pairs are unaffected. For an empty
//     key: the pair is dropped ("keep only valid keys"); an empty list element
//     (",,") is not asserted to be an error or not.
//   - When every element is well-formed, no error is returned.

import (
	"context"
	"errors"
	"fmt"
	"os"
	"strconv"
	"strings"
	"testing"
	"unicode/utf8"

	"go.opentelemetry.io/otel"
	"go.opentelemetry.io/otel/attribute"
	"go.opentelemetry.io/otel/sdk/resource"
	"go.opentelemetry.io/otel/verif/internal/vk"
	"pgregory.net/rapid"
)

func init() {
	// env.go reports undecodable values through the global error handler;
	// keep the log of the child process quiet.
	otel.SetErrorHandler(otel.ErrorHandlerFunc(func(error) {}))
}

const (
	envAttrs = "OTEL_RESOURCE_ATTRIBUTES"
	envSvc   = "OTEL_SERVICE_NAME"
	svcKey   = "service.name"
)

// EnvPair is one list element of OTEL_RESOURCE_ATTRIBUTES.
type EnvPair struct {
	Kind  string   `json:"kind"` // good | noeq | badesc | emptykey | empty
	K     vk.Str   `json:"k"`
	V     vk.Str   `json:"v"`   // good, emptykey: the decoded value; badesc: raw text with an invalid escape
	Enc   int      `json:"enc"` // 0 mandatory bytes only, 1 every byte, 2 mandatory + Mask
	Mask  []bool   `json:"mask,omitempty"`
	Lower bool     `json:"lower"` // hex digits in lower case
	Pad   []string `json:"pad"`   // white space: before key, after key, before value, after value
}

// EnvCase is one environment.
type EnvCase struct {
	AttrsSet  bool      `json:"attrs_set"`
	Pairs     []EnvPair `json:"pairs"`
	Outer     []string  `json:"outer"`    // white space around the whole variable
	SvcMode   string    `json:"svc_mode"` // unset | empty | set
	Svc       vk.Str    `json:"svc"`
	SchemaOpt bool      `json:"schema_opt"`
	Schema    string    `json:"schema"`
	// Neighbours of the environment detector: New(WithAttributes(Pre...),
	// WithFromEnv(), WithAttributes(Post...)). String key-values whose keys are
	// drawn from the keys of the environment's pairs, service.name and fresh keys.
	Pre  []vk.KV `json:"pre,omitempty"`
	Post []vk.KV `json:"post,omitempty"`
}

// --- reference percent-encoder ----------------------------------------

// isBaggageOctet is the baggage-octet production of the W3C Baggage grammar:
// %x21 / %x23-2B / %x2D-3A / %x3C-5B / %x5D-7E.
func isBaggageOctet(b byte) bool {
	return b == 0x21 || (b >= 0x23 && b <= 0x2B) || (b >= 0x2D && b <= 0x3A) || (b >= 0x3C && b <= 0x5B) || (b >= 0x5D && b <= 0x7E)
}

// refEncode percent-encodes s: every byte outside baggage-octet and '%'
// itself, plus the bytes selected by extra. It returns the number of escapes.
func refEncode(s string, extra func(i int) bool, lower bool) (string, int) {
	const up, lo = "0123456789ABCDEF", "0123456789abcdef"
	digits := up
	if lower {
		digits = lo
	}
	var sb strings.Builder
	n := 0
	for i := 0; i < len(s); i++ {
		b := s[i]
		if b == '%' || !isBaggageOctet(b) || (extra != nil && extra(i)) {
			sb.WriteByte('%')
			sb.WriteByte(digits[b>>4])
			sb.WriteByte(digits[b&15])
			n++
			continue
		}
		sb.WriteByte(b)
	}
	return sb.String(), n
}

func (p EnvPair) pad(i int) string {
	if i < len(p.Pad) {
		return p.Pad[i]
	}
	return ""
}

func (p EnvPair) encodedValue() (string, int) {
	switch p.Enc {
	case 1:
		return refEncode(string(p.V), func(int) bool { return true }, p.Lower)
	case 2:
		return refEncode(string(p.V), func(i int) bool { return i < len(p.Mask) && p.Mask[i] }, p.Lower)
	}
	return refEncode(string(p.V), nil, p.Lower)
}

func (p EnvPair) render() (string, int) {
	switch p.Kind {
	case "good", "emptykey":
		v, n := p.encodedValue()
		return p.pad(0) + string(p.K) + p.pad(1) + "=" + p.pad(2) + v + p.pad(3), n
	case "badesc":
		return p.pad(0) + string(p.K) + p.pad(1) + "=" + p.pad(2) + string(p.V) + p.pad(3), 0
	case "noeq":
		return p.pad(0) + string(p.K) + p.pad(3), 0
	case "empty":
		return p.pad(0) + p.pad(3), 0
	}
	panic("harness bug: unknown pair kind " + p.Kind)
}

func outer(c EnvCase, i int) string {
	if i < len(c.Outer) {
		return c.Outer[i]
	}
	return ""
}

func renderEnv(c EnvCase) (string, int) {
	parts := make([]string, len(c.Pairs))
	escapes := 0
	for i, p := range c.Pairs {
		s, n := p.render()
		parts[i] = s
		if p.Kind == "good" {
			escapes += n
		}
	}
	return outer(c, 0) + strings.Join(parts, ",") + outer(c, 1), escapes
}

// --- generator ----------------------------------------------------------

var (
	envKeyRunes = []rune("abczAZ09_-*/@.+~:#!$&'|^`éš世€😀")
	// service names: anything but NUL (not representable in the environment);
	// no white space at either end.
	svcEdgeRunes  = []rune("abzAZ09_-*/@.,=;%\"\\+~éš世€😀")
	svcInnerRunes = []rune("abzAZ09_-*/@.,=;%\"\\+~éš世€😀 \t")
	ows           = []string{"", "", "", "", " ", "\t", "  ", " \t "}
	edgeWS        = []string{"", "", "", " ", "\t", "\n", "  ", "\r\n"}
	specialValues = []string{"a=b", "x==", "=lead", "a+b", "100%", "%41", "%zz", "a,b", "k=v,k2=v2", "a;b=c", "\"q\"", "a b", "世=界"}
	badFragsMid   = []string{"%zz", "%g1", "%4g", "%-1", "%%4", "%é"}
	badFragsEnd   = []string{"%", "%4", "%f"}
)

func genRunes(t *rapid.T, label string, alphabet []rune, min, max int) string {
	n := rapid.IntRange(min, max).Draw(t, label+".n")
	var sb strings.Builder
	for i := 0; i < n; i++ {
		sb.WriteRune(rapid.SampledFrom(alphabet).Draw(t, label+".r"))
	}
	return sb.String()
}

func genSvcName(t *rapid.T) vk.Str {
	if rapid.IntRange(0, 3).Draw(t, "svc.simple") == 0 {
		return vk.Str(rapid.SampledFrom([]string{"svc", "my service", "a%20b", "x=y,z", "世界"}).Draw(t, "svc.pick"))
	}
	s := genRunes(t, "svc.first", svcEdgeRunes, 1, 1)
	if rapid.Bool().Draw(t, "svc.more") {
		s += genRunes(t, "svc.mid", svcInnerRunes, 0, 4) + genRunes(t, "svc.last", svcEdgeRunes, 1, 1)
	}
	return vk.Str(s)
}

func genValue(t *rapid.T) vk.Str {
	v := string(vk.GenText(5, true).Draw(t, "v"))
	if rapid.IntRange(0, 3).Draw(t, "v.special") == 0 {
		v += rapid.SampledFrom(specialValues).Draw(t, "v.pick")
	}
	if rapid.IntRange(0, 2).Draw(t, "v.edge") == 0 {
		v = rapid.SampledFrom(edgeWS).Draw(t, "v.lead") + v + rapid.SampledFrom(edgeWS).Draw(t, "v.trail")
	}
	return vk.Str(v)
}

// genEnvPair draws list element i: well-formed with probability goodOf20/20,
// else one of the malformed kinds (no '=', undecodable escape, empty key,
// empty element). A well-formed pair takes one of wellKnown as its key with
// probability 1/5, every other key is a fresh token.
func genEnvPair(t *rapid.T, i int, uniq func(string, int) string, goodOf20 int, wellKnown []string) EnvPair {
	p := EnvPair{Kind: "good"}
	if rapid.IntRange(0, 19).Draw(t, "kind") >= goodOf20 {
		p.Kind = rapid.SampledFrom([]string{"noeq", "noeq", "badesc", "badesc", "emptykey", "empty", "empty"}).Draw(t, "malformed")
	}
	p.Pad = rapid.SliceOfN(rapid.SampledFrom(ows), 4, 4).Draw(t, "pad")
	p.Lower = rapid.Bool().Draw(t, "lower")
	switch p.Kind {
	case "good", "badesc", "noeq":
		if p.Kind == "good" && rapid.IntRange(0, 4).Draw(t, "svckey") == 0 {
			p.K = vk.Str(uniq(rapid.SampledFrom(wellKnown).Draw(t, "wellknown"), i))
		} else {
			p.K = vk.Str(uniq(genRunes(t, "key", envKeyRunes, 1, 4), i))
		}
	}
	switch p.Kind {
	case "good", "emptykey":
		p.V = genValue(t)
		p.Enc = rapid.IntRange(0, 2).Draw(t, "enc")
		if p.Enc == 2 {
			p.Mask = rapid.SliceOfN(rapid.Bool(), len(p.V), len(p.V)).Draw(t, "mask")
		}
	case "badesc":
		pre, _ := refEncode(string(vk.GenText(2, false).Draw(t, "bad.pre")), nil, false)
		if rapid.Bool().Draw(t, "bad.atend") {
			p.V = vk.Str(pre + rapid.SampledFrom(badFragsEnd).Draw(t, "bad.frag"))
		} else {
			post, _ := refEncode(string(vk.GenText(2, false).Draw(t, "bad.post")), nil, false)
			p.V = vk.Str(pre + rapid.SampledFrom(badFragsMid).Draw(t, "bad.frag") + post)
		}
	}
	return p
}

func genEnv(t *rapid.T) EnvCase {
	c := EnvCase{}
	c.AttrsSet = rapid.IntRange(0, 9).Draw(t, "attrs_set") != 0
	used := map[string]bool{}
	uniq := func(k string, i int) string {
		if used[k] {
			k += "." + strconv.Itoa(i)
		}
		used[k] = true
		return k
	}
	if c.AttrsSet {
		n := vk.GenLen(8, 1, 2, 3).Draw(t, "npairs")
		for i := 0; i < n; i++ {
			c.Pairs = append(c.Pairs, genEnvPair(t, i, uniq, 13, []string{svcKey}))
		}
		c.Outer = rapid.SliceOfN(rapid.SampledFrom(ows), 2, 2).Draw(t, "outer")
	}
	c.SvcMode = rapid.SampledFrom([]string{"unset", "empty", "set", "set"}).Draw(t, "svc_mode")
	if c.SvcMode == "set" {
		c.Svc = genSvcName(t)
	}
	nbKeys := []string{svcKey, "pre.only", "post.only", "both"}
	for _, p := range c.Pairs {
		if p.K != "" {
			nbKeys = append(nbKeys, string(p.K))
		}
	}
	genNb := func(label string) []vk.KV {
		n := rapid.IntRange(0, 3).Draw(t, label+".n")
		var out []vk.KV
		for i := 0; i < n; i++ {
			out = append(out, vk.KV{K: vk.Str(rapid.SampledFrom(nbKeys).Draw(t, label+".k")), T: "str", S: vk.Str(genRunes(t, label+".v", svcInnerRunes, 0, 3))})
		}
		return out
	}
	if rapid.Bool().Draw(t, "neighbours") {
		c.Pre, c.Post = genNb("pre"), genNb("post")
	}
	if rapid.IntRange(0, 3).Draw(t, "schema_opt") == 0 {
		c.SchemaOpt = true
		c.Schema = pickSchema(t, "schema", genSchemaPool(t, "schemas"))
	}
	return c
}

// --- runner ---------------------------------------------------------------

// withEnv sets (or unsets, when the pointer is nil) the variables and
// returns the function that restores the previous state.
func withEnv(vars map[string]*string) func() {
	type old struct {
		v  string
		ok bool
	}
	prev := map[string]old{}
	for k, v := range vars {
		ov, ok := os.LookupEnv(k)
		prev[k] = old{ov, ok}
		var err error
		if v == nil {
			err = os.Unsetenv(k)
		} else {
			err = os.Setenv(k, *v)
		}
		if err != nil {
			panic(fmt.Sprintf("harness bug: cannot set %s: %v", k, err))
		}
	}
	return func() {
		for k, o := range prev {
			if o.ok {
				_ = os.Setenv(k, o.v)
			} else {
				_ = os.Unsetenv(k)
			}
		}
	}
}

// envDetector is a caller's detector that asks the library for the
// environment resource (the environment detector itself is not exported).
type envDetector struct{}

func (envDetector) Detect(ctx context.Context) (*resource.Resource, error) {
	r, _ := resource.New(ctx, resource.WithFromEnv())
	return r, nil
}

func runEnv(c EnvCase) ([]vk.Violation, vk.Info) {
	rep := &reporter{}
	var info vk.Info

	env, escapes := renderEnv(c)
	vars := map[string]*string{envAttrs: nil, envSvc: nil}
	if c.AttrsSet {
		vars[envAttrs] = &env
	}
	switch c.SvcMode {
	case "empty":
		e := ""
		vars[envSvc] = &e
	case "set":
		s := string(c.Svc)
		vars[envSvc] = &s
	}
	restore := withEnv(vars)
	defer restore()

	// --- expectation ---
	want := newAttrModel()
	badKeys := map[string]bool{}
	var nNoEq, nBad, nEmptyKey, nEmpty, nGood int
	padded, edgeWSv, multibyte, invalidUTF8, rawEq, svcInAttrs, lowerHex := false, false, false, false, false, false, false
	for _, p := range c.Pairs {
		for _, s := range p.Pad {
			padded = padded || s != ""
		}
		switch p.Kind {
		case "good":
			nGood++
			want.val[string(p.K)] = attribute.StringValue(string(p.V))
			v := string(p.V)
			edgeWSv = edgeWSv || v != strings.TrimSpace(v)
			invalidUTF8 = invalidUTF8 || !utf8.ValidString(v)
			multibyte = multibyte || (utf8.ValidString(v) && len(v) != utf8.RuneCountInString(v))
			ev, n := p.encodedValue()
			rawEq = rawEq || strings.Contains(ev, "=")
			lowerHex = lowerHex || (p.Lower && n > 0)
			svcInAttrs = svcInAttrs || string(p.K) == svcKey
		case "noeq":
			nNoEq++
		case "badesc":
			nBad++
			badKeys[string(p.K)] = true
		case "emptykey":
			nEmptyKey++
		case "empty":
			nEmpty++
		}
	}
	attrSvc, hadAttrSvc := want.val[svcKey]
	if c.SvcMode == "set" {
		want.val[svcKey] = attribute.StringValue(string(c.Svc))
	}
	allWellFormed := nNoEq == 0 && nBad == 0 && nEmptyKey == 0 && nEmpty == 0

	check := func(label string, r *resource.Resource, err error, errKnown bool, wantSchema string) {
		got := modelOfSlice(r.Attributes())
		for _, k := range want.keys() {
			v, ok := got.val[k]
			switch {
			case !ok:
				kind := "env_lost_pair"
				if nNoEq+nBad+nEmptyKey+nEmpty > 0 {
					kind = "env_malformed_pair_costs_good_pair"
				}
				if k == svcKey && c.SvcMode == "set" {
					kind = "env_service_name_lost"
				}
				rep.bad(kind, "%s: key %q missing; %s=%q %s=%q(%s)", label, k, envAttrs, env, envSvc, c.Svc, c.SvcMode)
			case vk.ValueKey(v) != vk.ValueKey(want.val[k]):
				kind := "env_value_not_lossless"
				if k == svcKey && c.SvcMode == "set" {
					kind = "env_service_name_precedence"
				}
				rep.bad(kind, "%s: key %q = %s, generated %s; %s=%q %s=%q(%s)", label, k, vk.ValueKey(v), vk.ValueKey(want.val[k]), envAttrs, env, envSvc, c.Svc, c.SvcMode)
			}
		}
		for _, k := range got.keys() {
			if _, ok := want.val[k]; ok {
				continue
			}
			if k == "" {
				rep.bad("env_empty_key_kept", "%s: the resource holds an empty key; %s=%q", label, envAttrs, env)
				continue
			}
			if badKeys[k] {
				if got.val[k].Type() != attribute.STRING {
					rep.bad("env_value_not_string", "%s: key %q has type %v", label, k, got.val[k].Type())
				}
				continue
			}
			rep.bad("env_unexpected_key", "%s: key %q (= %s) was not in the environment; %s=%q", label, k, vk.ValueKey(got.val[k]), envAttrs, env)
		}
		if r.SchemaURL() != wantSchema {
			rep.bad("env_schema", "%s: schema URL %q, want %q", label, r.SchemaURL(), wantSchema)
		}
		if !errKnown {
			return
		}
		for k := range badKeys {
			if _, ok := got.val[k]; !ok && !errors.Is(err, resource.ErrPartialResource) {
				rep.bad("env_bad_escape_silently_dropped", "%s: pair %q with an undecodable value vanished without a partial-resource error (err = %v); %s=%q", label, k, err, envAttrs, env)
			}
		}
		if nNoEq > 0 && (err == nil || !errors.Is(err, resource.ErrPartialResource)) {
			rep.bad("env_missing_value_not_reported", "%s: %d element(s) without '=' but error = %v; %s=%q", label, nNoEq, err, envAttrs, env)
		}
		if allWellFormed && err != nil {
			rep.bad("env_spurious_error", "%s: every element is well-formed but error = %v; %s=%q", label, err, envAttrs, env)
		}
	}

	opts := []resource.Option{resource.WithFromEnv()}
	wantSchema := ""
	if c.SchemaOpt {
		opts = append(opts, resource.WithSchemaURL(c.Schema))
		wantSchema = c.Schema
	}
	r, err := resource.New(context.Background(), opts...)
	check("New(WithFromEnv())", r, err, true, wantSchema)
	checkAccessors(rep, "New(WithFromEnv())", r, rmodel{modelOfSlice(r.Attributes()), r.SchemaURL()})
	e := resource.Environment()
	check("Environment()", e, nil, false, "")
	// The environment detector as one detector of resource.Detect (attributes
	// only: the wrapper keeps the error to itself so that Detect always merges).
	d, _ := resource.Detect(context.Background(), envDetector{})
	check("Detect(environment detector)", d, nil, false, "")

	// --- the environment between two neighbours ---
	// Documented: detectors are called in the order given, each produced
	// resource is merged into the previous one (later wins), WithAttributes and
	// WithFromEnv each contribute a detector at their position. Keys whose
	// environment value is undecodable are asserted only when Post sets them.
	var postOverEnv, envOverPre, preSurvives bool
	if len(c.Pre)+len(c.Post) > 0 {
		pre, post := newCtorModel(vk.ToAttrs(c.Pre)).strict, newCtorModel(vk.ToAttrs(c.Post)).strict
		want3 := union(union(pre, want), post)
		nopts := []resource.Option{resource.WithAttributes(vk.ToAttrs(c.Pre)...), resource.WithFromEnv(), resource.WithAttributes(vk.ToAttrs(c.Post)...)}
		if c.SchemaOpt {
			nopts = append(nopts, resource.WithSchemaURL(c.Schema))
		}
		rn, errn := resource.New(context.Background(), nopts...)
		got := modelOfSlice(rn.Attributes())
		for _, k := range want3.keys() {
			if _, inPost := post.val[k]; badKeys[k] && !inPost {
				continue
			}
			v, ok := got.val[k]
			if !ok {
				rep.bad("env_neighbour_lost", "New(WithAttributes(pre), WithFromEnv(), WithAttributes(post)): key %q missing; pre %v, post %v, %s=%q %s=%q(%s), error %v", k, pre.render(), post.render(), envAttrs, env, envSvc, c.Svc, c.SvcMode, errn)
			} else if vk.ValueKey(v) != vk.ValueKey(want3.val[k]) {
				rep.bad("env_neighbour_precedence", "New(WithAttributes(pre), WithFromEnv(), WithAttributes(post)): key %q = %s, want %s (later detector wins); pre %v, post %v, %s=%q %s=%q(%s)", k, vk.ValueKey(v), vk.ValueKey(want3.val[k]), pre.render(), post.render(), envAttrs, env, envSvc, c.Svc, c.SvcMode)
			}
		}
		for _, k := range got.keys() {
			if _, ok := want3.val[k]; !ok && !badKeys[k] {
				rep.bad("env_unexpected_key", "New(WithAttributes(pre), WithFromEnv(), WithAttributes(post)): key %q (= %s) was supplied by nobody; %s=%q", k, vk.ValueKey(got.val[k]), envAttrs, env)
			}
		}
		if rn.SchemaURL() != wantSchema {
			rep.bad("env_schema", "New(WithAttributes(pre), WithFromEnv(), WithAttributes(post)): schema URL %q, want %q", rn.SchemaURL(), wantSchema)
		}
		if nNoEq > 0 && (errn == nil || !errors.Is(errn, resource.ErrPartialResource)) {
			rep.bad("env_missing_value_not_reported", "New(WithAttributes(pre), WithFromEnv(), WithAttributes(post)): %d element(s) without '=' but error = %v; %s=%q", nNoEq, errn, envAttrs, env)
		}
		if allWellFormed && errn != nil {
			rep.bad("env_spurious_error", "New(WithAttributes(pre), WithFromEnv(), WithAttributes(post)): every element is well-formed but error = %v; %s=%q", errn, envAttrs, env)
		}
		for k, v := range want.val {
			if pv, ok := post.val[k]; ok && vk.ValueKey(pv) != vk.ValueKey(v) {
				postOverEnv = true
			}
			if pv, ok := pre.val[k]; ok && vk.ValueKey(pv) != vk.ValueKey(v) {
				envOverPre = true
			}
		}
		for k := range pre.val {
			_, e := want.val[k]
			_, p := post.val[k]
			preSurvives = preSurvives || (!e && !p && !badKeys[k])
		}
	}

	overrides := c.SvcMode == "set" && hadAttrSvc && attrSvc.AsString() != string(c.Svc)
	info.NonTrivial = escapes > 0 || overrides || postOverEnv || envOverPre
	info.ClassIf(postOverEnv, "later_WithAttributes_overrides_environment")
	info.ClassIf(envOverPre, "environment_overrides_earlier_WithAttributes")
	info.ClassIf(preSurvives, "earlier_WithAttributes_key_survives_environment")
	info.ClassIf(postOverEnv && nNoEq+nBad+nEmptyKey+nEmpty > 0, "neighbours_of_a_partially_failing_environment")
	info.ClassIf(escapes > 0, "percent_escapes>=1")
	info.ClassIf(escapes >= 8, "percent_escapes>=8")
	info.ClassIf(lowerHex, "lower_case_hex")
	info.ClassIf(overrides, "OTEL_SERVICE_NAME_overrides_attr")
	info.ClassIf(c.SvcMode == "set" && !hadAttrSvc, "OTEL_SERVICE_NAME_only")
	info.ClassIf(c.SvcMode != "set" && svcInAttrs, "service.name_from_attrs("+c.SvcMode+")")
	info.ClassIf(c.SvcMode == "set" && strings.ContainsAny(string(c.Svc), "%,="), "service_name_with_delimiters")
	info.ClassIf(!c.AttrsSet, "attrs_unset")
	info.ClassIf(c.AttrsSet && len(c.Pairs) == 0, "attrs_blank")
	info.ClassIf(nNoEq > 0, "element_without_=")
	info.ClassIf(nNoEq > 0 && nGood > 0, "element_without_=_next_to_good_pairs")
	info.ClassIf(nBad > 0, "invalid_escape")
	info.ClassIf(nEmptyKey > 0, "empty_key")
	info.ClassIf(nEmpty > 0, "empty_element")
	info.ClassIf(allWellFormed && nGood > 0, "all_well_formed")
	info.ClassIf(padded, "ows_padding")
	info.ClassIf(edgeWSv, "value_starts_or_ends_with_white_space")
	info.ClassIf(multibyte, "multi_byte_value")
	info.ClassIf(invalidUTF8, "invalid_utf8_value")
	info.ClassIf(rawEq, "raw_=_in_value")
	info.ClassIf(c.SchemaOpt, "with_schema_url_option")
	if c.SchemaOpt {
		schemaClasses(info.ClassIf, c.Schema)
	}
	return rep.vs, info
}

func TestEnv(t *testing.T) {
	vk.Run(t, vk.Spec[EnvCase]{
		Property: "C19", Check: "env",
		Rule: "OTEL_RESOURCE_ATTRIBUTES (unset, blank, or 0..8 elements) rendered from generated pairs with distinct token keys and hostile byte-string values by a reference percent-encoder " +
			"(mandatory bytes, every byte, or a random mask; either hex case; OWS padding), mixed with elements without '=', undecodable escapes, empty keys and empty elements; " +
			"OTEL_SERVICE_NAME unset | empty | set; optional WithSchemaURL; observed through resource.New(WithFromEnv()), resource.Environment() and, in half of the cases, New(WithAttributes(pre), WithFromEnv(), WithAttributes(post)) with string key-values on the environment's keys, service.name and fresh keys; " +
			"non-trivial = the rendered variable holds >= 1 percent escape of a well-formed pair, or OTEL_SERVICE_NAME overrides a different service.name in the list, or a neighbour and the environment disagree on a key; distinct = distinct case encodings",
		Quick: 50000, Thorough: 600000,
		Gen: genEnv, Run: runEnv,
	})
}
