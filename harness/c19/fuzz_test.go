package c19

import (
	"context"
	"errors"
	"strings"
	"testing"

	"go.opentelemetry.io/otel/attribute"
	"go.opentelemetry.io/otel/sdk/resource"
)

// decodeEnvAttrs runs the environment detector on s.
func decodeEnvAttrs(s string) (*resource.Resource, error) {
	restore := withEnv(map[string]*string{envAttrs: &s, envSvc: nil})
	defer restore()
	return resource.New(context.Background(), resource.WithFromEnv())
}

// FuzzEnvAttrs: for every OTEL_RESOURCE_ATTRIBUTES string the detector never
// panics, returns only non-empty keys with string values, reports nothing but
// partial-resource errors, and what it decoded survives a round trip through
// the reference percent-encoder; the input taken as a VALUE and rendered by
// the reference encoder decodes to itself byte for byte.
func FuzzEnvAttrs(f *testing.F) {
	for _, s := range []string{
		"", " ", "a=b", "a=b,c=d", " a = b , c = d ", "k=%zz", "k=%", "a=%E4%B8%96%e7%95%8c", "=x", ",", "a", "a,b=c",
		"a==b", "service.name=x,service.name=y", "k=%20v%20", "k= %09v", "k=a+b", "k=%2C%3D%25", "é=ü", "a=b,,c=d,", "a=%ff%fe",
	} {
		f.Add(s)
	}
	f.Fuzz(func(t *testing.T, s string) {
		if strings.IndexByte(s, 0) >= 0 {
			t.Skip("NUL cannot be put into the environment")
		}
		r, err := decodeEnvAttrs(s)
		if err != nil && !errors.Is(err, resource.ErrPartialResource) {
			t.Fatalf("error is not a partial-resource error: %v", err)
		}
		if r == nil {
			t.Fatalf("nil resource")
		}
		got := r.Attributes()
		var parts []string
		for _, kv := range got {
			if kv.Key == "" {
				t.Fatalf("empty key in %v", renderSlice(got))
			}
			if kv.Value.Type() != attribute.STRING {
				t.Fatalf("key %q has type %v", kv.Key, kv.Value.Type())
			}
			enc, _ := refEncode(kv.Value.AsString(), nil, false)
			parts = append(parts, string(kv.Key)+"="+enc)
		}
		r2, err2 := decodeEnvAttrs(strings.Join(parts, ","))
		if err2 != nil {
			t.Fatalf("re-encoded attributes %q give an error: %v", strings.Join(parts, ","), err2)
		}
		if !sameStrings(renderSlice(r2.Attributes()), renderSlice(got)) {
			t.Fatalf("round trip: %v -> %q -> %v", renderSlice(got), strings.Join(parts, ","), renderSlice(r2.Attributes()))
		}
		if !r.Equal(r2) {
			t.Fatalf("round trip result is not Equal")
		}
		// forward direction: s itself as a value (minimal and full encoding,
		// with OWS padding) must come back byte for byte, next to a pair
		// without '=' that must be reported and must not cost the good pairs.
		min, _ := refEncode(s, nil, false)
		full, _ := refEncode(s, func(int) bool { return true }, true)
		env := " fz.min = " + min + " ,novalue,fz.full=\t" + full
		r3, err3 := decodeEnvAttrs(env)
		if err3 == nil || !errors.Is(err3, resource.ErrPartialResource) {
			t.Fatalf("%q: element without '=' not reported as a partial resource: %v", env, err3)
		}
		want := []string{renderKV("fz.full", attribute.StringValue(s)), renderKV("fz.min", attribute.StringValue(s))}
		if have := renderSlice(r3.Attributes()); !sameStrings(have, want) {
			t.Fatalf("%q decodes to %v, want %v", env, have, want)
		}
	})
}
