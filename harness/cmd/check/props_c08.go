package main

func init() {
	props["C08"] = cfg("./c08", false, withAssume(
		"running totals are asserted for synchronous sums and histograms only; for asynchronous instruments the statement's per-cycle rule is the oracle",
		"nothing is asserted about synchronous streams (incl. gauge sets) that were not recorded in a cycle: the delta reader may omit them, the cumulative reader may keep or forget them",
		"exponential buckets are compared after re-binning to the coarsest scale involved, for values at least 1e-6 index units (scale 20) away from a bucket boundary; exact powers of two are left to C07",
		"the first delta interval of an instrument created mid-history starts at its creation (harness bracket around the creation call), not at the previous collection",
		"any previously filled ResourceMetrics (fresh, the reader's own, or one the other reader filled) is legal input to Collect; each explicit-bucket point must carry len(Bounds)+1 bucket counts",
		"a callback that returns an error has observed whatever it observed before returning; the Collect that returns its error is still a collection cycle of that reader and the data it left in rm is what the reader reported (pinned behaviour of the unchanged tree; only ManualReaders are used, so the PeriodicReader finding KF-C02-periodic-delta-dropped-on-callback-error is out of reach)",
		"N concurrent Collect calls on one reader are N collection cycles; their outputs are attributed to callback rounds by ordering them by their earliest point Time (sound while the pipeline lock serialises cycles); each is bracketed by the whole concurrent step",
		"int64 instruments are compared in exact (wrapping) int64 arithmetic, float64 instruments exactly on values generated to be exactly summable; generated int64 totals never overflow (<= 3 values of magnitude <= MaxInt64/4 per synchronous stream)",
		"an instrument is its whole identity (scope name + version + schema URL + scope attributes, name, kind, number type, unit, description): instruments that differ in one part only are distinct instruments, each held to every clause on its own; output metrics are matched by scope identity + name + unit + description; names differing in case only are not generated",
		"a meter / instrument obtained once more with identical parameters is the same instrument; the spelling of a measurement's attribute options (WithAttributeSet, WithAttributes, several options merged with the later one winning, as documented) does not change its attribute set",
		"what Collect leaves in the ResourceMetrics (bounds, bucket counts, data point / Metrics / ScopeMetrics slices) belongs to the caller, who may write over it in place after reading it; that is not an event of the measurement history, so every clause applies unchanged to later collections, and outputs the caller did not write to must not change",
		"measurements made by several goroutines at once are joined before the next step and enter the model as a multiset (exact arithmetic makes totals order independent); a gauge then reports the last record of one of the goroutines; for streams measured WHILE the readers collect, the delta/cumulative comparison is suspended for that one cycle and resumes exactly with the next collection",
		"the package is not built with -race: with the race detector the quick tier takes about 3x as long (beyond the 90 s budget); lost updates are caught by the exact running totals instead",
		"delta StartTime is bracketed by the harness's wall-clock readings around the previous delta collection (monotonic clock); the cardinality limit is left to C12",
	))
}
