package main

func init() {
	props["C10"] = cfg("./c10", true, withShards(2, 16), withAssume(
		"schedules are sampled: generated racing programs run 3 times each under the race detector, and a spin barrier releases the End callers together; an interleaving that needs a window of a few instructions may still be missed",
		"span limits are unlimited in these programs so that drops do not blur the all-or-nothing judgement of mutations",
	))
}
