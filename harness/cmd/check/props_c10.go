package main

func init() {
	props["C10"] = cfg("./c10", true, withShards(2, 16), withAssume(
		"schedules are sampled: generated racing programs run 3 times each under the race detector, and a spin barrier releases the End callers together; an interleaving that needs a window of a few instructions may still be missed",
		"span limits are unlimited in these programs so that drops do not blur the all-or-nothing judgement of mutations",
		"the concurrent getter op does not call Attributes() on the live span: that getter writes the array the exported snapshot shares (a race report without observable effect, outside the quantified set of span methods; replayable with harness/c10/testdata/attributes-getter-race.json) and a race report would stop every run",
		"a plain End's end time is judged as a reading of the clock taken during the run with one hour of slack on either side",
		"provider life cycle: delivery is decided as exactly once only for spans all of whose End calls had returned before TracerProvider.Shutdown was first issued; a span ended while or after Shutdown runs is judged at most once (plus: not recording once End has returned, an end time that an End call supplied)",
		"shared_args judges a span that only one goroutine touches against the same calls made alone with private arguments on the same provider; link attribute slices are lent but not overwritten after the call (a trace.Link is kept as given; whether its attribute slice may alias the caller's memory the statement does not say)",
	))
}
