package main

func init() {
	props["C14"] = cfg("./c14", false, withShards(8, 16), withAssume(
		"the collector is an in-process scripted server on loopback; arrival and answer times are taken on the collector side with the monotonic clock",
		"waits are asserted from below only (server hint); 'arrives after cancel / Shutdown / MaxElapsedTime' clauses carry 100-250 ms of slack and must reproduce in three consecutive runs of the case",
		"a network-level failure (connection closed without an answer, the exporter's own per-request timeout) may or may not be retried",
		"Shutdown is asserted relative to the moment it returned; exporters whose Shutdown waits for the in-flight export satisfy the clause trivially",
		"only delay-seconds Retry-After values count as a server hint",
		"HTTP answers: 200 is the only success generated; every other status outside 429/502/503/504 (3xx that a Go client does not follow, all 4xx, all other 5xx up to 599) is non-retryable; gRPC codes 17 and 99 are non-retryable",
		"an export made after Shutdown is only required not to block (the six exporters document different results); Shutdown before Start on the trace exporters is a no-op after which the exporter behaves like a fresh one",
		"a partial-success message with a rejected count > 0 is a rejection that has to be reported whether or not an error_message explains it; a message with neither count nor text requires no report",
		"once the export context has ended Export must be back within 10 s (hard) / 2 s (three quiet runs); an export abandoned as blocked leaves its goroutine behind, the run continues",
		"an exporter timeout of 0 or a negative one (option or *_TIMEOUT variable) means no timeout; integer milliseconds in the variables may be zero-padded or carry a sign; the signal-specific variable wins over the general one, the option over both (as documented)",
		"a partial-success error_message / failure body / failure status message of up to 1 MiB is something a collector may legitimately send (below gRPC's 4 MiB default receive limit and upstream's 4 MiB HTTP response bound)",
		"the open Retry-After unit finding explains only a wait that is shorter than N seconds but not shorter than N nanoseconds; a shorter wait, or a re-send where even the nanosecond reading exceeds MaxElapsedTime, is a violation",
	))
}
