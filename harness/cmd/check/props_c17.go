package main

func init() {
	props["C17"] = cfg("./c17", false, withAssume(
		"\"offered\" = top-level log.KeyValue arguments (duplicates included) passed to the most recent SetAttributes and to every AddAttributes after it; an attribute carried by an emitted API record counts as one AddAttributes argument",
		"when a value with duplicate nested map keys was offered since the last SetAttributes, only offered <= AttributesLen+DroppedAttributes <= offered + duplicate nested entries is asserted (the SDK counts removed nested duplicates as dropped attributes), and nested maps are compared as key -> value supplied last",
		"the order in which WalkAttributes yields attributes is not asserted; characters = runes; strings of at most `limit` bytes must be unchanged, longer ones must equal the first `limit` valid characters of the offered string; Bytes values are not limited",
		"in-place reordering / truncation of the caller's argument slices and nested slices by SetAttributes/AddAttributes is not asserted either way (every call is handed freshly built values)",
	))
}
