package main

func init() {
	props["C17"] = cfg("./c17", false, withAssume(
		"\"offered\" = top-level log.KeyValue arguments (duplicates included) passed to the most recent SetAttributes and to every AddAttributes after it; an attribute carried by an emitted API record counts as one AddAttributes argument",
		"when a value with duplicate nested map keys was offered since the last SetAttributes, only offered <= AttributesLen+DroppedAttributes <= offered + duplicate nested entries is asserted (the SDK counts removed nested duplicates as dropped attributes), and nested maps are compared as key -> value supplied last",
		"the order in which WalkAttributes yields attributes is not asserted; characters = runes; strings of at most `limit` bytes must be unchanged, longer ones must equal the first `limit` valid characters of the offered string; Bytes values are not limited",
		"in-place reordering / truncation of the caller's argument slices and nested slices by SetAttributes/AddAttributes WHILE the call runs is not asserted either way; the arguments of a call are what the argument slice holds when the call is made",
		"after a call returned the caller may overwrite / reuse its top-level argument slice (incl. spare capacity) and hand it to other records; the arrays behind log.SliceValue/MapValue/BytesValue are never modified by the caller (documented: 'must not be changed after it is passed'), so nested arrays shared between caller, records and clones are not asserted against; all records of one case have the same limits",
		"the limits are 'configured' by WithAttributeCountLimit / WithAttributeValueLengthLimit, by OTEL_LOGRECORD_ATTRIBUTE_COUNT_LIMIT / OTEL_LOGRECORD_ATTRIBUTE_VALUE_LENGTH_LIMIT holding a plain decimal integer when the option is not passed, or by the documented defaults 128 / -1; invalid environment values are not generated",
		"a panic raised by SetAttributes / AddAttributes / Emit counts as a violation (Kind panic); while a case with a bulk call runs the garbage collector is held back and the SDK's sync.Pools are emptied afterwards, so that the outcome of a case does not depend on collector timing or on earlier cases",
	))
}
