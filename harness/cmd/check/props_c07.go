package main

func init() {
	props["C07"] = cfg("./c07", false, withShards(4, 16), withAssume(
		"domain: finite measurements, strictly increasing finite boundaries, 1 <= MaxSize <= 4097, -10 <= MaxScale <= 20; Counter and ObservableCounter instruments only measure non-negative values",
		"an int64 measurement is bucketed as float64(v) (integers beyond 2^53 by their rounded value)",
		"float64 Sum is compared exactly only when every partial sum is representable, otherwise within 1e-12*sum|v|; not at all when sum|v| >= 2^1023",
		"the reported exponential scale is only required to lie in [-10, MaxScale] and not to increase between cumulative collections, not to be the largest that fits",
		"a measurement dropped with a reported scale underflow (MaxSize 1 or 2) is removed from the reference after checking that it really cannot be placed at scale -10",
		"the Sum of an int64 histogram is compared exactly with the mathematical (math/big) sum whenever that is an int64, also when a prefix of the measurements sums outside the int64 range; not at all when the total itself is not an int64",
		"instrument_kinds: the Sum of a histogram point of an UpDownCounter, Gauge, ObservableUpDownCounter or ObservableGauge is documented not to be collected and is not compared; with NoMinMax the extrema are not compared; with the default aggregation (nothing configured) the reported boundaries are the reference",
		"multi_instrument: any *metricdata.ResourceMetrics is legal input to Collect (fresh, last filled by the same reader, or last filled by another reader / another cycle); with several readers the scale-underflow errors of one Record are attributed to the readers whose point cannot hold the value at scale -10",
	))
}
