package main

import "time"

func init() {
	props["C20"] = cfg("./c20", false,
		withFuzz(fuzzTarget{"FuzzHeadersEnv", 2 * time.Minute}, fuzzTarget{"FuzzEndpointEnv", 2 * time.Minute}),
		withAssume(
			"TLS / insecure settings are out of scope: every exporter gets WithInsecure and http:// URLs; retry is disabled so that one export round is one request",
			"an invalid value is asserted to be skipped only where all six exporters skip it (empty variable, unparsable URL, non-integer timeout, WithEndpointURL with an unparsable URL); for every other invalid value (unknown compression, malformed header list, padded text, non-positive timeout, out-of-range option) only 'constructor + one export + shutdown neither panic nor hang' is asserted and the per-exporter outcome is recorded in the class table (obs/...)",
			"WithEndpointURL without a path, WithURLPath(\"\") and, for the gRPC exporters, endpoint URLs with a path longer than \"/\" are not asserted (the exporters differ and the statement does not say)",
			"HTTP timeouts are judged by success / failure against a collector that answers after 80 ms (long timeout expected) or 3 s (10..30 ms timeout expected); gRPC timeouts by the server-side deadline within (T/2, T+100 ms]",
			"caller-supplied transport (a third of the OTLP cases): with WithGRPCConn the connection owns endpoint, insecure/TLS and compression (the option 'takes precedence over any other option that relates to establishing or persisting a gRPC connection'; WithEndpoint, WithEndpointURL, WithInsecure, WithTLSCredentials, WithCompressor, WithReconnectionPeriod, WithServiceConfig, WithDialOption 'have no effect if WithGRPCConn is used'): the request must arrive at the connection's collector whatever those sources say and the encoding is not asserted; headers and timeout keep the precedence oracle and are read from the metadata / deadline the collector received; retry stays disabled. The HTTP exporters have no WithHTTPClient: WithProxy(func returning no proxy) makes them clone their transport and every setting stays in force",
			"SDK: a non-integer OTEL_SPAN_ATTRIBUTE_* value may give the default or the generic variable's value; an sdk/log batch option below one may give the default or the environment's value; size 0, non-positive durations and sizes whose eager allocation cannot succeed have no asserted meaning (OTEL_BLRP_MAX_QUEUE_SIZE near MaxInt64 is not generated: the constructor would allocate until the machine runs out of memory)",
			"the sampler is judged by its decisions on 16 spread trace ids and six remote-parent probes (the TracerProvider does not expose its Sampler); for a ratio sampler with an unusable argument both ratio 1.0 and the documented default ParentBased(AlwaysSample) are accepted",
			"schedule delays: 20 ms / 10 ms must export within 3 s (spans) / 10 s (logs); one hour or the default must not export within 100 ms; the log processor's 1 s default is not told apart from a 10 ms environment value",
		))
}
