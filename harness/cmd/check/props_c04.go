package main

func init() {
	props["C04"] = cfg("./c04", false, withAssume(
		"attribute order of the exported span is not compared (Attributes() documents no stable order); 'earliest keys kept' is asserted as the set of surviving keys",
		"the value length limit is asserted for span attributes only; event and link attribute values may be untouched or cut by the same rule",
		"for links passed with WithLinks whose span context is invalid but which carry attributes or tracestate, and for the relative order of sampler attributes and WithAttributes at start, either documented reading is accepted",
		"RecordError: position of the synthesized exception.* attributes relative to the caller's attributes is not asserted, only counts, the prefix rule for the caller's attributes and the exception.message value",
		"End running as the deferred call of a panicking goroutine adds the documented exception event, which is modelled as an ordinary event (event FIFO, per-event attribute cap and dropped count; 2 attributes, 3 with WithStackTrace(true)); whether the panic is continued is not asserted; End inside a deferred closure of a panicking goroutine is an ordinary End",
		"the caller may pass one attribute slice object to several calls and to spans of two providers: every call is modelled with the key-values the caller built (the library must not alter elements [0:len) of an attribute slice argument; spare capacity is not examined); trace.Link.Attributes slices are never re-used or overwritten by the caller (AddLink keeps the caller's slice on the pinned tree)",
		"the limits in force are derived from the documentation of the way they are configured: WithRawSpanLimits as-is; deprecated WithSpanLimits replaces zero / negative fields by the Default…Limit constants' documented values (unlimited value length, 128) whatever the environment says; no option = NewSpanLimits (documented variables, general OTEL_ATTRIBUTE_* ones standing in for unset span-specific ones, blank = unset, not an integer = default; a non-integer span-specific value next to a usable general one is not generated); the later of two span limits options counts",
	))
}
