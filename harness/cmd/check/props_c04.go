package main

func init() {
	props["C04"] = cfg("./c04", false, withAssume(
		"attribute order of the exported span is not compared (Attributes() documents no stable order); 'earliest keys kept' is asserted as the set of surviving keys",
		"the value length limit is asserted for span attributes only; event and link attribute values may be untouched or cut by the same rule",
		"for links passed with WithLinks whose span context is invalid but which carry attributes or tracestate, and for the relative order of sampler attributes and WithAttributes at start, either documented reading is accepted",
		"RecordError: position of the synthesized exception.* attributes relative to the caller's attributes is not asserted, only counts, the prefix rule for the caller's attributes and the exception.message value",
		"End running as the deferred call of a panicking goroutine adds the documented exception event, which is modelled as an ordinary event (event FIFO, per-event attribute cap and dropped count; 2 attributes, 3 with WithStackTrace(true)); whether the panic is continued is not asserted; End inside a deferred closure of a panicking goroutine is an ordinary End",
		"the caller may pass one attribute slice object to several calls and to spans of two providers: every call is modelled with the key-values the caller built (the library must not alter elements [0:len) of an attribute slice argument; spare capacity is not examined); trace.Link.Attributes slices are never overwritten by the caller (AddLink keeps the caller's slice on the pinned tree), but a Link value is used again (added to the sibling span / the same span twice, its Attributes passed to SetAttributes or AddEvent, WithLinks values added to the sibling) and each such call is modelled with the key-values the caller built",
		"concurrent_twins: the statement is not restricted to one span being worked on at a time; several goroutines each run the sequential model check on their own provider, span and program (limits as WithRawSpanLimits literals), the oracle being the sequential model per goroutine; a fatal runtime error inside the SDK (process crash) counts as a violation",
		"the limits in force are derived from the documentation of the way they are configured: WithRawSpanLimits as-is; deprecated WithSpanLimits replaces zero / negative fields by the Default…Limit constants' documented values (unlimited value length, 128) whatever the environment says; no option = NewSpanLimits (documented variables, general OTEL_ATTRIBUTE_* ones standing in for unset span-specific ones, blank = unset, not an integer = default; a non-integer span-specific value next to a usable general one is not generated); the later of two span limits options counts",
	))
}
