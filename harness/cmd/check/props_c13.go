package main

func init() {
	// The loopback collectors listen on 127.0.0.1:0 and every shard keeps one
	// connection per exporter open for its whole life, so shards can run side
	// by side (no Serial).
	props["C13"] = cfg("./c13", false, withShards(4, 16), withAssume(
		"pre-epoch and unset times are expected as 0 on the wire (unsigned nanoseconds, 0 = unknown) and counts saturated to [0, MaxUint32]",
		"attribute / map-entry / data-point order and the merging of equal resources and scopes into one message are not asserted; events, links, array values, buckets, quantiles and exemplars are compared in order",
		"not asserted (not in the statement's list): W3C trace flag bits and tracestate of spans and links, ChildSpanCount, the exponential histogram ZeroThreshold, zipkin tags/annotations/endpoints; a span status message is compared for status Error only; remote-ness of parents and links only when the has_is_remote flag bit is set",
		"log severity numbers outside 0..24 may arrive unchanged or as 0; an all-zero ID on the wire equals an absent one; the log record's trace flags byte is part of its trace context",
		"metrics the OTLP transform documents as untransformable (undefined / out-of-range temporality, nil or unknown aggregation) must make Export return an error on both transports while the valid metrics of the batch still arrive and both payloads stay equal (documented best-effort upload)",
		"zipkin: names compared case-insensitively, trace IDs as 128-bit numbers; domain restricted to start >= 1 s after the epoch, End >= Start, below year 2262 minus 1 ms (the Zipkin model rejects the rest)",
		"domain: valid UTF-8 strings, no INVALID attribute values, attribute keys incl. duplicates and the empty key (expected = what the public accessors of the object handed to the exporter report), valid span/trace IDs for the span itself, cumulative or delta temporality; resources of a batch are distinct by attributes",
		"concurrent sub-check (one exporter, 2..6 goroutines): concurrent export is explicitly permitted only for traces (otlptrace.Client.UploadTraces 'May be called concurrently'); sdk/metric.Exporter.Export has 'no concurrency safety requirement' (the OTLP metric exporters serialise uploads themselves) and sdk/log.Exporter says 'Export should never be called concurrently with other Export calls' - so metrics and logs are NOT exercised concurrently (switch: concurrentAsserted in c13/conc_test.go); zipkin is not exercised concurrently; not run under the race detector (the package takes 8x longer with -race), so only corruption that reaches the collector is seen",
		"the gRPC and HTTP exporters are exercised over loopback TCP with and without gzip; collectors and exporters are created once per test process",
	))
}
