package main

func init() {
	props["C13"] = cfg("./c13", false, withShards(4, 16), withAssume(
		"placeholder",
	))
}
