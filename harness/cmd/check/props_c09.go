package main

func init() {
	props["C09"] = cfg("./c09", true, withShards(3, 16), withAssume(
		"only the sampled bit of a new span's trace flags is asserted; other flag bits are not",
		"a parent span context with a valid trace ID but a zero span ID may or may not be treated as a parent (trace ID inherited or fresh; ParentBased dispatch not asserted)",
		"the stock samplers' tracestate passthrough is asserted for valid parents only",
		"the sampled share of TraceIDRatioBased(r) over 4096 hash-derived trace IDs is judged with a Bernstein bound (failure probability < 1e-15 per case) instead of a plain 6 sigma band; the threshold is not re-implemented",
		"a NaN ratio is only exercised for absence of panics",
		"uniqueness of span IDs is evaluated within one run (one provider); IDs of supplied remote parents do not count as handed out",
	))
}
