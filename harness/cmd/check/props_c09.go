package main

func init() {
	props["C09"] = cfg("./c09", true, withShards(3, 16), withAssume(
		"only the sampled bit of a new span's trace flags is asserted; other flag bits are not",
		"unregister_in_flight: a processor that is registered or unregistered while a span is in flight is only held to 'at most once' for that span; spans are started and ended back to back there, so registration between a span's Start and its End is not judged",
		"a parent span context with a valid trace ID but a zero span ID may or may not be treated as a parent (trace ID inherited or fresh; ParentBased dispatch not asserted)",
		"the stock samplers' tracestate passthrough is asserted for valid parents only",
		"the sampled share of TraceIDRatioBased(r) over 4096 hash-derived trace IDs is judged with a Bernstein bound (failure probability < 1e-15 per case) instead of a plain 6 sigma band; the threshold is not re-implemented",
		"the sampled share is also judged over structured trace-ID populations whose TRAILING eight bytes are (pseudo-)random and whose leading eight bytes are zero / ones / constant / epoch prefix / counter / single bit / a copy (documentation: CHANGELOG #3557 'uses the rightmost bits for sampling decisions', W3C left-padded 64-bit IDs), directly and through the tracer (custom and default IDGenerator, WithNewRoot, supplied parents, ParentBased options); populations with a non-uniform trailing half are not judged",
		"a NaN ratio is only exercised for absence of panics",
		"uniqueness of span IDs is evaluated within one run (one provider); IDs of supplied remote parents do not count as handed out",
		"a sampled ended span reaches the exporter of a batch processor without ForceFlush/Shutdown EVENTUALLY: the wait for the processor's schedule (BatchTimeout 1..5 ms) is polled and bounded only by a hang watchdog of max(15 s, 3000 BatchTimeouts)",
		"the non-blocking batch processor's documented drop on a full queue is kept out of the generated cases (an explicit MaxQueueSize is at least the program's span count unless WithBlocking)",
		"what a ForceFlush that returned an error has achieved is not asserted (the provider stops at the first failing processor); the spans must still arrive by Shutdown",
		"an exporter that returns errors must be reached at least once per sampled ended span, a never-failing one exactly once",
		"samplers configured through OTEL_TRACES_SAMPLER / OTEL_TRACES_SAMPLER_ARG are judged against the programmatic sampler for the number the argument text denotes (as strconv.ParseFloat reads the blank-trimmed text) when that number is in [0,1]; unparsable, NaN, out-of-range or missing arguments are only run for absence of panics (their fallbacks are C20's subject)",
	))
}
