// Command check is the driver behind /verif/bin/check:
//
//	check <ID> [--tier quick|thorough] [--replay FILE] [--seed N] [--scale F]
//
// It rebuilds the property's harness package against /repo's current working
// tree (build tag "verif"), runs the compiled test binary as child processes
// (one per shard) so that crashes and hangs of the code under test are
// observed instead of suffered, merges what the children report into
// /verif/evidence/<ID>.json and maps the outcome to the exit code:
//
//	0  the property held on everything explored (KNOWN-FINDING lines may be printed)
//	1  a violation was found: "VIOLATION property=<id> replay=<path>"
//	2  inconclusive (build failure, time budget exhausted, infrastructure)
package main

import (
	"bytes"
	"encoding/binary"
	"encoding/json"
	"errors"
	"flag"
	"fmt"
	"os"
	"os/exec"
	"path/filepath"
	"regexp"
	"sort"
	"strconv"
	"strings"
	"sync"
	"syscall"
	"time"
)

type fuzzTarget struct {
	Name string
	Dur  time.Duration
}

type propCfg struct {
	Pkg                         string
	Race                        bool
	QuickShards, ThoroughShards int
	QuickCap, ThoroughCap       time.Duration // wall clock cap of one shard
	Fuzz                        []fuzzTarget  // thorough tier only
	Assumptions                 []string
	Serial                      bool // shards must not run concurrently (ports, global state)
}

func cfg(pkg string, race bool, mods ...func(*propCfg)) propCfg {
	c := propCfg{Pkg: pkg, Race: race, QuickShards: 1, ThoroughShards: 16,
		QuickCap: 8 * time.Minute, ThoroughCap: 40 * time.Minute}
	for _, m := range mods {
		m(&c)
	}
	return c
}

func withFuzz(ts ...fuzzTarget) func(*propCfg) { return func(c *propCfg) { c.Fuzz = ts } }
func withAssume(a ...string) func(*propCfg) {
	return func(c *propCfg) { c.Assumptions = append(c.Assumptions, a...) }
}
func withShards(q, t int) func(*propCfg) {
	return func(c *propCfg) { c.QuickShards, c.ThoroughShards = q, t }
}

var common = []string{
	"the Go toolchain, race detector and pgregory.net/rapid behave as documented",
	"absence of a violation among the explored cases is not a proof for unexplored ones",
}

var props = map[string]propCfg{}

func root() string {
	if r := os.Getenv("VERIF_ROOT"); r != "" {
		return r
	}
	return "/verif"
}

func goEnv() []string {
	env := os.Environ()
	set := map[string]string{
		"GOFLAGS": "-mod=mod", "GOPROXY": "off", "GOSUMDB": "off", "GOTOOLCHAIN": "local",
		"CGO_ENABLED": "1",
	}
	var out []string
	for _, kv := range env {
		k := kv[:strings.IndexByte(kv, '=')]
		if _, ok := set[k]; ok {
			continue
		}
		// the environment of the code under test must be clean
		if strings.HasPrefix(k, "OTEL_") {
			continue
		}
		out = append(out, kv)
	}
	for k, v := range set {
		out = append(out, k+"="+v)
	}
	return out
}

type stats struct {
	Property           string            `json:"property"`
	Check              string            `json:"check"`
	Shard              int               `json:"shard"`
	Seed               uint64            `json:"seed"`
	Rule               string            `json:"rule"`
	Requested          int               `json:"requested"`
	Evaluations        int               `json:"evaluations"`
	FailingEvaluations int               `json:"failing_evaluations"`
	NonTrivial         int               `json:"nontrivial"`
	DistinctNonTrivial int               `json:"distinct_nontrivial"`
	Classes            map[string]int    `json:"classes"`
	Samples            []json.RawMessage `json:"samples"`
	Known              map[string]int    `json:"known"`
	KnownWhat          map[string]string `json:"known_what"`
	RegressReplayed    int               `json:"regress_replayed"`
	Violations         []struct {
		Replay string `json:"replay"`
		Kind   string `json:"kind"`
		Msg    string `json:"msg"`
	} `json:"violations"`
	Completed bool    `json:"completed"`
	WallS     float64 `json:"wall_s"`
}

type shardResult struct {
	shard    int
	exit     int
	timedOut bool
	log      string
	dir      string
}

func main() {
	if len(os.Args) < 2 {
		fmt.Fprintln(os.Stderr, "usage: check <ID> [--tier quick|thorough] [--replay FILE] [--seed N]")
		os.Exit(2)
	}
	id := os.Args[1]
	fs := flag.NewFlagSet("check", flag.ExitOnError)
	tier := fs.String("tier", envOr("VERIF_TIER", "quick"), "quick|thorough")
	replay := fs.String("replay", "", "replay file")
	seedStr := fs.String("seed", envOr("VERIF_SEED", "0"), "seed")
	scale := fs.String("scale", os.Getenv("VERIF_SCALE"), "case count multiplier")
	repeat := fs.Int("repeat", 0, "replay repetitions (0 = the check's default)")
	shardsFlag := fs.Int("shards", 0, "override the number of shards")
	_ = fs.Parse(os.Args[2:])
	seed, err := strconv.ParseUint(*seedStr, 10, 64)
	if err != nil {
		seed = 0
	}
	pc, ok := props[id]
	if !ok {
		fmt.Fprintf(os.Stderr, "check: unknown property %q\n", id)
		os.Exit(2)
	}
	if *tier != "quick" && *tier != "thorough" {
		fmt.Fprintf(os.Stderr, "check: unknown tier %q\n", *tier)
		os.Exit(2)
	}
	rc := runCheck(id, pc, *tier, *replay, seed, *scale, *repeat, *shardsFlag)
	if rc == 0 && os.Getenv("VERIF_KEEP_WORK") == "" {
		// a clean run leaves nothing behind (replays and evidence live elsewhere)
		for _, k := range []string{*tier, "replay"} {
			_ = os.RemoveAll(filepath.Join(root(), ".work", fmt.Sprintf("%s-%s-p%d", id, k, os.Getpid())))
		}
	}
	os.Exit(rc)
}

func envOr(k, d string) string {
	if v := os.Getenv(k); v != "" {
		return v
	}
	return d
}

func runCheck(id string, pc propCfg, tier, replay string, seed uint64, scale string, repeat, shardsOverride int) int {
	start := time.Now()
	rt := root()
	harness := filepath.Join(rt, "harness")
	// one work directory per invocation: two runs of the same check at the same
	// time (e.g. against different VERIF_REPO trees) must not share journals,
	// stats files and the test binary
	work := filepath.Join(rt, ".work", fmt.Sprintf("%s-%s-p%d", id, tier, os.Getpid()))
	if replay != "" {
		work = filepath.Join(rt, ".work", fmt.Sprintf("%s-replay-p%d", id, os.Getpid()))
	}
	_ = os.RemoveAll(work)
	if err := os.MkdirAll(work, 0o755); err != nil {
		fmt.Fprintf(os.Stderr, "check: %v\n", err)
		return 2
	}
	replays := filepath.Join(rt, "replays", id)
	_ = os.MkdirAll(replays, 0o755)

	// go.sum is derived from /repo so that dependency bumps there do not
	// break the offline build.
	if err := writeGoSum(harness); err != nil {
		fmt.Fprintf(os.Stderr, "check: go.sum: %v\n", err)
	}

	// ---- build from /repo's current working tree ----
	// (VERIF_REPO=<dir> points the build at a scratch worktree instead; used
	// for sensitivity experiments only, never by the registered commands.)
	bin := filepath.Join(work, id+".test")
	args := []string{"test", "-c", "-tags", "verif", "-o", bin}
	if alt := os.Getenv("VERIF_REPO"); alt != "" && alt != "/repo" {
		mf, err := altModfile(harness, work, alt)
		if err != nil {
			fmt.Printf("check %s: cannot prepare alternative module file: %v\n", id, err)
			return 2
		}
		args = append(args, "-modfile", mf)
		fmt.Printf("check %s: building against %s\n", id, alt)
	}
	if pc.Race {
		args = append(args, "-race")
	}
	args = append(args, pc.Pkg)
	cmd := exec.Command("go", args...)
	cmd.Dir = harness
	cmd.Env = goEnv()
	var bout bytes.Buffer
	cmd.Stdout, cmd.Stderr = &bout, &bout
	if err := cmd.Run(); err != nil {
		fmt.Printf("check %s: BUILD FAILED (inconclusive)\n%s\n", id, bout.String())
		return 2
	}

	if replay != "" {
		return runReplay(id, pc, bin, harness, work, replays, replay, repeat)
	}

	nshards := pc.QuickShards
	capDur := pc.QuickCap
	if tier == "thorough" {
		nshards, capDur = pc.ThoroughShards, pc.ThoroughCap
	}
	if shardsOverride > 0 {
		nshards = shardsOverride
	}
	results := make([]shardResult, nshards)
	var wg sync.WaitGroup
	sem := make(chan struct{}, 16)
	if pc.Serial {
		sem = make(chan struct{}, 1)
	}
	for i := 0; i < nshards; i++ {
		wg.Add(1)
		go func(i int) {
			defer wg.Done()
			sem <- struct{}{}
			defer func() { <-sem }()
			dir := filepath.Join(work, fmt.Sprintf("shard%d", i))
			_ = os.MkdirAll(dir, 0o755)
			env := append(goEnv(),
				"VERIF_OUT="+dir, "VERIF_REPLAYS="+replays, "VERIF_TIER="+tier,
				"VERIF_SEED="+strconv.FormatUint(seed, 10), "VERIF_SHARD="+strconv.Itoa(i),
				"VERIF_NSHARDS="+strconv.Itoa(nshards),
				"VERIF_KNOWN="+filepath.Join(rt, "known_findings.json"),
				"VERIF_REGRESS="+filepath.Join(rt, "replays", "regress"),
				"VERIF_SCALE="+scale,
				"GORACE=halt_on_error=1 exitcode=66 log_path="+filepath.Join(dir, "race"),
			)
			results[i] = runChild(bin, filepath.Join(harness, pc.Pkg), dir, env, capDur, i, "-test.run", "^Test", "-test.timeout", "0", "-test.count", "1")
		}(i)
	}
	wg.Wait()

	out := collect(id, pc, tier, seed, work, replays, results, nshards)

	// ---- native fuzzing (thorough only) ----
	if tier == "thorough" && len(out.violations) == 0 {
		for _, ft := range pc.Fuzz {
			v, n := runFuzz(id, pc, harness, work, replays, ft)
			out.fuzzExecs += n
			out.violations = append(out.violations, v...)
			out.fuzzNote = append(out.fuzzNote, fmt.Sprintf("%s: %d execs in %s", ft.Name, n, ft.Dur))
		}
	}
	return finish(id, pc, tier, seed, rt, out, time.Since(start))
}

func writeGoSum(harness string) error {
	var files []string
	_ = filepath.Walk("/repo", func(p string, info os.FileInfo, err error) error {
		if err != nil {
			return nil
		}
		if info.IsDir() && (info.Name() == ".git" || info.Name() == "node_modules") {
			return filepath.SkipDir
		}
		if !info.IsDir() && info.Name() == "go.sum" {
			files = append(files, p)
		}
		return nil
	})
	lines := map[string]struct{}{}
	for _, f := range files {
		b, err := os.ReadFile(f)
		if err != nil {
			continue
		}
		for _, l := range strings.Split(string(b), "\n") {
			if strings.TrimSpace(l) != "" {
				lines[l] = struct{}{}
			}
		}
	}
	// keep what the harness itself needs (rapid)
	if b, err := os.ReadFile(filepath.Join(harness, "go.sum")); err == nil {
		for _, l := range strings.Split(string(b), "\n") {
			if strings.TrimSpace(l) != "" {
				lines[l] = struct{}{}
			}
		}
	}
	var all []string
	for l := range lines {
		all = append(all, l)
	}
	sort.Strings(all)
	data := []byte(strings.Join(all, "\n") + "\n")
	old, _ := os.ReadFile(filepath.Join(harness, "go.sum"))
	if bytes.Equal(old, data) {
		return nil
	}
	return os.WriteFile(filepath.Join(harness, "go.sum"), data, 0o644)
}

// altModfile writes a copy of go.mod/go.sum whose replace directives point
// at another checkout of the repository.
func altModfile(harness, work, alt string) (string, error) {
	b, err := os.ReadFile(filepath.Join(harness, "go.mod"))
	if err != nil {
		return "", err
	}
	nb := strings.ReplaceAll(string(b), "=> /repo", "=> "+alt)
	mf := filepath.Join(work, "alt.mod")
	if err := os.WriteFile(mf, []byte(nb), 0o644); err != nil {
		return "", err
	}
	sum, _ := os.ReadFile(filepath.Join(harness, "go.sum"))
	return mf, os.WriteFile(filepath.Join(work, "alt.sum"), sum, 0o644)
}

func runChild(bin, cwd, dir string, env []string, capDur time.Duration, shard int, args ...string) shardResult {
	logp := filepath.Join(dir, "log.txt")
	lf, _ := os.Create(logp)
	defer lf.Close()
	cmd := exec.Command(bin, args...)
	cmd.Dir = cwd
	cmd.Env = env
	cmd.Stdout, cmd.Stderr = lf, lf
	cmd.SysProcAttr = &syscall.SysProcAttr{Setpgid: true}
	res := shardResult{shard: shard, log: logp, dir: dir}
	if err := cmd.Start(); err != nil {
		res.exit = -1
		return res
	}
	done := make(chan error, 1)
	go func() { done <- cmd.Wait() }()
	select {
	case err := <-done:
		res.exit = exitCode(err)
	case <-time.After(capDur):
		res.timedOut = true
		// ask for a goroutine dump first, then kill the group
		_ = syscall.Kill(-cmd.Process.Pid, syscall.SIGQUIT)
		select {
		case <-done:
		case <-time.After(10 * time.Second):
			_ = syscall.Kill(-cmd.Process.Pid, syscall.SIGKILL)
			<-done
		}
		res.exit = -2
	}
	return res
}

func exitCode(err error) int {
	if err == nil {
		return 0
	}
	var ee *exec.ExitError
	if errors.As(err, &ee) {
		if ws, ok := ee.Sys().(syscall.WaitStatus); ok && ws.Signaled() {
			return 128 + int(ws.Signal())
		}
		return ee.ExitCode()
	}
	return -1
}

type violation struct {
	replay, kind, msg string
}

type outcome struct {
	violations   []violation
	inconclusive []string
	known        map[string]string // id -> what
	knownCount   map[string]int
	perCheck     map[string]*checkAgg
	fuzzExecs    int64
	fuzzNote     []string
}

type checkAgg struct {
	Rule               string            `json:"rule"`
	Requested          int               `json:"requested"`
	Evaluations        int               `json:"evaluations"`
	FailingEvaluations int               `json:"failing_evaluations"`
	NonTrivial         int               `json:"nontrivial"`
	DistinctNonTrivial int               `json:"distinct_nontrivial"`
	Classes            map[string]int    `json:"classes"`
	RegressReplayed    int               `json:"regress_replayed"`
	Shards             int               `json:"shards"`
	samples            []json.RawMessage `json:"-"`
	hashes             map[uint64]struct{}
}

var blockedInOtel = regexp.MustCompile(`(?s)goroutine \d+ \[(semacquire|sync\.Mutex\.Lock|sync\.RWMutex\.R?Lock|chan receive|chan send|select|sync\.Cond\.Wait|sync\.WaitGroup\.Wait)[^\]]*\]:\n(?:[^\n]+\n)*?go\.opentelemetry\.io/otel/(?:[a-z]+)`)

func collect(id string, pc propCfg, tier string, seed uint64, work, replays string, results []shardResult, nshards int) *outcome {
	out := &outcome{known: map[string]string{}, knownCount: map[string]int{}, perCheck: map[string]*checkAgg{}}
	for _, r := range results {
		files, _ := filepath.Glob(filepath.Join(r.dir, "stats.*.json"))
		sort.Strings(files)
		incomplete := false
		for _, f := range files {
			b, err := os.ReadFile(f)
			if err != nil {
				continue
			}
			var st stats
			if err := json.Unmarshal(b, &st); err != nil {
				out.inconclusive = append(out.inconclusive, "bad stats file "+f)
				continue
			}
			a := out.perCheck[st.Check]
			if a == nil {
				a = &checkAgg{Rule: st.Rule, Classes: map[string]int{}, hashes: map[uint64]struct{}{}}
				out.perCheck[st.Check] = a
			}
			a.Shards++
			a.Requested += st.Requested
			a.Evaluations += st.Evaluations
			a.FailingEvaluations += st.FailingEvaluations
			a.NonTrivial += st.NonTrivial
			a.RegressReplayed += st.RegressReplayed
			for k, v := range st.Classes {
				a.Classes[k] += v
			}
			if len(a.samples) < 4 {
				for _, s := range st.Samples {
					if len(a.samples) < 4 {
						a.samples = append(a.samples, s)
					}
				}
			}
			hb, _ := os.ReadFile(strings.Replace(strings.Replace(f, "stats.", "hashes.", 1), ".json", ".bin", 1))
			for i := 0; i+8 <= len(hb); i += 8 {
				a.hashes[binary.LittleEndian.Uint64(hb[i:])] = struct{}{}
			}
			for k, v := range st.Known {
				out.knownCount[k] += v
				out.known[k] = st.KnownWhat[k]
			}
			for _, v := range st.Violations {
				out.violations = append(out.violations, violation{v.Replay, v.Kind, v.Msg})
			}
			if !st.Completed {
				incomplete = true
			}
		}
		// abnormal ends
		switch {
		case r.exit == 0 || (r.exit == 1 && !incomplete && len(files) > 0):
			// clean pass, or test failure already accounted for through stats
			if r.exit == 1 && len(out.violations) == 0 {
				out.inconclusive = append(out.inconclusive, fmt.Sprintf("shard %d: test binary failed without a recorded violation, see %s", r.shard, r.log))
			}
		case r.exit == 66:
			j := newestJournal(r.dir)
			p := promoteJournal(j, replays, "race", raceSummary(r.dir))
			out.violations = append(out.violations, violation{p, "data_race", "race detector report, see " + r.dir + "/race.*"})
		case r.exit == 7:
			j := newestJournal(r.dir)
			dump := readHang(r.dir)
			if blockedInOtel.MatchString(dump) {
				p := promoteJournal(j, replays, "hang", "watchdog expired; goroutines blocked inside go.opentelemetry.io/otel, dump: "+r.dir)
				out.violations = append(out.violations, violation{p, "hang", "case did not finish (deadlock/block forever), goroutine dump in " + r.dir})
			} else {
				out.inconclusive = append(out.inconclusive, fmt.Sprintf("shard %d: watchdog expired without goroutines blocked in the code under test", r.shard))
			}
		case r.timedOut:
			out.inconclusive = append(out.inconclusive, fmt.Sprintf("shard %d: wall-clock cap reached before the requested case count (log %s)", r.shard, r.log))
		case r.exit == 2 || r.exit >= 128 || r.exit == 1:
			// Go runtime fatal error / unrecovered panic in a goroutine (exit 2),
			// or death by signal: the journalled case is the culprit.
			lg, _ := os.ReadFile(r.log)
			if bytes.Contains(lg, []byte("cannot allocate memory")) || bytes.Contains(lg, []byte("out of memory")) || r.exit == 128+9 {
				out.inconclusive = append(out.inconclusive, fmt.Sprintf("shard %d: out of memory / killed", r.shard))
				break
			}
			j := newestJournal(r.dir)
			if j == "" {
				out.inconclusive = append(out.inconclusive, fmt.Sprintf("shard %d: child exited %d without a journal (log %s)", r.shard, r.exit, r.log))
				break
			}
			p := promoteJournal(j, replays, "crash", tailOf(string(lg), 60))
			out.violations = append(out.violations, violation{p, "crash", fmt.Sprintf("the process running the case died (exit %d), log %s", r.exit, r.log)})
		default:
			out.inconclusive = append(out.inconclusive, fmt.Sprintf("shard %d: child exited %d (log %s)", r.shard, r.exit, r.log))
		}
		if len(files) == 0 && r.exit == 0 {
			out.inconclusive = append(out.inconclusive, fmt.Sprintf("shard %d produced no stats", r.shard))
		}
	}
	return out
}

func tailOf(s string, lines int) string {
	ls := strings.Split(s, "\n")
	if len(ls) > lines {
		ls = ls[len(ls)-lines:]
	}
	return strings.Join(ls, "\n")
}

func newestJournal(dir string) string {
	files, _ := filepath.Glob(filepath.Join(dir, "journal.*.json"))
	best, bestT := "", time.Time{}
	for _, f := range files {
		if fi, err := os.Stat(f); err == nil && fi.ModTime().After(bestT) {
			best, bestT = f, fi.ModTime()
		}
	}
	return best
}

func promoteJournal(j, replays, tag, note string) string {
	if j == "" {
		return "(no journal)"
	}
	b, err := os.ReadFile(j)
	if err != nil {
		return j
	}
	var m map[string]any
	if json.Unmarshal(b, &m) != nil {
		return j
	}
	m["note"] = note
	m["violations"] = []map[string]string{{"kind": tag, "msg": "the process running this case ended abnormally (" + tag + ")"}}
	nb, _ := json.MarshalIndent(m, "", " ")
	h := uint64(14695981039346656037)
	for _, c := range b {
		h = (h ^ uint64(c)) * 1099511628211
	}
	p := filepath.Join(replays, fmt.Sprintf("%v-%v-%s-%016x.json", m["property"], m["check"], tag, h))
	_ = os.WriteFile(p, nb, 0o644)
	return p
}

func raceSummary(dir string) string {
	files, _ := filepath.Glob(filepath.Join(dir, "race.*"))
	var sb strings.Builder
	for _, f := range files {
		b, _ := os.ReadFile(f)
		if len(b) > 6000 {
			b = b[:6000]
		}
		sb.Write(b)
	}
	return sb.String()
}

func readHang(dir string) string {
	files, _ := filepath.Glob(filepath.Join(dir, "hang.*.txt"))
	var sb strings.Builder
	for _, f := range files {
		b, _ := os.ReadFile(f)
		sb.Write(b)
	}
	return sb.String()
}

func finish(id string, pc propCfg, tier string, seed uint64, rt string, out *outcome, wall time.Duration) int {
	// ---- evidence ----
	evals, distinct, nontrivial := 0, 0, 0
	var rules []string
	var samples []any
	classes := map[string]int{}
	names := make([]string, 0, len(out.perCheck))
	for n := range out.perCheck {
		names = append(names, n)
	}
	sort.Strings(names)
	requested := 0
	for _, n := range names {
		a := out.perCheck[n]
		a.DistinctNonTrivial = len(a.hashes)
		evals += a.Evaluations
		distinct += a.DistinctNonTrivial
		nontrivial += a.NonTrivial
		requested += a.Requested
		rules = append(rules, n+": "+a.Rule)
		for k, v := range a.Classes {
			classes[n+"/"+k] = v
		}
		for _, s := range a.samples {
			if len(samples) < 12 {
				samples = append(samples, map[string]any{"check": n, "case": s})
			}
		}
		if a.Evaluations < a.Requested && len(out.violations) == 0 {
			out.inconclusive = append(out.inconclusive, fmt.Sprintf("check %s executed %d of %d requested cases", n, a.Evaluations, a.Requested))
		}
	}
	if len(samples) == 0 {
		samples = append(samples, "no non-trivial case was recorded in this run")
	}
	known := map[string]any{}
	for k, w := range out.known {
		known[k] = map[string]any{"what": w, "matched_violations": out.knownCount[k]}
	}
	ev := map[string]any{
		"property_id": id,
		"tier":        tier,
		"seed":        seed,
		"level":       "exploration",
		"coverage": map[string]any{
			"evaluations":         evals,
			"distinct_nontrivial": distinct,
			"nontrivial":          nontrivial,
			"requested":           requested,
			"rule":                strings.Join(rules, " || "),
			"samples":             samples,
			"classes":             classes,
			"per_check":           out.perCheck,
			"known_findings_hit":  known,
			"native_fuzz_execs":   out.fuzzExecs,
			"native_fuzz":         out.fuzzNote,
			"inconclusive":        out.inconclusive,
			"race_detector":       pc.Race,
		},
		"assumptions": append(append([]string{}, common...), pc.Assumptions...),
		"wall_s":      wall.Seconds(),
		"violations":  len(out.violations),
	}
	evDir := filepath.Join(rt, "evidence")
	if alt := os.Getenv("VERIF_REPO"); alt != "" && alt != "/repo" {
		// sensitivity experiments against a scratch worktree never touch the
		// evidence of the registered checks
		evDir = filepath.Join(rt, ".work", "evidence-alt")
	}
	_ = os.MkdirAll(evDir, 0o755)
	eb, _ := json.MarshalIndent(ev, "", " ")
	_ = os.WriteFile(filepath.Join(evDir, id+".json"), append(eb, '\n'), 0o644)

	// ---- report ----
	kids := make([]string, 0, len(out.known))
	for k := range out.known {
		kids = append(kids, k)
	}
	sort.Strings(kids)
	for _, k := range kids {
		fmt.Printf("KNOWN-FINDING: property=%s %s [%s, matched %d generated cases]\n", id, out.known[k], k, out.knownCount[k])
	}
	fmt.Printf("check %s tier=%s seed=%d: %d cases (%d distinct non-trivial) in %.1fs\n", id, tier, seed, evals, distinct, wall.Seconds())
	if len(out.violations) > 0 {
		seen := map[string]bool{}
		for _, v := range out.violations {
			if seen[v.replay] {
				continue
			}
			seen[v.replay] = true
			fmt.Printf("VIOLATION property=%s replay=%s\n  %s: %s\n", id, v.replay, v.kind, oneLine(v.msg, 400))
		}
		return 1
	}
	if len(out.inconclusive) > 0 {
		for _, s := range out.inconclusive {
			fmt.Printf("INCONCLUSIVE: %s\n", s)
		}
		return 2
	}
	fmt.Printf("OK property=%s\n", id)
	return 0
}

func oneLine(s string, max int) string {
	s = strings.ReplaceAll(s, "\n", " ")
	if len(s) > max {
		s = s[:max] + "…"
	}
	return s
}

func runReplay(id string, pc propCfg, bin, harness, work, replays, replay string, repeat int) int {
	abs, _ := filepath.Abs(replay)
	head, _ := os.ReadFile(abs)
	if bytes.HasPrefix(head, []byte("go test fuzz v1")) {
		return replayFuzz(id, pc, harness, abs)
	}
	dir := filepath.Join(work, "replay")
	_ = os.MkdirAll(dir, 0o755)
	env := append(goEnv(),
		"VERIF_OUT="+dir, "VERIF_REPLAYS="+dir, "VERIF_REPLAY="+abs,
		"VERIF_KNOWN="+filepath.Join(root(), "known_findings.json"),
		"GORACE=halt_on_error=1 exitcode=66 log_path="+filepath.Join(dir, "race"),
	)
	if repeat > 0 {
		env = append(env, "VERIF_REPEAT="+strconv.Itoa(repeat))
	}
	r := runChild(bin, filepath.Join(harness, pc.Pkg), dir, env, 20*time.Minute, 0, "-test.run", "^Test", "-test.timeout", "0", "-test.v")
	lg, _ := os.ReadFile(r.log)
	if r.exit == 0 {
		fmt.Printf("replay %s: passes\n", abs)
		return 0
	}
	fmt.Println(tailOf(string(lg), 80))
	fmt.Printf("VIOLATION property=%s replay=%s\n", id, abs)
	return 1
}

var execsRe = regexp.MustCompile(`execs: (\d+)`)

func fuzzCacheDir() string {
	return filepath.Join(root(), ".work", "fuzzcache")
}

func runFuzz(id string, pc propCfg, harness, work, replays string, ft fuzzTarget) ([]violation, int64) {
	pkgDir := filepath.Join(harness, pc.Pkg)
	crashDir := filepath.Join(pkgDir, "testdata", "fuzz", ft.Name)
	before := listFiles(crashDir)
	// the package must precede -test.fuzzcachedir: go test stops parsing its own flags there
	args := []string{"test", "-tags", "verif", "-run", "^$", "-fuzz", "^" + ft.Name + "$", "-fuzztime", ft.Dur.String(), pc.Pkg, "-test.fuzzcachedir", filepath.Join(fuzzCacheDir(), id, ft.Name)}
	cmd := exec.Command("go", args...)
	cmd.Dir = harness
	cmd.Env = append(goEnv(), "VERIF_OUT="+filepath.Join(work, "fuzz"), "VERIF_KNOWN="+filepath.Join(root(), "known_findings.json"))
	var buf bytes.Buffer
	cmd.Stdout, cmd.Stderr = &buf, &buf
	err := cmd.Run()
	_ = os.WriteFile(filepath.Join(work, "fuzz-"+ft.Name+".log"), buf.Bytes(), 0o644)
	var execs int64
	for _, m := range execsRe.FindAllStringSubmatch(buf.String(), -1) {
		if n, e := strconv.ParseInt(m[1], 10, 64); e == nil && n > execs {
			execs = n
		}
	}
	var vs []violation
	after := listFiles(crashDir)
	for f := range after {
		if !before[f] {
			dst := filepath.Join(replays, "fuzz-"+ft.Name+"-"+filepath.Base(f))
			b, _ := os.ReadFile(f)
			_ = os.WriteFile(dst, append([]byte{}, b...), 0o644)
			_ = os.WriteFile(dst+".target", []byte(ft.Name), 0o644)
			_ = os.Remove(f)
			vs = append(vs, violation{dst, "native_fuzz_crasher", ft.Name + ": " + tailOf(buf.String(), 30)})
		}
	}
	if err != nil && len(vs) == 0 {
		fmt.Printf("INCONCLUSIVE: native fuzzing of %s ended with %v (log %s)\n", ft.Name, err, filepath.Join(work, "fuzz-"+ft.Name+".log"))
	}
	return vs, execs
}

func listFiles(dir string) map[string]bool {
	m := map[string]bool{}
	es, _ := os.ReadDir(dir)
	for _, e := range es {
		if !e.IsDir() {
			m[filepath.Join(dir, e.Name())] = true
		}
	}
	return m
}

func replayFuzz(id string, pc propCfg, harness, file string) int {
	tb, err := os.ReadFile(file + ".target")
	if err != nil {
		fmt.Printf("check: %s.target (fuzz target name) missing\n", file)
		return 2
	}
	target := strings.TrimSpace(string(tb))
	pkgDir := filepath.Join(harness, pc.Pkg)
	dir := filepath.Join(pkgDir, "testdata", "fuzz", target)
	_ = os.MkdirAll(dir, 0o755)
	name := "replay-" + filepath.Base(file)
	b, _ := os.ReadFile(file)
	dst := filepath.Join(dir, name)
	_ = os.WriteFile(dst, b, 0o644)
	defer os.Remove(dst)
	cmd := exec.Command("go", "test", "-tags", "verif", "-run", "^"+target+"$/^"+name+"$", pc.Pkg)
	cmd.Dir = harness
	cmd.Env = goEnv()
	outb, err := cmd.CombinedOutput()
	fmt.Println(tailOf(string(outb), 60))
	if err != nil {
		fmt.Printf("VIOLATION property=%s replay=%s\n", id, file)
		return 1
	}
	fmt.Printf("replay %s: passes\n", file)
	return 0
}
