package main

func init() {
	props["C01"] = cfg("./c01", true, withShards(2, 6), withAssume(
		"schedules are sampled (generated programs, perturbations and exporter latencies, each program run twice under the race detector), not enumerated",
		"visibility is asserted only for ForceFlush/Shutdown calls that returned nil and do not overlap a Shutdown call",
		"the processor's dropped counter is read from its 'exporting spans … total_dropped' debug log line",
		"a Shutdown that returns nil strictly after an earlier Shutdown call returned an error is held to the clauses in full only in the sequential sub-check bsp_lifecycle (this found the defect repaired by /repo 63802c8); elsewhere only to 'no span ended afterwards is exported' and 'every owed span is handed over once the processor has shut its exporter down'",
		"through a TracerProvider with several processors only ForceFlush calls and the first Shutdown call that returned nil are asserted, for the batch processors registered at that moment; nothing is asserted about the value of a returned error",
	))
}
