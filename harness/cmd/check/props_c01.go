package main

func init() {
	props["C01"] = cfg("./c01", true, withShards(2, 16), withAssume(
		"schedules are sampled (generated programs, perturbations and exporter latencies, each program run twice under the race detector), not enumerated",
		"visibility is asserted only for ForceFlush/Shutdown calls that returned nil and do not overlap a Shutdown call",
		"the processor's dropped counter is read from its 'exporting spans … total_dropped' debug log line",
		"through a TracerProvider with several processors only ForceFlush calls and the first Shutdown call that returned nil are asserted, for the batch processors registered at that moment; nothing is asserted about the value of a returned error",
	))
}
