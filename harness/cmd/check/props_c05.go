package main

func init() {
	props["C05"] = cfg("./c05", false, withAssume(
		"pairs of sets that are equal under exactly one of {bitwise, Go ==} equality (+0 vs -0, NaN payloads) are not asserted either way",
	))
}
