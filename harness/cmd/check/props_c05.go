package main

func init() {
	props["C05"] = cfg("./c05", false, withAssume(
		"pairs of sets that are equal under exactly one of {bitwise, Go ==} equality (+0 vs -0, NaN payloads) are not asserted either way",
		"strings are byte strings: the value supplied is the bytes supplied; renderings that cannot carry invalid UTF-8 (JSON, the default encoder) are not compared for such values; that Set.MarshalJSON succeeds is not asserted, only that what it returns reads back as the contents",
	))
}
