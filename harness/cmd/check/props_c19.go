package main

import "time"

func init() {
	props["C19"] = cfg("./c19", false,
		withFuzz(fuzzTarget{"FuzzEnvAttrs", 3 * time.Minute}),
		withAssume(
			"pairs of resources that are equal under exactly one of {bitwise, Go ==} equality (+0 vs -0, NaN payloads) are not asserted either way; NaN inside FLOAT64SLICE values is excluded (C05 known finding)",
			"a key whose last occurrence in a constructor list has an INVALID value while an earlier one is valid may be dropped or keep the last valid value",
			"OTEL_RESOURCE_ATTRIBUTES keys are Baggage tokens and are not percent-encoded; only values are",
			"the value kept for a pair with an undecodable percent escape, and the schema URL after a detector schema conflict followed by further URLs, are not asserted beyond the statement",
			"schema URLs are opaque strings: two URLs are 'common' iff they are the same string (no normalisation of trailing '/', white space, letter case, escapes); a resource built with URL S by NewWithAttributes, New(WithSchemaURL(S)) or StringDetector(S, ...) has schema URL S",
			"WithFromEnv contributes the environment detector at the position of the option: WithAttributes options after it win on shared keys (service.name included), options before it lose",
			"hostile caller: the caller's expectation for a list sharing a backing array with another list is the list as built before the first call; whether the library writes into a caller's detector array is observed only through the result of the caller's next call (class label, not asserted); kv lists sharing an array are used shorter-first, once each, because constructors may reorder the slice they are given (last-value-wins preserved)",
		))
}
