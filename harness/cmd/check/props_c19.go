package main

import "time"

func init() {
	props["C19"] = cfg("./c19", false,
		withFuzz(fuzzTarget{"FuzzEnvAttrs", 3 * time.Minute}),
		withAssume(
			"pairs of resources that are equal under exactly one of {bitwise, Go ==} equality (+0 vs -0, NaN payloads) are not asserted either way; NaN inside FLOAT64SLICE values is excluded (C05 known finding)",
			"a key whose last occurrence in a constructor list has an INVALID value while an earlier one is valid may be dropped or keep the last valid value",
			"OTEL_RESOURCE_ATTRIBUTES keys are Baggage tokens and are not percent-encoded; only values are",
			"the value kept for a pair with an undecodable percent escape, and the schema URL after a detector schema conflict followed by further URLs, are not asserted beyond the statement",
		))
}
