package main

func init() {
	props["C18"] = cfg("./c18", true, withAssume(
		"model.NameValidationScheme is process-global: cases run sequentially in one process, each sets and restores it",
		"a name that ends with 'total' or the unit word without a delimiter or in another letter case may or may not count as carrying the suffix (both namings accepted); a counter literally named 'total' is only required to be legal and to end with _total",
		"registries Prometheus rejects by design (instruments sharing a family, inconsistent key sets, attribute sets that alias after the collision merge) are only checked for 'no panic' and legal names",
		"exponential histogram points: scale > 8 is expected at schema 8 with neighbours merged; scale < -4 has no Prometheus schema and nothing is asserted for such a point",
		"which sampled measurement becomes the exemplar is the SDK reservoir's choice: asserted is that an exposed exemplar is the faithful record of one sampled measurement of that series (right bucket); whether an exemplar is exposed at all is not asserted (the statement does not mention exemplars beyond faithful series)",
		"an exporter that is not (yet) registered with a MeterProvider may expose a label-less target_info; anything else it exposes is a violation",
		"a scope attribute whose key only SANITISES to otel_scope_name / otel_scope_version (legacy scheme) is merged with the real value by the general collision rule; the otel_scope_info series is expected with that merged value, the data points with the real one",
		"instruments of different scopes that share an exported family: values are not asserted (the winner depends on the SDK's scope order); the registry must accept every scrape when the scope labels are on and the scopes differ in (name, version); clashes inside one scope / without scope labels / with an ambiguous View are 'no panic' only",
		"two instruments of one scope with the same spelling but another kind of data are told apart in the ManualReader's output by their data shape; names of one scope that differ only in letter case stay 'no panic' only",
		"the race window of concurrent FIRST scrapes is sampled (2..8 scrapers x 2..6 fresh exporters per concurrent case), not enumerated",
		"a resource / scope / instrument attribute that Prometheus cannot represent (value not valid UTF-8; key not valid UTF-8 under the UTF-8 scheme): asserted is that the registry accepts every scrape and that everything representable stays exact; what becomes of the unrepresentable element (target_info, that scope's otel_scope_info and instruments, that series) is not asserted, client_golang's refusal going to otel.Handle is expected",
		"the label value of a non-string attribute is expected in its canonical string form (attribute.Value.Emit)",
		"process-wide first-use state is sampled in 2..3 fresh child processes per fresh_process case (2..4 exporters x 1..3 first scrapes released together); a race whose window the sampled schedules do not hit is missed",
		"concurrent scrapes are checked for crash/race freedom, legal names, cumulative shape and monotone counters; exact values only at quiescence; schedules are sampled, not enumerated",
	))
}
