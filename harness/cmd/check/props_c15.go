package main

func init() {
	props["C15"] = cfg("./c15", true, withShards(2, 16), withAssume(
		"schedules are sampled (generated programs and perturbations, each concurrent program run twice under the race detector), not enumerated",
		"the obligations that follow a provider Shutdown (everything shut down exactly once, no-op handles, nothing delivered or exported for later telemetry calls) are asserted only after a Shutdown call with a live context has returned nil (MeterProvider: nil or ErrReaderShutdown); in concurrent programs only once every Shutdown call issued before that return has itself returned",
		"a Shutdown with an already-cancelled (or already-expired) context, or one that returned an error, establishes only the <= 1 bound and crash/hang freedom",
		"every processor is registered at most once; the == 1 shutdown count of exporters behind the stock span processors is asserted only in programs without cancelled-context Shutdown calls (they are shut down from a goroutine then)",
		"'nothing more is exported' is read per span/record: one whose End/Emit was issued after the provider was down must never reach a processor or exporter; a batch processor still draining earlier telemetry is not a violation",
		"for the metric pipeline 'nothing more is exported' is read per Export call and for any returned Shutdown call (any context, any result): no Export call begins on the exporter of a PeriodicReader once a Shutdown call on the reader or on its provider has returned; an Export still running at that moment is not a violation",
		"blocks-forever is decided by a 30 s per-case watchdog plus the driver's goroutine dump",
	))
}
