package main

import "time"

func init() {
	props["C03"] = cfg("./c03", false,
		withFuzz(fuzzTarget{"FuzzExtract", 5 * time.Minute}, fuzzTarget{"FuzzParseTraceState", 5 * time.Minute}),
		withAssume(
			"which well-formed headers must be accepted is not asserted (only what comes out of an accepted header is judged); members valid by the W3C level-1 ABNF handed to Insert / ParseTraceState without optional white space must be accepted",
			"optional blanks/tabs around a traceparent value and empty tracestate list-members are not counted as malformed; empty list-members do not count towards the limit of 32",
			"of the trace flags only the sampled bit is compared across a round trip; re-injected flags must be 00 or 01",
			"which entry of a pre-filled carrier is the traceparent / tracestate header follows the storage type's documented addressing (http.Header: canonical MIME key, first field line; map: exact key); a reachable stale tracestate that survives Inject of a span context without tracestate is not judged (TextMapCarrier has no delete)",
			"the round trip of a carrier is judged whatever the caller does with OTHER carriers in between (carriers copied from it, deeply or sharing http.Header field-line slices) and whatever other goroutines inject into / extract from their own carriers at the same moment (oracle: the sequential round trip per goroutine; no claim about two goroutines using one carrier)",
		))
}
