package main

func init() {
	props["C12"] = cfg("./c12", false, withAssume(
		"the set table of a stream lives from one collection to the next for delta temporality and for asynchronous sum / last-value streams, and from creation on for cumulative synchronous streams; 'the first L-1 distinct sets' is read within that lifetime",
		"a delta reader of an asynchronous sum is compared per reported (post-filter, post-limit) stream with: this cycle's aggregate minus what the preceding collection reported for that stream",
		"result streams that share name, unit, kind and number type but are defined with different aggregations or filters (conflicting duplicates), and distinct streams indistinguishable in the output, are not generated and not asserted",
		"histograms of instruments that may record negative values carry no sum (documented); only their count is compared",
		"a view asking for AggregationDefault{} gets DefaultAggregationSelector(kind), never the reader's aggregation selector; a Drop chosen by a reader's selector removes the stream for that reader only",
		"limit_concurrent: measurements racing for the last identity slots may be admitted in any order (which racing set keeps its identity is not asserted); a set first measured strictly before another one (program order / after a join) must not lose against it; not run under -race (the sequential sub-checks would exceed the quick budget about 4x)",
		"every histogram point (identified and overflow) is compared field by field with the measurements folded into it: count, sum, min, max (NoMinMax is never configured), explicit bucket counts by the documented (lower, upper] rule against the configured bounds, exponential zero count; exponential bucket placement is left to C07",
		"non-finite float64 measurements (+Inf, NaN; -Inf where negative values are allowed) are counted like any other measurement by sum, last-value and explicit-bucket histogram streams (the set takes an identity slot, count conservation holds, sums follow IEEE with NaN == NaN; min/max and the bucket of a point that folded a NaN are not predicted, only that every measurement is in exactly one bucket); the base-2 exponential aggregation ignores non-finite values by design on the pinned tree (no point, no slot, not counted) and is modelled so",
		"attribute filters may decide on key AND value (attribute.Filter takes a KeyValue): generated value-dependent filters are pure functions of one key-value pair and the reference applies the same predicate to every key-value of every measurement; limit_concurrent uses no attribute filter",
		"OTEL_GO_X_CARDINALITY_LIMIT is read as documented ('the integer limit value'; 'All other values are ignored'; '<= 0: no limit'): optional sign + decimal digits = that integer, leading zeros included; values no reading takes for an integer = no limit; spellings the documentation leaves open (0x10, 1_000, 1e3, 2.0, blanks) are not generated",
		"a synchronous instrument requested twice from one meter (identically or with its name in upper case) is one instrument: one stream, one set table, every measurement counted once whichever handle made it",
		"config_lent: a provider's configuration is what its arguments held when NewMeterProvider (NewView, NewManualReader, the filter constructors, WithAttributes) returned; the caller overwrites the slices it lent only after those calls returned, never between building an Option and NewMeterProvider (Options are documented to apply when the provider is built); two providers configured from the same buffers are each compared with their own model",
		"'one collection' is the content of the ResourceMetrics after Collect returned, also when the same ResourceMetrics is passed to every Collect of a reader",
	))
}
