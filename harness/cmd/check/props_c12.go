package main

func init() {
	props["C12"] = cfg("./c12", false, withAssume(
		"the set table of a stream lives from one collection to the next for delta temporality and for asynchronous sum / last-value streams, and from creation on for cumulative synchronous streams; 'the first L-1 distinct sets' is read within that lifetime",
		"a delta reader of an asynchronous sum is compared per reported (post-filter, post-limit) stream with: this cycle's aggregate minus what the preceding collection reported for that stream",
		"result streams that share name, unit, kind and number type but are defined with different aggregations or filters (conflicting duplicates), and distinct streams indistinguishable in the output, are not generated and not asserted",
		"histograms of instruments that may record negative values carry no sum (documented); only their count is compared",
	))
}
