package main

import "time"

func init() {
	props["C11"] = cfg("./c11", false,
		withFuzz(fuzzTarget{"FuzzParse", 5 * time.Minute}),
		withAssume(
			"round trips are asserted for W3C token keys only (Baggage.String documents that members and properties with other keys are skipped)",
			"which headers Parse must accept is taken from the W3C baggage grammar (token keys, baggage-octet values with well-formed %XX triplets, OWS around = ; ,) within 180 list-members / 8192 bytes / 4096 bytes per list-member; headers outside the grammar may be accepted or rejected",
			"a run of percent-decoded bytes that is not UTF-8 must come out as U+FFFD; how many replacement characters a run yields is not asserted",
			"NewMember / NewKeyValueProperty must accept a token key with a well-formed percent-encoding of valid UTF-8 (any mix of escaped and literal baggage-octets, either hex case) and then equal the Raw-built value; for any other text they may return an error or a value, but never a value that is not valid UTF-8, and what they hand out must round-trip like any other member",
			"New may reject only if, measured on the Member.String() the implementation emits, a limit (180 distinct keys, 4096 bytes per member, 8192 bytes joined by commas) is exceeded; SetMember enforces no limits and none is asserted on it",
		))
}
