package main

func init() {
	props["C06"] = cfg("./c06", true, withShards(2, 16), withAssume(
		"schedules are sampled (generated programs, perturbations and exporter latencies, each program run twice under the race detector), not enumerated",
		"completeness is asserted only for ForceFlush/Shutdown calls that returned nil and do not overlap a Shutdown call",
		"a never-exported record is accepted only if at least <queue size> other records could have been queued after it before the next successful flush",
		"the configured queue and batch sizes are derived from the documented precedence (option >= 1, else decimal-integer environment value >= 1, else default 2048 / 512); where the documentation has two readings (option value < 1 next to an environment value; an environment value only a lenient parser accepts; out-of-range integers) the weaker bound is used",
	))
}
