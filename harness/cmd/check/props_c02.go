package main

func init() {
	props["C02"] = cfg("./c02", true, withShards(2, 16), withAssume(
		"schedules are sampled (generated programs, perturbations, export latencies and 1-5 ms export intervals, each program run twice under the race detector), not enumerated",
		"'reported' = returned by a Collect call that returned nil or contained in a payload handed to the reader's exporter before the reader called that exporter's Shutdown (the Exporter interface documents that Export performs no operation afterwards; a third of the generated exporters store such a payload all the same); a user Collect on a PeriodicReader counts as a consumer of that reader's pipeline",
		"for an export only the instant Export was entered is known: lower bounds (nothing lost / late) are asserted at ManualReader collections and at ForceFlush / Shutdown calls that returned nil, upper bounds (nothing counted twice or invented) at every collection",
		"a ForceFlush / Shutdown that returned an error is still a flush point unless the error is excused by a scripted callback failure or by a cancelled / expired context: the scripted errors of the harness' exporters are returned after the payload was stored, and a contract exporter refuses only what the reader hands it after shutting it down",
		"Adds issued while or after Shutdown runs may or may not be reported; calls after Shutdown returned are only required not to panic",
		"instruments of one meter that share a name but differ in kind or number type are different instruments (the SDK only warns about the duplicate registration and reports each as its own metric); a reported metric is attributed to an instrument by (scope, name, Sum[int64] / Sum[float64], IsMonotonic)",
		"a reader the program shuts down directly ends its pipeline there (a PeriodicReader's own Shutdown is its final flush point; later Adds are not asserted for it); a MeterProvider.ForceFlush / Shutdown error made only of ErrReaderShutdown (at most one per reader shut down directly by then) counts as a successful flush of every other reader",
		"non-finite float64 measurements are inputs like any other (Float64Counter / Float64UpDownCounter document no restriction on the argument beyond 'increasing values' for the counter): +Inf is generated for both kinds, -Inf and NaN for up-down counters only; the reference total is the IEEE sum, which is order independent for them (NaN if a NaN or both infinities were recorded, else the infinity, else the exact finite sum; NaN compared as NaN, -0 as 0); where IEEE addition is itself order dependent (values near MaxFloat64 mixed with negative ones on an up-down counter) +Inf and the exact sum are both accepted",
		"'registered reader' / 'recorded' refer to the provider as configured when NewMeterProvider returned: the Option, View and reader-option slices handed to the constructors belong to the caller, who may overwrite them (here: to configure a second provider) as soon as the constructor returned; nothing is overwritten between building an Option and NewMeterProvider",
		"OTEL_GO_X_CARDINALITY_LIMIT is unset (the driver strips OTEL_* variables)",
	))
}
