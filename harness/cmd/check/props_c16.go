package main

func init() {
	props["C16"] = cfg("./c16", true, withShards(2, 16), withAssume(
		"schedules are sampled (generated programs and perturbations, each program run twice under the race detector), not enumerated",
		"all installers of one program install the same SDK object; 'installation returned' is the instant the first Set*Provider(sdk) call returned",
		"measurements / spans issued before that instant are allowed to be forwarded or dropped; only those issued afterwards are required",
		"RegisterCallback is only given instruments created through the same meter handle; option callbacks only on identities created once",
		"a hang is detected by the 20 s per-case watchdog of the kit (a normal case takes milliseconds)",
		"the SDK hands Collect's context on to the callbacks (that is how a callback knows which reader's collection it serves); nothing is asserted about the data of instruments whose name the SDK refuses or of callbacks registered on them, nor about whether such rejections are reported",
		"the refusing wrapper provider of the harness stands for a strict bridge: it answers marked instruments with (nil, err) and callbacks given a nil instrument with (nil, err); the same 'nothing asserted about refused ones' applies",
		"the auto-instrumentation flag (normally flipped by an eBPF agent from outside the process) is set through the verif hook only at phase barriers; nothing is asserted about the delivery of auto-instrumentation SDK spans (started through placeholder tracers before installation while the flag is on)",
		"the counting wrapper provider of the harness identifies a callback arriving at the SDK's RegisterCallback by calling it once with a probe context (the harness's callbacks then only report their id); callbacks registered without instruments are never invoked by the SDK (documented no-op), only their registration count is checked",
		"a span started after SetTracerProvider returned 'reaches the SDK' with the start options (kind, attributes) and the parent span context it was started with",
		"many_handles: table sizes are sampled log-scale up to 32767 tracer / meter scopes and 16383 instruments / callbacks per program; larger tables are not explored",
		"special measurement values: negative values only on up-down counters and gauges, NaN not on monotonic counters (undefined by the API); a data point holding exactly one measurement is expected to report that value (histogram: count 1, sum = value)",
	))
}
