package c01

// Sub-check bsp_flush_deadline: ForceFlush with a deadline of a few
// microseconds against a small queue that the caller keeps full.
//
// Region built by construction after the thorough tier (bsp_history, seed 3,
// one case in about 50000) reported a not_flushed violation that 3000 replays
// did not reproduce: ForceFlush waits to enqueue its flush marker when the
// queue is full; when its context ended during that wait the marker was never
// enqueued, yet ForceFlush went on to export the current batch, and with an
// empty batch it could return nil although spans ended before the call were
// still queued (about once in 400000 calls in a probe). Repaired by /repo
// 061e032. The random programs reach the window far too rarely for the quick
// tier, hence this scenario: many rounds of "end a few spans, ForceFlush with a
// generated microsecond deadline"; whenever that ForceFlush returns nil, a
// second ForceFlush without deadline must not find anything left to hand over
// (nothing is ended in between, so whatever the second flush hands over was
// ended before the first one was called).
//
// The oracle is schedule independent: it only uses the statement's clause
// "every sampled span whose End returned before ForceFlush ... was called has
// been handed to the span exporter ... by the time that call returns without
// error, unless it was dropped because the bounded queue was full" - a span
// that the second flush hands over was not dropped.

import (
	"context"
	"fmt"
	"sync/atomic"
	"testing"
	"time"

	sdktrace "go.opentelemetry.io/otel/sdk/trace"
	"go.opentelemetry.io/otel/sdk/trace/tracetest"
	"go.opentelemetry.io/otel/trace"
	"go.opentelemetry.io/otel/verif/internal/vk"
	"pgregory.net/rapid"
)

// FlushCase is one generated scenario.
type FlushCase struct {
	Queue    int  `json:"queue"`    // 1..4
	Batch    int  `json:"batch"`    // 1..16
	Burst    int  `json:"burst"`    // spans ended per round, 1..6
	MaxUS    int  `json:"max_us"`   // deadlines cycle through 1..MaxUS microseconds
	Rounds   int  `json:"rounds"`   // rounds per processor
	Procs    int  `json:"procs"`    // processors used one after the other
	Blocking bool `json:"blocking"` // WithBlocking
	Flags    int  `json:"flags"`    // trace flags of the spans (sampled bit always set)
}

func genFlushCase(t *rapid.T) FlushCase {
	return FlushCase{
		Queue:    rapid.IntRange(1, 4).Draw(t, "queue"),
		Batch:    rapid.SampledFrom([]int{1, 2, 3, 8, 16}).Draw(t, "batch"),
		Burst:    rapid.IntRange(1, 6).Draw(t, "burst"),
		MaxUS:    rapid.SampledFrom([]int{2, 5, 10, 40, 100}).Draw(t, "max_us"),
		Rounds:   rapid.SampledFrom([]int{2000, 5000, 10000}).Draw(t, "rounds"),
		Procs:    rapid.IntRange(1, 3).Draw(t, "procs"),
		Blocking: rapid.Bool().Draw(t, "blocking"),
		Flags:    rapid.SampledFrom([]int{1, 3, 129, 255}).Draw(t, "flags"),
	}
}

type countingExporter struct{ n atomic.Int64 }

func (e *countingExporter) ExportSpans(_ context.Context, s []sdktrace.ReadOnlySpan) error {
	e.n.Add(int64(len(s)))
	return nil
}
func (e *countingExporter) Shutdown(context.Context) error { return nil }

func runFlushCase(c FlushCase) ([]vk.Violation, vk.Info) {
	var vs []vk.Violation
	var info vk.Info
	stub := tracetest.SpanStub{Name: "s"}
	stub.SpanContext = trace.NewSpanContext(trace.SpanContextConfig{TraceID: trace.TraceID{1}, SpanID: trace.SpanID{2}, TraceFlags: trace.TraceFlags(c.Flags | 1)})
	span := stub.Snapshot()
	nils, expired := 0, 0
	for p := 0; p < c.Procs && len(vs) == 0; p++ {
		e := &countingExporter{}
		opts := []sdktrace.BatchSpanProcessorOption{sdktrace.WithMaxQueueSize(c.Queue), sdktrace.WithMaxExportBatchSize(c.Batch), sdktrace.WithBatchTimeout(time.Hour)}
		if c.Blocking {
			opts = append(opts, sdktrace.WithBlocking())
		}
		bsp := sdktrace.NewBatchSpanProcessor(e, opts...)
		for r := 0; r < c.Rounds && len(vs) == 0; r++ {
			for k := 0; k < c.Burst; k++ {
				bsp.OnEnd(span)
			}
			us := 1 + r%c.MaxUS
			ctx, cancel := context.WithTimeout(context.Background(), time.Duration(us)*time.Microsecond)
			err := bsp.ForceFlush(ctx)
			cancel()
			if err != nil {
				expired++
				continue
			}
			nils++
			had := e.n.Load()
			if err2 := bsp.ForceFlush(context.Background()); err2 == nil {
				if now := e.n.Load(); now != had {
					vs = append(vs, vk.Violation{Kind: "flush_nil_with_spans_still_queued", Msg: fmt.Sprintf("processor %d round %d: ForceFlush with a %dus deadline returned nil, but %d span(s) ended before it was called were handed to the exporter only by the following ForceFlush without deadline (exporter had %d, then %d; nothing was ended in between)", p, r, us, now-had, had, now)})
				}
			}
		}
		sctx, scancel := context.WithTimeout(context.Background(), 30*time.Second)
		_ = bsp.Shutdown(sctx)
		scancel()
	}
	info.NonTrivial = nils > 0 && expired > 0
	info.ClassIf(expired > 0, "some_flush_ran_out_of_time")
	info.ClassIf(nils > 0, "some_flush_returned_nil")
	info.ClassIf(c.Blocking, "blocking")
	info.ClassIf(c.Burst > c.Queue, "burst_longer_than_queue")
	return vs, info
}

func TestBatchSpanProcessorFlushDeadline(t *testing.T) {
	vk.Run(t, vk.Spec[FlushCase]{
		Property: "C01", Check: "bsp_flush_deadline",
		Rule: "1-3 bare batch span processors (queue 1-4, batch 1-16, blocking or not, batch timeout 1h, prompt exporter), each driven through 2000-10000 rounds of: end 1-6 sampled spans (any flags byte), ForceFlush with a deadline cycling through 1..2/5/10/40/100 microseconds; whenever it returns nil a ForceFlush without deadline follows and must hand nothing over; " +
			"non-trivial = both outcomes (nil and a context error) occurred in the case; distinct = distinct case encodings",
		Quick: 30, Thorough: 400,
		Gen: genFlushCase, Run: runFlushCase, Repeat: 20,
		CaseTimeout: 120 * time.Second,
	})
}
