// Package c01 decides property C01 (batch span processor: every accepted
// span exactly once, bounded batches, exclusive export, nothing after
// Shutdown) by running generated concurrent programs with generated exporter
// fault plans against sdk/trace's BatchSpanProcessor and evaluating a
// schedule-independent oracle over the recorded history.
//
// Readings of the statement (conservative where it is ambiguous):
//   - "handed to the exporter" = contained in the slice of an ExportSpans
//     call, whatever that call returns (errors / timeouts of the exporter are
//     not an excuse for losing a span, nor do they make it "not handed").
//   - Visibility is asserted for a ForceFlush / Shutdown call only when it
//     returned nil, for spans whose End (OnEnd) had returned before the call
//     was issued AND before any Shutdown was issued; a ForceFlush that
//     overlaps a Shutdown call is not asserted (documented: "Do nothing after
//     Shutdown"). Through a TracerProvider a Shutdown call that overlaps
//     another Shutdown call is not asserted (TracerProvider.Shutdown lets the
//     loser of the race return at once, documented as a guard against
//     recursion); the bare processor serialises concurrent Shutdown callers,
//     so there EVERY Shutdown call that returned nil is asserted.
//   - ORDER of life-cycle calls on one processor. A Shutdown call that loses the
//     race against a CONCURRENT Shutdown call may return early (reading above,
//     concurrent calls only). A Shutdown call that is issued strictly AFTER an
//     earlier Shutdown call has returned an error (its context had ended) and
//     itself returns nil is "that call returns without error": the clauses hold
//     for it in full (sub-check bsp_lifecycle, kinds
//     later_shutdown_nil_before_handover / export_after_later_shutdown_nil).
//     The pinned tree did not meet that: the failed call left the worker
//     draining in the background and every later Shutdown returned nil at once
//     through the sync.Once ("It only executes once. Subsequent call does
//     nothing."), i.e. before the hand-over had finished - repaired by /repo
//     63802c8 (every call waits, within its context, for the one shutdown);
//     regression replay replays/regress/C01/later_shutdown_nil_while_draining.json.
//     Two consequences of the statement that do
//     not depend on how fast the background drain is are asserted everywhere
//     under their own kinds: a span whose End is issued after a Shutdown call
//     has returned nil is never handed to the exporter
//     (accepted_after_shutdown), and once the processor is quiescent (it has
//     shut its exporter down) every span that ended before the first Shutdown
//     was issued and cannot have been dropped has been handed over, whatever
//     the earlier calls returned (lost_after_failed_shutdown).
//   - A span whose End returns after some Shutdown call was issued is owed
//     nothing, whichever call returns nil later (documented: "Do not enqueue
//     spans after Shutdown").
//   - In non-blocking mode a span that is not visible at such a return must
//     never be exported later (it can only have been dropped), and at the end
//     of a run without a mid-run Shutdown the number of never-exported spans
//     must equal the SDK's own dropped counter (read from its
//     "exporting spans … total_dropped" debug log line).
//   - A phase that starts right after a successful ForceFlush with no other
//     activity, and ends no more spans than the queue holds, cannot lose any.
//   - "Sampled" is bit 0 of the span's trace flags and nothing else: the whole
//     flags byte is generated (a span inherits the other seven bits from its
//     remote or local parent), and a span with that bit set is owed delivery
//     whatever the other bits are.
//   - "That call returns without error" includes the call an application
//     actually makes, TracerProvider.ForceFlush / Shutdown over several
//     processors: when it returns nil, every registered batch processor is held
//     to the delivery clause (sub-check provider_pipeline, pipeline_test.go).
//   - "The configured maximum" / queue size are whatever was configured, by
//     option or by the OTEL_BSP_* environment variables (only values the
//     variables express exactly and the SDK does not clip are moved there).
//
// Sub-checks: bsp_history (this file: concurrent programs, one processor),
// bsp_fill (this file: exact queue fill level), bsp_storm (storm_test.go:
// End/Shutdown storms on an idle processor), provider_pipeline
// (pipeline_test.go: several processors behind one TracerProvider),
// bsp_lifecycle (lifecycle_test.go: sequential orders of ForceFlush / Shutdown
// calls with generated contexts on one bare processor).
package c01

import (
	"context"
	"encoding/binary"
	"errors"
	"fmt"
	"io"
	"os"
	rtrace "runtime/trace"
	"sync"
	"sync/atomic"
	"testing"
	"time"

	"github.com/go-logr/logr"
	"go.opentelemetry.io/otel"
	"go.opentelemetry.io/otel/attribute"
	sdktrace "go.opentelemetry.io/otel/sdk/trace"
	"go.opentelemetry.io/otel/sdk/trace/tracetest"
	"go.opentelemetry.io/otel/trace"
	"go.opentelemetry.io/otel/verif/internal/vk"
	"pgregory.net/rapid"
)

// Op is one step of one goroutine.
type Op struct {
	K string `json:"k"`           // end | flush | shutdown | pause
	S int    `json:"s,omitempty"` // span index (end)
	U bool   `json:"u,omitempty"` // span is unsampled (end)
	P int    `json:"p,omitempty"` // perturbation before the op (vk.Perturb)
	T int    `json:"t,omitempty"` // flush/shutdown: ctx timeout in microseconds, 0 = none, -1 = already cancelled, -2/-3/-6 = cancelled 0.3/0.6/1.5 ms after the call was issued
	D int    `json:"d,omitempty"` // end (through a provider only): D more goroutines End the same span at the same moment - it is still one span, exported once; -1: the same goroutine calls End twice in a row
	// N (end): the op ends N consecutive spans S..S+N-1 in a tight loop (0 and
	// 1 both mean one span): bursts far larger than the usual queue sizes.
	N int `json:"n,omitempty"`
	// F is the whole trace-flags byte the span inherits (end): through a
	// provider it is the flags byte of the parent span context the span is
	// started under (the SDK copies the parent's other bits to the child), on
	// the bare processor it is the flags byte of the snapshot. Bit 0 of the
	// span itself is always decided by U ("sampled" is that bit, nothing else).
	F int `json:"f,omitempty"`
	// R: kind of parent through a provider: 0 none (root span, F has no
	// effect), 1 remote parent span context, 2 local parent span context.
	R int `json:"r,omitempty"`
}

// genFlags draws a whole trace-flags byte: mostly plain 0/1, otherwise any of
// the 256 values with the corners (W3C level-2 random-trace-id bit, reserved
// bits, all ones) over-represented.
func genFlags(t *rapid.T) int {
	return rapid.OneOf(
		rapid.SampledFrom([]int{0, 1}),
		rapid.IntRange(0, 255),
		rapid.SampledFrom([]int{0x02, 0x03, 0x80, 0x81, 0xfe, 0xff}),
	).Draw(t, "trace_flags")
}

// genLogScale draws from [lo, hi] with the magnitude, not the value, uniform.
func genLogScale(lo, hi int) *rapid.Generator[int] {
	return rapid.Custom(func(t *rapid.T) int {
		if hi <= lo {
			return lo
		}
		bits := 0
		for (hi-lo)>>bits > 0 {
			bits++
		}
		b := rapid.IntRange(0, bits).Draw(t, "magnitude")
		top := lo + (1<<b - 1)
		if top > hi {
			top = hi
		}
		return rapid.IntRange(lo+(1<<b)/2, top).Draw(t, "value")
	})
}

// expand replaces burst ops by runs of single-span ops (same flags; the
// perturbation only before the first span).
func expand(phases [][][]Op) [][][]Op {
	out := make([][][]Op, len(phases))
	for pi, ph := range phases {
		out[pi] = make([][]Op, len(ph))
		for g, ops := range ph {
			for _, op := range ops {
				if op.K != "end" || op.N <= 1 {
					op.N = 0
					out[pi][g] = append(out[pi][g], op)
					continue
				}
				for j := 0; j < op.N; j++ {
					o := op
					o.N, o.S, o.D = 0, op.S+j, 0
					if j > 0 {
						o.P = 0
					}
					out[pi][g] = append(out[pi][g], o)
				}
			}
		}
	}
	return out
}

// envSpelling returns the OTEL_BSP_* variables that express the settings
// selected by c.Env. The variables hold whole milliseconds / plain counts, and
// the SDK clips an environment batch size that exceeds the environment (or
// default, 2048) queue size, so only values the variable expresses exactly
// are moved there; everything else stays an option.
func envSpelling(c Case) (env map[string]string, viaEnv int) {
	env = map[string]string{}
	if c.Env&1 != 0 && c.Queue >= 1 {
		env["OTEL_BSP_MAX_QUEUE_SIZE"] = fmt.Sprint(c.Queue)
		viaEnv |= 1
	}
	if c.Env&2 != 0 && c.Batch >= 1 && c.Batch <= c.Queue && c.Batch <= 2048 {
		env["OTEL_BSP_MAX_EXPORT_BATCH_SIZE"] = fmt.Sprint(c.Batch)
		viaEnv |= 2
	}
	if c.Env&4 != 0 && c.BatchTimeoutUs >= 1000 && c.BatchTimeoutUs%1000 == 0 {
		env["OTEL_BSP_SCHEDULE_DELAY"] = fmt.Sprint(c.BatchTimeoutUs / 1000)
		viaEnv |= 4
	}
	if c.Env&8 != 0 && c.ExportTimeoutUs >= 1000 && c.ExportTimeoutUs%1000 == 0 {
		env["OTEL_BSP_EXPORT_TIMEOUT"] = fmt.Sprint(c.ExportTimeoutUs / 1000)
		viaEnv |= 8
	}
	return env, viaEnv
}

// spanFlags is the flags byte a span with inherited byte f must carry.
func spanFlags(f int, unsampled bool) trace.TraceFlags {
	fl := trace.TraceFlags(f) &^ trace.FlagsSampled
	if !unsampled {
		fl |= trace.FlagsSampled
	}
	return fl
}

// parentCtx returns the context a span with (F, R) is started under.
func parentCtx(f, r, i int) context.Context {
	if r == 0 {
		return context.Background()
	}
	var tid trace.TraceID
	var sid trace.SpanID
	binary.BigEndian.PutUint64(tid[8:], uint64(i+1))
	tid[0] = 0xc1
	binary.BigEndian.PutUint64(sid[:], uint64(i+1)|1<<40)
	psc := trace.NewSpanContext(trace.SpanContextConfig{TraceID: tid, SpanID: sid, TraceFlags: trace.TraceFlags(f), Remote: r == 1})
	if r == 1 {
		return trace.ContextWithRemoteSpanContext(context.Background(), psc)
	}
	return trace.ContextWithSpanContext(context.Background(), psc)
}

// Case is one generated program.
type Case struct {
	Queue           int   `json:"queue"`
	Batch           int   `json:"batch"`
	BatchTimeoutUs  int64 `json:"batch_timeout_us"`
	ExportTimeoutUs int64 `json:"export_timeout_us"`
	Blocking        bool  `json:"blocking"`
	// Env: which settings are given through the OTEL_BSP_* environment
	// variables instead of the option (bit 0 queue size, 1 batch size, 2 batch
	// timeout, 3 export timeout); a bit is honoured only where the variable can
	// express the value (see envSpelling).
	Env         int      `json:"env,omitempty"`
	ViaProvider bool     `json:"via_provider"`
	ExecTrace   bool     `json:"exec_trace,omitempty"` // the Go execution tracer (runtime/trace) runs during the program
	Phases      [][][]Op `json:"phases"`               // phase -> goroutine -> ops; phases are separated by barriers
	Exporter    []int    `json:"exporter"`             // behaviour of the n-th ExportSpans call: 0 ok, 1 error, 2 sleep 50us, 3 sleep 1ms, 4 sleep 3ms, 5 block until ctx is done (cap 4ms) and return its error
	Runs        int      `json:"runs"`
}

func gen(t *rapid.T) Case {
	c := Case{}
	big := rapid.IntRange(0, 7).Draw(t, "wide_sizes") == 0
	if big {
		// occasionally sizes from a wide log-scale range, the SDK defaults included
		c.Queue = rapid.OneOf(genLogScale(65, 4096), rapid.Just(2048)).Draw(t, "queue")
		c.Batch = rapid.OneOf(genLogScale(1, c.Queue+4), rapid.Just(512), rapid.Just(c.Queue)).Draw(t, "batch")
	} else {
		c.Queue = rapid.OneOf(rapid.IntRange(1, 4), rapid.IntRange(1, 64)).Draw(t, "queue")
		c.Batch = rapid.IntRange(1, c.Queue+4).Draw(t, "batch")
	}
	c.BatchTimeoutUs = rapid.SampledFrom([]int64{0, 50, 1000, 1000, 10000, 10000, 3600e6, 3600e6, 3600e6, 3600e6}).Draw(t, "batch_timeout")
	c.ExportTimeoutUs = rapid.SampledFrom([]int64{0, 0, 50, 2000, 2000, 1e6, 1e6}).Draw(t, "export_timeout")
	c.Blocking = rapid.Bool().Draw(t, "blocking")
	if rapid.IntRange(0, 3).Draw(t, "env_config") == 0 {
		c.Env = rapid.IntRange(1, 15).Draw(t, "env_bits")
	}
	c.ViaProvider = rapid.IntRange(0, 3).Draw(t, "via_provider") == 0
	c.ExecTrace = c.ViaProvider && rapid.IntRange(0, 2).Draw(t, "exec_trace") == 0
	next := 0
	bursty := big || rapid.IntRange(0, 5).Draw(t, "bursty") == 0
	nphases := rapid.IntRange(1, 5).Draw(t, "phases")
	shutdownSeen := false
	for p := 0; p < nphases; p++ {
		var phase [][]Op
		switch rapid.IntRange(0, 5).Draw(t, "phase_kind") {
		case 0, 1: // a lone flush, then a phase of ends only, at most Queue of them (conservation after a clean start)
			if shutdownSeen {
				continue
			}
			c.Phases = append(c.Phases, [][]Op{{{K: "flush"}}})
			ng := rapid.IntRange(1, 4).Draw(t, "goroutines")
			budget := c.Queue
			for g := 0; g < ng; g++ {
				n := budget
				if g < ng-1 || rapid.Bool().Draw(t, "partial") {
					n = rapid.IntRange(0, budget).Draw(t, "n")
				}
				budget -= n
				var ops []Op
				for left := n; left > 0; {
					op := Op{K: "end", S: next, P: rapid.IntRange(0, 2).Draw(t, "p"), F: genFlags(t)}
					op.R = rapid.IntRange(0, 2).Draw(t, "parent")
					if op.F > 1 && op.R == 0 {
						op.R = 1
					}
					if left > 12 {
						op.N = rapid.IntRange(left/4+1, left).Draw(t, "burst")
					}
					ops = append(ops, op)
					next += max(op.N, 1)
					left -= max(op.N, 1)
				}
				phase = append(phase, ops)
			}
		default:
			ng := rapid.IntRange(1, 6).Draw(t, "goroutines")
			for g := 0; g < ng; g++ {
				n := rapid.IntRange(0, 14).Draw(t, "ops")
				var ops []Op
				for i := 0; i < n; i++ {
					op := Op{P: rapid.IntRange(0, 4).Draw(t, "p")}
					switch k := rapid.IntRange(0, 19).Draw(t, "kind"); {
					case k < 14:
						op.K, op.S = "end", next
						op.U = rapid.IntRange(0, 7).Draw(t, "unsampled") == 0
						op.D = rapid.SampledFrom([]int{0, 0, 0, 0, 0, 0, 1, 1, 3, -1}).Draw(t, "racing_ends")
						if bursty && rapid.IntRange(0, 11).Draw(t, "burst") == 0 {
							op.D = 0
							op.N = genLogScale(2, 3000).Draw(t, "burst_len")
							next += op.N - 1
						}
						op.F = genFlags(t)
						op.R = rapid.IntRange(0, 2).Draw(t, "parent")
						if op.F > 1 && op.R == 0 {
							op.R = 1
						}
						next++
					case k < 18:
						op.K = "flush"
						op.T = rapid.SampledFrom([]int{0, 0, 0, 50, 5000, -1, -2, -3, -6}).Draw(t, "ctx")
					case k == 18 && !shutdownSeen && rapid.Bool().Draw(t, "really_shutdown"):
						op.K = "shutdown"
						op.T = rapid.SampledFrom([]int{0, 0, 100, -1}).Draw(t, "ctx")
					default:
						op.K = "pause"
					}
					ops = append(ops, op)
				}
				phase = append(phase, ops)
			}
			for _, ops := range phase {
				for _, op := range ops {
					if op.K == "shutdown" {
						shutdownSeen = true
					}
				}
			}
		}
		c.Phases = append(c.Phases, phase)
	}
	if rapid.Bool().Draw(t, "slow_exporter") {
		c.Exporter = rapid.SliceOfN(rapid.SampledFrom([]int{3, 4, 4, 5, 1}), 8, 24).Draw(t, "exporter")
	} else {
		c.Exporter = rapid.SliceOfN(rapid.SampledFrom([]int{0, 0, 0, 1, 2, 2, 3, 4, 5}), 0, 24).Draw(t, "exporter")
	}
	c.Runs = 2
	return c
}

// ---------------------------------------------------------------------
// recording exporter

type exportCall struct {
	enter, exit int64
	ids         []int
	err         bool
}

type recExporter struct {
	clock     *vk.Clock
	script    []int
	idOf      func(sdktrace.ReadOnlySpan) int
	mu        sync.Mutex
	calls     []*exportCall
	n         atomic.Int64
	inflight  atomic.Int32
	overlap   atomic.Int32
	shutdowns atomic.Int32
	latch     chan struct{} // behaviour 6 blocks until it is closed (cap 2s)
	// exporter.Shutdown bookkeeping
	shutdownOverlap atomic.Int32 // Shutdown entered while an ExportSpans call was running
	exportDuringSD  atomic.Int32 // ExportSpans entered while Shutdown was running
	shutdownDoneAt  atomic.Int64 // clock instant at which the first Shutdown finished
}

var errScripted = errors.New("scripted exporter failure")

func (e *recExporter) ExportSpans(ctx context.Context, spans []sdktrace.ReadOnlySpan) error {
	if e.inflight.Add(1) > 1 {
		e.overlap.Add(1)
	}
	defer e.inflight.Add(-1)
	call := &exportCall{enter: e.clock.Tick()}
	for _, s := range spans {
		call.ids = append(call.ids, e.idOf(s)) // copy inside the call: the processor reuses the slice
	}
	e.mu.Lock()
	e.calls = append(e.calls, call)
	e.mu.Unlock()
	n := int(e.n.Add(1)) - 1
	beh := 0
	if n < len(e.script) {
		beh = e.script[n]
	}
	var err error
	switch beh {
	case 1:
		err = errScripted
	case 2:
		time.Sleep(50 * time.Microsecond)
	case 3:
		time.Sleep(time.Millisecond)
	case 4:
		time.Sleep(3 * time.Millisecond)
	case 5:
		select {
		case <-ctx.Done():
			err = ctx.Err()
		case <-time.After(4 * time.Millisecond):
		}
	case 6:
		select {
		case <-e.latch:
		case <-time.After(2 * time.Second):
		}
	case 7:
		time.Sleep(20 * time.Millisecond) // a hung backend (bounded): ignores its context
	}
	e.mu.Lock()
	call.err = err != nil
	call.exit = e.clock.Tick()
	e.mu.Unlock()
	return err
}

// Shutdown takes part in the exclusivity bookkeeping: "the exporter is never
// invoked by two goroutines at the same time" covers Shutdown racing with an
// export, and nothing may be exported through an exporter that has been shut
// down. (The processor shuts the exporter down only after its worker has
// finished draining, so neither can happen on a correct processor.)
func (e *recExporter) Shutdown(context.Context) error {
	if e.inflight.Add(1) > 1 {
		e.shutdownOverlap.Add(1)
	}
	time.Sleep(200 * time.Microsecond) // widen the window
	e.shutdownDoneAt.CompareAndSwap(0, e.clock.Tick())
	e.inflight.Add(-1)
	e.shutdowns.Add(1)
	return nil
}

// ---------------------------------------------------------------------

type endRec struct {
	start, end int64
	unsampled  bool
	phase      int
	done       bool
}

type callRec struct {
	kind       string
	start, end int64
	err        error
	phase      int
}

type unsampledKey struct{}

func mkCtx(t int) (context.Context, context.CancelFunc) {
	switch {
	case t <= -2:
		// cancelled (not timed out) while the call is in progress: an exporter
		// that honours its context then returns context.Canceled
		ctx, cancel := context.WithCancel(context.Background())
		timer := time.AfterFunc(time.Duration(-t-1)*300*time.Microsecond, cancel)
		return ctx, func() { timer.Stop(); cancel() }
	case t < 0:
		ctx, cancel := context.WithCancel(context.Background())
		cancel()
		return ctx, cancel
	case t == 0:
		return context.Background(), func() {}
	default:
		return context.WithTimeout(context.Background(), time.Duration(t)*time.Microsecond)
	}
}

func runOnce(c Case) ([]vk.Violation, map[string]bool) {
	var vs []vk.Violation
	classes := map[string]bool{}
	bad := func(kind, format string, a ...any) { vs = append(vs, vk.V(kind, format, a...)) }

	if c.ExecTrace {
		if err := rtrace.Start(io.Discard); err == nil {
			defer rtrace.Stop()
		}
		classes["go_execution_tracer_running"] = true
	}
	clock := &vk.Clock{}
	logs := &vk.LogCapture{}
	otel.SetLogger(logr.New(logs))
	errs := &vk.ErrCapture{}
	otel.SetErrorHandler(errs)

	for _, ph := range c.Phases {
		for _, ops := range ph {
			for _, op := range ops {
				if op.K == "end" && op.N > 1 {
					classes["burst_of_ends"] = true
					if op.N > c.Queue {
						classes["burst_longer_than_queue"] = true
					}
				}
				if op.K == "end" && op.D < 0 && c.ViaProvider {
					classes["End_called_twice_in_a_row"] = true
				}
			}
		}
	}
	if c.Queue > 64 {
		classes["queue_above_64"] = true
	}
	if c.Batch >= 512 {
		classes["batch_512_or_more"] = true
	}
	if c.BatchTimeoutUs < 1000 {
		classes["batch_timeout_below_1ms"] = true
	}
	c.Phases = expand(c.Phases)
	nspans := 0
	for _, ph := range c.Phases {
		for _, ops := range ph {
			for _, op := range ops {
				if op.K == "end" && op.S >= nspans {
					nspans = op.S + 1
				}
			}
		}
	}
	const extra = 3 // accounting span + two late spans
	total := nspans + extra

	exp := &recExporter{clock: clock, script: c.Exporter}
	envVars, viaEnv := envSpelling(c)
	var opts []sdktrace.BatchSpanProcessorOption
	if viaEnv&1 == 0 {
		opts = append(opts, sdktrace.WithMaxQueueSize(c.Queue))
	}
	if viaEnv&2 == 0 {
		opts = append(opts, sdktrace.WithMaxExportBatchSize(c.Batch))
	}
	if viaEnv&4 == 0 {
		opts = append(opts, sdktrace.WithBatchTimeout(time.Duration(c.BatchTimeoutUs)*time.Microsecond))
	}
	if viaEnv&8 == 0 {
		opts = append(opts, sdktrace.WithExportTimeout(time.Duration(c.ExportTimeoutUs)*time.Microsecond))
	}
	if c.Blocking {
		opts = append(opts, sdktrace.WithBlocking())
	}
	for _, k := range []string{"OTEL_BSP_MAX_QUEUE_SIZE", "OTEL_BSP_MAX_EXPORT_BATCH_SIZE", "OTEL_BSP_SCHEDULE_DELAY", "OTEL_BSP_EXPORT_TIMEOUT"} {
		if v, ok := envVars[k]; ok {
			os.Setenv(k, v)
		} else {
			os.Unsetenv(k)
		}
	}
	bsp := sdktrace.NewBatchSpanProcessor(exp, opts...)
	for k := range envVars {
		os.Unsetenv(k)
	}
	if viaEnv != 0 {
		classes["some_settings_from_OTEL_BSP_environment"] = true
		if viaEnv&3 != 0 {
			classes["queue_or_batch_size_from_environment"] = true
		}
	}

	unsampled := make([]bool, total)
	inherit := make([]int, total) // inherited flags byte
	parent := make([]int, total)  // parent kind (provider)
	for _, ph := range c.Phases {
		for _, ops := range ph {
			for _, op := range ops {
				if op.K == "end" {
					unsampled[op.S] = op.U
					inherit[op.S], parent[op.S] = op.F&0xff, op.R
					if op.F&0xfe != 0 && (!c.ViaProvider || op.R != 0) {
						classes[fmt.Sprintf("span_with_other_trace_flag_bits/sampled=%v", !op.U)] = true
					}
				}
			}
		}
	}

	var endSpan func(i, d int)
	var flush, shutdown func(context.Context) error
	if c.ViaProvider {
		sampler := samplerFunc(func(p sdktrace.SamplingParameters) sdktrace.SamplingResult {
			for _, a := range p.Attributes {
				if a.Key == "verif.unsampled" && a.Value.AsBool() {
					return sdktrace.SamplingResult{Decision: sdktrace.RecordOnly}
				}
			}
			return sdktrace.SamplingResult{Decision: sdktrace.RecordAndSample}
		})
		tp := sdktrace.NewTracerProvider(sdktrace.WithSpanProcessor(bsp), sdktrace.WithSampler(sampler))
		tr := tp.Tracer("c01")
		spans := make([]trace.Span, total)
		ids := map[trace.SpanID]int{}
		for i := range spans {
			_, spans[i] = tr.Start(parentCtx(inherit[i], parent[i], i), "s", trace.WithAttributes(attribute.Bool("verif.unsampled", unsampled[i])))
			ids[spans[i].SpanContext().SpanID()] = i
		}
		exp.idOf = func(s sdktrace.ReadOnlySpan) int {
			if i, ok := ids[s.SpanContext().SpanID()]; ok {
				return i
			}
			return -1
		}
		endSpan = func(i, d int) {
			if d <= 0 {
				spans[i].End()
				if d < 0 {
					spans[i].End() // a second End is a no-op: still one span, exported once
				}
				return
			}
			// d+1 goroutines End the span, released together by a spin barrier
			var ready, wg = atomic.Int32{}, sync.WaitGroup{}
			for j := 0; j <= d; j++ {
				wg.Add(1)
				go func() {
					defer wg.Done()
					ready.Add(1)
					for ready.Load() <= int32(d) {
					}
					spans[i].End()
				}()
			}
			wg.Wait()
		}
		flush, shutdown = tp.ForceFlush, tp.Shutdown
	} else {
		snaps := make([]sdktrace.ReadOnlySpan, total)
		for i := range snaps {
			var sid trace.SpanID
			binary.BigEndian.PutUint64(sid[:], uint64(i+1))
			flags := spanFlags(inherit[i], unsampled[i])
			snaps[i] = tracetest.SpanStub{
				Name:        "s",
				SpanContext: trace.NewSpanContext(trace.SpanContextConfig{TraceID: trace.TraceID{1}, SpanID: sid, TraceFlags: flags}),
			}.Snapshot()
		}
		exp.idOf = func(s sdktrace.ReadOnlySpan) int {
			sid := s.SpanContext().SpanID()
			return int(binary.BigEndian.Uint64(sid[:])) - 1
		}
		endSpan = func(i, _ int) { bsp.OnEnd(snaps[i]) }
		flush, shutdown = bsp.ForceFlush, bsp.Shutdown
	}

	ends := make([]endRec, total)
	var cmu sync.Mutex
	var calls []*callRec
	doEnd := func(i, phase, d int) {
		ends[i].phase, ends[i].unsampled = phase, unsampled[i]
		ends[i].start = clock.Tick()
		endSpan(i, d)
		ends[i].end = clock.Tick()
		ends[i].done = true
	}
	doCall := func(kind string, t, phase int) *callRec {
		ctx, cancel := mkCtx(t)
		defer cancel()
		r := &callRec{kind: kind, phase: phase}
		r.start = clock.Tick()
		if kind == "flush" {
			r.err = flush(ctx)
		} else {
			r.err = shutdown(ctx)
		}
		r.end = clock.Tick()
		cmu.Lock()
		calls = append(calls, r)
		cmu.Unlock()
		return r
	}

	for pi, ph := range c.Phases {
		vk.Parallel(len(ph), func(g int) {
			for _, op := range ph[g] {
				vk.Perturb(op.P)
				switch op.K {
				case "end":
					doEnd(op.S, pi, op.D)
				case "flush":
					doCall("flush", op.T, pi)
				case "shutdown":
					doCall("shutdown", op.T, pi)
				case "pause":
					time.Sleep(300 * time.Microsecond)
				}
			}
		})
	}

	// ---- closing section: quiesce, read the drop counter, shut down, late calls ----
	firstShutdownIssue := int64(1) << 62
	for _, r := range calls {
		if r.kind == "shutdown" && r.start < firstShutdownIssue {
			firstShutdownIssue = r.start
		}
	}
	midShutdown := firstShutdownIssue != int64(1)<<62
	final := len(c.Phases)
	var dropped int64 = -1
	var finalFlush *callRec
	if !midShutdown {
		finalFlush = doCall("flush", 0, final)
		doEnd(nspans, final, 0) // accounting span: cannot be dropped, the queue is empty
		doCall("flush", 0, final)
		for _, e := range logs.Entries() {
			if e.Msg == "exporting spans" {
				switch d := e.KV["total_dropped"].(type) {
				case uint32:
					dropped = int64(d)
				case int:
					dropped = int64(d)
				}
			}
		}
	}
	lastShutdown := doCall("shutdown", 0, final)
	if firstShutdownIssue > lastShutdown.start {
		firstShutdownIssue = lastShutdown.start
	}
	doEnd(nspans+1, final+1, 0)
	doEnd(nspans+2, final+1, 0)
	doCall("flush", 0, final+1)
	time.Sleep(200 * time.Microsecond)

	// A Shutdown whose context expired leaves the processor draining in the
	// background; wait until it has shut the exporter down (which it does after
	// the final export) so that nothing of this run is still executing. Bounded:
	// 2 s when nothing is outstanding (cleanup only), a 30 s hang watchdog while,
	// in blocking mode, a span that ended before the first Shutdown was issued is
	// still missing (the drain takes milliseconds).
	outstanding := func() bool {
		if !c.Blocking {
			return false
		}
		got := make([]bool, total)
		exp.mu.Lock()
		for _, call := range exp.calls {
			for _, id := range call.ids {
				if id >= 0 && id < total {
					got[id] = true
				}
			}
		}
		exp.mu.Unlock()
		for id := 0; id < total; id++ {
			if e := ends[id]; e.done && !e.unsampled && e.end < firstShutdownIssue && !got[id] {
				return true
			}
		}
		return false
	}
	drained := false // the exporter was shut down, or the watchdog expired
	for begin := time.Now(); ; {
		if exp.shutdowns.Load() > 0 && exp.inflight.Load() == 0 {
			drained = true
			break
		}
		limit, long := 2*time.Second, outstanding()
		if long {
			limit = 30 * time.Second
		}
		if time.Since(begin) > limit {
			drained = long
			break
		}
		time.Sleep(500 * time.Microsecond)
	}

	// ---- oracle ----
	exp.mu.Lock()
	ecalls := make([]*exportCall, len(exp.calls))
	for i, call := range exp.calls {
		cp := *call
		ecalls[i] = &cp
	}
	exp.mu.Unlock()
	where := map[int]*exportCall{}
	for ci, call := range ecalls {
		if call.exit == 0 {
			call.exit = int64(1) << 62
		}
		if len(call.ids) > c.Batch {
			bad("batch_too_large", "ExportSpans call %d received %d spans, MaxExportBatchSize is %d", ci, len(call.ids), c.Batch)
		}
		classes[fmt.Sprintf("batch_full=%v", len(call.ids) == c.Batch)] = true
		if call.err {
			classes["exporter_error_or_timeout"] = true
		}
		for _, id := range call.ids {
			if id < 0 || id >= total {
				bad("unknown_span_exported", "ExportSpans call %d received a span that was never ended by the program (id %d)", ci, id)
				continue
			}
			if prev, dup := where[id]; dup {
				bad("exported_twice", "span %d handed to the exporter twice (calls entered at %d and %d)", id, prev.enter, call.enter)
			}
			where[id] = call
			if ends[id].unsampled {
				bad("unsampled_exported", "unsampled span %d was exported", id)
			}
			if !ends[id].done || call.enter < ends[id].start {
				bad("exported_before_end", "span %d exported before its End was issued", id)
			}
		}
	}
	if n := exp.overlap.Load(); n > 0 {
		bad("concurrent_export", "ExportSpans was entered %d time(s) while another ExportSpans call was still running", n)
	}
	if n := exp.shutdowns.Load(); n > 1 {
		bad("exporter_shutdown_twice", "exporter Shutdown called %d times", n)
	}
	if n := exp.shutdownOverlap.Load(); n > 0 {
		bad("exporter_shutdown_during_export", "exporter Shutdown was entered %d time(s) while an ExportSpans call was still running on another goroutine", n)
	}
	if at := exp.shutdownDoneAt.Load(); at != 0 {
		for ci, call := range ecalls {
			if call.enter > at {
				bad("export_after_exporter_shutdown", "ExportSpans call %d started (t=%d) after the exporter's own Shutdown had finished (t=%d)", ci, call.enter, at)
			}
		}
	}

	// nothing exported after a Shutdown that returned nil
	// (only when no Shutdown call failed: a Shutdown whose context expired
	// legitimately leaves the worker draining, and later calls return at once)
	allShutdownsNil := true
	for _, r := range calls {
		if r.kind == "shutdown" && r.err != nil {
			allShutdownsNil = false
		}
	}
	// "Shutdown has returned" is read as: every Shutdown call of the phase in
	// which the first one was issued has returned (a Shutdown call that loses
	// the race against a concurrent one returns at once while the winner is
	// still draining; TracerProvider.Shutdown is documented to guard against
	// recursion that way).
	shutdownPhase := int(^uint(0) >> 1)
	for _, r := range calls {
		if r.kind == "shutdown" && r.phase < shutdownPhase {
			shutdownPhase = r.phase
		}
	}
	firstNilShutdownEnd := int64(0)
	for _, r := range calls {
		if r.kind == "shutdown" && r.phase == shutdownPhase && r.end > firstNilShutdownEnd {
			firstNilShutdownEnd = r.end
		}
	}
	if !c.ViaProvider && allShutdownsNil {
		// The processor's own Shutdown serialises concurrent callers (they all
		// wait for the drain): for the bare processor EVERY Shutdown call that
		// returned nil is held to "nothing is exported after it returned".
		firstNilShutdownEnd = int64(1) << 62
		for _, r := range calls {
			if r.kind == "shutdown" && r.end < firstNilShutdownEnd {
				firstNilShutdownEnd = r.end
			}
		}
	}
	for ci, call := range ecalls {
		if allShutdownsNil && call.enter > firstNilShutdownEnd {
			bad("export_after_shutdown", "ExportSpans call %d started (t=%d) after Shutdown had returned nil (t=%d)", ci, call.enter, firstNilShutdownEnd)
		}
	}
	// Whatever the other Shutdown calls returned (an earlier one may have
	// failed on its context and left the worker draining): the bare processor
	// makes every Shutdown caller wait for the call that executes, so once ANY
	// Shutdown call has returned nil, a span whose End is ISSUED afterwards is
	// never handed to the exporter ("nothing is exported after Shutdown has
	// returned" - such a span can only be exported after it).
	if !c.ViaProvider {
		nilRet, found := int64(1)<<62, false
		for _, r := range calls {
			if r.kind == "shutdown" && r.err == nil && r.end < nilRet {
				nilRet, found = r.end, true
			}
		}
		for id := 0; found && id < total; id++ {
			if call, ok := where[id]; ok && ends[id].done && ends[id].start > nilRet {
				bad("accepted_after_shutdown", "span %d, whose End was issued at t=%d, after a Shutdown call had returned nil at t=%d, was handed to the exporter at t=%d", id, ends[id].start, nilRet, call.enter)
			}
		}
		if !allShutdownsNil && found {
			classes["Shutdown_returned_nil_although_another_Shutdown_call_failed"] = true
		}
	}
	// A Shutdown call failed, another returned nil, and the processor is now
	// quiescent (it has shut its exporter down, which it does after the final
	// export): in blocking mode every sampled span whose End returned before the
	// first Shutdown was issued has been handed over - a span that is never
	// handed over at all falsifies the nil return whichever way "by the time
	// that call returns" is read.
	if c.Blocking && !allShutdownsNil && drained {
		someNil := false
		for _, r := range calls {
			someNil = someNil || (r.kind == "shutdown" && r.err == nil)
		}
		for id := 0; someNil && id < total; id++ {
			e := ends[id]
			if _, ok := where[id]; !ok && e.done && !e.unsampled && e.end < firstShutdownIssue {
				bad("lost_after_failed_shutdown", "span %d (End returned t=%d, before the first Shutdown was issued at t=%d) was never handed to the exporter in blocking mode although a Shutdown call returned nil (exporter shut down %d time(s))", id, e.end, firstShutdownIssue, exp.shutdowns.Load())
			}
		}
	}
	if allShutdownsNil && exp.shutdowns.Load() != 1 {
		bad("exporter_not_shut_down", "exporter Shutdown called %d times although every Shutdown call returned nil", exp.shutdowns.Load())
	}

	// visibility at the return of successful ForceFlush / Shutdown calls
	overlapsOtherShutdown := func(r *callRec) bool {
		for _, o := range calls {
			if o != r && o.kind == "shutdown" && o.start < r.end {
				return true // another shutdown was issued before this one returned
			}
		}
		return false
	}
	for _, r := range calls {
		if r.err != nil {
			classes[r.kind+"_returned_error"] = true
			continue
		}
		switch r.kind {
		case "flush":
			if r.end > firstShutdownIssue {
				continue // overlaps or follows a Shutdown call
			}
		case "shutdown":
			if c.ViaProvider && (r.start != firstShutdownIssue || overlapsOtherShutdown(r)) {
				continue
			}
			if !c.ViaProvider && !allShutdownsNil {
				continue
			}
		}
		for id := 0; id < total; id++ {
			e := ends[id]
			if !e.done || e.unsampled || e.end >= r.start || e.end >= firstShutdownIssue {
				continue
			}
			call, exported := where[id]
			switch {
			case exported && call.enter < r.end:
				// visible
			case exported:
				bad("not_flushed", "span %d (End returned t=%d) was handed to the exporter only at t=%d, after %s issued at t=%d had returned nil at t=%d", id, e.end, call.enter, r.kind, r.start, r.end)
			case c.Blocking:
				bad("lost_in_blocking_mode", "span %d (End returned t=%d) was never exported although %s (t=%d..%d) returned nil and the processor blocks on a full queue", id, e.end, r.kind, r.start, r.end)
			}
		}
	}

	// drop accounting at the end of a run without mid-run shutdown
	missing := 0
	for id := 0; id < total; id++ {
		e := ends[id]
		if e.done && !e.unsampled && e.end < firstShutdownIssue {
			if _, ok := where[id]; !ok {
				missing++
			}
		}
	}
	if !midShutdown && finalFlush != nil {
		switch {
		case dropped < 0:
			bad("no_drop_counter", "the SDK did not log total_dropped on the accounting export")
		case int64(missing) != dropped:
			bad("drop_accounting", "%d sampled spans ended before the final ForceFlush were never exported, but the processor counted %d as dropped", missing, dropped)
		}
		if c.Blocking && missing > 0 {
			bad("lost_in_blocking_mode", "%d spans never exported in blocking mode", missing)
		}
	}
	if missing > 0 {
		classes["queue_full_drop"] = true
	}

	// conservation after a clean start
	for pi := 1; pi < len(c.Phases); pi++ {
		prev := c.Phases[pi-1]
		if len(prev) != 1 || len(prev[0]) != 1 || prev[0][0].K != "flush" || prev[0][0].T != 0 {
			continue
		}
		var prevCall *callRec
		for _, r := range calls {
			if r.phase == pi-1 && r.kind == "flush" {
				prevCall = r
			}
		}
		if prevCall == nil || prevCall.err != nil || prevCall.start > firstShutdownIssue {
			continue
		}
		n, onlyEnds := 0, true
		for _, ops := range c.Phases[pi] {
			for _, op := range ops {
				if op.K == "end" {
					n++
				} else if op.K != "pause" {
					onlyEnds = false
				}
			}
		}
		if !onlyEnds || n == 0 || n > c.Queue || midShutdown {
			continue
		}
		classes["clean_start_phase"] = true
		for id := 0; id < total; id++ {
			e := ends[id]
			if e.done && e.phase == pi && !e.unsampled {
				if _, ok := where[id]; !ok {
					bad("dropped_without_full_queue", "span %d was never exported although it was one of only %d spans ended after a completed ForceFlush with a queue of %d", id, n, c.Queue)
				}
			}
		}
	}

	if len(ecalls) >= 2 {
		classes["two_or_more_batches"] = true
	}
	if midShutdown {
		classes["mid_run_shutdown"] = true
	}
	for _, r := range calls {
		if r.kind == "flush" && r.phase < final {
			for _, call := range ecalls {
				if call.enter < r.start && call.exit > r.start {
					classes["flush_issued_while_export_in_progress"] = true
				}
			}
		}
	}
	for _, call := range ecalls {
		inFlush := false
		for _, r := range calls {
			if r.start < call.enter && call.enter < r.end {
				inFlush = true
			}
		}
		if !inFlush && len(call.ids) < c.Batch {
			classes["timer_triggered_export"] = true
		}
		if !inFlush && len(call.ids) == c.Batch {
			classes["size_triggered_export"] = true
		}
	}
	return vs, classes
}

type samplerFunc func(sdktrace.SamplingParameters) sdktrace.SamplingResult

func (f samplerFunc) ShouldSample(p sdktrace.SamplingParameters) sdktrace.SamplingResult {
	r := f(p)
	r.Tracestate = trace.SpanContextFromContext(p.ParentContext).TraceState()
	return r
}
func (f samplerFunc) Description() string { return "verif" }

func run(c Case) ([]vk.Violation, vk.Info) {
	var info vk.Info
	runs := c.Runs
	if runs < 1 {
		runs = 1
	}
	all := map[string]bool{}
	var vs []vk.Violation
	for i := 0; i < runs && len(vs) == 0; i++ {
		v, cl := runOnce(c)
		vs = v
		for k := range cl {
			all[k] = true
		}
	}
	multi, flushes := false, 0
	for _, ph := range c.Phases {
		producers := 0
		for _, ops := range ph {
			hasEnd := false
			for _, op := range ops {
				if op.K == "end" {
					hasEnd = true
				}
				if op.K == "flush" {
					flushes++
				}
			}
			if hasEnd {
				producers++
			}
		}
		if producers >= 2 {
			multi = true
		}
	}
	info.NonTrivial = (multi || flushes > 0) && all["two_or_more_batches"]
	for k := range all {
		info.Class(k)
	}
	info.ClassIf(c.Blocking, "blocking_mode")
	info.ClassIf(c.ViaProvider, "via_tracer_provider")
	racing := false
	for _, ph := range c.Phases {
		for _, ops := range ph {
			for _, op := range ops {
				racing = racing || (op.K == "end" && op.D > 0)
			}
		}
	}
	info.ClassIf(racing && c.ViaProvider, "span_ended_by_several_goroutines_at_once")
	info.ClassIf(multi, "two_or_more_producers")
	return vs, info
}

func TestBatchSpanProcessor(t *testing.T) {
	vk.Run(t, vk.Spec[Case]{
		Property: "C01", Check: "bsp_history",
		Rule: "generated concurrent programs (1-5 barrier-separated phases of 1-6 goroutines issuing End (whole trace-flags byte, root/remote/local parent, single spans, bursts of up to 3000, one span ended by several goroutines or twice in a row) /ForceFlush/Shutdown/pauses with generated contexts and schedule perturbations) x BatchSpanProcessor configurations (queue 1-64, one case in eight log-scale up to 4096 incl. the defaults 2048/512, batch 1-queue+4, batch timeout 0/50us/1ms/10ms/1h, export timeout 0/50us/2ms/1s, each setting by option or OTEL_BSP_* variable, blocking or not, bare processor or through a TracerProvider) x exporter fault plans (ok/error/slow/blocks until its context expires); each program is executed twice; " +
			"non-trivial = the program has >= 2 producer goroutines in a phase or a ForceFlush, and >= 2 export batches were observed; distinct = distinct case encodings",
		Quick: 300, Thorough: 3000,
		Gen: gen, Run: run, Repeat: 100,
		ShrinkTime: 15 * time.Second,
	})
}

// ---------------------------------------------------------------------
// Directed-but-generated "fill" scenario: the worker is provably parked
// inside a (latched) ExportSpans call, so the fill level of the queue is
// known exactly and "dropped only when the queue is full" becomes decidable.

// FillCase parameterises the scenario.
type FillCase struct {
	Queue    int  `json:"queue"`
	Batch    int  `json:"batch"`
	Extra    int  `json:"extra"`    // spans ended after the queue is full
	Blocking bool `json:"blocking"` // blocking mode: Extra is forced to 0 (End would block)
	Provider bool `json:"via_provider"`
	// Timer: park the WORKER itself (timer-triggered export of the first
	// span, batch timeout 1ms) instead of a ForceFlush goroutine; then the
	// worker cannot take anything out of the queue while it fills.
	Timer bool `json:"timer"`
	// Flags: the trace-flags byte every span inherits (whole byte generated;
	// all spans of this scenario are sampled, i.e. bit 0 is set on the span).
	Flags int `json:"flags,omitempty"`
}

func genFill(t *rapid.T) FillCase {
	c := FillCase{}
	c.Queue = rapid.OneOf(rapid.IntRange(1, 5), rapid.IntRange(1, 40)).Draw(t, "queue")
	// Batch >= 2: the single span of step 1 must not trigger a size export,
	// the first (latched) export has to be the one of the ForceFlush.
	c.Batch = rapid.IntRange(2, c.Queue+3).Draw(t, "batch")
	c.Blocking = rapid.IntRange(0, 3).Draw(t, "blocking") == 0
	if !c.Blocking {
		c.Extra = rapid.IntRange(0, 5).Draw(t, "extra")
	}
	c.Provider = rapid.Bool().Draw(t, "via_provider")
	c.Timer = rapid.Bool().Draw(t, "timer")
	c.Flags = genFlags(t)
	return c
}

func runFill(c FillCase) ([]vk.Violation, vk.Info) {
	var vs []vk.Violation
	var info vk.Info
	bad := func(kind, format string, a ...any) { vs = append(vs, vk.V(kind, format, a...)) }
	clock := &vk.Clock{}
	logs := &vk.LogCapture{}
	otel.SetLogger(logr.New(logs))
	otel.SetErrorHandler(&vk.ErrCapture{})
	exp := &recExporter{clock: clock, script: []int{6}, latch: make(chan struct{})}
	opts := []sdktrace.BatchSpanProcessorOption{
		sdktrace.WithMaxQueueSize(c.Queue), sdktrace.WithMaxExportBatchSize(c.Batch),
		sdktrace.WithBatchTimeout(time.Hour), sdktrace.WithExportTimeout(0),
	}
	if c.Timer {
		opts = append(opts, sdktrace.WithBatchTimeout(time.Millisecond))
	}
	if c.Blocking {
		opts = append(opts, sdktrace.WithBlocking())
	}
	bsp := sdktrace.NewBatchSpanProcessor(exp, opts...)
	total := 1 + c.Queue + c.Extra + 1
	var end func(i int)
	var flush, shutdown func(context.Context) error
	if c.Provider {
		tp := sdktrace.NewTracerProvider(sdktrace.WithSpanProcessor(bsp))
		tr := tp.Tracer("c01")
		spans := make([]trace.Span, total)
		ids := map[trace.SpanID]int{}
		for i := range spans {
			r := 0
			if c.Flags > 1 {
				r = 1 + i%2
			}
			_, spans[i] = tr.Start(parentCtx(c.Flags|1, r, i), "s")
			ids[spans[i].SpanContext().SpanID()] = i
		}
		exp.idOf = func(s sdktrace.ReadOnlySpan) int { return ids[s.SpanContext().SpanID()] }
		end = func(i int) { spans[i].End() }
		flush, shutdown = tp.ForceFlush, tp.Shutdown
	} else {
		exp.idOf = func(s sdktrace.ReadOnlySpan) int {
			sid := s.SpanContext().SpanID()
			return int(binary.BigEndian.Uint64(sid[:])) - 1
		}
		end = func(i int) {
			var sid trace.SpanID
			binary.BigEndian.PutUint64(sid[:], uint64(i+1))
			bsp.OnEnd(tracetest.SpanStub{Name: "s", SpanContext: trace.NewSpanContext(trace.SpanContextConfig{TraceID: trace.TraceID{1}, SpanID: sid, TraceFlags: spanFlags(c.Flags, false)})}.Snapshot())
		}
		flush, shutdown = bsp.ForceFlush, bsp.Shutdown
	}
	next := 0
	// 1. one span and a ForceFlush on its own goroutine: once the (latched)
	// export of that flush has started, the flush marker has been consumed,
	// i.e. the queue is empty, and every export is blocked behind the latch.
	end(next)
	next++
	flushDone := make(chan error, 1)
	if c.Timer {
		flushDone <- nil // the batch timer makes the worker export span 0
	} else {
		go func() { flushDone <- flush(context.Background()) }()
	}
	parked := false
	for i := 0; i < 20000; i++ {
		if exp.inflight.Load() == 1 {
			parked = true
			break
		}
		time.Sleep(100 * time.Microsecond)
	}
	// 2. exactly Queue spans: the empty queue holds them all.
	fillFrom := next
	for i := 0; i < c.Queue; i++ {
		end(next)
		next++
	}
	// 3. Extra spans: they may be dropped (non-blocking only; the worker can
	// hold at most one more span while it waits for the batch lock).
	extraFrom := next
	for i := 0; i < c.Extra; i++ {
		end(next)
		next++
	}
	close(exp.latch)
	ferr := <-flushDone
	if e := flush(context.Background()); e != nil {
		ferr = e
	}
	end(next) // accounting span
	ferr2 := flush(context.Background())
	var dropped int64 = -1
	for _, e := range logs.Entries() {
		if e.Msg == "exporting spans" {
			if d, ok := e.KV["total_dropped"].(uint32); ok {
				dropped = int64(d)
			}
		}
	}
	serr := shutdown(context.Background())
	if ferr != nil || ferr2 != nil || serr != nil {
		bad("unexpected_error", "ForceFlush/Shutdown returned %v / %v / %v with a healthy exporter", ferr, ferr2, serr)
	}
	exp.mu.Lock()
	seen := map[int]int{}
	for ci, call := range exp.calls {
		if len(call.ids) > c.Batch {
			bad("batch_too_large", "ExportSpans call %d received %d spans, MaxExportBatchSize is %d", ci, len(call.ids), c.Batch)
		}
		for _, id := range call.ids {
			seen[id]++
		}
	}
	exp.mu.Unlock()
	for id, n := range seen {
		if n > 1 {
			bad("exported_twice", "span %d exported %d times", id, n)
		}
	}
	if parked {
		for i := 0; i < extraFrom; i++ {
			if seen[i] == 0 {
				where := "the first span"
				if i >= fillFrom {
					where = fmt.Sprintf("the %d spans that exactly fill the empty queue of %d", c.Queue, c.Queue)
				}
				bad("dropped_without_full_queue", "span %d (one of %s) was never exported", i, where)
			}
		}
		missing := 0
		for i := extraFrom; i < next; i++ {
			if seen[i] == 0 {
				missing++
			}
		}
		if dropped != int64(missing) {
			bad("drop_accounting", "%d spans ended while the queue was full were never exported, the processor counted %d as dropped", missing, dropped)
		}
	}
	if seen[next] != 1 {
		bad("lost", "the accounting span was exported %d times", seen[next])
	}
	info.NonTrivial = parked
	info.ClassIf(!parked, "export_not_observed_in_time(no assertion)")
	info.ClassIf(c.Timer, "worker_parked_by_timer_export")
	info.ClassIf(c.Extra > 0, "overflow_spans")
	info.ClassIf(c.Batch > c.Queue, "batch_larger_than_queue")
	info.ClassIf(c.Queue == 1, "queue_of_one")
	info.ClassIf(c.Blocking, "blocking_mode")
	info.ClassIf(c.Flags&0xfe != 0, "sampled_spans_with_other_trace_flag_bits")
	return vs, info
}

func TestBatchSpanProcessorFill(t *testing.T) {
	vk.Run(t, vk.Spec[FillCase]{
		Property: "C01", Check: "bsp_fill",
		Rule:  "generated (queue size, batch size, overflow count, blocking, bare/provider) for a scenario in which the worker is parked inside a latched ExportSpans call so the queue fill level is known: exactly MaxQueueSize further spans must all be exported, later ones may only be dropped-and-counted; every case is non-trivial; distinct = distinct parameter tuples",
		Quick: 150, Thorough: 1000,
		Gen: genFill, Run: runFill, Repeat: 20,
	})
}
