package c01

import (
	"context"
	"encoding/binary"
	"fmt"
	"testing"
	"time"

	"github.com/go-logr/logr"
	"go.opentelemetry.io/otel"
	sdktrace "go.opentelemetry.io/otel/sdk/trace"
	"go.opentelemetry.io/otel/sdk/trace/tracetest"
	"go.opentelemetry.io/otel/trace"
	"go.opentelemetry.io/otel/verif/internal/vk"
	"pgregory.net/rapid"
)

// Generated LIFE CYCLES of one bare batch span processor: a sequential program
// in which the ORDER of the life-cycle calls and the context each of them is
// given are the generated dimensions - ForceFlush and Shutdown calls with a
// context that is live (none / far deadline), already cancelled, already past
// its deadline, cancelled while the call runs, or a short deadline, several
// Shutdown calls one after the other, Ends and ForceFlushes between them, and
// an exporter fault plan. The program always finishes with Shutdown(live),
// End, ForceFlush(live), End, ForceFlush(live), Shutdown(live).
//
// Because the program is sequential, "End returned before the call was issued"
// and "the call was issued after the earlier call had returned" are program
// order; no schedule is involved.
//
// Oracle. A span is OWED when it is sampled and its End returned before the
// FIRST Shutdown call was issued (documented: "Do not enqueue spans after
// Shutdown"); the queue is generated so that it can never be full (blocking
// mode, or room for every span and every flush marker), so no owed span may be
// dropped.
//   - ForceFlush returned nil before any Shutdown was issued: every owed span
//     ended before it is at the exporter when it returns (not_flushed / lost).
//   - Shutdown returned nil and no earlier Shutdown call returned an error:
//     the same, and no ExportSpans call starts after it returned
//     (not_flushed / lost / export_after_shutdown).
//   - Shutdown returned nil, issued strictly after an earlier Shutdown call had
//     returned an ERROR (its context ended): the statement's clauses are about
//     "that call returns without error" and hold for this call in full: every
//     owed span is at the exporter when it returns and no ExportSpans call
//     starts afterwards (later_shutdown_nil_before_handover /
//     export_after_later_shutdown_nil). The pinned tree did not meet this
//     (the failed call left the worker draining in the background and every
//     later call returned nil at once through the sync.Once): repaired by
//     /repo 63802c8, regression replay
//     replays/regress/C01/later_shutdown_nil_while_draining.json.
//     Independently of that, two schedule-independent
//     consequences of the statement are asserted under their own kinds:
//   - accepted_after_shutdown: a span whose End was ISSUED after some Shutdown
//     call had returned nil is never handed to the exporter ("nothing is
//     exported after Shutdown has returned");
//   - lost_after_failed_shutdown: once the processor is quiescent (it has shut
//     its exporter down; 30 s hang watchdog, the drain takes milliseconds) every
//     owed span has been handed to the exporter exactly once, whatever the
//     earlier calls returned - a nil return of a later Shutdown cannot be true
//     of a span that is never handed over at all.
//   - always: no span twice, batches within the maximum, exporter never entered
//     concurrently, nothing after the exporter's own Shutdown, no unsampled and
//     no unknown span.
//
// SECOND PROCESSORS (round 10). 0-3 further batch span processors, each with
// its own recording exporter, live in the same process: a generated one is
// created after a generated number of ops of the first one's program (mostly
// right after the first Shutdown call, i.e. possibly while the first one's
// worker is still exporting / draining after a Shutdown that ran into its
// context), mostly with the SAME MaxExportBatchSize, and is used at once (End
// bursts, ForceFlush with live contexts); after the first one's closing
// section it gets End, ForceFlush(live), Shutdown(live). The statement is
// about every batch span processor, so each is held to it against its own
// exporter (all its calls are live and sequential, its queue cannot fill):
// every sampled span ended before a call that returned nil is at ITS exporter
// when the call returns (lost / not_flushed), exactly once (exported_twice),
// batches within its maximum, only spans its own program ended - no nil entry,
// no span of another processor - (unknown_span_exported), nothing after its
// Shutdown returned (export_after_shutdown), its exporter never entered
// concurrently. Spans carry the processor's number in the TraceID, so a span
// turning up at the wrong exporter is recognised on both sides.
//
// Nothing is asserted about which error a call returns, about calls that
// returned an error, or about the exporter being shut down.

// LOp is one step of the sequential life cycle.
type LOp struct {
	K string `json:"k"`           // end | flush | shutdown | pause
	N int    `json:"n,omitempty"` // end: number of spans
	U bool   `json:"u,omitempty"` // end: the spans are unsampled
	// T (flush / shutdown): the context of the call: 0 context.Background, 1 a
	// live context with a far (30 s) deadline, -1 already cancelled, -2 deadline
	// already in the past, -11/-12/-15 cancelled 0.3/0.6/1.5 ms after the call
	// was issued, n > 1 a deadline n microseconds ahead.
	T int `json:"t,omitempty"`
}

// LifeCase is one generated life cycle.
type LifeCase struct {
	Queue           int   `json:"queue"`
	Batch           int   `json:"batch"`
	Blocking        bool  `json:"blocking"`
	BatchTimeoutUs  int64 `json:"batch_timeout_us"`
	ExportTimeoutUs int64 `json:"export_timeout_us"`
	Exporter        []int `json:"exporter"` // recExporter script
	Ops             []LOp `json:"ops"`
	// Second: further batch span processors of the same process, each with its
	// own exporter, created and used while the first one's program is under way.
	Second []SecondProc `json:"second,omitempty"`
}

// SecondProc is another batch span processor living in the same process as the
// first one: it is created after At ops of the first processor's program have
// run (typically right after the first - possibly failed - Shutdown call, when
// the first processor's worker may still be draining), its Ops (end / flush
// with live contexts) run at that point, and after the first processor's
// closing section it gets End, ForceFlush(live), Shutdown(live). It is judged
// against ITS OWN exporter with the same clauses: the statement holds for every
// batch span processor, whatever other processors of the process are doing.
type SecondProc struct {
	At       int   `json:"at"`
	Queue    int   `json:"queue"`
	Batch    int   `json:"batch"` // generated equal to the first one's in most cases
	Blocking bool  `json:"blocking"`
	Exporter []int `json:"exporter"`
	Ops      []LOp `json:"ops"`
}

// secondClosing is the number of queue slots the closing section of a second
// processor can need (one span, one flush marker).
const secondClosing = 2

func lifeCtx(t int) (context.Context, context.CancelFunc) {
	switch {
	case t == 0:
		return context.Background(), func() {}
	case t == 1:
		return context.WithTimeout(context.Background(), 30*time.Second)
	case t == -1:
		ctx, cancel := context.WithCancel(context.Background())
		cancel()
		return ctx, cancel
	case t == -2:
		return context.WithDeadline(context.Background(), time.Now().Add(-time.Second))
	case t <= -10:
		ctx, cancel := context.WithCancel(context.Background())
		timer := time.AfterFunc(time.Duration(-t-10)*300*time.Microsecond, cancel)
		return ctx, func() { timer.Stop(); cancel() }
	case t < 0:
		ctx, cancel := context.WithCancel(context.Background())
		cancel()
		return ctx, cancel
	default:
		return context.WithTimeout(context.Background(), time.Duration(t)*time.Microsecond)
	}
}

func ctxName(t int) string {
	switch {
	case t == 0 || t == 1:
		return "live"
	case t == -1:
		return "already_cancelled"
	case t == -2:
		return "deadline_already_passed"
	case t <= -10:
		return "cancelled_in_flight"
	default:
		return "short_deadline"
	}
}

func genLife(t *rapid.T) LifeCase {
	c := LifeCase{}
	anyCtx := rapid.SampledFrom([]int{0, 0, 1, -1, -1, -2, -2, 50, 300, 5000, -11, -15})
	laterCtx := rapid.SampledFrom([]int{0, 0, 0, 1, 1, -1, -2, 300, -12})
	total, flushes := 0, 0
	filler := func(label string, lo, hi int) {
		for i, n := 0, rapid.IntRange(lo, hi).Draw(t, label); i < n; i++ {
			switch k := rapid.IntRange(0, 9).Draw(t, "kind"); {
			case k < 6:
				op := LOp{K: "end", N: rapid.IntRange(1, 6).Draw(t, "spans"), U: rapid.IntRange(0, 7).Draw(t, "unsampled") == 0}
				total += op.N
				c.Ops = append(c.Ops, op)
			case k < 9:
				flushes++
				c.Ops = append(c.Ops, LOp{K: "flush", T: anyCtx.Draw(t, "flush_ctx")})
			default:
				c.Ops = append(c.Ops, LOp{K: "pause"})
			}
		}
	}
	filler("body_ops", 1, 6)
	if rapid.IntRange(0, 2).Draw(t, "end_right_before_shutdown") != 0 {
		// the usual shape: something is still queued when Shutdown is called
		op := LOp{K: "end", N: rapid.IntRange(1, 6).Draw(t, "spans")}
		total += op.N
		c.Ops = append(c.Ops, op)
	}
	for i, n := 0, rapid.IntRange(0, 3).Draw(t, "shutdown_calls"); i < n; i++ {
		if i == 0 {
			c.Ops = append(c.Ops, LOp{K: "shutdown", T: anyCtx.Draw(t, "first_shutdown_ctx")})
		} else {
			c.Ops = append(c.Ops, LOp{K: "shutdown", T: laterCtx.Draw(t, "later_shutdown_ctx")})
		}
		filler("between_ops", 0, 2)
	}
	c.Blocking = rapid.Bool().Draw(t, "blocking")
	if c.Blocking {
		c.Queue = rapid.IntRange(1, 8).Draw(t, "queue")
	} else {
		// room for every span, every flush marker and the closing section
		c.Queue = total + flushes + lifeClosing + rapid.IntRange(0, 4).Draw(t, "queue_spare")
	}
	c.Batch = rapid.OneOf(rapid.IntRange(1, 3), rapid.IntRange(1, c.Queue+2)).Draw(t, "batch")
	c.BatchTimeoutUs = rapid.SampledFrom([]int64{1000, 10000, 3600e6, 3600e6, 3600e6}).Draw(t, "batch_timeout")
	c.ExportTimeoutUs = rapid.SampledFrom([]int64{0, 2000, 1e6}).Draw(t, "export_timeout")
	c.Exporter = rapid.SliceOfN(rapid.SampledFrom([]int{0, 0, 0, 1, 2, 3, 4, 5, 7}), 0, 6).Draw(t, "exporter")
	afterFirstShutdown := len(c.Ops)
	for i, op := range c.Ops {
		if op.K == "shutdown" {
			afterFirstShutdown = i + 1
			break
		}
	}
	for i, n := 0, rapid.SampledFrom([]int{0, 0, 1, 1, 1, 2, 3}).Draw(t, "second_processors"); i < n; i++ {
		sp := SecondProc{}
		sp.At = rapid.OneOf(rapid.Just(afterFirstShutdown), rapid.IntRange(0, len(c.Ops))).Draw(t, "second_at")
		total, flushes := 0, 0
		for j, m := 0, rapid.IntRange(1, 5).Draw(t, "second_ops"); j < m; j++ {
			if j == 0 || rapid.IntRange(0, 2).Draw(t, "second_kind") < 2 {
				op := LOp{K: "end", N: rapid.IntRange(1, 6).Draw(t, "spans"), U: rapid.IntRange(0, 7).Draw(t, "unsampled") == 0}
				total += op.N
				sp.Ops = append(sp.Ops, op)
			} else {
				flushes++
				sp.Ops = append(sp.Ops, LOp{K: "flush", T: rapid.IntRange(0, 1).Draw(t, "second_flush_ctx")})
			}
		}
		sp.Blocking = rapid.Bool().Draw(t, "second_blocking")
		if sp.Blocking {
			sp.Queue = rapid.IntRange(1, 8).Draw(t, "second_queue")
		} else {
			sp.Queue = total + flushes + secondClosing + rapid.IntRange(0, 4).Draw(t, "second_queue_spare")
		}
		sp.Batch = rapid.OneOf(rapid.Just(c.Batch), rapid.Just(c.Batch), rapid.IntRange(1, sp.Queue+2)).Draw(t, "second_batch")
		sp.Exporter = rapid.SliceOfN(rapid.SampledFrom([]int{0, 0, 0, 1, 2, 3}), 0, 4).Draw(t, "second_exporter")
		c.Second = append(c.Second, sp)
	}
	return c
}

// lifeClosing is the number of queue slots the closing section can need (two
// spans, two flush markers).
const lifeClosing = 4

type lifeSpan struct {
	start, ret int64
	sampled    bool
}

type lifeCall struct {
	callRec
	t int
}

func runLife(c LifeCase) ([]vk.Violation, vk.Info) {
	var vs []vk.Violation
	var info vk.Info
	bad := func(kind, format string, a ...any) {
		if len(vs) < 12 {
			vs = append(vs, vk.V(kind, format, a...))
		}
	}
	clock := &vk.Clock{}
	otel.SetLogger(logr.New(&vk.LogCapture{}))
	otel.SetErrorHandler(&vk.ErrCapture{})

	exp := &recExporter{clock: clock, script: c.Exporter}
	exp.idOf = lifeIDOf(1)
	opts := []sdktrace.BatchSpanProcessorOption{
		sdktrace.WithMaxQueueSize(max(c.Queue, 1)), sdktrace.WithMaxExportBatchSize(max(c.Batch, 1)),
		sdktrace.WithBatchTimeout(time.Duration(max(c.BatchTimeoutUs, 1000)) * time.Microsecond),
		sdktrace.WithExportTimeout(time.Duration(c.ExportTimeoutUs) * time.Microsecond),
	}
	if c.Blocking {
		opts = append(opts, sdktrace.WithBlocking())
	}
	bsp := sdktrace.NewBatchSpanProcessor(exp, opts...)

	var spans []lifeSpan
	var calls []*lifeCall
	end := func(n int, unsampled bool) {
		for j := 0; j < n; j++ {
			id := len(spans)
			var sid trace.SpanID
			binary.BigEndian.PutUint64(sid[:], uint64(id+1))
			snap := tracetest.SpanStub{
				Name:        "s",
				SpanContext: trace.NewSpanContext(trace.SpanContextConfig{TraceID: trace.TraceID{1}, SpanID: sid, TraceFlags: spanFlags(0, unsampled)}),
			}.Snapshot()
			s := lifeSpan{sampled: !unsampled, start: clock.Tick()}
			bsp.OnEnd(snap)
			s.ret = clock.Tick()
			spans = append(spans, s)
		}
	}
	call := func(kind string, t int) *lifeCall {
		ctx, cancel := lifeCtx(t)
		defer cancel()
		r := &lifeCall{t: t}
		r.kind = kind
		r.start = clock.Tick()
		if kind == "flush" {
			r.err = bsp.ForceFlush(ctx)
		} else {
			r.err = bsp.Shutdown(ctx)
		}
		r.end = clock.Tick()
		calls = append(calls, r)
		return r
	}
	seconds := make([]*secondRun, len(c.Second))
	for k := range c.Second {
		seconds[k] = &secondRun{k: k, p: c.Second[k], clock: clock}
	}
	startSeconds := func(i int, last bool) {
		for _, sr := range seconds {
			if sr.bsp == nil && (sr.p.At <= i || last) {
				sr.start()
			}
		}
	}
	totalEnds, flushCalls := 0, 0
	for i, op := range c.Ops {
		startSeconds(i, false)
		switch op.K {
		case "end":
			totalEnds += max(op.N, 1)
			end(max(op.N, 1), op.U)
		case "flush":
			flushCalls++
			call("flush", op.T)
		case "shutdown":
			call("shutdown", op.T)
		case "pause":
			time.Sleep(300 * time.Microsecond)
		}
	}
	startSeconds(len(c.Ops), true)
	// closing section
	call("shutdown", 0)
	lateFrom := len(spans)
	end(1, false)
	call("flush", 0)
	end(1, false)
	call("flush", 0)
	call("shutdown", 0)
	for _, sr := range seconds {
		sr.finish()
	}

	exportedIDs := func() map[int]bool {
		m := map[int]bool{}
		exp.mu.Lock()
		for _, ec := range exp.calls {
			for _, id := range ec.ids {
				m[id] = true
			}
		}
		exp.mu.Unlock()
		return m
	}
	// Quiescence: the processor shuts its exporter down after its worker has
	// made the final export. 30 s is a hang watchdog (the drain takes
	// milliseconds); it is not waited for when a violation is already certain
	// (a span ended after the closing Shutdown has been exported).
	lateSeen := false
	for id := range exportedIDs() {
		if id >= lateFrom {
			lateSeen = true
		}
	}
	quiescent := false
	if !lateSeen {
		deadline := time.Now().Add(30 * time.Second)
		for time.Now().Before(deadline) {
			if exp.shutdowns.Load() > 0 && exp.inflight.Load() == 0 {
				quiescent = true
				break
			}
			time.Sleep(200 * time.Microsecond)
		}
	}

	// ---- oracle ----
	exp.mu.Lock()
	ecalls := make([]exportCall, len(exp.calls))
	for k, ec := range exp.calls {
		ecalls[k] = *ec
	}
	exp.mu.Unlock()
	where := map[int]*exportCall{}
	for ci := range ecalls {
		ec := &ecalls[ci]
		if len(ec.ids) > max(c.Batch, 1) {
			bad("batch_too_large", "ExportSpans call %d received %d spans, MaxExportBatchSize is %d", ci, len(ec.ids), c.Batch)
		}
		for _, id := range ec.ids {
			if id < 0 || id >= len(spans) {
				what := fmt.Sprintf("id %d", id)
				if id == -1 {
					what = "a nil entry"
				} else if id == -2 {
					what = "a span ended on ANOTHER batch span processor of the process"
				}
				bad("unknown_span_exported", "ExportSpans call %d of the first processor's exporter received a span its program never ended (%s)", ci, what)
				continue
			}
			if _, dup := where[id]; dup {
				bad("exported_twice", "span %d handed to the exporter twice", id)
			}
			where[id] = ec
			if !spans[id].sampled {
				bad("unsampled_exported", "unsampled span %d was exported", id)
			}
			if ec.enter < spans[id].start {
				bad("exported_before_end", "span %d exported before its End was issued", id)
			}
		}
		if at := exp.shutdownDoneAt.Load(); at != 0 && ec.enter > at {
			bad("export_after_exporter_shutdown", "ExportSpans call %d started after the exporter's own Shutdown had finished", ci)
		}
	}
	if k := exp.overlap.Load() + exp.shutdownOverlap.Load(); k > 0 {
		bad("concurrent_export", "the exporter was entered %d time(s) while another call on it was still running", k)
	}
	if k := exp.shutdowns.Load(); k > 1 {
		bad("exporter_shutdown_twice", "exporter Shutdown called %d times", k)
	}

	var firstShutdown *lifeCall
	for _, r := range calls {
		if r.kind == "shutdown" {
			firstShutdown = r
			break
		}
	}
	firstIssue := firstShutdown.start
	// Run re-derives "the queue can never be full" (a shrunk or hand-written
	// case may not satisfy what the generator constructs).
	droppable := !c.Blocking && c.Queue < totalEnds+flushCalls+lifeClosing
	owed := func(s lifeSpan, before int64) bool {
		return s.sampled && s.ret < before && s.ret < firstIssue
	}
	describe := func(r *lifeCall) string {
		return fmt.Sprintf("%s(ctx %s) t=%d..%d", r.kind, ctxName(r.t), r.start, r.end)
	}
	asserted := false
	var failedEarlier *lifeCall // the latest Shutdown call so far that returned an error
	for _, r := range calls {
		if r.err != nil {
			info.Class(fmt.Sprintf("%s_with_%s_ctx_returned_error", r.kind, ctxName(r.t)))
			if r.kind == "shutdown" {
				failedEarlier = r
			} else if r.start < firstIssue {
				info.Class("ForceFlush_failed_before_the_first_Shutdown")
			}
			continue
		}
		switch {
		case r.kind == "flush" && r.end < firstIssue:
			asserted = true
			for id, s := range spans {
				if !owed(s, r.start) {
					continue
				}
				if ec, ok := where[id]; ok && ec.enter > r.end {
					bad("not_flushed", "span %d (End returned t=%d) was handed to the exporter only at t=%d, after %s had returned nil", id, s.ret, ec.enter, describe(r))
				} else if !ok && !droppable {
					bad("lost", "span %d (End returned t=%d) was never handed to the exporter although %s returned nil (blocking=%v queue=%d)", id, s.ret, describe(r), c.Blocking, c.Queue)
				}
			}
		case r.kind == "shutdown" && failedEarlier == nil:
			asserted = true
			for id, s := range spans {
				if !owed(s, r.start) {
					continue
				}
				if ec, ok := where[id]; ok && ec.enter > r.end {
					bad("not_flushed", "span %d (End returned t=%d) was handed to the exporter only at t=%d, after %s had returned nil", id, s.ret, ec.enter, describe(r))
				} else if !ok && !droppable {
					bad("lost", "span %d (End returned t=%d) was never handed to the exporter although %s returned nil (blocking=%v queue=%d)", id, s.ret, describe(r), c.Blocking, c.Queue)
				}
			}
			for ci := range ecalls {
				if ecalls[ci].enter > r.end {
					bad("export_after_shutdown", "ExportSpans call %d started (t=%d) after %s had returned nil", ci, ecalls[ci].enter, describe(r))
				}
			}
		case r.kind == "shutdown":
			// issued strictly after an earlier Shutdown call had returned an error
			asserted = true
			info.Class("Shutdown_returned_nil_after_an_earlier_Shutdown_returned_error")
			strict := false
			for id, s := range spans {
				if !owed(s, r.start) {
					continue
				}
				if ec, ok := where[id]; ok && ec.enter > r.end {
					strict = true
					bad("later_shutdown_nil_before_handover", "span %d (End returned t=%d) was handed to the exporter only at t=%d, after %s had returned nil (an earlier %s had returned %v)", id, s.ret, ec.enter, describe(r), describe(failedEarlier), failedEarlier.err)
				}
			}
			for ci := range ecalls {
				if ecalls[ci].enter > r.end {
					strict = true
					bad("export_after_later_shutdown_nil", "ExportSpans call %d started (t=%d) after %s had returned nil (an earlier %s had returned %v)", ci, ecalls[ci].enter, describe(r), describe(failedEarlier), failedEarlier.err)
				}
			}
			info.ClassIf(strict, "later_nil_Shutdown_returned_before_the_drain_had_finished(observed)")
		}
	}
	// nothing is accepted after a Shutdown call has returned nil
	firstNilEnd := int64(1) << 62
	var firstNil *lifeCall
	for _, r := range calls {
		if r.kind == "shutdown" && r.err == nil && r.end < firstNilEnd {
			firstNilEnd, firstNil = r.end, r
		}
	}
	for id, s := range spans {
		if ec, ok := where[id]; ok && s.start > firstNilEnd {
			bad("accepted_after_shutdown", "span %d, whose End was issued at t=%d, after %s had returned nil, was handed to the exporter at t=%d", id, s.start, describe(firstNil), ec.enter)
		}
	}
	// every owed span is handed over once the processor is quiescent
	if firstNil != nil && !droppable {
		for id, s := range spans {
			if !owed(s, int64(1)<<62) {
				continue
			}
			if _, ok := where[id]; !ok {
				kind := "lost"
				if failedEarlier != nil {
					kind = "lost_after_failed_shutdown"
				}
				bad(kind, "span %d (End returned t=%d, before the first Shutdown was issued at t=%d) was never handed to the exporter although %s returned nil (quiescent=%v, blocking=%v queue=%d)", id, s.ret, firstIssue, describe(firstNil), quiescent, c.Blocking, c.Queue)
			}
		}
	}

	for _, sr := range seconds {
		sr.judge(bad, &info)
		info.Class("second_processor")
		info.ClassIf(max(sr.p.Batch, 1) == max(c.Batch, 1), "second_processor_with_the_same_MaxExportBatchSize")
		if sr.createdAt > firstIssue && firstShutdown.err != nil {
			info.Class("second_processor_created_after_the_first_Shutdown_returned_error")
			busy := false
			for ci := range ecalls {
				if ecalls[ci].exit == 0 || ecalls[ci].exit > sr.createdAt {
					busy = true
				}
			}
			info.ClassIf(busy, "second_processor_used_while_the_first_was_still_exporting(observed)")
		}
	}
	info.ClassIf(len(seconds) >= 2, "two_or_more_second_processors")

	nshut := 0
	for _, op := range c.Ops {
		if op.K == "shutdown" {
			nshut++
		}
	}
	info.NonTrivial = len(ecalls) > 0 && asserted
	info.Class("first_Shutdown_ctx=" + ctxName(firstShutdown.t))
	info.Class(fmt.Sprintf("first_Shutdown_returned_nil=%v", firstShutdown.err == nil))
	info.ClassIf(nshut >= 2, "two_or_more_generated_Shutdown_calls")
	info.ClassIf(!quiescent && !lateSeen, "exporter_shutdown_not_observed_within_watchdog")
	info.ClassIf(c.Blocking, "blocking_mode")
	info.ClassIf(droppable, "queue_may_fill(lost not asserted)")
	queuedAtShutdown := false
	for id, s := range spans {
		if ec, ok := where[id]; ok && s.ret < firstIssue && ec.enter > firstIssue {
			queuedAtShutdown = true
		}
	}
	info.ClassIf(queuedAtShutdown, "spans_still_queued_when_the_first_Shutdown_was_issued")
	seen := map[string]bool{}
	uniq := info.Classes[:0]
	for _, cl := range info.Classes {
		if !seen[cl] {
			seen[cl] = true
			uniq = append(uniq, cl)
		}
	}
	info.Classes = uniq
	return vs, info
}

// lifeIDOf maps a span handed to the exporter of processor number tid (its
// spans carry TraceID{tid}) back to its index; a nil entry is -1, a span of
// another processor -2: both are "a span this processor's program never ended".
func lifeIDOf(tid byte) func(sdktrace.ReadOnlySpan) int {
	return func(s sdktrace.ReadOnlySpan) int {
		if s == nil {
			return -1
		}
		sc := s.SpanContext()
		if sc.TraceID() != (trace.TraceID{tid}) {
			return -2
		}
		sid := sc.SpanID()
		return int(binary.BigEndian.Uint64(sid[:])) - 1
	}
}

// secondRun is the run-time state of one SecondProc.
type secondRun struct {
	k         int
	p         SecondProc
	clock     *vk.Clock
	exp       *recExporter
	bsp       sdktrace.SpanProcessor
	spans     []lifeSpan
	calls     []*lifeCall
	createdAt int64
	ends      int
	flushes   int
}

func (sr *secondRun) end(n int, unsampled bool) {
	for j := 0; j < n; j++ {
		var sid trace.SpanID
		binary.BigEndian.PutUint64(sid[:], uint64(len(sr.spans)+1))
		snap := tracetest.SpanStub{
			Name:        "s2",
			SpanContext: trace.NewSpanContext(trace.SpanContextConfig{TraceID: trace.TraceID{byte(2 + sr.k)}, SpanID: sid, TraceFlags: spanFlags(0, unsampled)}),
		}.Snapshot()
		s := lifeSpan{sampled: !unsampled, start: sr.clock.Tick()}
		sr.bsp.OnEnd(snap)
		s.ret = sr.clock.Tick()
		sr.spans = append(sr.spans, s)
		sr.ends++
	}
}

func (sr *secondRun) call(kind string, t int) {
	ctx, cancel := lifeCtx(t & 1) // live contexts only
	defer cancel()
	r := &lifeCall{t: t & 1}
	r.kind = kind
	r.start = sr.clock.Tick()
	if kind == "flush" {
		sr.flushes++
		r.err = sr.bsp.ForceFlush(ctx)
	} else {
		r.err = sr.bsp.Shutdown(ctx)
	}
	r.end = sr.clock.Tick()
	sr.calls = append(sr.calls, r)
}

func (sr *secondRun) start() {
	sr.exp = &recExporter{clock: sr.clock, script: sr.p.Exporter, idOf: lifeIDOf(byte(2 + sr.k))}
	opts := []sdktrace.BatchSpanProcessorOption{
		sdktrace.WithMaxQueueSize(max(sr.p.Queue, 1)), sdktrace.WithMaxExportBatchSize(max(sr.p.Batch, 1)),
		sdktrace.WithBatchTimeout(time.Hour),
	}
	if sr.p.Blocking {
		opts = append(opts, sdktrace.WithBlocking())
	}
	sr.createdAt = sr.clock.Tick()
	sr.bsp = sdktrace.NewBatchSpanProcessor(sr.exp, opts...)
	for _, op := range sr.p.Ops {
		switch op.K {
		case "end":
			sr.end(max(op.N, 1), op.U)
		case "flush":
			sr.call("flush", op.T)
		}
	}
}

func (sr *secondRun) finish() {
	sr.end(1, false)
	sr.call("flush", 0)
	sr.call("shutdown", 0)
}

// judge holds a second processor to the statement against its own exporter:
// all its calls had live contexts, all its Ends were issued before its only
// Shutdown, its queue cannot fill.
func (sr *secondRun) judge(bad func(kind, format string, a ...any), info *vk.Info) {
	who := fmt.Sprintf("second processor %d (created t=%d, batch=%d)", sr.k, sr.createdAt, sr.p.Batch)
	exp := sr.exp
	exp.mu.Lock()
	ecalls := make([]exportCall, len(exp.calls))
	for k, ec := range exp.calls {
		ecalls[k] = *ec
	}
	exp.mu.Unlock()
	where := map[int]*exportCall{}
	for ci := range ecalls {
		ec := &ecalls[ci]
		if len(ec.ids) > max(sr.p.Batch, 1) {
			bad("batch_too_large", "%s: ExportSpans call %d received %d spans, MaxExportBatchSize is %d", who, ci, len(ec.ids), sr.p.Batch)
		}
		for _, id := range ec.ids {
			if id < 0 || id >= len(sr.spans) {
				what := "a nil span"
				if id != -1 {
					what = "a span of another processor"
				}
				bad("unknown_span_exported", "%s: ExportSpans call %d of its exporter received %s (a span its program never ended)", who, ci, what)
				continue
			}
			if _, dup := where[id]; dup {
				bad("exported_twice", "%s: span %d handed to the exporter twice", who, id)
			}
			where[id] = ec
			if !sr.spans[id].sampled {
				bad("unsampled_exported", "%s: unsampled span %d was exported", who, id)
			}
		}
	}
	if k := exp.overlap.Load() + exp.shutdownOverlap.Load(); k > 0 {
		bad("concurrent_export", "%s: the exporter was entered %d time(s) while another call on it was still running", who, k)
	}
	droppable := !sr.p.Blocking && sr.p.Queue < sr.ends+sr.flushes
	for _, r := range sr.calls {
		if r.err != nil {
			info.Class(fmt.Sprintf("second_processor_%s_returned_error", r.kind))
			continue
		}
		for id, s := range sr.spans {
			if !s.sampled || s.ret > r.start {
				continue
			}
			if ec, ok := where[id]; ok && ec.enter > r.end {
				bad("not_flushed", "%s: span %d (End returned t=%d) was handed to the exporter only at t=%d, after %s t=%d..%d had returned nil", who, id, s.ret, ec.enter, r.kind, r.start, r.end)
			} else if !ok && !droppable {
				bad("lost", "%s: span %d (End returned t=%d) was never handed to its exporter although %s t=%d..%d (live context) returned nil (blocking=%v queue=%d)", who, id, s.ret, r.kind, r.start, r.end, sr.p.Blocking, sr.p.Queue)
			}
		}
		if r.kind == "shutdown" {
			for ci := range ecalls {
				if ecalls[ci].enter > r.end {
					bad("export_after_shutdown", "%s: ExportSpans call %d started (t=%d) after Shutdown had returned nil (t=%d)", who, ci, ecalls[ci].enter, r.end)
				}
			}
		}
	}
}

func TestBatchSpanProcessorLifeCycle(t *testing.T) {
	vk.Run(t, vk.Spec[LifeCase]{
		Property: "C01", Check: "bsp_lifecycle",
		Rule: "generated sequential life cycles of one bare batch span processor: End bursts, ForceFlush and 0-3 Shutdown calls in generated order, each call with a generated context (live, far deadline, already cancelled, deadline already passed, cancelled in flight, 50us-5ms deadline), always closed by Shutdown(live) / End / ForceFlush / End / ForceFlush / Shutdown(live); blocking or a queue that can never fill; batch timeout 1ms/10ms/1h; exporter fault plans (ok/error/slow/hung/ctx-bound); 0-3 further batch span processors with their own exporters (mostly the same MaxExportBatchSize), created at a generated point of the program (mostly right after the first Shutdown call), used at once (End bursts, ForceFlush) and closed by End / ForceFlush / Shutdown, each judged against its own exporter; " +
			"non-trivial = something was exported and at least one call that returned nil was held to the delivery clause; distinct = distinct case encodings",
		Quick: 400, Thorough: 6000,
		Gen: genLife, Run: runLife, Repeat: 5,
		CaseTimeout: 120 * time.Second,
	})
}
