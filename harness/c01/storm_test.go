package c01

import (
	"context"
	"encoding/binary"
	"sync"
	"sync/atomic"
	"testing"
	"time"

	"github.com/go-logr/logr"
	"go.opentelemetry.io/otel"
	sdktrace "go.opentelemetry.io/otel/sdk/trace"
	"go.opentelemetry.io/otel/sdk/trace/tracetest"
	"go.opentelemetry.io/otel/trace"
	"go.opentelemetry.io/otel/verif/internal/vk"
	"pgregory.net/rapid"
)

// Generated "storm": an IDLE processor with a tiny queue, more goroutines
// than queue slots each ending one span, and a Shutdown (plus optional
// ForceFlush calls), all released by one barrier with generated spin delays.
// This is the region in which an End that passed the processor's stopped check
// reaches the queue only after the worker has drained it and gone - found by
// the thorough tier of bsp_history as a once-in-60000 hang (blocking mode,
// repaired in /repo), and reached here by construction. Every call must
// return (watchdog), nothing is exported twice, batches respect the maximum,
// the exporter is never entered concurrently nor after its own Shutdown, and
// a span whose End returned before Shutdown was CALLED is exported.

// StormCase parameterises the storm.
type StormCase struct {
	Queue    int   `json:"queue"`
	Batch    int   `json:"batch"`
	Blocking bool  `json:"blocking"`
	Spins    []int `json:"spins"`     // one ender per entry: busy-loop iterations before End
	ShutSpin int   `json:"shut_spin"` // busy-loop iterations before Shutdown
	Flush    []int `json:"flush"`     // one ForceFlush goroutine per entry (spin before)
	Pre      int   `json:"pre"`       // spans ended (and flushed) before the storm
	Provider bool  `json:"via_provider"`
	Reps     int   `json:"reps"`
	Flags    int   `json:"flags,omitempty"` // trace-flags byte every span inherits (all spans are sampled: bit 0 is set on the span)
}

func genStorm(t *rapid.T) StormCase {
	c := StormCase{}
	c.Queue = rapid.IntRange(1, 3).Draw(t, "queue")
	c.Batch = rapid.IntRange(1, c.Queue+1).Draw(t, "batch")
	c.Blocking = rapid.IntRange(0, 3).Draw(t, "blocking") != 0
	n := rapid.IntRange(c.Queue+1, c.Queue+10).Draw(t, "enders")
	spin := rapid.SampledFrom([]int{0, 0, 50, 500, 5000}).Draw(t, "spin_scale")
	for i := 0; i < n; i++ {
		c.Spins = append(c.Spins, rapid.IntRange(0, spin).Draw(t, "spin"))
	}
	c.ShutSpin = rapid.IntRange(0, spin).Draw(t, "shut_spin")
	for i, nf := 0, rapid.IntRange(0, 2).Draw(t, "flushers"); i < nf; i++ {
		c.Flush = append(c.Flush, rapid.IntRange(0, spin).Draw(t, "flush_spin"))
	}
	c.Pre = rapid.IntRange(0, 2).Draw(t, "pre")
	c.Provider = rapid.Bool().Draw(t, "via_provider")
	c.Reps = 25
	c.Flags = genFlags(t)
	return c
}

var spinSink atomic.Int64

func spinFor(n int) {
	var x int64
	for i := 0; i < n; i++ {
		x += int64(i) ^ x<<1
	}
	spinSink.Add(x & 1)
}

func runStorm(c StormCase) ([]vk.Violation, vk.Info) {
	var vs []vk.Violation
	var info vk.Info
	bad := func(kind, format string, a ...any) {
		if len(vs) < 8 {
			vs = append(vs, vk.V(kind, format, a...))
		}
	}
	otel.SetLogger(logr.New(&vk.LogCapture{}))
	otel.SetErrorHandler(&vk.ErrCapture{})
	lateQueueFull := 0
	for rep := 0; rep < c.Reps; rep++ {
		clock := &vk.Clock{}
		exp := &recExporter{clock: clock}
		opts := []sdktrace.BatchSpanProcessorOption{
			sdktrace.WithMaxQueueSize(c.Queue), sdktrace.WithMaxExportBatchSize(c.Batch),
			sdktrace.WithBatchTimeout(time.Hour), sdktrace.WithExportTimeout(0),
		}
		if c.Blocking {
			opts = append(opts, sdktrace.WithBlocking())
		}
		bsp := sdktrace.NewBatchSpanProcessor(exp, opts...)
		total := c.Pre + len(c.Spins)
		var end func(i int)
		var flush, shutdown func(context.Context) error
		if c.Provider {
			tp := sdktrace.NewTracerProvider(sdktrace.WithSpanProcessor(bsp))
			tr := tp.Tracer("c01")
			spans := make([]trace.Span, total)
			ids := map[trace.SpanID]int{}
			for i := range spans {
				r := 0
				if c.Flags > 1 {
					r = 1 + i%2
				}
				_, spans[i] = tr.Start(parentCtx(c.Flags|1, r, i), "s")
				ids[spans[i].SpanContext().SpanID()] = i
			}
			exp.idOf = func(s sdktrace.ReadOnlySpan) int { return ids[s.SpanContext().SpanID()] }
			end = func(i int) { spans[i].End() }
			flush, shutdown = tp.ForceFlush, tp.Shutdown
		} else {
			exp.idOf = func(s sdktrace.ReadOnlySpan) int {
				sid := s.SpanContext().SpanID()
				return int(binary.BigEndian.Uint64(sid[:])) - 1
			}
			end = func(i int) {
				var sid trace.SpanID
				binary.BigEndian.PutUint64(sid[:], uint64(i+1))
				bsp.OnEnd(tracetest.SpanStub{Name: "s", SpanContext: trace.NewSpanContext(trace.SpanContextConfig{TraceID: trace.TraceID{1}, SpanID: sid, TraceFlags: spanFlags(c.Flags, false)})}.Snapshot())
			}
			flush, shutdown = bsp.ForceFlush, bsp.Shutdown
		}
		for i := 0; i < c.Pre; i++ {
			end(i)
			if err := flush(context.Background()); err != nil {
				bad("unexpected_error", "rep %d: ForceFlush before the storm returned %v", rep, err)
			}
		}
		endRet := make([]int64, total) // clock instant at which End returned
		var shutCalled, shutRet int64
		var serr error
		start := make(chan struct{})
		var wg sync.WaitGroup
		for j, sp := range c.Spins {
			wg.Add(1)
			go func(i, sp int) {
				defer wg.Done()
				<-start
				spinFor(sp)
				end(i)
				endRet[i] = clock.Tick()
			}(c.Pre+j, sp)
		}
		for _, sp := range c.Flush {
			wg.Add(1)
			go func(sp int) {
				defer wg.Done()
				<-start
				spinFor(sp)
				_ = flush(context.Background()) // may race with Shutdown: only has to return
			}(sp)
		}
		wg.Add(1)
		go func() {
			defer wg.Done()
			<-start
			spinFor(c.ShutSpin)
			shutCalled = clock.Tick()
			serr = shutdown(context.Background())
			shutRet = clock.Tick()
		}()
		close(start)
		wg.Wait() // a call that never returns is reported by the kit's watchdog as a hang
		if serr != nil {
			bad("unexpected_error", "rep %d: Shutdown(Background) returned %v with a healthy exporter", rep, serr)
		}
		if n := exp.shutdowns.Load(); n != 1 {
			bad("exporter_shutdowns", "rep %d: the exporter was shut down %d times", rep, n)
		}
		if exp.overlap.Load() > 0 || exp.shutdownOverlap.Load() > 0 || exp.exportDuringSD.Load() > 0 {
			bad("concurrent_export", "rep %d: exporter entered concurrently (export/export %d, shutdown during export %d, export during shutdown %d)", rep, exp.overlap.Load(), exp.shutdownOverlap.Load(), exp.exportDuringSD.Load())
		}
		exp.mu.Lock()
		seen := map[int]int{}
		for ci, call := range exp.calls {
			if len(call.ids) > c.Batch {
				bad("batch_too_large", "rep %d: ExportSpans call %d received %d spans, MaxExportBatchSize is %d", rep, ci, len(call.ids), c.Batch)
			}
			if call.enter > shutRet {
				bad("export_after_shutdown", "rep %d: ExportSpans call %d entered at %d, Shutdown had returned at %d", rep, ci, call.enter, shutRet)
			}
			for _, id := range call.ids {
				seen[id]++
			}
		}
		exp.mu.Unlock()
		early := 0
		for i := 0; i < total; i++ {
			if seen[i] > 1 {
				bad("exported_twice", "rep %d: span %d exported %d times", rep, i, seen[i])
			}
			before := i < c.Pre || endRet[i] < shutCalled
			if i >= c.Pre && before {
				early++
			}
			// In blocking mode nothing may be lost; in dropping mode at most
			// Queue storm spans are guaranteed room (the processor was idle).
			if before && seen[i] == 0 && (c.Blocking || i < c.Pre) {
				bad("lost", "rep %d: span %d ended (End returned at %d) before Shutdown was called (at %d) and was never exported (blocking=%v)", rep, i, endRet[i], shutCalled, c.Blocking)
			}
		}
		if early > c.Queue {
			lateQueueFull++
		}
	}
	info.NonTrivial = true
	info.ClassIf(c.Blocking, "blocking_mode")
	info.ClassIf(c.Queue == 1, "queue_of_one")
	info.ClassIf(len(c.Flush) > 0, "flush_in_the_storm")
	info.ClassIf(lateQueueFull > 0, "more_Ends_than_queue_slots_returned_before_Shutdown(observed)")
	info.ClassIf(c.Provider, "via_provider")
	info.ClassIf(c.Flags&0xfe != 0, "sampled_spans_with_other_trace_flag_bits")
	return vs, info
}

func TestBatchSpanProcessorStorm(t *testing.T) {
	vk.Run(t, vk.Spec[StormCase]{
		Property: "C01", Check: "bsp_storm",
		Rule:  "generated storms on an idle processor: queue 1..3, more enders than queue slots (each one End after a generated spin), one Shutdown and 0..2 ForceFlush calls released by one barrier, blocking or dropping mode, bare processor or provider, 25 repetitions per case; every call must return, no duplicate, batch limit, exporter exclusivity, nothing after Shutdown, and (blocking mode) every span whose End returned before Shutdown was called is exported; every case is non-trivial; distinct = distinct parameter tuples",
		Quick: 150, Thorough: 3000,
		Gen: genStorm, Run: runStorm, CaseTimeout: 30 * time.Second,
	})
}
