package c01

import (
	"context"
	"errors"
	"fmt"
	"strconv"
	"strings"
	"testing"
	"time"

	"github.com/go-logr/logr"
	"go.opentelemetry.io/otel"
	"go.opentelemetry.io/otel/attribute"
	sdktrace "go.opentelemetry.io/otel/sdk/trace"
	"go.opentelemetry.io/otel/trace"
	"go.opentelemetry.io/otel/verif/internal/vk"
	"pgregory.net/rapid"
)

// Generated processor PIPELINES. The statement quantifies over the
// ForceFlush / Shutdown call that "returns without error"; an application
// issues that call on the TracerProvider, which fans it out to every
// registered span processor in registration order and folds their results
// into one return value. This sub-check generates providers with 1-4
// processors in generated order (batch processors with their own recording
// exporter, configuration and fault plan; simple processors; user-defined
// processors whose ForceFlush / Shutdown succeed, fail, echo the context's
// error, are slow or call back into the provider), registered through the
// constructor option or RegisterSpanProcessor, optionally unregistered again,
// and a sequential program of End / ForceFlush / Shutdown calls with generated
// contexts (none, already cancelled, cancelled in flight, deadlines from 50us
// to 5ms against exporters that take up to 20ms).
//
// Oracle (the program is sequential, so "End returned before the call was
// issued" is program order):
//   - whenever TracerProvider.ForceFlush, or the first TracerProvider.Shutdown,
//     returns nil, EVERY batch processor registered at that moment has handed
//     every sampled span that ended while it was registered to its exporter
//     (exactly once); a batch processor can only lose a span to a full queue,
//     which the generator excludes (blocking mode, or a queue that holds every
//     span of the program - Run re-derives this and does not assert "lost" for
//     a processor that could legally drop);
//   - the same at the level of one batch processor: every processor is
//     registered through a transparent delegating probe that records each
//     ForceFlush / Shutdown call the provider makes on it (also the Shutdown
//     issued by UnregisterSpanProcessor) and its result; a call that returned
//     nil is held to the statement;
//   - per exporter: no span twice, batches within the maximum, never entered
//     by two goroutines, nothing after the exporter's own Shutdown, nothing
//     after the first TracerProvider.Shutdown has returned nil, no unsampled
//     and no foreign span.
//
// Nothing is asserted about the VALUE of a returned error, about calls that
// returned an error, about what user-defined or simple processors receive, or
// about the provider returning an error when only a non-batch processor
// failed (the statement does not say so).

// PProc is one span processor of the pipeline.
type PProc struct {
	Kind string `json:"kind"`           // bsp | simple | user
	Late bool   `json:"late,omitempty"` // registered with RegisterSpanProcessor after construction (these come after the option-registered ones)
	// bsp / simple
	Queue           int   `json:"queue,omitempty"`
	Batch           int   `json:"batch,omitempty"`
	Blocking        bool  `json:"blocking,omitempty"`
	BatchTimeoutUs  int64 `json:"batch_timeout_us,omitempty"`
	ExportTimeoutUs int64 `json:"export_timeout_us,omitempty"`
	Exporter        []int `json:"exporter,omitempty"`    // recExporter script, 7 = 20ms ignoring the context (hung backend, bounded)
	NoExporter      bool  `json:"no_exporter,omitempty"` // nil exporter: the processor performs no action
	// user: what ForceFlush / Shutdown do: 0 nil, 1 error, 2 the context's
	// error (nil while it is live), 3 sleep 1ms then nil, 4 (Shutdown only)
	// call TracerProvider.ForceFlush(ctx) and return its result, 5 (Shutdown
	// only) call TracerProvider.Shutdown(ctx) recursively and return its result
	Flush int `json:"flush,omitempty"`
	Shut  int `json:"shut,omitempty"`
}

// POp is one step of the sequential program.
type POp struct {
	K string `json:"k"`           // end | flush | shutdown | unregister | pause
	N int    `json:"n,omitempty"` // end: number of spans
	F int    `json:"f,omitempty"` // end: inherited trace-flags byte (see Op.F)
	R int    `json:"r,omitempty"` // end: parent kind (see Op.R)
	U bool   `json:"u,omitempty"` // end: the sampler decides RecordOnly (unsampled)
	T int    `json:"t,omitempty"` // flush / shutdown: context (see Op.T)
	I int    `json:"i,omitempty"` // unregister: processor index
}

// PipeCase is one generated pipeline and program.
type PipeCase struct {
	Procs []PProc `json:"procs"`
	Ops   []POp   `json:"ops"`
}

func genPipeEnd(t *rapid.T) POp {
	op := POp{K: "end", N: rapid.IntRange(1, 6).Draw(t, "spans")}
	op.F = genFlags(t)
	op.R = rapid.IntRange(0, 2).Draw(t, "parent")
	if op.F > 1 && op.R == 0 {
		op.R = 1
	}
	op.U = rapid.IntRange(0, 7).Draw(t, "unsampled") == 0
	return op
}

func genPipe(t *rapid.T) PipeCase {
	c := PipeCase{}
	nprocs := rapid.SampledFrom([]int{1, 2, 2, 3, 3, 4}).Draw(t, "processors")
	flushCtx := rapid.SampledFrom([]int{0, 0, 0, 50, 300, 5000, -1, -2})
	shutCtx := rapid.SampledFrom([]int{0, 0, -1, -1, 50, 300, 2000, 5000, -2, -6})
	total, flushes := 0, 0
	nbody := rapid.IntRange(1, 8).Draw(t, "body_ops")
	for i := 0; i < nbody; i++ {
		switch k := rapid.IntRange(0, 19).Draw(t, "kind"); {
		case k < 12:
			op := genPipeEnd(t)
			total += op.N
			c.Ops = append(c.Ops, op)
		case k < 17:
			flushes++
			c.Ops = append(c.Ops, POp{K: "flush", T: flushCtx.Draw(t, "ctx")})
		case k < 18:
			c.Ops = append(c.Ops, POp{K: "pause"})
		default:
			c.Ops = append(c.Ops, POp{K: "unregister", I: rapid.IntRange(0, nprocs-1).Draw(t, "which")})
		}
	}
	if rapid.IntRange(0, 4).Draw(t, "shutdown") != 0 {
		c.Ops = append(c.Ops, POp{K: "shutdown", T: shutCtx.Draw(t, "ctx")})
		for i, n := 0, rapid.IntRange(0, 3).Draw(t, "late_ops"); i < n; i++ {
			switch rapid.IntRange(0, 2).Draw(t, "late_kind") {
			case 0:
				op := genPipeEnd(t)
				total += op.N
				c.Ops = append(c.Ops, op)
			case 1:
				flushes++
				c.Ops = append(c.Ops, POp{K: "flush", T: flushCtx.Draw(t, "ctx")})
			default:
				c.Ops = append(c.Ops, POp{K: "shutdown", T: shutCtx.Draw(t, "ctx")})
			}
		}
	}
	mustBSP := rapid.IntRange(0, nprocs-1).Draw(t, "the_bsp")
	for i := 0; i < nprocs; i++ {
		p := PProc{Late: rapid.IntRange(0, 3).Draw(t, "late") == 0}
		k := rapid.IntRange(0, 9).Draw(t, "proc_kind")
		switch {
		case i == mustBSP || k < 5:
			p.Kind = "bsp"
			p.Blocking = rapid.Bool().Draw(t, "blocking")
			if p.Blocking {
				p.Queue = rapid.IntRange(1, 8).Draw(t, "queue")
			} else {
				// room for every span and every flush marker (+1 per processor
				// for a re-entrant flush): the queue can never be full
				p.Queue = total + flushes + nprocs + rapid.IntRange(0, 4).Draw(t, "queue_spare")
			}
			p.Batch = rapid.OneOf(rapid.IntRange(1, 3), rapid.IntRange(1, p.Queue+2)).Draw(t, "batch")
			p.BatchTimeoutUs = rapid.SampledFrom([]int64{1000, 10000, 3600e6, 3600e6}).Draw(t, "batch_timeout")
			p.ExportTimeoutUs = rapid.SampledFrom([]int64{0, 2000, 1e6}).Draw(t, "export_timeout")
			p.Exporter = rapid.SliceOfN(rapid.SampledFrom([]int{0, 0, 0, 1, 3, 4, 5, 7, 7}), 0, 5).Draw(t, "exporter")
			p.NoExporter = i != mustBSP && rapid.IntRange(0, 9).Draw(t, "no_exporter") == 0
		case k < 8:
			p.Kind = "user"
			p.Flush = rapid.SampledFrom([]int{0, 0, 0, 1, 2, 3}).Draw(t, "flush_does")
			p.Shut = rapid.SampledFrom([]int{0, 0, 0, 1, 2, 3, 4, 5}).Draw(t, "shutdown_does")
		default:
			p.Kind = "simple"
			p.NoExporter = rapid.Bool().Draw(t, "no_exporter")
			p.Exporter = rapid.SliceOfN(rapid.SampledFrom([]int{0, 0, 1, 2}), 0, 4).Draw(t, "exporter")
		}
		c.Procs = append(c.Procs, p)
	}
	return c
}

var errUserProc = errors.New("scripted user processor failure")

// userProc is a user-defined span processor.
type userProc struct {
	flush, shut   int
	tp            func() *sdktrace.TracerProvider
	unregistering bool
}

func (u *userProc) OnStart(context.Context, sdktrace.ReadWriteSpan) {}
func (u *userProc) OnEnd(sdktrace.ReadOnlySpan)                     {}
func (u *userProc) do(ctx context.Context, beh int, shutdown bool) error {
	switch beh {
	case 1:
		return errUserProc
	case 2:
		return ctx.Err()
	case 3:
		time.Sleep(time.Millisecond)
	case 4:
		if shutdown {
			return u.tp().ForceFlush(ctx)
		}
	case 5:
		// (not from inside UnregisterSpanProcessor: that holds the provider's
		// lock while it shuts the processor down, and only Shutdown is
		// documented to guard against recursion)
		if shutdown && !u.unregistering {
			return u.tp().Shutdown(ctx)
		}
	}
	return nil
}
func (u *userProc) ForceFlush(ctx context.Context) error { return u.do(ctx, u.flush, false) }
func (u *userProc) Shutdown(ctx context.Context) error   { return u.do(ctx, u.shut, true) }

// probe is a transparent delegating span processor: it records the calls the
// provider makes on the processor behind it, and what they returned.
type probe struct {
	sdktrace.SpanProcessor
	clock *vk.Clock
	calls []*callRec // the program is sequential; re-entrant calls happen on the caller's goroutine
}

func (p *probe) ForceFlush(ctx context.Context) error {
	r := &callRec{kind: "flush", start: p.clock.Tick()}
	r.err = p.SpanProcessor.ForceFlush(ctx)
	r.end = p.clock.Tick()
	p.calls = append(p.calls, r)
	return r.err
}

func (p *probe) Shutdown(ctx context.Context) error {
	r := &callRec{kind: "shutdown", start: p.clock.Tick()}
	r.err = p.SpanProcessor.Shutdown(ctx)
	r.end = p.clock.Tick()
	p.calls = append(p.calls, r)
	return r.err
}

type pipeSpan struct {
	endRet  int64
	sampled bool
	regs    []bool // processors registered when the span ended
	flags   trace.TraceFlags
}

type pipeCall struct {
	callRec
	regs []bool
}

func runPipe(c PipeCase) ([]vk.Violation, vk.Info) {
	var vs []vk.Violation
	var info vk.Info
	bad := func(kind, format string, a ...any) {
		if len(vs) < 12 {
			vs = append(vs, vk.V(kind, format, a...))
		}
	}
	clock := &vk.Clock{}
	otel.SetLogger(logr.New(&vk.LogCapture{}))
	otel.SetErrorHandler(&vk.ErrCapture{})

	total := 0
	for _, op := range c.Ops {
		if op.K == "end" {
			total += op.N
		}
	}
	flushCalls := 0 // upper bound of ForceFlush calls a batch processor can see
	for _, op := range c.Ops {
		if op.K == "flush" {
			flushCalls++
		}
	}
	for _, p := range c.Procs {
		if p.Kind == "user" && p.Shut == 4 {
			flushCalls++
		}
	}
	idOf := func(s sdktrace.ReadOnlySpan) int {
		n, err := strconv.Atoi(s.Name())
		if err != nil {
			return -1
		}
		return n
	}
	var tp *sdktrace.TracerProvider
	n := len(c.Procs)
	exps := make([]*recExporter, n)
	probes := make([]*probe, n)
	for i, p := range c.Procs {
		var exporter sdktrace.SpanExporter
		if !p.NoExporter && p.Kind != "user" {
			exps[i] = &recExporter{clock: clock, script: p.Exporter, idOf: idOf}
			exporter = exps[i]
		}
		var sp sdktrace.SpanProcessor
		switch p.Kind {
		case "bsp":
			opts := []sdktrace.BatchSpanProcessorOption{
				sdktrace.WithMaxQueueSize(max(p.Queue, 1)), sdktrace.WithMaxExportBatchSize(max(p.Batch, 1)),
				sdktrace.WithBatchTimeout(time.Duration(max(p.BatchTimeoutUs, 1000)) * time.Microsecond),
				sdktrace.WithExportTimeout(time.Duration(p.ExportTimeoutUs) * time.Microsecond),
			}
			if p.Blocking {
				opts = append(opts, sdktrace.WithBlocking())
			}
			sp = sdktrace.NewBatchSpanProcessor(exporter, opts...)
		case "simple":
			sp = sdktrace.NewSimpleSpanProcessor(exporter)
		default:
			sp = &userProc{flush: p.Flush, shut: p.Shut, tp: func() *sdktrace.TracerProvider { return tp }}
		}
		probes[i] = &probe{SpanProcessor: sp, clock: clock}
	}
	sampler := samplerFunc(func(p sdktrace.SamplingParameters) sdktrace.SamplingResult {
		for _, a := range p.Attributes {
			if a.Key == "verif.unsampled" && a.Value.AsBool() {
				return sdktrace.SamplingResult{Decision: sdktrace.RecordOnly}
			}
		}
		return sdktrace.SamplingResult{Decision: sdktrace.RecordAndSample}
	})
	opts := []sdktrace.TracerProviderOption{sdktrace.WithSampler(sampler)}
	var order []int
	for i, p := range c.Procs {
		if !p.Late {
			opts = append(opts, sdktrace.WithSpanProcessor(probes[i]))
			order = append(order, i)
		}
	}
	tp = sdktrace.NewTracerProvider(opts...)
	for i, p := range c.Procs {
		if p.Late {
			tp.RegisterSpanProcessor(probes[i])
			order = append(order, i)
		}
	}
	var orderDesc []string
	for _, i := range order {
		d := c.Procs[i].Kind
		if c.Procs[i].NoExporter {
			d += "(no exporter)"
		}
		orderDesc = append(orderDesc, fmt.Sprintf("#%d %s", i, d))
	}
	pipeline := strings.Join(orderDesc, " -> ")
	tr := tp.Tracer("c01")

	regs := make([]bool, n)
	for i := range regs {
		regs[i] = true
	}
	snapshot := func() []bool { return append([]bool(nil), regs...) }
	spans := make([]pipeSpan, 0, total)
	var calls []*pipeCall
	shutdownIssued := false
	doCall := func(kind string, t int) {
		ctx, cancel := mkCtx(t)
		defer cancel()
		r := &pipeCall{regs: snapshot()}
		r.kind = kind
		r.start = clock.Tick()
		if kind == "flush" {
			r.err = tp.ForceFlush(ctx)
		} else {
			r.err = tp.Shutdown(ctx)
		}
		r.end = clock.Tick()
		calls = append(calls, r)
	}
	for _, op := range c.Ops {
		switch op.K {
		case "end":
			for j := 0; j < op.N; j++ {
				id := len(spans)
				_, s := tr.Start(parentCtx(op.F&0xff, op.R, id), strconv.Itoa(id), trace.WithAttributes(attribute.Bool("verif.unsampled", op.U)))
				ps := pipeSpan{sampled: s.SpanContext().IsSampled(), flags: s.SpanContext().TraceFlags()}
				if !shutdownIssued {
					ps.regs = snapshot()
				} else {
					ps.regs = make([]bool, n) // after Shutdown the provider is a no-op
				}
				s.End()
				ps.endRet = clock.Tick()
				spans = append(spans, ps)
			}
		case "flush":
			doCall("flush", op.T)
		case "shutdown":
			doCall("shutdown", op.T)
			shutdownIssued = true
		case "unregister":
			if op.I >= 0 && op.I < n {
				if u, ok := probes[op.I].SpanProcessor.(*userProc); ok {
					u.unregistering = true
				}
				tp.UnregisterSpanProcessor(probes[op.I])
				if !shutdownIssued {
					regs[op.I] = false
				}
			}
		case "pause":
			time.Sleep(300 * time.Microsecond)
		}
	}
	// cleanup (asserted like any other call when it is the first Shutdown)
	doCall("shutdown", 0)
	// Then the application shuts every batch processor down itself, with a live
	// context (a later Shutdown call on the processor, issued strictly after
	// whatever the provider did to it had returned).
	direct := make([]*callRec, n)
	for i, p := range c.Procs {
		if p.Kind != "bsp" || exps[i] == nil {
			continue
		}
		r := &callRec{kind: "shutdown", start: clock.Tick()}
		r.err = probes[i].SpanProcessor.Shutdown(context.Background())
		r.end = clock.Tick()
		direct[i] = r
	}
	// A batch processor whose Shutdown gave up (context) keeps draining in the
	// background: wait until every exporter has been shut down and is idle (the
	// processor does that after its final export). Bounded: 2 s when nothing is
	// outstanding (cleanup only), a 30 s hang watchdog while a span that ended
	// before the processor's first Shutdown call is still missing (the drain
	// takes milliseconds).
	outstanding := func(i int) bool {
		e := exps[i]
		first := int64(1) << 62
		for _, r := range probes[i].calls {
			if r.kind == "shutdown" && r.start < first {
				first = r.start
			}
		}
		if direct[i] != nil && direct[i].start < first {
			first = direct[i].start
		}
		got := map[int]bool{}
		e.mu.Lock()
		for _, call := range e.calls {
			for _, id := range call.ids {
				got[id] = true
			}
		}
		e.mu.Unlock()
		for id, s := range spans {
			if s.sampled && s.regs[i] && s.endRet < first && !got[id] {
				return true
			}
		}
		return false
	}
	quiescent := make([]bool, n)
	begin := time.Now() // one budget for all exporters of the case
	for i, e := range exps {
		if e == nil {
			continue
		}
		for {
			if e.shutdowns.Load() > 0 && e.inflight.Load() == 0 {
				quiescent[i] = true
				break
			}
			limit := 2 * time.Second
			if c.Procs[i].Kind == "bsp" && outstanding(i) {
				limit = 30 * time.Second
			}
			if time.Since(begin) > limit {
				break
			}
			time.Sleep(500 * time.Microsecond)
		}
	}

	// ---- oracle ----
	var firstShutdown *pipeCall
	for _, r := range calls {
		if r.kind == "shutdown" {
			firstShutdown = r
			break
		}
	}
	bspSeen, asserted := false, false
	for i, p := range c.Procs {
		e := exps[i]
		if p.Kind != "bsp" || e == nil {
			continue
		}
		// A ForceFlush whose context ends early leaves its marker in the
		// queue, so the queue must hold every span AND one marker per
		// ForceFlush call for "the queue was never full" to be certain.
		droppable := !p.Blocking && p.Queue < total+flushCalls
		e.mu.Lock()
		ecalls := make([]exportCall, len(e.calls))
		for k, call := range e.calls {
			ecalls[k] = *call
		}
		e.mu.Unlock()
		// the first Shutdown call the provider made on this processor (also
		// the one UnregisterSpanProcessor makes), seen through the probe
		var procShutdown *callRec
		for _, r := range probes[i].calls {
			if r.kind == "shutdown" && procShutdown == nil {
				procShutdown = r
			}
		}
		where := map[int]*exportCall{}
		for ci := range ecalls {
			call := &ecalls[ci]
			if len(call.ids) > max(p.Batch, 1) {
				bad("batch_too_large", "processor #%d: ExportSpans call %d received %d spans, MaxExportBatchSize is %d", i, ci, len(call.ids), p.Batch)
			}
			for _, id := range call.ids {
				if id < 0 || id >= len(spans) {
					bad("unknown_span_exported", "processor #%d: ExportSpans call %d received a span the program never ended (id %d)", i, ci, id)
					continue
				}
				if _, dup := where[id]; dup {
					bad("exported_twice", "processor #%d: span %d handed to the exporter twice", i, id)
				}
				where[id] = call
				if !spans[id].sampled {
					bad("unsampled_exported", "processor #%d: unsampled span %d (flags %s) was exported", i, id, spans[id].flags)
				}
			}
			if firstShutdown != nil && firstShutdown.err == nil && call.enter > firstShutdown.end {
				bad("export_after_shutdown", "processor #%d: ExportSpans call %d started (t=%d) after TracerProvider.Shutdown had returned nil (t=%d); pipeline %s", i, ci, call.enter, firstShutdown.end, pipeline)
			}
			if procShutdown != nil && procShutdown.err == nil && call.enter > procShutdown.end {
				bad("export_after_shutdown", "processor #%d: ExportSpans call %d started (t=%d) after the processor's Shutdown had returned nil (t=%d); pipeline %s", i, ci, call.enter, procShutdown.end, pipeline)
			}
			if at := e.shutdownDoneAt.Load(); at != 0 && call.enter > at {
				bad("export_after_exporter_shutdown", "processor #%d: ExportSpans call %d started after the exporter's own Shutdown had finished", i, ci)
			}
		}
		if len(ecalls) > 0 {
			bspSeen = true
		}
		if k := e.overlap.Load() + e.shutdownOverlap.Load(); k > 0 {
			bad("concurrent_export", "processor #%d: its exporter was entered %d time(s) while another call on it was still running", i, k)
		}
		if k := e.shutdowns.Load(); k > 1 {
			bad("exporter_shutdown_twice", "processor #%d: exporter Shutdown called %d times", i, k)
		}
		// deliver checks "every sampled span that ended while processor i was
		// registered, before the call was issued, is at the exporter when the
		// call returns".
		deliver := func(what string, start, end int64) {
			asserted = true
			for id, s := range spans {
				if !s.sampled || !s.regs[i] || s.endRet >= start {
					continue
				}
				call, ok := where[id]
				switch {
				case ok && call.enter < end:
				case ok:
					bad("not_flushed", "span %d (flags %s, End returned t=%d) reached the exporter of batch processor #%d only at t=%d, after %s (t=%d..%d) had returned nil; pipeline %s", id, s.flags, s.endRet, i, call.enter, what, start, end, pipeline)
				case !droppable:
					bad("lost", "span %d (flags %s, End returned t=%d) never reached the exporter of batch processor #%d (blocking=%v queue=%d, %d spans in the program) although %s (t=%d..%d) returned nil; pipeline %s", id, s.flags, s.endRet, i, p.Blocking, p.Queue, total, what, start, end, pipeline)
				}
			}
		}
		// provider level
		for _, r := range calls {
			if r.err != nil || !r.regs[i] {
				continue
			}
			if r.kind == "flush" && (firstShutdown == nil || r.end < firstShutdown.start) {
				deliver("TracerProvider.ForceFlush", r.start, r.end)
			}
			if r.kind == "shutdown" && r == firstShutdown {
				deliver("TracerProvider.Shutdown", r.start, r.end)
			}
		}
		// processor level (through the probe)
		for _, r := range probes[i].calls {
			if r.err != nil {
				continue
			}
			if r.kind == "flush" && (procShutdown == nil || r.end < procShutdown.start) {
				deliver(fmt.Sprintf("ForceFlush of processor #%d", i), r.start, r.end)
			}
			if r.kind == "shutdown" && r == procShutdown {
				deliver(fmt.Sprintf("Shutdown of processor #%d", i), r.start, r.end)
			}
		}
		// A Shutdown call on this processor failed (its context ended) and the
		// later, direct Shutdown(live) returned nil: once the processor is
		// quiescent every span it owed when its first Shutdown was issued has
		// been handed over - a span that is never handed over at all falsifies
		// that nil return however "by the time that call returns" is read.
		if d := direct[i]; d != nil && d.err == nil && procShutdown != nil && procShutdown.err != nil {
			info.Class("direct_processor_Shutdown_returned_nil_after_its_Shutdown_inside_the_provider_failed")
			for id, s := range spans {
				if !s.sampled || !s.regs[i] || s.endRet >= procShutdown.start || droppable {
					continue
				}
				if _, ok := where[id]; !ok {
					bad("lost_after_failed_shutdown", "span %d (End returned t=%d) never reached the exporter of batch processor #%d although its Shutdown(live) (t=%d..%d) returned nil after the Shutdown issued by the provider (t=%d..%d) had returned %v (quiescent=%v); pipeline %s", id, s.endRet, i, d.start, d.end, procShutdown.start, procShutdown.end, procShutdown.err, quiescent[i], pipeline)
				}
			}
		}
		info.ClassIf(droppable, "bsp_that_may_drop(lost not asserted)")
		info.ClassIf(p.Blocking, "blocking_bsp")
	}

	// classes
	nb := 0
	for _, p := range c.Procs {
		if p.Kind == "bsp" && !p.NoExporter {
			nb++
		}
	}
	info.ClassIf(nb >= 2, "two_or_more_batch_processors")
	info.ClassIf(n >= 2, "two_or_more_processors")
	for _, p := range c.Procs {
		info.Class("neighbour_kind=" + p.Kind)
		info.ClassIf(p.Late, "registered_with_RegisterSpanProcessor")
		info.ClassIf(p.Kind == "user" && p.Shut >= 4, "user_processor_reenters_provider_in_Shutdown")
	}
	for _, op := range c.Ops {
		info.ClassIf(op.K == "unregister", "unregister_op")
		info.ClassIf(op.K == "end" && op.F&0xfe != 0 && op.R != 0, fmt.Sprintf("span_with_other_trace_flag_bits/sampled=%v", !op.U))
	}
	if firstShutdown != nil {
		info.Class(fmt.Sprintf("first_provider_shutdown_returned_nil=%v", firstShutdown.err == nil))
		// was there a processor that failed to shut down, followed (in
		// pipeline order) by one that shut down fine, and vice versa?
		failedBSP, okAfterFailedBSP, failAfterOK, okSeen := false, false, false, false
		for _, i := range order {
			for _, r := range probes[i].calls {
				if r.kind != "shutdown" || r.start < firstShutdown.start || r.end > firstShutdown.end {
					continue
				}
				if r.err != nil {
					if c.Procs[i].Kind == "bsp" {
						failedBSP = true
					}
					failAfterOK = failAfterOK || okSeen
				} else {
					okSeen = true
					okAfterFailedBSP = okAfterFailedBSP || failedBSP
				}
			}
		}
		info.ClassIf(failedBSP, "bsp_shutdown_failed_inside_provider_shutdown")
		info.ClassIf(okAfterFailedBSP, "bsp_shutdown_failed_and_a_later_processor_succeeded")
		info.ClassIf(failAfterOK, "a_processor_succeeded_and_a_later_one_failed")
	}
	for _, r := range calls {
		if r.kind == "flush" {
			info.Class(fmt.Sprintf("provider_flush_returned_nil=%v", r.err == nil))
		}
	}
	info.NonTrivial = bspSeen && asserted
	seenClass := map[string]bool{}
	uniq := info.Classes[:0]
	for _, cl := range info.Classes {
		if !seenClass[cl] {
			seenClass[cl] = true
			uniq = append(uniq, cl)
		}
	}
	info.Classes = uniq
	return vs, info
}

func TestProviderPipeline(t *testing.T) {
	vk.Run(t, vk.Spec[PipeCase]{
		Property: "C01", Check: "provider_pipeline",
		Rule: "generated TracerProviders with 1-4 span processors in generated order (batch processors with own exporter/configuration/fault plan, simple processors, user processors that succeed/fail/echo ctx/are slow/re-enter the provider), registered by option or RegisterSpanProcessor, optionally unregistered, x sequential programs of End (whole trace-flags byte, root/remote/local parent, sampled or record-only) / ForceFlush / Shutdown with generated contexts (none, cancelled, cancelled in flight, 50us-5ms deadlines against exporters taking up to 20ms); " +
			"non-trivial = a batch processor exported something and at least one provider- or processor-level call that returned nil was held to the delivery clause; distinct = distinct case encodings",
		Quick: 350, Thorough: 5000,
		Gen: genPipe, Run: runPipe, Repeat: 5,
		CaseTimeout: 60 * time.Second,
	})
}
