package c07

import (
	"math"
	"math/big"
	"sort"
	"sync"

	"go.opentelemetry.io/otel/verif/internal/vk"
	"pgregory.net/rapid"
)

// Op is one step of a case: a measurement or a collection.
type Op struct {
	C bool   `json:"c,omitempty"` // Collect
	F vk.F64 `json:"f"`           // measurement of a float64 histogram
	I int64  `json:"i,omitempty"` // measurement of an int64 histogram
	S int    `json:"s,omitempty"` // attribute set (0 = empty set, 1 = {s=1})
}

// Case is one generated input.
type Case struct {
	Expo       bool `json:"expo"`
	Int        bool `json:"int"`        // Int64Histogram instead of Float64Histogram
	Cumulative bool `json:"cumulative"` // temporality selector of the reader
	Reuse      bool `json:"reuse"`      // one ResourceMetrics reused by all collections
	ViaOption  bool `json:"via_option"` // explicit: boundaries passed with WithExplicitBucketBoundaries, no view
	// RawView: explicit, not ViaOption: the boundaries reach the aggregator
	// through a hand-written sdkmetric.View FUNCTION (no NewView validation)
	// and in the shuffled order given by Shuffle (a list of swaps); the
	// aggregator keeps its own sorted copy, so the data point must report the
	// sorted bounds with every value in (lower, upper].
	RawView  bool     `json:"raw_view,omitempty"`
	Shuffle  []int    `json:"shuffle,omitempty"`
	Bounds   []vk.F64 `json:"bounds"`    // explicit
	MaxSize  int32    `json:"max_size"`  // expo
	MaxScale int32    `json:"max_scale"` // expo
	Ops      []Op     `json:"ops"`       // the last op is a collection

	// Kind is the instrument the measurements are made with: "" = Histogram
	// (Record), or one of the other six kinds (kindCounter .. kindObsGauge),
	// all of which may be aggregated as a histogram (view or the reader's
	// aggregation selector). The measurements of an observable instrument are
	// observed by its callback during the next collection.
	Kind string `json:"kind,omitempty"`
	// NoMinMax is the NoMinMax field of the configured aggregation.
	NoMinMax bool `json:"no_min_max,omitempty"`
	// Selector: the aggregation is the answer of the reader's
	// AggregationSelector (WithAggregationSelector) instead of a view's.
	Selector bool `json:"selector,omitempty"`
	// DefaultAgg: explicit, Histogram kind: no view, no selector, no
	// boundaries option; Bounds holds the documented default boundaries.
	DefaultAgg bool `json:"default_agg,omitempty"`
	// RegCallback: observable kinds: the callback is registered with
	// Meter.RegisterCallback instead of the instrument's WithXCallback option.
	RegCallback bool `json:"reg_callback,omitempty"`
	// NeutralView: ViaOption, Selector or DefaultAgg: a view matches the
	// instrument but only sets a description (no aggregation), so the
	// aggregation still is the instrument option's / the reader's / the default.
	NeutralView bool `json:"neutral_view,omitempty"`
}

// instrument kinds other than Histogram ("")
const (
	kindCounter   = "counter"
	kindUpDown    = "updowncounter"
	kindGauge     = "gauge"
	kindObsCount  = "observable_counter"
	kindObsUpDown = "observable_updowncounter"
	kindObsGauge  = "observable_gauge"
)

var allKinds = []string{"", kindCounter, kindUpDown, kindGauge, kindObsCount, kindObsUpDown, kindObsGauge}

func kindObservable(k string) bool {
	return k == kindObsCount || k == kindObsUpDown || k == kindObsGauge
}

// kindMonotonic: the API contract of these kinds only allows non-negative
// measurements.
func kindMonotonic(k string) bool { return k == kindCounter || k == kindObsCount }

// kindNoSum: "the sum should not be collected for any instrument that can
// make negative measurements" (specification, metrics SDK, histogram
// aggregations; quoted in sdk/metric/pipeline.go): for these kinds the Sum
// field is documented not to be filled and is not compared.
func kindNoSum(k string) bool {
	return k == kindUpDown || k == kindGauge || k == kindObsUpDown || k == kindObsGauge
}

// defaultBounds are the boundaries documented for the default aggregation of
// a Histogram instrument (DefaultAggregationSelector; specification: explicit
// bucket histogram aggregation, default boundaries).
var defaultBounds = []float64{0, 5, 10, 25, 50, 75, 100, 250, 500, 750, 1000, 2500, 5000, 7500, 10000}

// ---------------------------------------------------------------------
// bucket boundaries of exponential scales, computed in 320-bit arithmetic

var (
	rootsOnce sync.Once
	roots     [21]*big.Float // roots[t] = 2^(1/2^t)
)

func initRoots() {
	roots[0] = new(big.Float).SetPrec(refPrec).SetInt64(2)
	for t := 1; t <= 20; t++ {
		roots[t] = new(big.Float).SetPrec(refPrec).Sqrt(roots[t-1])
	}
}

// boundary returns 2^(e + j/2^s) rounded to the nearest float64
// (0 <= j < 2^s, 1 <= s <= 20), clipped to the finite positive range.
func boundary(e int, j int64, s int) float64 {
	rootsOnce.Do(initRoots)
	p := new(big.Float).SetPrec(refPrec).SetInt64(1)
	for k := 0; k < s; k++ {
		if j>>uint(k)&1 == 1 {
			p.Mul(p, roots[s-k]) // 2^(2^k/2^s)
		}
	}
	p.SetMantExp(p, e)
	f, _ := p.Float64()
	return clipPos(f)
}

func clipPos(f float64) float64 {
	switch {
	case math.IsInf(f, 1) || f > math.MaxFloat64:
		return math.MaxFloat64
	case f <= 0 || math.IsNaN(f):
		return math.SmallestNonzeroFloat64
	}
	return f
}

// ---------------------------------------------------------------------
// configuration

var boundPool = []float64{
	0, math.Copysign(0, -1), 1, -1, 5, 10, 25, 50, 75, 100, 250, 500, 1000, 2500, 5000, 7500, 10000,
	0.5, 0.1, -0.1, 2, 4, 1024, -5, -1000, 1e-310, -1e-310,
	math.SmallestNonzeroFloat64, -math.SmallestNonzeroFloat64, 0x1p-1022,
	1e300, -1e300, math.MaxFloat64, -math.MaxFloat64, 1 << 53, 1<<53 + 2, -(1 << 53), 1 << 62, 1 << 63, -(1 << 63),
	1.0000000000000002, 0.9999999999999999,
}

func finiteBits(t *rapid.T, label string) float64 {
	ef := rapid.Uint64Range(0, 2046).Draw(t, label+"_exp")
	fr := rapid.Uint64Range(0, 1<<52-1).Draw(t, label+"_frac")
	sg := rapid.Uint64Range(0, 1).Draw(t, label+"_sign")
	return math.Float64frombits(sg<<63 | ef<<52 | fr)
}

func genBounds(t *rapid.T) []vk.F64 {
	n := vk.GenLen(12, 0, 1, 2, 12).Draw(t, "nbounds")
	var raw []float64
	for i := 0; i < n; i++ {
		switch rapid.IntRange(0, 3).Draw(t, "boundkind") {
		case 0, 1:
			raw = append(raw, rapid.SampledFrom(boundPool).Draw(t, "bound"))
		case 2:
			raw = append(raw, float64(rapid.IntRange(-20, 40).Draw(t, "boundint")))
		default:
			raw = append(raw, finiteBits(t, "boundbits"))
		}
	}
	sort.Float64s(raw)
	var out []vk.F64
	for _, b := range raw {
		if len(out) > 0 && float64(out[len(out)-1]) == b { // also merges -0 and +0
			continue
		}
		out = append(out, vk.F64(b))
	}
	return out
}

// ---------------------------------------------------------------------
// measurements

const (
	kPow2 = iota
	kPow2Near
	kBoundary
	kBoundNear
	kSubnormal
	kMax
	kZero
	kCluster
	kFar
	kRandom
	kSmall
	kExact
)

type genCtx struct {
	c       *Case
	mode    int     // 0 mixed, 1 clustered then far apart, 2 exact numbers, 3 boundary heavy, 4 extremes of the number type
	wide    bool    // values may come from the whole float64 range
	center  float64 // cluster centre, > 0
	ce      int     // its exponent
	spacing int     // cluster members are centre*(1+k*2^-spacing)
	negRate int     // a value is negated when IntRange(0,7) < negRate
	e0      int     // exact mode: values are k*2^(e0+d)
	sets    int     // attribute sets in use (1 or 2)
	farFrom int     // mode 1: index of the first far-apart value
	scales  []int   // scales boundary neighbours are computed for
	// window of consecutive boundaries base^win0 .. base^(win0+winLen) at winScale (0 = none)
	winScale, winLen int
	win0             int64
	// int64 instruments: magnitude budget so that no sub-sum can overflow
	posSum, negSum uint64
	// int64 instruments, wrap class: measurements come in groups of huge
	// mixed-sign values whose running sum leaves the int64 range while the
	// sum of the whole group is back inside it (see group); pending is the
	// rest of the group being emitted, a group is never split by a
	// collection or over attribute sets
	wrap    bool
	pending []int64
	bigRes  int // sign of the one large group residue left so far (0 = none)
	// nonNeg: the instrument kind only takes non-negative measurements
	// (Counter, ObservableCounter): every drawn value is replaced by its
	// magnitude
	nonNeg bool
}

var subnormals = []float64{
	math.SmallestNonzeroFloat64, 2 * math.SmallestNonzeroFloat64, 3 * math.SmallestNonzeroFloat64, 5 * math.SmallestNonzeroFloat64,
	0x1p-1023, 0x1p-1022 - math.SmallestNonzeroFloat64, 0x1p-1022, 0x1p-1022 + math.SmallestNonzeroFloat64, 1e-310, 0x1p-1060, 0x1.8p-1050,
}

func (g *genCtx) kinds(i int) []int {
	var ks []int
	add := func(k, w int) {
		for ; w > 0; w-- {
			ks = append(ks, k)
		}
	}
	switch g.mode {
	case 2: // exact numbers
		add(kExact, 12)
		add(kZero, 1)
		return ks
	case 1: // clustered, then far apart
		if i < g.farFrom {
			add(kCluster, 8)
			if g.c.Expo {
				add(kBoundary, 3)
			}
			add(kPow2Near, 1)
		} else {
			add(kFar, 6)
			add(kCluster, 3)
			if g.wide {
				add(kSubnormal, 1)
				add(kMax, 1)
			}
			add(kZero, 1)
		}
		return ks
	case 4: // the ends of the number type's range (first-value / sentinel corners)
		add(kMax, 6)
		add(kZero, 1)
		add(kSmall, 1)
		return ks
	case 3: // boundary heavy, narrow range
		if g.c.Expo {
			add(kBoundary, 10)
			add(kPow2Near, 3)
		} else {
			add(kBoundNear, 12)
		}
		add(kPow2, 1)
		add(kZero, 1)
		return ks
	}
	// mixed (wide: the whole float64 range; otherwise a few binades)
	add(kPow2, 2)
	add(kPow2Near, 2)
	if g.c.Expo {
		add(kBoundary, 4)
	} else {
		add(kBoundNear, 5)
	}
	add(kZero, 1)
	add(kCluster, 2)
	add(kFar, 1)
	add(kSmall, 2)
	if g.wide {
		add(kSubnormal, 1)
		add(kMax, 1)
		add(kRandom, 2)
	}
	return ks
}

func (g *genCtx) sign(t *rapid.T, v float64) float64 {
	if g.negRate > 0 && rapid.IntRange(0, 7).Draw(t, "neg") < g.negRate {
		return -v
	}
	return v
}

func (g *genCtx) float(t *rapid.T, i int) float64 {
	v := g.floatAny(t, i)
	if g.nonNeg {
		v = math.Abs(v) // also -0 -> +0
	}
	return v
}

func (g *genCtx) floatAny(t *rapid.T, i int) float64 {
	c := g.c
	switch rapid.SampledFrom(g.kinds(i)).Draw(t, "kind") {
	case kPow2:
		k := g.ce + rapid.IntRange(-3, 3).Draw(t, "pow2near")
		if g.wide && rapid.Bool().Draw(t, "pow2any") {
			k = rapid.IntRange(-1074, 1023).Draw(t, "pow2")
		}
		return g.sign(t, clipPos(math.Ldexp(1, k)))
	case kPow2Near:
		k := g.ce + rapid.IntRange(-2, 2).Draw(t, "pow2near")
		if g.wide && rapid.IntRange(0, 3).Draw(t, "pow2any") == 0 {
			k = rapid.IntRange(-1074, 1023).Draw(t, "pow2")
		}
		return g.sign(t, clipPos(stepUlps(math.Ldexp(1, k), genUlps(t, false))))
	case kBoundary:
		var s, e int
		var j int64
		if g.winScale >= 1 && rapid.IntRange(0, 3).Draw(t, "bwindow") != 0 {
			// consecutive boundaries of one reachable scale: the point is
			// reported at (about) that scale and all of them are boundaries
			s = g.winScale
			gi := g.win0 + int64(rapid.IntRange(0, g.winLen).Draw(t, "bwin"))
			e, j = int(gi>>uint(s)), gi&(int64(1)<<uint(s)-1)
		} else {
			s = rapid.SampledFrom(g.scales).Draw(t, "bscale")
			e = g.ce + rapid.IntRange(-1, 1).Draw(t, "bexp")
			if g.wide && rapid.IntRange(0, 5).Draw(t, "bexpany") == 0 {
				e = rapid.IntRange(-1074, 1023).Draw(t, "bexpwide")
			}
			if rapid.Bool().Draw(t, "bjsmall") {
				// few distinct boundaries: values pile up around them
				j = int64(rapid.IntRange(0, 7).Draw(t, "bj")) << uint(max(0, s-3))
			} else {
				j = rapid.Int64Range(0, int64(1)<<uint(s)-1).Draw(t, "bjwide")
			}
		}
		return g.sign(t, clipPos(stepUlps(boundary(e, j, s), genUlps(t, true))))
	case kBoundNear:
		if len(c.Bounds) == 0 {
			return g.sign(t, float64(rapid.IntRange(0, 100).Draw(t, "small")))
		}
		b := float64(rapid.SampledFrom(c.Bounds).Draw(t, "nearbound"))
		v := stepUlps(b, rapid.IntRange(-1, 1).Draw(t, "ulps"))
		if math.IsInf(v, 0) {
			v = b
		}
		return v
	case kSubnormal:
		return g.sign(t, rapid.SampledFrom(subnormals).Draw(t, "subnormal"))
	case kMax:
		return g.sign(t, stepUlps(math.MaxFloat64, -rapid.IntRange(0, 1).Draw(t, "ulps")))
	case kZero:
		if rapid.Bool().Draw(t, "negzero") {
			return math.Copysign(0, -1)
		}
		return 0
	case kCluster:
		k := rapid.IntRange(0, 48).Draw(t, "member")
		return g.sign(t, clipPos(g.center*(1+float64(k)*math.Ldexp(1, -g.spacing))))
	case kFar:
		var d int
		reach := 2
		if !g.wide {
			reach = rapid.SampledFrom([]int{0, 0, 0, 1}).Draw(t, "reach")
		}
		switch rapid.IntRange(0, reach).Draw(t, "fardist") {
		case 0:
			d = rapid.IntRange(1, 12).Draw(t, "d")
		case 1:
			d = rapid.IntRange(13, 200).Draw(t, "d")
		default:
			d = rapid.IntRange(201, 2100).Draw(t, "d")
		}
		if rapid.Bool().Draw(t, "farleft") {
			d = -d
		}
		k := rapid.IntRange(0, 3).Draw(t, "member")
		return g.sign(t, clipPos(math.Ldexp(g.center*(1+float64(k)/8), d)))
	case kRandom:
		return finiteBits(t, "bits")
	case kSmall:
		return g.sign(t, float64(rapid.IntRange(0, 1000).Draw(t, "small"))/float64(rapid.SampledFrom([]int{1, 2, 4, 10}).Draw(t, "div")))
	default: // kExact
		k := rapid.IntRange(-15, 15).Draw(t, "k")
		d := rapid.IntRange(0, 30).Draw(t, "d")
		return math.Ldexp(float64(k), g.e0+d)
	}
}

// int draws an int64 measurement; the magnitude budget keeps the sum of all
// positive values <= MaxInt64 and the sum of all negative values >= MinInt64,
// so no sum over any subset of the sequence overflows.
func (g *genCtx) int(t *rapid.T, i int) int64 {
	if g.wrap {
		if len(g.pending) == 0 {
			g.pending = g.group(t)
		}
		v := g.pending[0]
		g.pending = g.pending[1:]
		return v
	}
	c := g.c
	var v int64
	ci := int64(g.center)
	if ci < 1 {
		ci = 1
	}
	switch rapid.SampledFrom(g.kinds(i)).Draw(t, "kind") {
	case kPow2:
		v = int64(1) << uint(rapid.IntRange(0, 62).Draw(t, "pow2"))
	case kPow2Near, kBoundary:
		v = int64(1)<<uint(rapid.IntRange(1, 62).Draw(t, "pow2")) + int64(rapid.IntRange(-2, 2).Draw(t, "off"))
	case kBoundNear:
		v = int64(rapid.IntRange(0, 100).Draw(t, "small"))
		if len(c.Bounds) > 0 {
			b := float64(rapid.SampledFrom(c.Bounds).Draw(t, "nearbound"))
			if b > -0x1p62 && b < 0x1p62 {
				v = int64(b) + int64(rapid.IntRange(-1, 1).Draw(t, "off"))
			}
		}
	case kSubnormal, kSmall:
		v = int64(rapid.IntRange(0, 12).Draw(t, "small"))
	case kMax:
		v = rapid.SampledFrom([]int64{math.MaxInt64, math.MinInt64, math.MaxInt64, math.MinInt64, math.MinInt64 + 1, math.MaxInt64 - 1, 1<<53 + 1, 1<<53 + 3, 1<<60 + 1, 1<<62 + 1<<9 + 1}).Draw(t, "extreme")
	case kZero:
		v = 0
	case kCluster:
		v = ci + int64(rapid.IntRange(0, 48).Draw(t, "member"))
	case kFar:
		d := uint(rapid.IntRange(1, 62).Draw(t, "d"))
		if rapid.Bool().Draw(t, "farleft") {
			v = ci >> min(d, 62)
		} else if bitsLen(ci)+int(d) <= 62 {
			v = ci << d
		} else {
			v = int64(1) << 62
		}
	case kRandom:
		v = rapid.Int64().Draw(t, "i64")
	default: // kExact
		v = int64(rapid.IntRange(-15, 15).Draw(t, "k")) << uint(rapid.IntRange(0, 30).Draw(t, "d"))
	}
	if v > 0 && v != math.MinInt64 && g.negRate > 0 && rapid.IntRange(0, 7).Draw(t, "neg") < g.negRate {
		v = -v
	}
	if g.nonNeg && v < 0 {
		v = -(v + 1) // MinInt64 -> MaxInt64
	}
	// enforce the budget by construction
	switch {
	case v > 0:
		if room := uint64(math.MaxInt64) - g.posSum; uint64(v) > room {
			v = int64(min(room, 1))
		}
		g.posSum += uint64(v)
	case v < 0:
		mag := uint64(-(v + 1)) + 1
		if room := uint64(1)<<63 - g.negSum; mag > room {
			mag = min(room, 1)
			v = -int64(mag)
		}
		g.negSum += mag
	}
	return v
}

var hugeInts = []int64{
	math.MaxInt64, math.MaxInt64 - 1, math.MaxInt64 - 7, math.MaxInt64 / 2, math.MaxInt64/2 + 1, math.MaxInt64/2 + 9,
	1 << 62, 1<<62 + 3, 1<<62 - 1, 3 << 60, 1<<63 - 1<<10,
}

// group builds one group of the wrap class: 1..4 huge values (around
// +-MaxInt64, +-MaxInt64/2, +-2^62; mostly of one sign, so that the running
// sum leaves the int64 range) with small values in between, followed by
// compensating values (each a legal int64) that bring the sum of the group to
// a small residue in [-1000, 1000]. At most once per instrument the residue is
// large (around +-MaxInt64, +-2^62); the small residues after it have the
// opposite sign. Every interval total and every cumulative total therefore
// stays inside the int64 range as long as groups are not split, although
// prefix sums do not. One time in four the group is a single small value.
func (g *genCtx) group(t *rapid.T) []int64 {
	if rapid.IntRange(0, 3).Draw(t, "plain") == 0 {
		return []int64{int64(rapid.IntRange(-50, 50).Draw(t, "small"))}
	}
	var out []int64
	sum := new(big.Int)
	add := func(v int64) {
		out = append(out, v)
		sum.Add(sum, big.NewInt(v))
	}
	k := rapid.IntRange(1, 4).Draw(t, "nhuge")
	neg := rapid.Bool().Draw(t, "hugeneg")
	for j := 0; j < k; j++ {
		h := rapid.SampledFrom(hugeInts).Draw(t, "huge")
		flip := rapid.IntRange(0, 4).Draw(t, "mixed") == 0
		switch {
		case neg != flip && h == math.MaxInt64 && rapid.Bool().Draw(t, "minint"):
			add(math.MinInt64)
		case neg != flip:
			add(-h)
		default:
			add(h)
		}
		for n := rapid.IntRange(0, 2).Draw(t, "nsmall"); n > 0; n-- {
			add(int64(rapid.IntRange(-20, 20).Draw(t, "small")))
		}
	}
	// residue
	res := big.NewInt(int64(rapid.IntRange(-1000, 1000).Draw(t, "residue")))
	switch {
	case g.bigRes == 0 && rapid.IntRange(0, 3).Draw(t, "bigresidue") == 0:
		r := rapid.SampledFrom([]int64{math.MaxInt64 - 5, math.MaxInt64 / 2, 1 << 62, math.MinInt64 + 5, -(1 << 62)}).Draw(t, "residuebig")
		res.SetInt64(r)
		g.bigRes = res.Sign()
	case g.bigRes != 0 && res.Sign() == g.bigRes:
		res.Neg(res)
	}
	// compensation: res - sum in chunks that are legal int64 values
	left := new(big.Int).Sub(res, sum)
	maxI, minI := big.NewInt(math.MaxInt64), big.NewInt(math.MinInt64)
	for left.Sign() != 0 {
		chunk := new(big.Int).Set(left)
		if chunk.Cmp(maxI) > 0 {
			chunk.Set(maxI)
		} else if chunk.Cmp(minI) < 0 {
			chunk.Set(minI)
		}
		if chunk.BitLen() > 40 && rapid.IntRange(0, 2).Draw(t, "splitchunk") == 0 {
			chunk.Quo(chunk, big.NewInt(int64(rapid.IntRange(2, 5).Draw(t, "divisor"))))
		}
		out = append(out, chunk.Int64())
		left.Sub(left, chunk)
	}
	return out
}

// genUlps draws the distance from a boundary: 0 (the float nearest to the
// boundary; favoured when zeroBias), +-1..4, occasionally up to +-40 (beyond
// the tolerance of the known finding).
func genUlps(t *rapid.T, zeroBias bool) int {
	switch k := rapid.IntRange(0, 7).Draw(t, "ulpkind"); {
	case k <= 2 && zeroBias:
		return 0
	case k == 7:
		return rapid.IntRange(-40, 40).Draw(t, "ulpsfar")
	}
	return rapid.IntRange(-4, 4).Draw(t, "ulps")
}

// uni draws an (almost) uniform integer in [0, n), n <= 256: rapid's own
// integer generators are deliberately biased towards small values, which is
// not wanted for configuration choices. It shrinks towards 0.
func uni(t *rapid.T, label string, n int) int {
	v := 0
	for _, b := range rapid.SliceOfN(rapid.Bool(), 12, 12).Draw(t, label) {
		v <<= 1
		if b {
			v |= 1
		}
	}
	return v % n
}

func bitsLen(v int64) int {
	n := 0
	for ; v > 0; v >>= 1 {
		n++
	}
	return n
}

// genExpoConfig draws MaxSize / MaxScale and the scales boundary neighbours
// are computed for.
func genExpoConfig(t *rapid.T, c *Case, g *genCtx) {
	switch k := uni(t, "sizecorner", 16); {
	case k < 11:
		c.MaxSize = []int32{4, 160, 1, 2, 3, 20, 160, 20}[uni(t, "maxsize", 8)]
	case k < 15:
		c.MaxSize = int32(1 + uni(t, "maxsize", 160))
	default:
		// MaxSize has no documented upper limit: beyond the default of 160
		// on a log scale (161 .. 2^8 .. 2^12), with the powers of two and
		// their neighbours favoured
		bits := 8 + uni(t, "maxsizebits", 5)
		if rapid.Bool().Draw(t, "maxsizepow2") {
			c.MaxSize = int32(1)<<uint(bits) + int32(rapid.IntRange(-1, 1).Draw(t, "maxsizeoff"))
		} else {
			c.MaxSize = rapid.Int32Range(161, int32(1)<<uint(bits)).Draw(t, "maxsizewide")
		}
	}
	if uni(t, "scalecorner", 2) == 0 {
		c.MaxScale = []int32{0, 20, 1, 2, 3, -1, -10, 5, 8, 10, 15, 20, 12, 18, 6, 4}[uni(t, "maxscale", 16)]
	} else {
		c.MaxScale = int32(uni(t, "maxscale", 31)) - 10
	}
	// boundary neighbours for the scales the point can be reported at
	for s := int(c.MaxScale); s >= 1 && s > int(c.MaxScale)-4; s-- {
		g.scales = append(g.scales, s, s)
	}
	g.scales = append(g.scales, rapid.IntRange(1, 20).Draw(t, "otherscale"))
}

// setup draws what shapes the measurements of one instrument (g.c holds its
// configuration).
func (g *genCtx) setup(t *rapid.T) {
	c := g.c
	g.mode = []int{0, 0, 0, 0, 0, 0, 1, 1, 1, 1, 2, 2, 3, 3, 3, 4}[uni(t, "mode", 16)]
	g.wide = uni(t, "wide", 4) == 3
	g.ce = rapid.IntRange(-8, 8).Draw(t, "centerexp")
	if rapid.IntRange(0, 5).Draw(t, "centerwide") == 0 {
		g.ce = rapid.IntRange(-1070, 1020).Draw(t, "centerexpwide")
	}
	if c.Int {
		g.ce = rapid.IntRange(0, 50).Draw(t, "centerexpint")
	}
	g.center = clipPos(math.Ldexp(1+float64(rapid.IntRange(0, 15).Draw(t, "centerfrac"))/16, g.ce))
	g.spacing = rapid.SampledFrom([]int{6, 10, 14, 18, 22, 26, 34, 44}).Draw(t, "spacing")
	g.negRate = rapid.SampledFrom([]int{0, 0, 2, 4}).Draw(t, "negrate")
	g.e0 = rapid.IntRange(-1074, 960).Draw(t, "e0")
	g.sets = rapid.SampledFrom([]int{1, 1, 1, 2}).Draw(t, "sets")
	if c.Int && !g.nonNeg && uni(t, "wrap", 3) == 0 {
		g.wrap, g.sets = true, 1
	}
	if g.nonNeg {
		g.negRate = 0
	}
	if c.Expo && c.MaxScale >= 1 {
		g.winScale = max(1, int(c.MaxScale)-[]int{0, 0, 0, 1, 2, 5}[uni(t, "windown", 6)])
		g.winLen = max(0, int(c.MaxSize)-1+rapid.IntRange(-1, 1).Draw(t, "winlen"))
		g.win0 = int64(g.ce)<<uint(g.winScale) + rapid.Int64Range(0, int64(1)<<uint(g.winScale)-1).Draw(t, "win0")
	}
}

func genCase(expo bool) func(t *rapid.T) Case {
	return func(t *rapid.T) Case { return genCaseOf(t, expo, false) }
}

// genCaseOf draws a case; kinds: the instrument kind is drawn too (otherwise
// it is a Histogram).
func genCaseOf(t *rapid.T, expo, kinds bool) Case {
	{
		c := Case{Expo: expo}
		if kinds {
			c.Kind = allKinds[uni(t, "kind", len(allKinds))]
			c.RegCallback = kindObservable(c.Kind) && rapid.Bool().Draw(t, "regcallback")
		}
		c.Int = rapid.IntRange(0, 3).Draw(t, "int") == 0
		c.Cumulative = rapid.Bool().Draw(t, "cumulative")
		c.Reuse = rapid.Bool().Draw(t, "reuse")
		g := &genCtx{c: &c, nonNeg: kindMonotonic(c.Kind)}
		if expo {
			genExpoConfig(t, &c, g)
		} else {
			c.Bounds = genBounds(t)
			// the boundaries option exists for Histogram instruments only
			c.ViaOption = c.Kind == "" && len(c.Bounds) > 0 && rapid.IntRange(0, 3).Draw(t, "viaoption") == 0
			if !c.ViaOption && len(c.Bounds) > 1 && rapid.IntRange(0, 3).Draw(t, "rawview") == 0 {
				c.RawView = true
				c.Shuffle = rapid.SliceOfN(rapid.IntRange(0, len(c.Bounds)-1), 1, 6).Draw(t, "shuffle")
			}
			if c.Kind == "" && !c.ViaOption && !c.RawView && uni(t, "defaultagg", 8) == 0 {
				// nothing configured: the documented default boundaries
				c.DefaultAgg = true
				c.Bounds = nil
				for _, b := range defaultBounds {
					c.Bounds = append(c.Bounds, vk.F64(b))
				}
			}
		}
		if !c.ViaOption && !c.DefaultAgg {
			c.NoMinMax = uni(t, "nominmax", 4) == 0
			c.Selector = !c.RawView && uni(t, "selector", 4) == 0
		}
		if c.ViaOption || c.DefaultAgg || c.Selector {
			c.NeutralView = uni(t, "neutralview", 3) == 0
		}
		g.setup(t)

		n := vk.GenLen(200, 1, 2, 3, 8, 40, 120, 200).Draw(t, "nvalues")
		if g.mode == 1 {
			g.farFrom = rapid.IntRange(0, n).Draw(t, "farfrom")
		}
		ncollect := rapid.IntRange(1, 4).Draw(t, "ncollect")
		at := map[int]int{} // position -> collections before the value at that position
		for k := 1; k < ncollect; k++ {
			at[rapid.IntRange(0, n).Draw(t, "collectat")]++
		}
		value := func(i int) {
			op := Op{}
			if g.sets == 2 {
				op.S = rapid.IntRange(0, 1).Draw(t, "set")
			}
			if c.Int {
				op.I = g.int(t, i)
			} else {
				op.F = vk.F64(g.float(t, i))
			}
			c.Ops = append(c.Ops, op)
		}
		due := 0 // collections waiting for the current group (wrap class) to end
		for i := 0; i < n; i++ {
			due += at[i]
			if len(g.pending) == 0 {
				for ; due > 0; due-- {
					c.Ops = append(c.Ops, Op{C: true})
				}
			}
			value(i)
		}
		for i := n; len(g.pending) > 0; i++ {
			value(i)
		}
		for k := 0; k < due+at[n]+1; k++ {
			c.Ops = append(c.Ops, Op{C: true})
		}
		return c
	}
}
