package c07

// Sub-check multi_instrument: several histogram instruments of one number
// type in one pipeline (one or two scopes, one or two readers), instruments
// that stay silent in some cycles, and every Collect handed a generated
// *metricdata.ResourceMetrics: a fresh one, the one this reader filled last
// time, or a slot of a pool that any reader / any cycle may have filled
// before (what a caller that pools its ResourceMetrics does; any
// ResourceMetrics is legal input to Collect). The oracle is the one of the
// single-instrument checks, applied per (reader, instrument): every data
// point is compared with the configuration and the measurements of THAT
// instrument.

import (
	"context"
	"fmt"
	"log"
	"strings"
	"testing"

	"go.opentelemetry.io/otel"
	"go.opentelemetry.io/otel/attribute"
	"go.opentelemetry.io/otel/metric"
	sdkmetric "go.opentelemetry.io/otel/sdk/metric"
	"go.opentelemetry.io/otel/sdk/metric/metricdata"
	"go.opentelemetry.io/otel/sdk/resource"
	"go.opentelemetry.io/otel/verif/internal/vk"
	"pgregory.net/rapid"
)

// MInst configures one histogram instrument ("h<index>") of a multi case.
type MInst struct {
	Scope     int      `json:"scope"` // meter "c07/s<Scope>"
	Expo      bool     `json:"expo"`
	ViaOption bool     `json:"via_option,omitempty"` // explicit: WithExplicitBucketBoundaries instead of a view
	Bounds    []vk.F64 `json:"bounds"`
	MaxSize   int32    `json:"max_size,omitempty"`
	MaxScale  int32    `json:"max_scale,omitempty"`
}

// MOp is a measurement or a collection.
type MOp struct {
	Collect bool `json:"collect,omitempty"`
	// measurement
	Inst int    `json:"inst,omitempty"`
	Set  int    `json:"set,omitempty"`
	F    vk.F64 `json:"f"`
	I    int64  `json:"i,omitempty"`
	// collection: which reader, and what it is handed: 0 = a fresh
	// ResourceMetrics, 1 = the one this reader filled in its previous
	// collection, k >= 2 = slot k-2 of a pool shared by all readers and cycles
	Reader int `json:"reader,omitempty"`
	RM     int `json:"rm,omitempty"`
}

const rmPoolSize = 3

// MCase is one generated input of the multi_instrument check.
type MCase struct {
	Int     bool    `json:"int"`
	Readers []bool  `json:"readers"` // one entry per reader: cumulative?
	Insts   []MInst `json:"insts"`
	Ops     []MOp   `json:"ops"`
}

func (in MInst) cfg(isInt bool) instCfg {
	k := instCfg{Expo: in.Expo, Int: isInt, MaxSize: in.MaxSize, MaxScale: in.MaxScale}
	for _, b := range in.Bounds {
		k.Bounds = append(k.Bounds, float64(b))
	}
	return k
}

// gridBounds draws exactly n strictly increasing boundaries (integers scaled
// by a constant), so that a partner list of a given length exists by
// construction.
func gridBounds(t *rapid.T, n int) []vk.F64 {
	if n == 0 {
		return nil
	}
	scale := rapid.SampledFrom([]float64{1, 1, 0.5, 0.25, 10, 100, 0.001}).Draw(t, "gridscale")
	v := rapid.IntRange(-60, 60).Draw(t, "gridstart")
	out := make([]vk.F64, n)
	for i := range out {
		out[i] = vk.F64(float64(v) * scale)
		v += rapid.IntRange(1, 12).Draw(t, "gridstep")
	}
	return out
}

func sameBounds(a, b []vk.F64) bool {
	if len(a) != len(b) {
		return false
	}
	for i := range a {
		if float64(a[i]) != float64(b[i]) {
			return false
		}
	}
	return true
}

func genMulti(t *rapid.T) MCase {
	c := MCase{Int: uni(t, "int", 4) == 0}
	nr := 1 + uni(t, "readers", 2)
	for r := 0; r < nr; r++ {
		c.Readers = append(c.Readers, rapid.Bool().Draw(t, "cumulative"))
	}
	ni := 2 + uni(t, "ninst", 3)
	twoScopes := rapid.Bool().Draw(t, "twoscopes")
	ctxs := make([]*genCtx, ni)
	var explicit []int
	for i := 0; i < ni; i++ {
		fc := &Case{Int: c.Int, Expo: uni(t, "expo", 4) == 0}
		g := &genCtx{c: fc}
		if fc.Expo {
			genExpoConfig(t, fc, g)
		} else {
			if len(explicit) > 0 && uni(t, "samelen", 3) != 0 {
				// as many boundaries as an earlier explicit histogram
				peer := rapid.SampledFrom(explicit).Draw(t, "peer")
				fc.Bounds = gridBounds(t, len(c.Insts[peer].Bounds))
			} else if rapid.Bool().Draw(t, "grid") {
				fc.Bounds = gridBounds(t, vk.GenLen(12, 1, 2, 3).Draw(t, "ngrid"))
			} else {
				fc.Bounds = genBounds(t)
			}
			fc.ViaOption = len(fc.Bounds) > 0 && uni(t, "viaoption", 4) == 0
			explicit = append(explicit, i)
		}
		g.setup(t)
		g.farFrom = rapid.IntRange(0, 12).Draw(t, "farfrom")
		ctxs[i] = g
		in := MInst{Expo: fc.Expo, ViaOption: fc.ViaOption, Bounds: fc.Bounds, MaxSize: fc.MaxSize, MaxScale: fc.MaxScale}
		if twoScopes {
			in.Scope = uni(t, "scope", 2)
		}
		c.Insts = append(c.Insts, in)
	}
	counter := make([]int, ni)
	rmChoices := []int{0, 1, 1, 1, 1, 2, 2, 2, 3, 4}
	collects := func(last bool) {
		order := make([]int, nr)
		for r := range order {
			order[r] = r
		}
		if nr == 2 && rapid.Bool().Draw(t, "swapreaders") {
			order[0], order[1] = 1, 0
		}
		for _, r := range order {
			if !last && uni(t, "skipcollect", 4) == 0 {
				continue
			}
			c.Ops = append(c.Ops, MOp{Collect: true, Reader: r, RM: rapid.SampledFrom(rmChoices).Draw(t, "rm")})
		}
	}
	cycles := 2 + uni(t, "cycles", 4)
	for cy := 0; cy < cycles; cy++ {
		// the instruments that are not silent in this cycle
		mask := uni(t, "active", 1<<uint(ni))
		var active []int
		for i := 0; i < ni; i++ {
			if mask>>uint(i)&1 == 1 {
				active = append(active, i)
			}
		}
		if len(active) > 0 {
			n := rapid.IntRange(0, 10).Draw(t, "nrec")
			for k := 0; k < n; k++ {
				i := rapid.SampledFrom(active).Draw(t, "inst")
				op := MOp{Inst: i}
				if ctxs[i].sets == 2 {
					op.Set = rapid.IntRange(0, 1).Draw(t, "set")
				}
				if c.Int {
					op.I = ctxs[i].int(t, counter[i])
				} else {
					op.F = vk.F64(ctxs[i].float(t, counter[i]))
				}
				counter[i]++
				c.Ops = append(c.Ops, op)
			}
		}
		// a group of the wrap class is not split by a collection
		for i, g := range ctxs {
			for len(g.pending) > 0 {
				c.Ops = append(c.Ops, MOp{Inst: i, I: g.int(t, counter[i])})
				counter[i]++
			}
		}
		collects(cy == cycles-1)
	}
	return c
}

type multiFacts struct {
	rmFresh, rmOwn, rmPool, handover                           bool
	slotOther, slotOtherSameLen, slotOtherLen, slotOtherKind   bool
	silent, desynced, pairSameLen, pairOtherLen, hasExpo, twoS bool
}

func runMulti(c MCase) ([]vk.Violation, vk.Info) {
	r := &runner{ix: newIndexer()}
	var f multiFacts
	r.execMulti(c, &f)

	info := &r.info
	info.NonTrivial = f.slotOther
	info.ClassIf(f.rmFresh, "rm:fresh")
	info.ClassIf(f.rmOwn, "rm:readers_own_previous_output")
	info.ClassIf(f.rmPool, "rm:shared_pool_slot")
	info.ClassIf(f.handover, "rm:pool_slot_last_filled_by_other_reader")
	info.ClassIf(f.slotOther, "reused_position_last_held_other_instrument")
	info.ClassIf(f.slotOtherSameLen, "reused_position_last_held_explicit_histogram_with_equally_many_other_bounds")
	info.ClassIf(f.slotOtherLen, "reused_position_last_held_explicit_histogram_with_other_bound_count")
	info.ClassIf(f.slotOtherKind, "reused_position_last_held_other_kind(explicit<->exponential)")
	info.ClassIf(f.silent, "instrument_silent_in_a_collection")
	info.ClassIf(f.pairSameLen, "two_explicit_histograms_equal_bound_count_different_values")
	info.ClassIf(f.pairOtherLen, "two_explicit_histograms_different_bound_count")
	info.ClassIf(f.hasExpo, "has_exponential_histogram")
	info.ClassIf(f.twoS, "two_scopes")
	info.ClassIf(len(c.Readers) == 2, "two_readers")
	info.ClassIf(f.desynced, "model_desynced_after_underflow_mismatch")
	for _, cum := range c.Readers {
		info.ClassIf(cum, "cumulative_reader")
		info.ClassIf(!cum, "delta_reader")
	}
	info.ClassIf(c.Int, "int64")
	info.ClassIf(!c.Int, "float64")
	info.ClassIf(r.intPrefixOut, "int64_prefix_sum_outside_int64_total_inside(sum_checked)")
	info.ClassIf(r.intTotalOut, "int64_total_outside_int64(sum_not_checked)")
	info.ClassIf(r.underflow, "underflow_drop")
	info.ClassIf(r.knownOffByOne, "off_by_one_near_irrational_boundary")
	info.ClassIf(r.onBound, "value_on_or_1ulp_from_bound")
	info.ClassIf(r.multiBucket, ">=2_buckets_populated")
	info.ClassIf(r.rescaled, "rescaled")
	info.ClassIf(r.emptyPoint, "point_without_measurements")
	info.ClassIf(r.nonEmptyPoints == 0, "no_point_checked")
	// a class may be added once per reader above; keep each label once
	seen := map[string]bool{}
	uniq := info.Classes[:0]
	for _, cl := range info.Classes {
		if !seen[cl] {
			seen[cl] = true
			uniq = append(uniq, cl)
		}
	}
	info.Classes = uniq
	return r.vs, r.info
}

func (r *runner) execMulti(c MCase, f *multiFacts) {
	ctx := context.Background()
	sink := &errSink{}
	otel.SetErrorHandler(sink)
	defer otel.SetErrorHandler(otel.ErrorHandlerFunc(func(err error) { log.Print(err) }))

	ni, nr := len(c.Insts), len(c.Readers)
	cfgs := make([]instCfg, ni)
	names := make([]string, ni)
	byName := map[string]int{}
	opts := []sdkmetric.Option{sdkmetric.WithResource(resource.Empty())}
	readers := make([]*sdkmetric.ManualReader, nr)
	for i, cum := range c.Readers {
		temporality := metricdata.DeltaTemporality
		if cum {
			temporality = metricdata.CumulativeTemporality
		}
		readers[i] = sdkmetric.NewManualReader(sdkmetric.WithTemporalitySelector(func(sdkmetric.InstrumentKind) metricdata.Temporality { return temporality }))
		opts = append(opts, sdkmetric.WithReader(readers[i]))
	}
	for i, in := range c.Insts {
		cfgs[i] = in.cfg(c.Int)
		names[i] = fmt.Sprintf("h%d", i)
		byName[names[i]] = i
		switch {
		case in.Expo:
			f.hasExpo = true
			opts = append(opts, sdkmetric.WithView(sdkmetric.NewView(sdkmetric.Instrument{Name: names[i]},
				sdkmetric.Stream{Aggregation: sdkmetric.AggregationBase2ExponentialHistogram{MaxSize: in.MaxSize, MaxScale: in.MaxScale}})))
		case !in.ViaOption:
			opts = append(opts, sdkmetric.WithView(sdkmetric.NewView(sdkmetric.Instrument{Name: names[i]},
				sdkmetric.Stream{Aggregation: sdkmetric.AggregationExplicitBucketHistogram{Boundaries: append([]float64{}, cfgs[i].Bounds...)}})))
		}
		if in.Scope != c.Insts[0].Scope {
			f.twoS = true
		}
		for j := 0; j < i; j++ {
			if !in.Expo && !c.Insts[j].Expo {
				switch {
				case len(in.Bounds) != len(c.Insts[j].Bounds):
					f.pairOtherLen = true
				case !sameBounds(in.Bounds, c.Insts[j].Bounds):
					f.pairSameLen = true
				}
			}
		}
	}
	mp := sdkmetric.NewMeterProvider(opts...)
	defer func() { _ = mp.Shutdown(ctx) }()

	recI := make([]metric.Int64Histogram, ni)
	recF := make([]metric.Float64Histogram, ni)
	for i, in := range c.Insts {
		meter := mp.Meter(fmt.Sprintf("c07/s%d", in.Scope))
		var err error
		if c.Int {
			var o []metric.Int64HistogramOption
			if in.ViaOption && !in.Expo {
				o = append(o, metric.WithExplicitBucketBoundaries(append([]float64{}, cfgs[i].Bounds...)...))
			}
			recI[i], err = meter.Int64Histogram(names[i], o...)
		} else {
			var o []metric.Float64HistogramOption
			if in.ViaOption && !in.Expo {
				o = append(o, metric.WithExplicitBucketBoundaries(append([]float64{}, cfgs[i].Bounds...)...))
			}
			recF[i], err = meter.Float64Histogram(names[i], o...)
		}
		if err != nil {
			r.bad("setup_error", "creating histogram %s: %v", names[i], err)
			return
		}
	}
	if es := sink.take(); len(es) > 0 {
		r.bad("setup_error", "errors while creating the histograms: %q", es)
		return
	}
	attrs := [2]metric.MeasurementOption{
		metric.WithAttributeSet(attribute.NewSet()),
		metric.WithAttributeSet(attribute.NewSet(attribute.Int("s", 1))),
	}

	// model[reader][instrument]: every reader has its own aggregator per instrument
	model := make([][][2]setModel, nr)
	for i := range model {
		model[i] = make([][2]setModel, ni)
	}
	desync := make([]bool, ni)

	own := make([]metricdata.ResourceMetrics, nr)
	var pool [rmPoolSize]metricdata.ResourceMetrics
	poolLast := [rmPoolSize]int{}
	for i := range poolLast {
		poolLast[i] = -1
	}
	// per reused ResourceMetrics: which instrument each output position
	// (scope index, metric index) held after it was filled last
	layout := map[*metricdata.ResourceMetrics]map[[2]int]int{}

	collection := 0
	for n, op := range c.Ops {
		if !op.Collect {
			i := op.Inst % ni
			set := op.Set & 1
			cfg := cfgs[i]
			m := mv{f: float64(op.F), i: op.I}
			if c.Int {
				m.f = float64(op.I)
				recI[i].Record(ctx, op.I, attrs[set])
			} else {
				recF[i].Record(ctx, m.f, attrs[set])
			}
			dropped := 0
			for _, e := range sink.take() {
				if strings.Contains(e, "scale underflow") {
					dropped++
				} else {
					r.bad("unexpected_error", "op %d (record %s into %s): error reported: %s", n, showMV(c.Int, m), names[i], e)
				}
			}
			if !cfg.Expo {
				if dropped > 0 {
					r.bad("unexpected_error", "op %d: explicit histogram %s reported a scale underflow", n, names[i])
				}
				for rd := range model {
					sm := &model[rd][i][set]
					sm.kept = append(sm.kept, m)
				}
				continue
			}
			// every reader's aggregator decides on its own whether the value
			// can be placed; the errors do not say which one dropped it, so
			// the model predicts it (exactly, at scale -10) and the number of
			// errors has to agree
			predicted := 0
			drop := make([]bool, nr)
			for rd := range model {
				if m.f != 0 && !fitsAtMinScale(model[rd][i][set].kept, m.f, cfg.MaxSize) {
					drop[rd] = true
					predicted++
				}
			}
			switch {
			case desync[i]:
			case dropped > predicted:
				r.bad("spurious_underflow", "op %d: record %s into %s (MaxSize %d) reported %d scale underflows (measurement dropped) but only %d of the %d readers' points cannot hold it at scale -10", n, showMV(c.Int, m), names[i], cfg.MaxSize, dropped, predicted, nr)
				desync[i], f.desynced = true, true
			case dropped < predicted:
				r.bad("missing_underflow", "op %d: record %s into %s (MaxSize %d): %d of the %d readers' points cannot hold it at any scale >= -10 but only %d underflows were reported", n, showMV(c.Int, m), names[i], cfg.MaxSize, predicted, nr, dropped)
				desync[i], f.desynced = true, true
			}
			if dropped > 0 {
				r.underflow = true
			}
			for rd := range model {
				if !drop[rd] {
					sm := &model[rd][i][set]
					sm.kept = append(sm.kept, m)
				}
			}
			continue
		}

		rd := op.Reader % nr
		var rm *metricdata.ResourceMetrics
		label := "fresh"
		switch {
		case op.RM == 1:
			rm, label = &own[rd], "own previous output"
			f.rmOwn = true
		case op.RM >= 2 && op.RM < 2+rmPoolSize:
			k := op.RM - 2
			rm, label = &pool[k], fmt.Sprintf("pool slot %d", k)
			f.rmPool = true
			if poolLast[k] >= 0 && poolLast[k] != rd {
				f.handover = true
			}
			poolLast[k] = rd
		default:
			rm = &metricdata.ResourceMetrics{}
			f.rmFresh = true
		}
		before := layout[rm]
		if err := readers[rd].Collect(ctx, rm); err != nil {
			r.bad("collect_error", "Collect #%d: %v", collection, err)
		}
		if es := sink.take(); len(es) > 0 {
			r.bad("collect_error", "errors reported during Collect #%d: %q", collection, es)
		}
		now := map[[2]int]int{}
		present := make([]bool, ni)
		for si, sm := range rm.ScopeMetrics {
			for mi, met := range sm.Metrics {
				at := fmt.Sprintf("collect #%d (reader %d, %s) %s", collection, rd, label, met.Name)
				i, ok := byName[met.Name]
				if !ok || present[i] {
					r.bad("unexpected_metric", "%s: unknown or duplicate metric", at)
					continue
				}
				present[i] = true
				now[[2]int{si, mi}] = i
				if was, ok := before[[2]int{si, mi}]; ok && was != i {
					f.slotOther = true
					a, b := c.Insts[was], c.Insts[i]
					switch {
					case a.Expo != b.Expo:
						f.slotOtherKind = true
					case a.Expo:
					case len(a.Bounds) != len(b.Bounds):
						f.slotOtherLen = true
					case !sameBounds(a.Bounds, b.Bounds):
						f.slotOtherSameLen = true
					}
				}
				var pts []point
				var expo bool
				var problem string
				if c.Int {
					pts, expo, problem = extractMetric[int64](met)
				} else {
					pts, expo, problem = extractMetric[float64](met)
				}
				if problem == "" && expo != cfgs[i].Expo {
					problem = fmt.Sprintf("metric %q has data of type %T, the instrument is configured otherwise", met.Name, met.Data)
				}
				if problem != "" {
					r.bad("wrong_data_type", "%s: %s", at, problem)
					continue
				}
				if !desync[i] {
					r.checkPoints(at, cfgs[i], c.Readers[rd], &model[rd][i], pts)
				}
			}
		}
		for i := range present {
			if !present[i] {
				f.silent = true
				if !desync[i] {
					r.checkPoints(fmt.Sprintf("collect #%d (reader %d, %s) %s", collection, rd, label, names[i]), cfgs[i], c.Readers[rd], &model[rd][i], nil)
				}
			}
		}
		if op.RM != 0 {
			layout[rm] = now
		}
		if !c.Readers[rd] {
			for i := range model[rd] {
				model[rd][i][0].kept, model[rd][i][1].kept = nil, nil
			}
		}
		collection++
	}
}

func TestMulti(t *testing.T) {
	vk.Run(t, vk.Spec[MCase]{
		Property: "C07", Check: "multi_instrument",
		Rule: "2..4 int64 or float64 histograms in one pipeline (explicit boundary lists of equal length with different values, of different lengths, or exponential; views or instrument options; one or two scopes), one or two readers (delta / cumulative), 2..5 cycles in which a generated subset of the instruments is silent, 1..2 attribute sets; every Collect is handed a fresh ResourceMetrics, the one the reader filled last, or a slot of a pool shared by all readers and cycles; each data point is checked against the configuration and measurements of its own instrument; " +
			"non-trivial = some Collect wrote an instrument into a position (scope index, metric index) of a reused ResourceMetrics that last held a different instrument; distinct = distinct case encodings",
		Quick: 12000, Thorough: 150000,
		Gen: genMulti, Run: runMulti,
		// the order of several scopes in the output follows map iteration
		Repeat: 20,
		Known: map[string]func(MCase, vk.Violation) bool{
			"expo_within_ulps_of_irrational_boundary": func(c MCase, v vk.Violation) bool {
				if v.Kind != "expo_boundary_off_by_one" {
					return false
				}
				for _, in := range c.Insts {
					if in.Expo && in.MaxScale > 0 {
						return true
					}
				}
				return false
			},
		},
	})
}
