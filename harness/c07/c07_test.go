// Package c07 decides property C07 (histogram data points are internally
// consistent and bucket every value correctly) by driving Int64Histogram /
// Float64Histogram instruments of a real MeterProvider (ManualReader with a
// delta or cumulative temporality selector, a View selecting an explicit
// bucket or a base-2 exponential aggregation) with generated measurement
// sequences and comparing every collected data point with a reference
// histogram built independently: a linear scan over the boundaries for
// explicit buckets, an exact big-float bucket index (ref_test.go) for
// exponential ones, exact integer / big-integer sums, plain min/max.
//
// Readings of the statement:
//
//   - Domain: finite measurements, strictly increasing finite boundaries,
//     1 <= MaxSize <= 4097 (no upper limit is documented; 160 is only the
//     default), -10 <= MaxScale <= 20.
//   - The configuration reaches the aggregator through every documented way:
//     NewView, a raw view function, the reader's aggregation selector, the
//     instrument's boundaries option, nothing at all (default aggregation: the
//     reported boundaries are then only required to be finite and strictly
//     increasing and serve as the reference), each optionally next to a
//     matching view that sets no aggregation. Boundary slices are lent with
//     spare capacity and overwritten once the instrument exists: the
//     configuration is what was passed when the call was made.
//   - NoMinMax (documented: extrema not recorded): Min/Max are not compared,
//     whether they are reported is only a class label; everything else is.
//   - Instrument kinds (instrument_kinds, kinds_test.go): the Sum of kinds
//     that may measure negative values is documented not to be collected and
//     is not compared; Counter / ObservableCounter get non-negative values.
//   - An int64 measurement is bucketed as float64(v): boundaries are float64
//     and that conversion is the only comparison Go defines between the two.
//     Integers beyond 2^53 that are not representable are therefore placed by
//     their rounded value; this is not reported. Count, Sum, Min, Max of int64
//     histograms are exact integers.
//   - "Exact sum" of float64 measurements: when every partial sum in any order
//     is representable (all values multiples of 2^q, sum|v| < 2^(q+53)) the
//     reported Sum must equal it; otherwise |Sum - exact| <= 1e-12*sum|v|
//     (sequential float64 addition of <= 200 terms errs by < 2.3e-14*sum|v|).
//     When sum|v| >= 2^1023 an intermediate sum may overflow and Sum is not
//     checked.
//   - "Exact sum" of int64 measurements: the mathematical sum (math/big) of
//     the measurements the point holds, compared exactly whenever it is an
//     int64, also when a prefix of the measurements sums to a value outside
//     the int64 range (two's complement addition is exact modulo 2^64, so the
//     total is not affected by such an excursion); when the mathematical total
//     itself is not an int64 the Sum is not checked.
//   - Min/Max are compared with == (so -0 and +0 are interchangeable).
//   - Scale underflow: with MaxSize 1 or 2 some value sets cannot be held at
//     any scale >= -10. The SDK reports "exponential histogram scale
//     underflow" through the error handler and drops that measurement. The
//     model attributes every such error to the Record call it was raised in,
//     requires that the measurement really could not be placed (the exact
//     indexes at scale -10 of the values the point holds plus the new one span
//     more than MaxSize buckets) and that every measurement that cannot be
//     placed is dropped, and removes dropped measurements from the reference
//     (count, sum, min, max, buckets).
//   - A data point without measurements (delta interval in which nothing or
//     only dropped values were recorded) may be absent; when present it must
//     have count 0 and empty buckets; its min/max are not looked at.
//   - The reported scale is only required to lie in [-10, MaxScale] and not to
//     increase between cumulative collections; it is not required to be the
//     largest scale that fits.
//   - Known finding expo_within_ulps_of_irrational_boundary: at positive
//     scales the index is computed with a float64 logarithm; a value within 4
//     ulps of a bucket boundary that is not an exact power of two may sit one
//     bucket too low / too high. Such placements are reported with kind
//     expo_boundary_off_by_one; anything else (powers of two, values farther
//     away, more than one bucket, scale <= 0, count mismatches) is
//     expo_bucket_mismatch.
package c07

import (
	"context"
	"fmt"
	"log"
	"math"
	"math/big"
	"strings"
	"sync"
	"testing"

	"go.opentelemetry.io/otel"
	"go.opentelemetry.io/otel/attribute"
	"go.opentelemetry.io/otel/metric"
	sdkmetric "go.opentelemetry.io/otel/sdk/metric"
	"go.opentelemetry.io/otel/sdk/metric/metricdata"
	"go.opentelemetry.io/otel/sdk/resource"
	"go.opentelemetry.io/otel/verif/internal/vk"
)

// ---------------------------------------------------------------------
// observation

type errSink struct {
	mu   sync.Mutex
	errs []string
}

func (s *errSink) Handle(err error) {
	s.mu.Lock()
	s.errs = append(s.errs, err.Error())
	s.mu.Unlock()
}

func (s *errSink) take() []string {
	s.mu.Lock()
	defer s.mu.Unlock()
	out := s.errs
	s.errs = nil
	return out
}

// point is a data point copied out of a collection.
type point struct {
	set   int
	count uint64
	sumF  float64
	sumI  int64
	minF  float64
	maxF  float64
	minI  int64
	maxI  int64
	hasMn bool
	hasMx bool
	// explicit
	bounds []float64
	counts []uint64
	// exponential
	scale          int32
	zero           uint64
	posOff, negOff int32
	pos, neg       []uint64
}

func setOf(a attribute.Set) int {
	if v, ok := a.Value("s"); ok {
		return int(v.AsInt64())
	}
	return 0
}

func numbers[N int64 | float64](p *point, sum N, mn, mx metricdata.Extrema[N]) {
	a, okA := mn.Value()
	b, okB := mx.Value()
	p.hasMn, p.hasMx = okA, okB
	switch s := any(sum).(type) {
	case int64:
		p.sumI, p.minI, p.maxI = s, any(a).(int64), any(b).(int64)
	case float64:
		p.sumF, p.minF, p.maxF = s, any(a).(float64), any(b).(float64)
	}
}

// extractMetric copies the data points of one metric; expo tells which kind
// of histogram it is.
func extractMetric[N int64 | float64](m metricdata.Metrics) (pts []point, expo bool, problem string) {
	switch d := m.Data.(type) {
	case metricdata.Histogram[N]:
		for _, dp := range d.DataPoints {
			p := point{set: setOf(dp.Attributes), count: dp.Count,
				bounds: append([]float64{}, dp.Bounds...), counts: append([]uint64{}, dp.BucketCounts...)}
			numbers(&p, dp.Sum, dp.Min, dp.Max)
			pts = append(pts, p)
		}
	case metricdata.ExponentialHistogram[N]:
		expo = true
		for _, dp := range d.DataPoints {
			p := point{set: setOf(dp.Attributes), count: dp.Count, scale: dp.Scale, zero: dp.ZeroCount,
				posOff: dp.PositiveBucket.Offset, negOff: dp.NegativeBucket.Offset,
				pos: append([]uint64{}, dp.PositiveBucket.Counts...), neg: append([]uint64{}, dp.NegativeBucket.Counts...)}
			numbers(&p, dp.Sum, dp.Min, dp.Max)
			pts = append(pts, p)
		}
	default:
		problem = fmt.Sprintf("metric %q has data of type %T", m.Name, m.Data)
	}
	return pts, expo, problem
}

func extract[N int64 | float64](rm *metricdata.ResourceMetrics) (pts []point, problems []string) {
	for _, sm := range rm.ScopeMetrics {
		for _, m := range sm.Metrics {
			ps, _, problem := extractMetric[N](m)
			pts = append(pts, ps...)
			if problem != "" {
				problems = append(problems, problem)
			}
		}
	}
	return pts, problems
}

// ---------------------------------------------------------------------
// model

// mv is a measurement the data point holds: f is what is bucketed
// (float64(i) for int64 instruments).
type mv struct {
	f float64
	i int64
}

type setModel struct {
	kept      []mv
	lastScale int32
	haveScale bool
}

// idxMinScale is the exact index at scale -10 (one of -2, -1, 0).
func idxMinScale(a float64) int64 {
	i, _, _ := expoIndex(a, -10)
	return i
}

// fitsAtMinScale decides whether v can join the values of its sign held by
// the point without exceeding maxSize buckets at scale -10.
func fitsAtMinScale(kept []mv, v float64, maxSize int32) bool {
	lo := idxMinScale(math.Abs(v))
	hi := lo
	for _, k := range kept {
		if k.f == 0 || (k.f < 0) != (v < 0) {
			continue
		}
		i := idxMinScale(math.Abs(k.f))
		lo, hi = min(lo, i), max(hi, i)
	}
	return hi-lo+1 <= int64(maxSize)
}

// instCfg is what the oracle needs to know about one histogram instrument.
type instCfg struct {
	Expo, Int         bool
	Bounds            []float64 // explicit: the configured boundaries, increasing
	MaxSize, MaxScale int32     // exponential
	// NoMinMax: the aggregation is configured not to record the extrema;
	// NoSum: the instrument kind is one whose sum is documented not to be
	// collected. Neither field is compared then.
	NoMinMax, NoSum bool
	// DefaultBounds: no boundaries were configured (default aggregation)
	DefaultBounds bool
}

func (c Case) cfg() instCfg {
	k := instCfg{Expo: c.Expo, Int: c.Int, MaxSize: c.MaxSize, MaxScale: c.MaxScale, NoMinMax: c.NoMinMax, NoSum: kindNoSum(c.Kind), DefaultBounds: c.DefaultAgg && !c.Expo}
	for _, b := range c.Bounds {
		k.Bounds = append(k.Bounds, float64(b))
	}
	return k
}

type runner struct {
	c    Case
	vs   []vk.Violation
	info vk.Info
	ix   *indexer

	sets [2]setModel

	// facts for classes / the non-trivial rule
	rescaled, grewLeft, grewRight, nearBoundary, scaleLE0, scaleGT0, underflow, knownOffByOne bool
	multiDown, onBound, multiBucket, sumExact, sumTol, sumRisky, emptyPoint, intBig           bool
	intPrefixOut, intTotalOut                                                                 bool
	sumSkippedKind, sumZeroKind, minMaxOff, minMaxDespiteOff, callbackNotRun                  bool
	defaultOther                                                                              bool
	nonEmptyPoints                                                                            int
}

func (r *runner) bad(kind, format string, a ...any) {
	r.vs = append(r.vs, vk.V(kind, format, a...))
}

func run(c Case) ([]vk.Violation, vk.Info) {
	r := &runner{c: c, ix: newIndexer()}
	r.exec()
	r.classify()
	return r.vs, r.info
}

func (r *runner) exec() {
	c := r.c
	ctx := context.Background()
	sink := &errSink{}
	otel.SetErrorHandler(sink)
	defer otel.SetErrorHandler(otel.ErrorHandlerFunc(func(err error) { log.Print(err) }))

	temporality := metricdata.DeltaTemporality
	if c.Cumulative {
		temporality = metricdata.CumulativeTemporality
	}
	bounds := make([]float64, len(c.Bounds))
	for i, b := range c.Bounds {
		bounds[i] = float64(b)
	}
	// every boundary list handed to the SDK is lent: it has spare capacity
	// and is scribbled over once the instrument exists (the configuration is
	// what was passed when the call was made)
	var lentOut [][]float64
	lend := func(b []float64) []float64 {
		l := make([]float64, len(b), len(b)+3)
		copy(l, b)
		lentOut = append(lentOut, l)
		return l
	}
	aggregation := func(b []float64) sdkmetric.Aggregation {
		if c.Expo {
			return sdkmetric.AggregationBase2ExponentialHistogram{MaxSize: c.MaxSize, MaxScale: c.MaxScale, NoMinMax: c.NoMinMax}
		}
		return sdkmetric.AggregationExplicitBucketHistogram{Boundaries: lend(b), NoMinMax: c.NoMinMax}
	}
	ropts := []sdkmetric.ManualReaderOption{sdkmetric.WithTemporalitySelector(func(sdkmetric.InstrumentKind) metricdata.Temporality { return temporality })}
	opts := []sdkmetric.Option{sdkmetric.WithResource(resource.Empty())}
	switch {
	case c.DefaultAgg && !c.Expo, c.ViaOption && !c.Expo:
		// no view: the default aggregation of a Histogram instrument, with
		// the documented default boundaries or the ones of the instrument option
	case c.Selector:
		ropts = append(ropts, sdkmetric.WithAggregationSelector(func(sdkmetric.InstrumentKind) sdkmetric.Aggregation { return aggregation(bounds) }))
		r.info.Class("aggregation_from_reader_selector")
	case c.RawView && !c.Expo:
		shuffled := append([]float64{}, bounds...)
		for i, j := range c.Shuffle {
			a, b := i%len(shuffled), ((j%len(shuffled))+len(shuffled))%len(shuffled)
			shuffled[a], shuffled[b] = shuffled[b], shuffled[a]
		}
		opts = append(opts, sdkmetric.WithView(func(in sdkmetric.Instrument) (sdkmetric.Stream, bool) {
			if in.Name != "h" {
				return sdkmetric.Stream{}, false
			}
			return sdkmetric.Stream{Name: in.Name, Description: in.Description, Unit: in.Unit, Aggregation: aggregation(shuffled)}, true
		}))
		r.info.Class("boundaries_through_raw_view_function(shuffled)")
	default:
		opts = append(opts, sdkmetric.WithView(sdkmetric.NewView(sdkmetric.Instrument{Name: "h"}, sdkmetric.Stream{Aggregation: aggregation(bounds)})))
	}
	if c.NeutralView {
		opts = append(opts, sdkmetric.WithView(sdkmetric.NewView(sdkmetric.Instrument{Name: "h"}, sdkmetric.Stream{Description: "a view without an aggregation"})))
		r.info.Class("matching_view_without_aggregation")
	}
	rdr := sdkmetric.NewManualReader(ropts...)
	mp := sdkmetric.NewMeterProvider(append(opts, sdkmetric.WithReader(rdr))...)
	defer func() { _ = mp.Shutdown(ctx) }()
	meter := mp.Meter("c07")

	attrs := [2]metric.MeasurementOption{
		metric.WithAttributeSet(attribute.NewSet()),
		metric.WithAttributeSet(attribute.NewSet(attribute.Int("s", 1))),
	}

	// measure makes measurement n through emit and updates the model
	measure := func(n int, emit func(m mv, set int)) {
		op := c.Ops[n]
		set := op.S & 1
		m := mv{f: float64(op.F), i: op.I}
		if c.Int {
			m.f = float64(op.I)
		}
		emit(m, set)
		dropped := 0
		for _, e := range sink.take() {
			if strings.Contains(e, "scale underflow") {
				dropped++
			} else {
				r.bad("unexpected_error", "op %d (record %v): error reported: %s", n, r.show(m), e)
			}
		}
		sm := &r.sets[set]
		if !c.Expo {
			if dropped > 0 {
				r.bad("unexpected_error", "op %d: explicit histogram reported a scale underflow", n)
			}
			sm.kept = append(sm.kept, m)
			return
		}
		fits := m.f == 0 || fitsAtMinScale(sm.kept, m.f, c.MaxSize)
		switch {
		case dropped > 1:
			r.bad("unexpected_error", "op %d (record %v): %d underflow errors for one measurement", n, r.show(m), dropped)
		case dropped == 1 && fits:
			r.bad("spurious_underflow", "op %d: record %v reported a scale underflow (measurement dropped) although it fits in MaxSize %d buckets at scale -10 together with the %d values held", n, r.show(m), c.MaxSize, len(sm.kept))
		case dropped == 0 && !fits:
			r.bad("missing_underflow", "op %d: record %v cannot be placed in MaxSize %d buckets at any scale >= -10 but no underflow was reported", n, r.show(m), c.MaxSize)
		}
		if dropped > 0 {
			r.underflow = true
		}
		if dropped == 0 {
			sm.kept = append(sm.kept, m)
		}
	}
	// the measurements of an observable instrument wait in queue until its
	// callback runs (inside the next Collect)
	var queue []int
	flush := func(emit func(m mv, set int)) {
		for _, n := range queue {
			measure(n, emit)
		}
		queue = nil
	}
	var lentOpt []float64
	if c.ViaOption && !c.Expo {
		lentOpt = lend(bounds)
	}
	emit, err := newInstrument(ctx, meter, c, lentOpt, attrs, flush)
	if err != nil {
		r.bad("setup_error", "creating the instrument: %v", err)
		return
	}
	if es := sink.take(); len(es) > 0 {
		r.bad("setup_error", "errors while creating the instrument: %q", es)
		return
	}
	for _, l := range lentOut {
		l = l[:cap(l)]
		for i := range l {
			l[i] = float64(len(l) - i) // decreasing garbage
		}
	}
	r.info.ClassIf(len(lentOut) > 0 && len(bounds) > 0, "lent_boundary_slice_scribbled_after_setup")

	shared := &metricdata.ResourceMetrics{}
	collection := 0
	// retained outputs (fresh ResourceMetrics per collection only): a data
	// point that was consistent when Collect returned must stay what it was,
	// whatever is recorded or collected afterwards
	type retained struct {
		n  int
		rm *metricdata.ResourceMetrics
		fp string
	}
	var kept []retained
	defer func() {
		for _, k := range kept {
			if now := fmt.Sprintf("%+v", k.rm.ScopeMetrics); now != k.fp {
				r.bad("collected_point_changed_later", "the data returned by Collect #%d changed after later measurements / collections:\nat collection time: %s\nnow:                %s", k.n, k.fp, now)
				break
			}
		}
	}()
	for n, op := range c.Ops {
		if !op.C {
			if emit == nil {
				queue = append(queue, n)
			} else {
				measure(n, emit)
			}
			continue
		}
		rm := shared
		if !c.Reuse {
			rm = &metricdata.ResourceMetrics{}
		}
		if err := rdr.Collect(ctx, rm); err != nil {
			r.bad("collect_error", "Collect #%d: %v", collection, err)
		}
		if es := sink.take(); len(es) > 0 {
			r.bad("collect_error", "errors reported during Collect #%d: %q", collection, es)
		}
		if len(queue) > 0 {
			// the measurements were never made: nothing the statement speaks about
			r.callbackNotRun = true
			queue = nil
		}
		var pts []point
		var problems []string
		if c.Int {
			pts, problems = extract[int64](rm)
		} else {
			pts, problems = extract[float64](rm)
		}
		for _, p := range problems {
			r.bad("wrong_data_type", "Collect #%d: %s", collection, p)
		}
		r.checkCollection(collection, pts)
		if !c.Reuse {
			kept = append(kept, retained{collection, rm, fmt.Sprintf("%+v", rm.ScopeMetrics)})
		}
		if !c.Cumulative {
			r.sets[0].kept, r.sets[1].kept = nil, nil
		}
		collection++
	}
}

func (r *runner) show(m mv) string { return showMV(r.c.Int, m) }

func showMV(isInt bool, m mv) string {
	if isInt {
		return fmt.Sprintf("%d", m.i)
	}
	return fmt.Sprintf("%v(0x%016x)", m.f, math.Float64bits(m.f))
}

func (r *runner) checkCollection(n int, pts []point) {
	r.checkPoints(fmt.Sprintf("collect #%d", n), r.c.cfg(), r.c.Cumulative, &r.sets, pts)
}

// checkPoints compares the data points one instrument reported in one
// collection with what the model says its attribute sets hold.
func (r *runner) checkPoints(at string, cfg instCfg, cum bool, sets *[2]setModel, pts []point) {
	seen := [2]bool{}
	for i := range pts {
		p := &pts[i]
		where := fmt.Sprintf("%s set %d", at, p.set)
		if p.set < 0 || p.set > 1 || seen[p.set] {
			r.bad("unexpected_point", "%s: duplicate or unknown data point", where)
			continue
		}
		seen[p.set] = true
		sm := &sets[p.set]
		if uint64(len(sm.kept)) != p.count {
			r.bad("count", "%s: Count = %d, measurements recorded = %d", where, p.count, len(sm.kept))
		}
		if cfg.Expo {
			r.checkExpo(where, cfg, cum, p, sm)
		} else {
			r.checkExplicit(where, cfg, p, sm)
		}
		if len(sm.kept) == 0 {
			r.emptyPoint = true
		} else {
			r.nonEmptyPoints++
			r.checkNumbers(where, cfg, p, sm.kept)
		}
	}
	for s := range sets {
		if !seen[s] && len(sets[s].kept) > 0 {
			r.bad("missing_point", "%s: no data point for set %d which holds %d measurements", at, s, len(sets[s].kept))
		}
	}
}

func total(cs []uint64) (t uint64) {
	for _, c := range cs {
		t += c
	}
	return t
}

func (r *runner) checkExplicit(where string, c instCfg, p *point, sm *setModel) {
	if len(p.counts) != len(p.bounds)+1 {
		r.bad("explicit_len", "%s: %d bucket counts for %d bounds", where, len(p.counts), len(p.bounds))
	}
	same := len(p.bounds) == len(c.Bounds)
	for i := 0; same && i < len(p.bounds); i++ {
		same = p.bounds[i] == c.Bounds[i]
	}
	if c.DefaultBounds {
		// nothing was configured: which boundaries the default aggregation
		// uses is not part of the statement; the reported ones only have to be
		// boundaries (finite, strictly increasing) and are then the reference
		if !same {
			r.defaultOther = true
		}
		for i, b := range p.bounds {
			if math.IsNaN(b) || math.IsInf(b, 0) || (i > 0 && p.bounds[i-1] >= b) {
				r.bad("explicit_bounds", "%s: the reported bounds %v of the default aggregation are not finite and strictly increasing", where, p.bounds)
				return
			}
		}
	} else if !same {
		r.bad("explicit_bounds", "%s: reported bounds %v, configured %v", where, p.bounds, c.Bounds)
		return
	}
	if t := total(p.counts); t != p.count {
		r.bad("explicit_count_ne_buckets", "%s: Count = %d, sum of bucket counts = %d", where, p.count, t)
	}
	want := make([]uint64, len(p.bounds)+1)
	populated := 0
	for _, m := range sm.kept {
		b := explicitBucket(p.bounds, m.f)
		if want[b] == 0 {
			populated++
		}
		want[b]++
		for _, bd := range p.bounds {
			if m.f == bd || math.Nextafter(m.f, math.Inf(1)) == bd || math.Nextafter(m.f, math.Inf(-1)) == bd {
				r.onBound = true
			}
		}
	}
	if populated >= 2 {
		r.multiBucket = true
	}
	if len(want) == len(p.counts) {
		for i := range want {
			if want[i] != p.counts[i] {
				r.bad("explicit_bucket_mismatch", "%s: bucket counts %v, reference (lower, upper] scan %v; bounds %v", where, p.counts, want, p.bounds)
				break
			}
		}
	}
}

func (r *runner) checkExpo(where string, c instCfg, cum bool, p *point, sm *setModel) {
	if t := p.zero + total(p.pos) + total(p.neg); t != p.count {
		r.bad("expo_count_ne_buckets", "%s: Count = %d, ZeroCount %d + positive %d + negative %d = %d", where, p.count, p.zero, total(p.pos), total(p.neg), t)
	}
	if len(p.pos) > int(c.MaxSize) || len(p.neg) > int(c.MaxSize) {
		r.bad("expo_too_many_buckets", "%s: %d positive / %d negative buckets, MaxSize %d", where, len(p.pos), len(p.neg), c.MaxSize)
	}
	scaleOK := p.scale >= -10 && p.scale <= c.MaxScale
	if !scaleOK {
		r.bad("expo_scale_range", "%s: Scale = %d, allowed [-10, %d]", where, p.scale, c.MaxScale)
	}
	if cum {
		if sm.haveScale && p.scale > sm.lastScale {
			r.bad("expo_scale_increased", "%s: Scale went from %d to %d between cumulative collections", where, sm.lastScale, p.scale)
		}
		sm.lastScale, sm.haveScale = p.scale, true
	}
	var zeros uint64
	for _, m := range sm.kept {
		if m.f == 0 {
			zeros++
		}
	}
	if zeros != p.zero {
		r.bad("expo_zero_count", "%s: ZeroCount = %d, zero measurements = %d", where, p.zero, zeros)
	}
	if !scaleOK || p.scale > 20 {
		return
	}
	if len(sm.kept) > 0 {
		if p.scale < c.MaxScale {
			r.rescaled = true
		}
		if p.scale <= c.MaxScale-2 {
			r.multiDown = true
		}
		if p.scale <= 0 {
			r.scaleLE0 = true
		} else {
			r.scaleGT0 = true
		}
	}
	var pos, neg []placed
	decided := true
	for _, m := range sm.kept {
		if m.f == 0 {
			continue
		}
		a := math.Abs(m.f)
		idx, rem, ok := r.ix.index(a, p.scale)
		if !ok {
			decided = false
			break
		}
		dir, near := r.ix.nearDir(a, p.scale, idx, rem)
		if near {
			r.nearBoundary = true
		}
		side := &pos
		if m.f < 0 {
			side = &neg
		}
		if len(*side) > 0 {
			first := (*side)[0].idx
			lo, hi := first, first
			for _, q := range *side {
				lo, hi = min(lo, q.idx), max(hi, q.idx)
			}
			if idx < lo {
				r.grewLeft = true
			}
			if idx > hi {
				r.grewRight = true
			}
		}
		*side = append(*side, placed{v: m.f, idx: idx, dir: dir})
	}
	if !decided {
		return
	}
	r.compareSide(where, "positive", p.scale, windowMap(p.posOff, p.pos), pos)
	r.compareSide(where, "negative", p.scale, windowMap(p.negOff, p.neg), neg)
}

func (r *runner) compareSide(where, side string, scale int32, reported map[int64]uint64, ps []placed) {
	want := exactMap(ps)
	if sameMap(reported, want) {
		return
	}
	var diff []string
	for _, p := range ps {
		if reported[p.idx] != want[p.idx] {
			diff = append(diff, fmt.Sprintf("%v(0x%016x)->%d(movable %+d)", p.v, math.Float64bits(p.v), p.idx, p.dir))
			if len(diff) == 8 {
				diff = append(diff, "...")
				break
			}
		}
	}
	if scale > 0 && tolerantAgree(reported, ps) {
		r.knownOffByOne = true
		r.bad("expo_boundary_off_by_one", "%s: %s buckets at scale %d differ from the exact placement only by values within 4 ulps of an irrational boundary sitting in the adjacent bucket: reported %v, exact %v; values in differing buckets: %v", where, side, scale, reported, want, diff)
		return
	}
	r.bad("expo_bucket_mismatch", "%s: %s buckets at scale %d: reported %v, reference %v; values in differing buckets: %v", where, side, scale, reported, want, diff)
}

func (r *runner) checkNumbers(where string, cfg instCfg, p *point, kept []mv) {
	isInt := cfg.Int
	if cfg.NoMinMax {
		// documented: the extrema are not recorded; nothing to compare
		r.minMaxOff = true
		if p.hasMn || p.hasMx {
			r.minMaxDespiteOff = true
		}
		p.hasMn, p.hasMx = false, false
	} else if !p.hasMn || !p.hasMx {
		r.bad("minmax_missing", "%s: Min/Max not reported (NoMinMax is false)", where)
	}
	if cfg.NoSum {
		r.sumSkippedKind = true
		if p.sumI == 0 && p.sumF == 0 {
			r.sumZeroKind = true
		}
	}
	if isInt {
		// the reference sum is the mathematical one (math/big); whether a
		// prefix of it leaves the int64 range does not matter, only whether
		// the total is an int64
		mn, mx, sum := kept[0].i, kept[0].i, new(big.Int)
		prefixOut := false
		for _, m := range kept {
			mn, mx = min(mn, m.i), max(mx, m.i)
			sum.Add(sum, big.NewInt(m.i))
			if !sum.IsInt64() {
				prefixOut = true
			}
			if m.i > 1<<53 || m.i < -(1<<53) {
				r.intBig = true
			}
		}
		if p.hasMn && p.minI != mn {
			r.bad("min", "%s: Min = %d, smallest measurement %d", where, p.minI, mn)
		}
		if p.hasMx && p.maxI != mx {
			r.bad("max", "%s: Max = %d, largest measurement %d", where, p.maxI, mx)
		}
		switch {
		case cfg.NoSum:
		case !sum.IsInt64():
			r.intTotalOut = true // no int64 is the exact sum
		case p.sumI != sum.Int64():
			r.bad("sum", "%s: Sum = %d, exact sum %s (a prefix of the measurements sums to a value outside the int64 range: %v)", where, p.sumI, sum, prefixOut)
		default:
			if prefixOut {
				r.intPrefixOut = true
			}
		}
		return
	}
	mn, mx := kept[0].f, kept[0].f
	fs := make([]float64, len(kept))
	for i, m := range kept {
		mn, mx = math.Min(mn, m.f), math.Max(mx, m.f)
		fs[i] = m.f
	}
	if p.hasMn && p.minF != mn {
		r.bad("min", "%s: Min = %v, smallest measurement %v", where, p.minF, mn)
	}
	if p.hasMx && p.maxF != mx {
		r.bad("max", "%s: Max = %v, largest measurement %v", where, p.maxF, mx)
	}
	ref := newSumRef(fs)
	switch {
	case cfg.NoSum:
	case ref.risky:
		r.sumRisky = true
	case ref.exact:
		r.sumExact = true
		if p.sumF != ref.want {
			r.bad("sum", "%s: Sum = %v, exact sum %v (every partial sum is representable)", where, p.sumF, ref.want)
		}
	default:
		r.sumTol = true
		if !ref.within(p.sumF) {
			r.bad("sum", "%s: Sum = %v, exact sum %s, tolerance 1e-12*sum|v|", where, p.sumF, ref.String())
		}
	}
}

func (r *runner) classify() {
	c := r.c
	info := &r.info
	nvals, ncoll := 0, 0
	for _, op := range c.Ops {
		if op.C {
			ncoll++
		} else {
			nvals++
		}
	}
	if c.Expo {
		info.NonTrivial = r.rescaled || r.grewLeft || r.nearBoundary
		info.ClassIf(r.rescaled, "rescaled")
		info.ClassIf(r.multiDown, "downscaled_by>=2")
		info.ClassIf(r.grewLeft, "grew_left")
		info.ClassIf(r.grewRight, "grew_right")
		info.ClassIf(r.nearBoundary, "value_within_4ulps_of_boundary")
		info.ClassIf(r.scaleLE0, "reported_scale<=0")
		info.ClassIf(r.scaleGT0, "reported_scale>0")
		info.ClassIf(r.underflow, "underflow_drop")
		info.ClassIf(r.knownOffByOne, "off_by_one_near_irrational_boundary")
		info.ClassIf(c.MaxSize == 1, "maxsize_1")
		info.ClassIf(c.MaxSize == 2, "maxsize_2")
		info.ClassIf(c.MaxSize >= 100, "maxsize>=100")
		info.ClassIf(c.MaxSize > 160, "maxsize>160")
		info.ClassIf(c.MaxSize >= 2048, "maxsize>=2048")
		info.ClassIf(c.MaxScale <= 0, "maxscale<=0")
		info.ClassIf(c.MaxScale == 20, "maxscale_20")
		info.ClassIf(r.ix.undecided > 0, "bigfloat_undecided(skipped)")
	} else {
		info.NonTrivial = r.onBound || r.multiBucket
		info.ClassIf(r.onBound, "value_on_or_1ulp_from_bound")
		info.ClassIf(r.multiBucket, ">=2_buckets_populated")
		info.ClassIf(len(c.Bounds) == 0, "no_bounds")
		info.ClassIf(len(c.Bounds) >= 10, ">=10_bounds")
		info.ClassIf(c.ViaOption, "bounds_via_instrument_option")
	}
	if c.Kind != "" {
		info.Class("kind:" + c.Kind)
		info.NonTrivial = info.NonTrivial && r.nonEmptyPoints > 0
		info.ClassIf(c.RegCallback, "callback_via_RegisterCallback")
		info.ClassIf(kindObservable(c.Kind) && !c.RegCallback, "callback_via_instrument_option")
		for _, op := range c.Ops {
			if !kindNoSum(c.Kind) && !op.C && (op.I != 0 || op.F != 0) {
				info.Class(c.Kind + "_histogram_sum_compared(non-zero_measurement)")
				break
			}
		}
	}
	info.ClassIf(r.sumSkippedKind, "sum_not_compared(kind_may_measure_negative)")
	info.ClassIf(r.sumSkippedKind && r.sumZeroKind, "sum_reported_0_for_kind_that_may_measure_negative")
	info.ClassIf(r.sumSkippedKind && !r.sumZeroKind, "sum_reported_non-zero_for_kind_that_may_measure_negative")
	info.ClassIf(r.minMaxOff, "NoMinMax(extrema_not_compared)")
	info.ClassIf(r.minMaxDespiteOff, "extrema_reported_despite_NoMinMax")
	info.ClassIf(r.callbackNotRun, "observable_callback_not_run_by_collect")
	info.ClassIf(c.DefaultAgg && !r.defaultOther, "default_aggregation(reports_the_documented_default_boundaries)")
	info.ClassIf(c.DefaultAgg && r.defaultOther, "default_aggregation(reports_other_boundaries)")
	info.ClassIf(c.Int, "int64")
	info.ClassIf(!c.Int, "float64")
	info.ClassIf(c.Cumulative, "cumulative")
	info.ClassIf(!c.Cumulative, "delta")
	info.ClassIf(ncoll >= 2, ">=2_collections")
	info.ClassIf(nvals == 0, "no_measurements")
	info.ClassIf(nvals >= 100, ">=100_measurements")
	info.ClassIf(r.sumExact, "sum_checked_exactly")
	info.ClassIf(r.sumTol, "sum_checked_with_tolerance")
	info.ClassIf(r.sumRisky, "sum_not_checked(overflow_possible)")
	info.ClassIf(r.emptyPoint, "point_without_measurements")
	info.ClassIf(r.intBig, "int64_beyond_2^53")
	info.ClassIf(r.intPrefixOut, "int64_prefix_sum_outside_int64_total_inside(sum_checked)")
	info.ClassIf(r.intTotalOut, "int64_total_outside_int64(sum_not_checked)")
	info.ClassIf(r.nonEmptyPoints == 0, "no_point_checked")
}

// ---------------------------------------------------------------------

func TestExplicit(t *testing.T) {
	vk.Run(t, vk.Spec[Case]{
		Property: "C07", Check: "explicit_buckets",
		Rule: "int64/float64 histogram with 0..12 strictly increasing finite boundaries (NewView, raw view function, reader aggregation selector, instrument option or nothing = default aggregation; optionally a matching view without aggregation; NoMinMax on/off; lent boundary slices overwritten after setup), delta or cumulative reader, 0..200 finite measurements (bounds +-1 ulp, the ends of the number type's range, powers of two, subnormals, MaxFloat64, +-0, negatives, exact k*2^e numbers) with 1..4 interleaved collections, 1..2 attribute sets; " +
			"non-trivial = a measurement equals or is 1 ulp away from a boundary, or one data point populates >= 2 buckets; distinct = distinct case encodings",
		Quick: 15000, Thorough: 150000,
		Gen: genCase(false), Run: run,
	})
}

func TestExpo(t *testing.T) {
	vk.Run(t, vk.Spec[Case]{
		Property: "C07", Check: "expo_buckets",
		Rule: "int64/float64 histogram with a base-2 exponential view or reader aggregation selector (MaxSize 1..160 biased to {1,2,3,4,20,160}, one case in 16 from 161..4097 on a log scale; MaxScale -10..20; NoMinMax on/off), delta or cumulative reader, 0..200 finite measurements (powers of two and 320-bit bucket boundaries of the reachable scales +-0..4 ulps, occasionally up to +-40, subnormals, MaxFloat64, +-0, negatives, clustered then far-apart values, exact k*2^e numbers) with 1..4 interleaved collections, 1..2 attribute sets; " +
			"non-trivial = a data point is reported below MaxScale (rescaled), or a value landed left of the window held so far, or a value lies within 4 ulps of a bucket boundary of the reported scale; distinct = distinct case encodings",
		Quick: 25000, Thorough: 300000,
		Gen: genCase(true), Run: run,
		Known: map[string]func(Case, vk.Violation) bool{
			// positive scales: float64 logarithm, values within 4 ulps of an
			// irrational boundary may sit in the adjacent bucket.
			"expo_within_ulps_of_irrational_boundary": func(c Case, v vk.Violation) bool {
				return c.Expo && c.MaxScale > 0 && v.Kind == "expo_boundary_off_by_one"
			},
		},
	})
}
