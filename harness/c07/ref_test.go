package c07

import (
	"math"
	"math/big"
	"math/bits"
	"sort"
)

// ---------------------------------------------------------------------
// exact decomposition of a float64

// split writes a finite a > 0 as mant * 2^(e-(bl-1)) with bl = bit length of
// mant, i.e. a = m * 2^e with m = mant / 2^(bl-1) in [1,2). It works on the
// IEEE-754 bit pattern (subnormals are normalised by hand).
func split(a float64) (mant uint64, bl int, e int) {
	b := math.Float64bits(a) &^ (1 << 63)
	ef := int(b >> 52)
	fr := b & (1<<52 - 1)
	raw := 0
	if ef == 0 { // subnormal: a = fr * 2^-1074
		mant, raw = fr, -1074
	} else { // normal: a = (2^52+fr) * 2^(ef-1075)
		mant, raw = fr|1<<52, ef-1075
	}
	bl = bits.Len64(mant)
	return mant, bl, raw + bl - 1
}

func isPow2(a float64) bool {
	mant, _, _ := split(math.Abs(a))
	return mant&(mant-1) == 0
}

func isSubnormal(a float64) bool {
	a = math.Abs(a)
	return a != 0 && a < 0x1p-1022
}

// stepUlps moves a by n representable values (n < 0: towards -Inf).
func stepUlps(a float64, n int) float64 {
	dir := math.Inf(1)
	if n < 0 {
		dir, n = math.Inf(-1), -n
	}
	for i := 0; i < n; i++ {
		a = math.Nextafter(a, dir)
	}
	return a
}

// ---------------------------------------------------------------------
// exact exponential bucket index

const refPrec = 320

var bigTwo = big.NewFloat(2)

// expoIndex returns the unique index i with base^i < a <= base^(i+1) for
// base = 2^(2^-scale), a > 0 finite, -10 <= scale <= 20.
//
// scale <= 0: base is 2^(2^-scale), so i = floor(i0 / 2^-scale) where i0 is
// the index at scale 0: e for a = m*2^e with 1 < m < 2, e-1 for m == 1 (an
// exact power of two is the inclusive upper bound of the lower bucket).
//
// scale > 0: i = e*2^scale + j with 2^j < m^(2^scale) <= 2^(j+1). The bits of
// j are produced by `scale` squarings of m (square; if the square is >= 2
// emit 1 and halve, else emit 0). m^(2^scale) is never an exact power of two
// for a rational 1 < m < 2, so j = floor(2^scale * log2 m). Every squaring is
// done twice in 320-bit interval arithmetic (rounded down / rounded up); if
// the interval ever straddles 2 the answer is not decided and ok is false.
//
// rem is a float64 approximation of m^(2^scale) / 2^j in (1,2) (0 when not
// computed); it is only used to skip the neighbour computation of nearDir.
func expoIndex(a float64, scale int32) (idx int64, rem float64, ok bool) {
	mant, bl, e := split(a)
	pow2 := mant&(mant-1) == 0
	if scale <= 0 {
		i0 := int64(e)
		if pow2 {
			i0--
		}
		return i0 >> uint(-scale), 0, true
	}
	if pow2 {
		return int64(e)<<uint(scale) - 1, 0, true
	}
	lo := new(big.Float).SetPrec(refPrec).SetMode(big.ToNegativeInf).SetUint64(mant)
	lo.SetMantExp(lo, -(bl - 1))
	hi := new(big.Float).SetPrec(refPrec).SetMode(big.ToPositiveInf).SetUint64(mant)
	hi.SetMantExp(hi, -(bl - 1))
	var j int64
	for k := int32(0); k < scale; k++ {
		lo.Mul(lo, lo)
		hi.Mul(hi, hi)
		j <<= 1
		switch {
		case lo.Cmp(bigTwo) >= 0:
			j |= 1
			lo.SetMantExp(lo, -1)
			hi.SetMantExp(hi, -1)
		case hi.Cmp(bigTwo) < 0:
		default:
			return 0, 0, false
		}
	}
	rem, _ = lo.Float64()
	return int64(e)<<uint(scale) + j, rem, true
}

type idxKey struct {
	bits  uint64
	scale int32
}

type idxVal struct {
	idx int64
	rem float64
	ok  bool
}

// indexer memoises expoIndex within one case.
type indexer struct {
	m         map[idxKey]idxVal
	undecided int
}

func newIndexer() *indexer { return &indexer{m: map[idxKey]idxVal{}} }

func (x *indexer) index(a float64, scale int32) (int64, float64, bool) {
	k := idxKey{math.Float64bits(a), scale}
	if v, ok := x.m[k]; ok {
		return v.idx, v.rem, v.ok
	}
	i, r, ok := expoIndex(a, scale)
	if !ok {
		x.undecided++
	}
	x.m[k] = idxVal{i, r, ok}
	return i, r, ok
}

// nearDir reports whether a (> 0, bucket idx at scale > 0) lies within 4 ulps
// of one of the two boundaries of its bucket, and that boundary is not an
// exact power of two: -1 = the lower boundary base^idx (the value 4 ulps
// below a is <= base^idx, i.e. has a smaller exact index), +1 = the upper
// boundary base^(idx+1) (the value 4 ulps above a has a larger exact index),
// 0 = neither. The boundary between buckets i and i+1 is 2^((i+1)/2^scale),
// a power of two iff 2^scale divides i+1. Buckets are at least 2^-21 wide
// relative to a, so for normal numbers at most one side can be near.
func (x *indexer) nearDir(a float64, scale int32, idx int64, rem float64) (dir int, anyNear bool) {
	if scale <= 0 {
		return 0, false
	}
	mask := int64(1)<<uint(scale) - 1
	sub := isSubnormal(a)
	// Prefilter for normal numbers: a/lower = rem^(1/2^scale), so a is more
	// than 2^-48 (relative; 4 ulps are at most 2^-50) above the lower
	// boundary when rem-1 > 2^(scale-47); likewise for the upper boundary.
	thr := math.Ldexp(1, int(scale)-46)
	maybeLow := sub || rem == 0 || rem-1 <= thr
	maybeHigh := sub || rem == 0 || 2-rem <= thr
	if isPow2(a) && !sub {
		// a is its own (power of two) upper boundary, the lower one is a
		// whole bucket away.
		return 0, true
	}
	if maybeLow {
		w := stepUlps(a, -4)
		low := w <= 0
		if !low {
			if wi, _, ok := x.index(w, scale); ok && wi < idx {
				low = true
			}
		}
		if low {
			anyNear = true
			if idx&mask != 0 {
				return -1, true
			}
		}
	}
	if maybeHigh {
		w := stepUlps(a, 4)
		if !math.IsInf(w, 0) {
			if wi, _, ok := x.index(w, scale); ok && wi > idx {
				anyNear = true
				if (idx+1)&mask != 0 {
					return +1, true
				}
			}
		}
	}
	return 0, anyNear
}

// ---------------------------------------------------------------------
// comparison of a reported bucket window with the reference placement

type placed struct {
	v   float64 // the measurement (signed)
	idx int64   // exact index of |v|
	dir int     // -1 / +1: may also sit in idx-1 / idx+1 (tolerant comparison)
}

func windowMap(offset int32, counts []uint64) map[int64]uint64 {
	m := map[int64]uint64{}
	for i, c := range counts {
		if c != 0 {
			m[int64(offset)+int64(i)] = c
		}
	}
	return m
}

func exactMap(ps []placed) map[int64]uint64 {
	m := map[int64]uint64{}
	for _, p := range ps {
		m[p.idx]++
	}
	return m
}

func sameMap(a, b map[int64]uint64) bool {
	if len(a) != len(b) {
		return false
	}
	for k, v := range a {
		if b[k] != v {
			return false
		}
	}
	return true
}

// tolerantAgree decides whether the reported counts can be obtained from the
// reference placement by moving only values with dir != 0 into the adjacent
// bucket they are allowed in. With F[b] the values fixed in b and K[b] the
// movable values on the boundary between b and b+1, of which y[b] sit in
// b+1: reported[b] = F[b] + y[b-1] + K[b] - y[b]; the chain is solved from
// the lowest bucket upwards and needs 0 <= y[b] <= K[b] everywhere.
func tolerantAgree(reported map[int64]uint64, ps []placed) bool {
	F := map[int64]int64{}
	K := map[int64]int64{}
	keys := map[int64]struct{}{}
	for _, p := range ps {
		switch p.dir {
		case 0:
			F[p.idx]++
			keys[p.idx] = struct{}{}
		case -1:
			K[p.idx-1]++
			keys[p.idx-1] = struct{}{}
			keys[p.idx] = struct{}{}
		case +1:
			K[p.idx]++
			keys[p.idx] = struct{}{}
			keys[p.idx+1] = struct{}{}
		}
	}
	for b := range reported {
		keys[b] = struct{}{}
	}
	bs := make([]int64, 0, len(keys))
	for b := range keys {
		bs = append(bs, b)
	}
	sort.Slice(bs, func(i, j int) bool { return bs[i] < bs[j] })
	var yLow int64
	for n, b := range bs {
		if n > 0 && bs[n-1] != b-1 {
			yLow = 0 // K of a bucket whose successor is absent is 0, so y was 0
		}
		y := F[b] + yLow + K[b] - int64(reported[b])
		if y < 0 || y > K[b] {
			return false
		}
		yLow = y
	}
	return true
}

// ---------------------------------------------------------------------
// exact sums of float64 values

// sumRef is the exact sum of a list of finite float64 values, in units of
// 2^-1074 (every finite float64 is an integer multiple of that).
type sumRef struct {
	sum, abs *big.Int
	// exact: every partial sum, in any order, is a float64. Holds when all
	// values are multiples of 2^q and sum|v| < 2^(q+53).
	exact bool
	// risky: sum|v| >= 2^1023, an intermediate sum may overflow.
	risky bool
	want  float64 // the sum as float64 when exact
}

func newSumRef(vs []float64) sumRef {
	r := sumRef{sum: new(big.Int), abs: new(big.Int)}
	low := math.MaxInt32
	for _, v := range vs {
		if v == 0 {
			continue
		}
		b := math.Float64bits(v) &^ (1 << 63)
		ef, fr := int(b>>52), b&(1<<52-1)
		mant, e := fr, -1074
		if ef != 0 {
			mant, e = fr|1<<52, ef-1075
		}
		if l := e + bits.TrailingZeros64(mant); l < low {
			low = l
		}
		z := new(big.Int).SetUint64(mant)
		z.Lsh(z, uint(e+1074))
		r.abs.Add(r.abs, z)
		if v < 0 {
			r.sum.Sub(r.sum, z)
		} else {
			r.sum.Add(r.sum, z)
		}
	}
	if r.abs.Sign() == 0 {
		r.exact, r.want = true, 0
		return r
	}
	r.risky = r.abs.BitLen() > 1074+1023
	if new(big.Int).Rsh(r.abs, uint(low+1074)).BitLen() <= 53 {
		bf := new(big.Float).SetInt(r.sum)
		bf.SetMantExp(bf, -1074)
		f, acc := bf.Float64()
		if acc == big.Exact && !math.IsInf(f, 0) {
			r.exact, r.want = true, f
		}
	}
	return r
}

// within reports |got - sum| <= 1e-12 * sum|v|.
func (r sumRef) within(got float64) bool {
	if math.IsNaN(got) || math.IsInf(got, 0) {
		return false
	}
	const p = 2400
	g := new(big.Float).SetPrec(p).SetFloat64(got)
	s := new(big.Float).SetPrec(p).SetInt(r.sum)
	s.SetMantExp(s, -1074)
	d := new(big.Float).SetPrec(p).Sub(g, s)
	d.Abs(d)
	tol := new(big.Float).SetPrec(p).SetInt(r.abs)
	tol.SetMantExp(tol, -1074)
	tol.Mul(tol, new(big.Float).SetPrec(p).SetFloat64(1e-12))
	return d.Cmp(tol) <= 0
}

func (r sumRef) String() string {
	s := new(big.Float).SetPrec(2400).SetInt(r.sum)
	s.SetMantExp(s, -1074)
	return s.Text('g', 25)
}

// ---------------------------------------------------------------------
// explicit buckets

// explicitBucket is the reference linear scan: the number of bounds strictly
// below v, i.e. the i with bounds[i-1] < v <= bounds[i].
func explicitBucket(bounds []float64, v float64) int {
	i := 0
	for _, b := range bounds {
		if b < v {
			i++
		}
	}
	return i
}
