package c07

// Sub-check instrument_kinds: every instrument kind that may be aggregated as
// a histogram (sdk/metric/pipeline.go, isAggregatorCompatible: all seven),
// int64 and float64, explicit and exponential, with the aggregation coming
// from a view or from the reader's aggregation selector, NoMinMax on or off.
// The oracle is the one of the single-instrument checks; what depends on the
// kind is documented behaviour only:
//
//   - Counter and ObservableCounter only take non-negative measurements (API
//     contract), so only those are generated for them.
//   - "The sum should not be collected for any instrument that can make
//     negative measurements" (UpDownCounter, Gauge and their observable
//     forms): their Sum is not compared. For Histogram, Counter and
//     ObservableCounter the statement's "exact sum" applies.
//   - With NoMinMax the extrema are documented not to be recorded: nothing is
//     compared (their absence is not required either, the statement does not
//     say so).
//   - An observable instrument makes its measurements in its callback, i.e.
//     during Collect; each Observe call is one measurement of the sequence.

import (
	"context"
	"fmt"
	"testing"

	"go.opentelemetry.io/otel/metric"
	"go.opentelemetry.io/otel/verif/internal/vk"
	"pgregory.net/rapid"
)

// newInstrument creates instrument "h" of the case's kind and number type.
// For synchronous kinds it returns the function that makes one measurement;
// for observable kinds it returns nil and installs a callback (instrument
// option or Meter.RegisterCallback) that hands its way of observing to flush.
func newInstrument(ctx context.Context, meter metric.Meter, c Case, lentBounds []float64,
	attrs [2]metric.MeasurementOption, flush func(emit func(m mv, set int)),
) (func(m mv, set int), error) {
	if c.Int {
		cb := func(_ context.Context, o metric.Int64Observer) error {
			flush(func(m mv, s int) { o.Observe(m.i, attrs[s]) })
			return nil
		}
		var obs metric.Int64Observable
		var err error
		switch c.Kind {
		case "":
			var o []metric.Int64HistogramOption
			if lentBounds != nil {
				o = append(o, metric.WithExplicitBucketBoundaries(lentBounds...))
			}
			h, err := meter.Int64Histogram("h", o...)
			return func(m mv, s int) { h.Record(ctx, m.i, attrs[s]) }, err
		case kindCounter:
			h, err := meter.Int64Counter("h")
			return func(m mv, s int) { h.Add(ctx, m.i, attrs[s]) }, err
		case kindUpDown:
			h, err := meter.Int64UpDownCounter("h")
			return func(m mv, s int) { h.Add(ctx, m.i, attrs[s]) }, err
		case kindGauge:
			h, err := meter.Int64Gauge("h")
			return func(m mv, s int) { h.Record(ctx, m.i, attrs[s]) }, err
		case kindObsCount:
			var o []metric.Int64ObservableCounterOption
			if !c.RegCallback {
				o = append(o, metric.WithInt64Callback(cb))
			}
			obs, err = meter.Int64ObservableCounter("h", o...)
		case kindObsUpDown:
			var o []metric.Int64ObservableUpDownCounterOption
			if !c.RegCallback {
				o = append(o, metric.WithInt64Callback(cb))
			}
			obs, err = meter.Int64ObservableUpDownCounter("h", o...)
		case kindObsGauge:
			var o []metric.Int64ObservableGaugeOption
			if !c.RegCallback {
				o = append(o, metric.WithInt64Callback(cb))
			}
			obs, err = meter.Int64ObservableGauge("h", o...)
		default:
			return nil, fmt.Errorf("case names the unknown instrument kind %q", c.Kind)
		}
		if err == nil && c.RegCallback {
			_, err = meter.RegisterCallback(func(_ context.Context, o metric.Observer) error {
				flush(func(m mv, s int) { o.ObserveInt64(obs, m.i, attrs[s]) })
				return nil
			}, obs)
		}
		return nil, err
	}

	cb := func(_ context.Context, o metric.Float64Observer) error {
		flush(func(m mv, s int) { o.Observe(m.f, attrs[s]) })
		return nil
	}
	var obs metric.Float64Observable
	var err error
	switch c.Kind {
	case "":
		var o []metric.Float64HistogramOption
		if lentBounds != nil {
			o = append(o, metric.WithExplicitBucketBoundaries(lentBounds...))
		}
		h, err := meter.Float64Histogram("h", o...)
		return func(m mv, s int) { h.Record(ctx, m.f, attrs[s]) }, err
	case kindCounter:
		h, err := meter.Float64Counter("h")
		return func(m mv, s int) { h.Add(ctx, m.f, attrs[s]) }, err
	case kindUpDown:
		h, err := meter.Float64UpDownCounter("h")
		return func(m mv, s int) { h.Add(ctx, m.f, attrs[s]) }, err
	case kindGauge:
		h, err := meter.Float64Gauge("h")
		return func(m mv, s int) { h.Record(ctx, m.f, attrs[s]) }, err
	case kindObsCount:
		var o []metric.Float64ObservableCounterOption
		if !c.RegCallback {
			o = append(o, metric.WithFloat64Callback(cb))
		}
		obs, err = meter.Float64ObservableCounter("h", o...)
	case kindObsUpDown:
		var o []metric.Float64ObservableUpDownCounterOption
		if !c.RegCallback {
			o = append(o, metric.WithFloat64Callback(cb))
		}
		obs, err = meter.Float64ObservableUpDownCounter("h", o...)
	case kindObsGauge:
		var o []metric.Float64ObservableGaugeOption
		if !c.RegCallback {
			o = append(o, metric.WithFloat64Callback(cb))
		}
		obs, err = meter.Float64ObservableGauge("h", o...)
	default:
		return nil, fmt.Errorf("case names the unknown instrument kind %q", c.Kind)
	}
	if err == nil && c.RegCallback {
		_, err = meter.RegisterCallback(func(_ context.Context, o metric.Observer) error {
			flush(func(m mv, s int) { o.ObserveFloat64(obs, m.f, attrs[s]) })
			return nil
		}, obs)
	}
	return nil, err
}

func genKindCase(t *rapid.T) Case {
	return genCaseOf(t, rapid.Bool().Draw(t, "expo"), true)
}

func TestKinds(t *testing.T) {
	vk.Run(t, vk.Spec[Case]{
		Property: "C07", Check: "instrument_kinds",
		Rule: "one instrument of any of the seven kinds (Histogram, Counter, UpDownCounter, Gauge, ObservableCounter, ObservableUpDownCounter, ObservableGauge; observable ones with an instrument-level or a registered callback), int64 or float64, aggregated as an explicit-bucket or base-2 exponential histogram by a view, a raw view function or the reader's aggregation selector, NoMinMax on or off; configurations, measurements (non-negative for the two counter kinds) and collections as in explicit_buckets / expo_buckets; " +
			"non-trivial = as in explicit_buckets / expo_buckets and at least one data point with measurements was compared; distinct = distinct case encodings",
		Quick: 12000, Thorough: 150000,
		Gen: genKindCase, Run: run,
		Known: map[string]func(Case, vk.Violation) bool{
			"expo_within_ulps_of_irrational_boundary": func(c Case, v vk.Violation) bool {
				return c.Expo && c.MaxScale > 0 && v.Kind == "expo_boundary_off_by_one"
			},
		},
	})
}
