// Package c11 decides property C11 (baggage survives a header round trip and
// enforces the W3C limits) with three generated sub-checks and a native fuzz
// target:
//
//	api_round_trip  baggage built through the constructors -> String -> Parse,
//	                Inject -> Extract, and the accept/reject boundary of New
//	header_parse    header strings (grammar-generated, mutated, hostile) against
//	                a reference parser of the W3C baggage grammar and the
//	                conditional clauses of the statement
//	immutability    edit sequences on values shared between contexts against an
//	                immutable-map model
//	FuzzParse       the header_parse oracle under go's native fuzzer (thorough)
//
// Readings of the statement chosen where it is ambiguous (all conservative):
//
//   - Round trips use W3C token keys only (member and property keys):
//     Baggage.String documents that members / properties with other keys are
//     skipped. NewMemberRaw is only required to reject keys that are empty or
//     not valid UTF-8 (its documented contract).
//   - "Within the limits" for a baggage handed to New is measured on the
//     serialised form the implementation itself emits for each member
//     (Member.String, public API): New may reject only if there are more than
//     180 distinct keys, or a member serialises to more than 4096 bytes, or
//     the members joined by "," exceed 8192 bytes. When New accepts, the three
//     limits are checked on Baggage.String() directly.
//   - Duplicate keys handed to New resolve to the last one (the rule the
//     statement gives for Parse and the replacement rule SetMember documents).
//   - Which headers Parse must ACCEPT is taken from the W3C grammar that Parse's
//     documentation refers to: token keys, values of baggage-octets whose
//     percent signs all start a %XX triplet, OWS (SP / HTAB) around "=", ";"
//     and ",", at most 180 list-members, 8192 bytes, 4096 bytes per list-member
//     (measured between commas, OWS included). Headers with OWS at the very
//     start / end, with malformed percent triplets, with more than 180
//     list-members but at most 180 distinct keys, or with anything else outside
//     the grammar may be accepted or rejected.
//   - Which headers Parse must REJECT: longer than 8192 bytes; a list-member
//     longer than 4096 bytes even after trimming its OWS; more than 180
//     distinct keys.
//   - Percent-decoded bytes that are not UTF-8 must come out as U+FFFD, but
//     the statement does not say how many replacement characters a run of
//     invalid bytes yields: runs of U+FFFD are collapsed before comparing.
//   - SetMember enforces no limits; none is asserted on its results.
//   - Extract with a header that parses replaces the baggage of the context;
//     this is asserted only for a parent context without baggage. A header
//     that does not parse must leave the parent's baggage in place.
//   - Contexts that went through the hook installers of internal/baggage
//     (ContextWithSetHook / ContextWithGetHook, the OpenTracing bridge's entry
//     points) are contexts like any other: with pass-through hooks, what is
//     stored in them or extracted into them must be what they return, and later
//     edits must not change it. What the installer itself leaves in the derived
//     context, and whether / with which arguments the hooks are called, is only
//     recorded (class labels), not asserted.
//   - A Member read from a Baggage (Member / Members) is a member like any
//     other: setting it on another value or handing it to New must work
//     (Member of an absent key is documented to be the zero Member, which
//     SetMember documents as an error).
//   - Optional whitespace inside a list-member (around "=" and ";") is part of
//     the list-member (W3C grammar) and counts towards its 4096 bytes; only the
//     whitespace at its outer ends belongs to the list separator.
package c11

import (
	"context"
	"encoding/json"
	"fmt"
	"hash/fnv"
	"net/http"
	"os"
	"sort"
	"strings"
	"sync"
	"unicode/utf8"

	"go.opentelemetry.io/otel/baggage"
	"go.opentelemetry.io/otel/propagation"
)

// The three limits of the W3C baggage specification (section "Limits":
// 180 list-members, 4096 bytes per list-member, 8192 bytes in total), which
// the property statement repeats.
const (
	limMembers     = 180
	limMemberBytes = 4096
	limTotalBytes  = 8192
)

// tokenChars are the tchar of RFC 7230 section 3.2.6 (the W3C baggage key).
const tokenChars = "!#$%&'*+-.^_`|~0123456789abcdefghijklmnopqrstuvwxyzABCDEFGHIJKLMNOPQRSTUVWXYZ"

func isTokenChar(c byte) bool { return c < 0x80 && strings.IndexByte(tokenChars, c) >= 0 }

func isToken(s string) bool {
	if s == "" {
		return false
	}
	for i := 0; i < len(s); i++ {
		if !isTokenChar(s[i]) {
			return false
		}
	}
	return true
}

// isBaggageOctet is the W3C definition:
// baggage-octet = %x21 / %x23-2B / %x2D-3A / %x3C-5B / %x5D-7E.
func isBaggageOctet(c byte) bool {
	return c == 0x21 || (c >= 0x23 && c <= 0x2B) || (c >= 0x2D && c <= 0x3A) || (c >= 0x3C && c <= 0x5B) || (c >= 0x5D && c <= 0x7E)
}

func isHex(c byte) bool {
	return (c >= '0' && c <= '9') || (c >= 'a' && c <= 'f') || (c >= 'A' && c <= 'F')
}

func unhex(c byte) byte {
	switch {
	case c >= '0' && c <= '9':
		return c - '0'
	case c >= 'a' && c <= 'f':
		return c - 'a' + 10
	default:
		return c - 'A' + 10
	}
}

// refEscapedLen is the length of s when every byte outside the baggage-octet
// range and every '%' is written as a %XX triplet (the minimal encoding the
// W3C specification asks for). Only the generators use it, to aim at the
// size boundaries; no verdict depends on it.
func refEscapedLen(s string) int {
	n := 0
	for i := 0; i < len(s); i++ {
		if isBaggageOctet(s[i]) && s[i] != '%' {
			n++
		} else {
			n += 3
		}
	}
	return n
}

// ---------------------------------------------------------------------
// model of a baggage value

type mprop struct {
	K, V string
	Has  bool
}

type mmember struct {
	K, V  string
	Props []mprop
}

// model is key -> member (no duplicates, order irrelevant).
type model map[string]mmember

func (m mmember) render() string {
	var sb strings.Builder
	fmt.Fprintf(&sb, "%q=%q", m.K, m.V)
	for _, p := range m.Props {
		if p.Has {
			fmt.Fprintf(&sb, ";%q=%q", p.K, p.V)
		} else {
			fmt.Fprintf(&sb, ";%q", p.K)
		}
	}
	return sb.String()
}

func (m model) render() []string {
	out := make([]string, 0, len(m))
	for _, mm := range m {
		out = append(out, mm.render())
	}
	sort.Strings(out)
	return out
}

func (m model) clone() model {
	c := make(model, len(m))
	for k, v := range m {
		c[k] = v // members are never written after construction
	}
	return c
}

func (m mmember) equal(o mmember) bool {
	if m.K != o.K || m.V != o.V || len(m.Props) != len(o.Props) {
		return false
	}
	for i, p := range m.Props {
		if p != o.Props[i] {
			return false
		}
	}
	return true
}

func (m model) equal(o model) bool {
	if len(m) != len(o) {
		return false
	}
	for k, mm := range m {
		om, ok := o[k]
		if !ok || !mm.equal(om) {
			return false
		}
	}
	return true
}

// mdiff names the first difference between two models.
func mdiff(got, want model) string { return diff(got.render(), want.render()) }

func fromMember(m baggage.Member) mmember {
	mm := mmember{K: m.Key(), V: m.Value()}
	for _, p := range m.Properties() {
		v, has := p.Value()
		mm.Props = append(mm.Props, mprop{K: p.Key(), V: v, Has: has})
	}
	return mm
}

// observe reads a baggage value through every accessor and reports
// accessors that disagree with each other.
func observe(b baggage.Baggage) (model, []string) {
	var problems []string
	ms := b.Members()
	got := make(model, len(ms))
	for _, m := range ms {
		if _, dup := got[m.Key()]; dup {
			problems = append(problems, fmt.Sprintf("Members() lists key %q twice", m.Key()))
		}
		got[m.Key()] = fromMember(m)
	}
	if b.Len() != len(ms) {
		problems = append(problems, fmt.Sprintf("Len() = %d but Members() has %d entries", b.Len(), len(ms)))
	}
	for k, mm := range got {
		if one := fromMember(b.Member(k)); !one.equal(mm) {
			problems = append(problems, fmt.Sprintf("Member(%q) = %s but Members() has %s", k, one.render(), mm.render()))
		}
	}
	// "If there is no list-member matching the passed key the returned Member
	// will be a zero-value Member."
	for _, k := range []string{"", "no.such.key", "\x00"} {
		if _, present := got[k]; present {
			continue
		}
		if m := b.Member(k); m.Key() != "" || m.Value() != "" || len(m.Properties()) != 0 || m.String() != "" {
			problems = append(problems, fmt.Sprintf("Member(%q) of a baggage without that key = %s, not the zero Member", k, fromMember(m).render()))
		}
	}
	return got, problems
}

func short(s string) string {
	if len(s) > 300 {
		return fmt.Sprintf("%s…(%d bytes)…%s", s[:140], len(s), s[len(s)-100:])
	}
	return s
}

func shortList(l []string) string {
	if len(l) > 6 {
		return fmt.Sprintf("%d members, first %s", len(l), short(strings.Join(l[:3], " , ")))
	}
	return short(strings.Join(l, " , "))
}

// diff names the first difference between two rendered models.
func diff(got, want []string) string {
	gs, ws := map[string]bool{}, map[string]bool{}
	for _, g := range got {
		gs[g] = true
	}
	for _, w := range want {
		ws[w] = true
	}
	for _, g := range got {
		if !ws[g] {
			for _, w := range want {
				if !gs[w] {
					return fmt.Sprintf("got %s, want %s (%d vs %d members)", short(g), short(w), len(got), len(want))
				}
			}
			return fmt.Sprintf("unexpected member %s (%d vs %d members)", short(g), len(got), len(want))
		}
	}
	for _, w := range want {
		if !gs[w] {
			return fmt.Sprintf("missing member %s (%d vs %d members)", short(w), len(got), len(want))
		}
	}
	return fmt.Sprintf("%d vs %d members", len(got), len(want))
}

// canonicalSizes returns the size of the serialised form of b and of its
// largest member, as the implementation emits them.
func canonicalSizes(b baggage.Baggage) (total, maxMember int) {
	total = len(b.String())
	for _, m := range b.Members() {
		if n := len(m.String()); n > maxMember {
			maxMember = n
		}
	}
	return total, maxMember
}

// injectExtract sends b through the propagator. The carrier is not always
// brand new: depending on a hash of b (so that a case stays reproducible) it
// is a fresh MapCarrier, a MapCarrier or http.Header that already holds a
// stale baggage header, or a carrier another baggage was injected into just
// before; and the context handed to Extract may already hold another
// baggage. Inject replaces the header and Extract replaces the baggage, so
// the result must be b in every variant. (An empty b writes no header at
// all; it only gets the fresh carrier.)
func injectExtract(b baggage.Baggage) (baggage.Baggage, string) {
	h := fnv.New32a()
	_, _ = h.Write([]byte(b.String()))
	variant := int(h.Sum32() % 5)
	if b.Len() == 0 {
		variant = 0
	}
	var carrier propagation.TextMapCarrier = propagation.MapCarrier{}
	base := context.Background()
	stale, _ := baggage.Parse("stale=1;p=q,verif.old=2")
	switch variant {
	case 1:
		carrier.Set("baggage", "stale=1;p=q,verif.old=2")
	case 2:
		carrier = propagation.HeaderCarrier(http.Header{})
		carrier.Set("baggage", "stale=1;p=q,verif.old=2")
	case 3:
		propagation.Baggage{}.Inject(baggage.ContextWithBaggage(context.Background(), stale), carrier)
	case 4:
		base = baggage.ContextWithBaggage(base, stale)
	}
	propagation.Baggage{}.Inject(baggage.ContextWithBaggage(context.Background(), b), carrier)
	ctx := propagation.Baggage{}.Extract(base, carrier)
	return baggage.FromContext(ctx), carrier.Get("baggage")
}

// ---------------------------------------------------------------------
// known findings (shared between the vk specs and the fuzz target)

const knownCanonicalOverLimit = "baggage_canonical_form_over_limit"

var (
	openOnce sync.Once
	openSet  map[string]bool
)

// openMatchers reads the committed known-findings file the way vk does
// (VERIF_KNOWN); only the fuzz target needs it, vk.Run does its own matching.
func openMatchers() map[string]bool {
	openOnce.Do(func() {
		openSet = map[string]bool{}
		b, err := os.ReadFile(os.Getenv("VERIF_KNOWN"))
		if err != nil {
			return
		}
		var kf struct {
			Findings []struct {
				Property, Status, Matcher string
			} `json:"findings"`
		}
		if json.Unmarshal(b, &kf) != nil {
			return
		}
		for _, k := range kf.Findings {
			if k.Property == "C11" && k.Status == "open" {
				openSet[k.Matcher] = true
			}
		}
	})
	return openSet
}

func validUTF8(s string) bool { return utf8.ValidString(s) }
