package c11

import (
	"strconv"
	"strings"
	"testing"

	"go.opentelemetry.io/otel/verif/internal/vk"
)

// fuzzSeeds: the inputs of the repository's own tables
// (baggage/baggage_test.go TestBaggageParse, TestBaggageParseValue,
// TestParseProperty; propagation/baggage_test.go) and hostile constants.
func fuzzSeeds() []string {
	seeds := []string{
		"", "foo=", "foo=1", "foo=1+1", "foo=1%2B1", "foo=1/1", "foo=1%2F1", "foo=1=1", "foo=1%3D1",
		" foo \t= 1\t\t ", "foo=;state=on;red", "foo=1;state=on;red", "foo=0=0=0",
		"foo=1;state=on;red,bar=2;yellow", "foo=1;state=on;red,foo=2", "key==", "key1=val%252%2C",
		"key1=;bar=val%252%2C", "foo=%C4%85%C5%9B%C4%87", "a=b,%C4%85%C5%9B%C4%87=%C4%85%C5%9B%C4%87",
		"a=b,%C4%85%C5%9B%C4%87=%C4%85%C5%9B%C4%87;%C4%85%C5%9B%C4%87=%C4%85%C5%9B%C4%87",
		"foo=,,bar=", "=foo", "foo", "\\=value", "foo=\\", "key1=val%", "foo=1;=v", "foo=1;key\\=v",
		"foo=1;key=\\", "foo=1;key=val%", "k=aa%ffcc;p=d%fff", "k=aa%26cc", "k=aa%ffcc", "k=aa%ffcc%fedd%fa", "k=aacc",
		"key", "key=", "key=value", " key=value ", "key = value", " key = value ", "\tkey=value",
		"key1=val1,key2=val2", "key1 =   val1,  key2 =val2   ", "key1=val1,key2=val2;prop=1",
		"key1=val1,key2=val2,a,val3", "key1=,key2=val2", "key1=val%252", "header1",
		// hostile constants
		"k=v;", "k=v;;p", "k=v; ;p", "k= v", "k\n=v", "k= v", "k=%zz", "k=%", "k=%C3%28", "k=%E2%82", "k=v,", ",k=v",
		"k=v;p=\"a\"", "k=v;p;p=1;p", "k=a b", "k=\xff", "\xff=v", "k=v;\xc3=1", "a=1,a=2,a=3;p", "a=1;x,b=2,a=;y=%FF",
		"k=%EF%BF%BD", "k=%ED%A0%80", "k=%F4%90%80%80", "k=%00", "k=%2c%3b%3d%25%20", "%=%", "k==;==", "k=v;p= = ",
		"!#$%&'*+-.^_`|~=!#$%&'()*+-./:<=>?@[]^_`{|}~", "k=\"v\"", "k=v\\", "k=\x7f", "k=é", "k=😀", ";", ",", "=", "%", " ",
	}
	long := func(n int) string { return strings.Repeat("x", n) }
	seeds = append(seeds,
		"k="+long(4094), "k="+long(4095), "k="+long(4090)+";p=1,j="+long(4000),
		"a="+long(4000)+",b="+long(4000)+",c="+long(180), "a="+long(4000)+",b="+long(4000)+",c="+long(187),
		"k="+strings.Repeat("%FF", 455), "k="+strings.Repeat("%FF", 456), "k="+strings.Repeat("%C3%28", 500),
		"a="+strings.Repeat("%FF", 400)+",b="+strings.Repeat("%FF", 400)+",c="+strings.Repeat("%FF", 400),
	)
	for _, n := range []int{179, 180, 181} {
		ms := make([]string, n)
		for i := range ms {
			ms[i] = "a" + strconv.Itoa(i) + "="
		}
		seeds = append(seeds, strings.Join(ms, ","), strings.Join(ms, ",")+",a0=dup")
	}
	return seeds
}

// FuzzParse runs the header_parse oracle under go's native fuzzer.
func FuzzParse(f *testing.F) {
	for _, s := range fuzzSeeds() {
		f.Add(s)
	}
	open := openMatchers()
	f.Fuzz(func(t *testing.T, h string) {
		vs, _ := checkHeader(h, 1+len(h)%2)
		var left []vk.Violation
		for _, v := range vs {
			known := false
			for name := range open {
				known = known || knownForHeader(name, h, v)
			}
			if !known {
				left = append(left, v)
			}
		}
		if len(left) > 0 {
			t.Fatalf("%d violation(s), first: %s: %s", len(left), left[0].Kind, left[0].Msg)
		}
	})
}
