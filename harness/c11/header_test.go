package c11

import (
	"context"
	"fmt"
	"strconv"
	"strings"
	"testing"
	"unicode/utf8"

	"go.opentelemetry.io/otel/baggage"
	"go.opentelemetry.io/otel/propagation"
	"go.opentelemetry.io/otel/verif/internal/vk"
	"pgregory.net/rapid"
)

// ---------------------------------------------------------------------
// reference parser of the W3C baggage header grammar
//
//	baggage-string = list-member 0*179( OWS "," OWS list-member )
//	list-member    = key OWS "=" OWS value *( OWS ";" OWS property )
//	property       = key OWS "=" OWS value / key OWS
//	key            = token            (RFC 7230 tchar)
//	value          = *baggage-octet   (percent-encoded UTF-8)
//	OWS            = *( SP / HTAB )

type refProp struct {
	key, raw string
	has      bool
}

type refMember struct {
	key, raw string
	props    []refProp
}

type refHeader struct {
	segs       []string // the header split at ","
	wellFormed bool     // every list-member matches the grammar (OWS at the outer ends tolerated)
	strict     bool     // wellFormed and the header neither starts nor ends with OWS
	members    []refMember
	maxTrimmed int // longest list-member, its OWS trimmed
	maxRaw     int // longest list-member as it stands between the commas
}

func isOWS(c byte) bool { return c == ' ' || c == '\t' }

func trimOWS(s string) string {
	for len(s) > 0 && isOWS(s[0]) {
		s = s[1:]
	}
	for len(s) > 0 && isOWS(s[len(s)-1]) {
		s = s[:len(s)-1]
	}
	return s
}

// validRawValue: baggage-octets only, every '%' starts a %XX triplet.
func validRawValue(s string) bool {
	for i := 0; i < len(s); i++ {
		if !isBaggageOctet(s[i]) {
			return false
		}
		if s[i] == '%' {
			if i+2 >= len(s) || !isHex(s[i+1]) || !isHex(s[i+2]) {
				return false
			}
		}
	}
	return true
}

func decodeRaw(s string) []byte {
	out := make([]byte, 0, len(s))
	for i := 0; i < len(s); i++ {
		if s[i] == '%' && i+2 < len(s) {
			out = append(out, unhex(s[i+1])<<4|unhex(s[i+2]))
			i += 2
		} else {
			out = append(out, s[i])
		}
	}
	return out
}

func refParseMember(seg string) (refMember, bool) {
	var m refMember
	parts := strings.Split(trimOWS(seg), ";")
	kv := parts[0]
	i := strings.IndexByte(kv, '=')
	if i < 0 {
		return m, false
	}
	m.key = trimOWS(kv[:i])
	m.raw = trimOWS(kv[i+1:])
	if !isToken(m.key) || !validRawValue(m.raw) {
		return m, false
	}
	for _, p := range parts[1:] {
		p = trimOWS(p)
		j := strings.IndexByte(p, '=')
		if j < 0 {
			if !isToken(p) {
				return m, false
			}
			m.props = append(m.props, refProp{key: p})
			continue
		}
		rp := refProp{key: trimOWS(p[:j]), raw: trimOWS(p[j+1:]), has: true}
		if !isToken(rp.key) || !validRawValue(rp.raw) {
			return m, false
		}
		m.props = append(m.props, rp)
	}
	return m, true
}

func refParse(h string) refHeader {
	r := refHeader{segs: strings.Split(h, ",")}
	r.wellFormed = h != ""
	for _, seg := range r.segs {
		if len(seg) > r.maxRaw {
			r.maxRaw = len(seg)
		}
		if n := len(trimOWS(seg)); n > r.maxTrimmed {
			r.maxTrimmed = n
		}
		if !r.wellFormed {
			continue
		}
		m, ok := refParseMember(seg)
		if !ok {
			r.wellFormed = false
			r.members = nil
			continue
		}
		r.members = append(r.members, m)
	}
	r.strict = r.wellFormed && !isOWS(h[0]) && !isOWS(h[len(h)-1])
	return r
}

// owsRun is the length of the longest run of SP / HTAB in s.
func owsRun(s string) int {
	best, cur := 0, 0
	for i := 0; i < len(s); i++ {
		if isOWS(s[i]) {
			cur++
			if cur > best {
				best = cur
			}
		} else {
			cur = 0
		}
	}
	return best
}

// collapse merges runs of U+FFFD into one.
func collapse(s string) string {
	const rep = "\uFFFD"
	for strings.Contains(s, rep+rep) {
		s = strings.ReplaceAll(s, rep+rep, rep)
	}
	return s
}

// sameDecoded compares what the parser returned for a raw value with the
// reference decoding: exact when the decoded bytes are UTF-8, modulo the
// number of replacement characters per invalid run otherwise.
func sameDecoded(raw string, got string) bool {
	dec := decodeRaw(raw)
	if utf8.Valid(dec) {
		return string(dec) == got
	}
	return utf8.ValidString(got) && collapse(strings.ToValidUTF8(string(dec), "\uFFFD")) == collapse(got)
}

func hasBadUTF8(raw string) bool { return !utf8.Valid(decodeRaw(raw)) }

// matchesRef compares an observed member with a reference list-member.
func matchesRef(got mmember, rm refMember) bool {
	if got.K != rm.key || !sameDecoded(rm.raw, got.V) || len(got.Props) != len(rm.props) {
		return false
	}
	for i, rp := range rm.props {
		gp := got.Props[i]
		if gp.K != rp.key || gp.Has != rp.has {
			return false
		}
		if rp.has && !sameDecoded(rp.raw, gp.V) {
			return false
		}
		if !rp.has && gp.V != "" {
			return false
		}
	}
	return true
}

func (rm refMember) String() string {
	var sb strings.Builder
	fmt.Fprintf(&sb, "%q=decode(%q)", rm.key, short(rm.raw))
	for _, p := range rm.props {
		if p.has {
			fmt.Fprintf(&sb, ";%q=decode(%q)", p.key, short(p.raw))
		} else {
			fmt.Fprintf(&sb, ";%q", p.key)
		}
	}
	return sb.String()
}

// ---------------------------------------------------------------------
// the oracle for one header string (shared with FuzzParse)

func priorBaggage(kind int) (baggage.Baggage, bool) {
	switch kind {
	case 1:
		m, _ := baggage.NewMemberRaw("prior", "1")
		b, _ := baggage.New(m)
		return b, true
	case 2:
		p1, _ := baggage.NewKeyProperty("flag")
		p2, _ := baggage.NewKeyValuePropertyRaw("q", "a;b")
		m1, _ := baggage.NewMemberRaw("a", "from, the parent", p1, p2)
		m2, _ := baggage.NewMemberRaw("k", "%")
		b, _ := baggage.New(m1, m2)
		return b, true
	}
	return baggage.Baggage{}, false
}

// hasEmptyProperty: some list-member of the header carries an empty property
// ("k=v;;p", "k=v;"), which is outside the grammar but tolerated by Parse.
func hasEmptyProperty(h string) bool {
	for _, seg := range strings.Split(h, ",") {
		parts := strings.Split(seg, ";")
		for _, p := range parts[1:] {
			if p == "" {
				return true
			}
		}
	}
	return false
}

func checkHeader(h string, prior int) ([]vk.Violation, vk.Info) {
	var vs []vk.Violation
	var info vk.Info
	bad := func(kind, format string, a ...any) { vs = append(vs, vk.V(kind, format, a...)) }

	ref := refParse(h)
	distinct := map[string]int{} // key -> index of the last list-member with it
	for i, m := range ref.members {
		distinct[m.key] = i
	}
	dups := ref.wellFormed && len(distinct) < len(ref.members)
	tooLong := len(h) > limTotalBytes
	memberTooLong := ref.maxTrimmed > limMemberBytes
	tooMany := ref.wellFormed && len(distinct) > limMembers
	mustAccept := ref.strict && !tooLong && ref.maxRaw <= limMemberBytes && len(ref.segs) <= limMembers

	info.NonTrivial = len(ref.segs) >= 2 || strings.Contains(h, "%")
	info.ClassIf(ref.wellFormed, "well_formed")
	info.ClassIf(ref.strict, "strictly_valid")
	info.ClassIf(mustAccept, "must_accept")
	info.ClassIf(tooLong, "over_8192")
	info.ClassIf(memberTooLong, "member_over_4096")
	info.ClassIf(tooMany, "over_180_distinct")
	info.ClassIf(dups, "duplicate_keys")
	info.ClassIf(strings.Contains(h, "%"), "percent")
	info.ClassIf(ref.wellFormed && len(h) == limTotalBytes, "exactly_8192_bytes")
	info.ClassIf(ref.wellFormed && len(h) == limTotalBytes+1, "8193_bytes")
	info.ClassIf(ref.wellFormed && ref.maxRaw == limMemberBytes, "member_exactly_4096")
	info.ClassIf(ref.wellFormed && ref.maxRaw == limMemberBytes+1, "member_4097")
	info.ClassIf(ref.wellFormed && len(distinct) == limMembers, "exactly_180_distinct")
	info.ClassIf(ref.wellFormed && len(distinct) == limMembers+1, "181_distinct")
	info.ClassIf(ref.wellFormed && len(ref.segs) > limMembers && len(distinct) <= limMembers, "over_180_members_but_not_distinct")
	badEsc := false
	if ref.wellFormed {
		for _, m := range ref.members {
			badEsc = badEsc || hasBadUTF8(m.raw)
			for _, p := range m.props {
				badEsc = badEsc || hasBadUTF8(p.raw)
			}
		}
	}
	info.ClassIf(badEsc, "escapes_not_utf8")
	longOWS, longInnerOWS, otherOctet, lowerHexEsc := false, false, false, false
	for _, seg := range ref.segs {
		longOWS = longOWS || owsRun(seg) >= 64
		longInnerOWS = longInnerOWS || owsRun(trimOWS(seg)) >= 64
	}
	for _, m := range ref.members {
		raws := []string{m.raw}
		for _, p := range m.props {
			raws = append(raws, p.raw)
		}
		for _, raw := range raws {
			for i := 0; i < len(raw); i++ {
				otherOctet = otherOctet || (raw[i] != 'x' && raw[i] != '%' && !isHex(raw[i]) && strings.IndexByte(safeValueChars, raw[i]) < 0)
				lowerHexEsc = lowerHexEsc || (raw[i] == '%' && i+2 < len(raw) && (raw[i+1] >= 'a' || raw[i+2] >= 'a'))
			}
		}
	}
	info.ClassIf(longOWS, "ows_run_of_64_or_more")
	info.ClassIf(longInnerOWS, "ows_run_of_64_or_more_inside_a_list_member")
	info.ClassIf(longInnerOWS && ref.wellFormed && ref.maxTrimmed > limMemberBytes, "member_over_4096_by_inner_ows")
	info.ClassIf(longInnerOWS && mustAccept, "must_accept_with_long_inner_ows")
	info.ClassIf(otherOctet, "value_octet_outside_short_alphabet")
	info.ClassIf(lowerHexEsc, "lower_case_hex_escape")
	info.ClassIf(!utf8.ValidString(h), "header_not_utf8")

	b, err := baggage.Parse(h)

	// Extract must agree with Parse, and leave the parent alone on failure.
	pb, hasPrior := priorBaggage(prior)
	parent := context.Background()
	if hasPrior {
		parent = baggage.ContextWithBaggage(parent, pb)
	}
	pm, _ := observe(pb)
	ectx := propagation.Baggage{}.Extract(parent, propagation.MapCarrier{"baggage": h})
	em, _ := observe(baggage.FromContext(ectx))
	if after, _ := observe(baggage.FromContext(parent)); !after.equal(pm) {
		bad("extract_changes_parent", "the parent context's baggage changed under Extract: %s", mdiff(after, pm))
	}

	if err != nil {
		info.Class("rejected")
		if mustAccept {
			bad("valid_header_rejected", "Parse rejects a header that matches the W3C grammar and is within the limits (%d bytes, %d list-members, longest %d): %v; header %q", len(h), len(ref.segs), ref.maxRaw, err, short(h))
		}
		if !em.equal(pm) {
			bad("failed_extract_changes_context", "Parse fails (%v) but Extract returned a context whose baggage differs from the parent's: %s", err, mdiff(em, pm))
		}
		return vs, info
	}
	info.Class("accepted")
	info.ClassIf(!ref.wellFormed && h != "", "accepted_outside_grammar")

	if tooLong {
		bad("over_8192_accepted", "Parse accepted a header of %d bytes", len(h))
	}
	if memberTooLong {
		bad("member_over_4096_accepted", "Parse accepted a header with a list-member of %d bytes (OWS trimmed)", ref.maxTrimmed)
	}
	if tooMany {
		bad("over_180_accepted", "Parse accepted a header with %d distinct keys", len(distinct))
	}
	if b.Len() > limMembers {
		bad("len_over_180", "Parse returned a baggage with Len() = %d", b.Len())
	}
	got, problems := observe(b)
	for _, p := range problems {
		bad("accessors_disagree", "%s", p)
	}
	for _, mm := range got {
		if !utf8.ValidString(mm.V) {
			bad("value_not_utf8", "member %q has value %q", mm.K, short(mm.V))
		}
		for _, p := range mm.Props {
			if !utf8.ValidString(p.V) {
				bad("property_value_not_utf8", "member %q property %q has value %q", mm.K, p.K, short(p.V))
			}
		}
	}
	info.ClassIf(hasEmptyProperty(h), "accepted_with_empty_property")

	// against the reference (includes last-one-wins)
	if ref.wellFormed {
		if len(got) != len(distinct) {
			bad("parse_differs_from_reference", "Parse returned %d members, the header has %d distinct keys; header %q", len(got), len(distinct), short(h))
		} else {
			for k, last := range distinct {
				g, ok := got[k]
				if ok && matchesRef(g, ref.members[last]) {
					continue
				}
				kind := "parse_differs_from_reference"
				for i, m := range ref.members {
					if i != last && m.key == k && ok && matchesRef(g, m) {
						kind = "duplicate_key_not_last"
					}
				}
				bad(kind, "key %q: Parse gives %s, the last list-member with that key is %s; header %q", k, short(g.render()), ref.members[last].String(), short(h))
				break
			}
		}
	}

	// the canonical form is a fixed point, provided it is within the limits
	canon := b.String()
	total, maxMember := canonicalSizes(b)
	if total > limTotalBytes || maxMember > limMemberBytes {
		info.Class("canonical_form_over_limit")
		bad("canonical_form_over_limit", "Parse accepted a %d-byte header (longest list-member %d) whose own String() has %d bytes, longest list-member %d bytes: it exceeds the limits and Parse rejects it", len(h), ref.maxRaw, total, maxMember)
	} else {
		b2, err := baggage.Parse(canon)
		if err != nil {
			bad("canonical_form_rejected", "Parse(b.String()) fails: %v; header %q, String() %q", err, short(h), short(canon))
		} else {
			m2, _ := observe(b2)
			if !m2.equal(got) {
				bad("not_fixed_point", "Parse(b.String()) != b: %s; header %q, String() %q", mdiff(m2, got), short(h), short(canon))
			}
		}
	}

	if h != "" && !hasPrior {
		if !em.equal(got) {
			bad("extract_differs_from_parse", "Extract into an empty context gives another baggage than Parse: %s", mdiff(em, got))
		}
	}
	return vs, info
}

// known-finding predicates on a header -------------------------------

// canonicalOverLimit: Parse accepts h and the canonical form of the result
// is over 8192 bytes or has a member over 4096 bytes.
func canonicalOverLimit(h string) bool {
	b, err := baggage.Parse(h)
	if err != nil {
		return false
	}
	total, maxMember := canonicalSizes(b)
	return total > limTotalBytes || maxMember > limMemberBytes
}

func knownForHeader(name string, h string, v vk.Violation) bool {
	switch name {
	case knownCanonicalOverLimit:
		return v.Kind == "canonical_form_over_limit" && canonicalOverLimit(h)
	}
	return false
}

// ---------------------------------------------------------------------
// cases

// Seg is a piece of the header: Head + Pad×N + "x"×Fill + Tail, emitted once
// (Count == 0) or Count times with a running number after Head.
type Seg struct {
	Head  vk.Str `json:"head"`
	Pad   vk.Str `json:"pad,omitempty"`
	N     int    `json:"n,omitempty"`
	Fill  int    `json:"fill,omitempty"`
	Tail  vk.Str `json:"tail,omitempty"`
	Count int    `json:"count,omitempty"`
}

func clamp(n, max int) int {
	if n < 0 {
		return 0
	}
	if n > max {
		return max
	}
	return n
}

func (s Seg) body() string {
	return strings.Repeat(string(s.Pad), clamp(s.N, 20000)) + strings.Repeat("x", clamp(s.Fill, 20000)) + string(s.Tail)
}

func (s Seg) size() int {
	n := len(s.Head) + len(s.Pad)*clamp(s.N, 20000) + clamp(s.Fill, 20000) + len(s.Tail)
	if s.Count <= 0 {
		return n
	}
	total := 0
	for i := 0; i < clamp(s.Count, 2000); i++ {
		total += n + len(strconv.Itoa(i))
	}
	return total + clamp(s.Count, 2000) - 1
}

// CaseB is one header (the segments joined with ",") and the kind of
// baggage the parent context of Extract holds (0 none).
type CaseB struct {
	Segs  []Seg  `json:"segs"`
	Prior int    `json:"prior"`
	Mode  string `json:"mode"`
}

func (c CaseB) header() string {
	var parts []string
	for _, s := range c.Segs {
		if s.Count <= 0 {
			parts = append(parts, string(s.Head)+s.body())
			continue
		}
		body := s.body()
		for i := 0; i < clamp(s.Count, 2000); i++ {
			parts = append(parts, string(s.Head)+strconv.Itoa(i)+body)
		}
	}
	return strings.Join(parts, ",")
}

func headerLen(segs []Seg) int {
	n := 0
	for i, s := range segs {
		if i > 0 {
			n++
		}
		n += s.size()
	}
	return n
}

// safeValueChars: a punctuation-heavy choice of baggage-octets;
// allValueChars: every baggage-octet but the percent sign.
const safeValueChars = "abzAZ09_-*/@.+~!#$&'():<=>?[]^`{|}"

var allValueChars = func() string {
	var b []byte
	for c := 0x21; c < 0x7f; c++ {
		if isBaggageOctet(byte(c)) && c != '%' {
			b = append(b, byte(c))
		}
	}
	return string(b)
}()

var (
	validEscapes   = []string{"%2C", "%3B", "%3D", "%25", "%20", "%09", "%22", "%5C", "%C3%A9", "%c3%a9", "%E4%B8%96", "%F0%9F%98%80", "%00", "%7F", "%EF%BF%BD", "%F4%8F%BF%BF", "%2c", "%41"}
	badUTF8Escapes = []string{"%FF", "%C3%28", "%E2%82", "%ED%A0%80", "%80", "%C0%AF", "%F0%9F%98", "%fe", "%C3", "%ff%ff"}
	malformedEsc   = []string{"%zz", "%", "%4", "%%", "%G1", "%1g", "%-1", "%u00e9"}
	illegalChars   = []string{" ", "\t", "\"", "\\", "é", "\xff", "\x00", "\n", "\u00a0", "\u0085", "\r", "\v", "😀", ",", ";", "\x7f", "\xc3"}
	owsChoices     = []string{"", "", "", "", " ", "\t", "  ", " \t "}
	hdrKeyPool     = []string{"a", "b", "k", "key1", "K", "%41", "a.b"}
	badKeysHdr     = []string{"", "a b", "é", "k\x00", "k\"", "(k)", "k\xff", "k:", "[k]"}
)

func genRawValue(level, maxAtoms int) *rapid.Generator[string] {
	return rapid.Custom(func(t *rapid.T) string {
		n := rapid.IntRange(0, maxAtoms).Draw(t, "atoms")
		var sb strings.Builder
		for i := 0; i < n; i++ {
			k := rapid.IntRange(0, 9).Draw(t, "atom")
			switch {
			case k <= 3 || (k >= 8 && level < 3) || (k == 7 && level < 2) || (k == 6 && level < 1):
				if rapid.Bool().Draw(t, "anyoctet") {
					sb.WriteByte(allValueChars[rapid.IntRange(0, len(allValueChars)-1).Draw(t, "c")])
				} else {
					sb.WriteByte(safeValueChars[rapid.IntRange(0, len(safeValueChars)-1).Draw(t, "c")])
				}
			case k == 5 && rapid.Bool().Draw(t, "enctext"):
				// some encoding (minimal, full or in between, either hex case) of arbitrary text
				sb.WriteString(genEnc().Draw(t, "enc").encode(genValue(3).Draw(t, "text")))
			case k <= 5:
				sb.WriteString(rapid.SampledFrom(validEscapes).Draw(t, "esc"))
			case k == 6:
				sb.WriteString(rapid.SampledFrom(badUTF8Escapes).Draw(t, "besc"))
			case k == 7:
				sb.WriteString(rapid.SampledFrom(malformedEsc).Draw(t, "mesc"))
			default:
				sb.WriteString(rapid.SampledFrom(illegalChars).Draw(t, "ill"))
			}
		}
		return sb.String()
	})
}

func genHdrKey(level int) *rapid.Generator[string] {
	return rapid.Custom(func(t *rapid.T) string {
		if level >= 3 && rapid.IntRange(0, 9).Draw(t, "badkey") == 0 {
			return rapid.SampledFrom(badKeysHdr).Draw(t, "bk")
		}
		if rapid.IntRange(0, 1).Draw(t, "pool") == 0 {
			return rapid.SampledFrom(hdrKeyPool).Draw(t, "k")
		}
		return genToken(12).Draw(t, "tok")
	})
}

func genOWS() *rapid.Generator[string] { return rapid.SampledFrom(owsChoices) }

// genHdrMember draws the text of one list-member split in (head, tail):
// head ends with the value so that padding can extend it.
func genHdrMember(level int) *rapid.Generator[[2]string] {
	return rapid.Custom(func(t *rapid.T) [2]string {
		ows := genOWS()
		var head, tail strings.Builder
		head.WriteString(ows.Draw(t, "l1"))
		head.WriteString(genHdrKey(level).Draw(t, "key"))
		head.WriteString(ows.Draw(t, "l2"))
		if !(level >= 3 && rapid.IntRange(0, 14).Draw(t, "noeq") == 0) {
			head.WriteString("=")
		}
		head.WriteString(ows.Draw(t, "l3"))
		head.WriteString(genRawValue(level, 8).Draw(t, "val"))
		tail.WriteString(ows.Draw(t, "l4"))
		np := rapid.SampledFrom([]int{0, 0, 0, 1, 1, 2, 3}).Draw(t, "np")
		var pkeys []string
		for i := 0; i < np; i++ {
			tail.WriteString(";")
			if level >= 3 && rapid.IntRange(0, 7).Draw(t, "emptyprop") == 0 {
				tail.WriteString(rapid.SampledFrom([]string{"", "", " ", "=v", "p=a b", "p q"}).Draw(t, "ep"))
				continue
			}
			tail.WriteString(ows.Draw(t, "p1"))
			pk := genHdrKey(level).Draw(t, "pk")
			if len(pkeys) > 0 && rapid.IntRange(0, 2).Draw(t, "duppk") == 0 {
				pk = pkeys[0]
			}
			pkeys = append(pkeys, pk)
			tail.WriteString(pk)
			tail.WriteString(ows.Draw(t, "p2"))
			if rapid.IntRange(0, 2).Draw(t, "pkind") > 0 {
				tail.WriteString("=")
				tail.WriteString(ows.Draw(t, "p3"))
				tail.WriteString(genRawValue(level, 5).Draw(t, "pv"))
				tail.WriteString(ows.Draw(t, "p4"))
			}
		}
		return [2]string{head.String(), tail.String()}
	})
}

func trimLeftOWS(s string) string {
	for len(s) > 0 && isOWS(s[0]) {
		s = s[1:]
	}
	return s
}

func trimRightOWS(s string) string {
	for len(s) > 0 && isOWS(s[len(s)-1]) {
		s = s[:len(s)-1]
	}
	return s
}

var hdrPads = []string{"x", "x", "=", "%2C", "%C3%A9", "%41", "%F0%9F%98%80"}
var growPads = []string{"%FF", "%C3%28", "%E2%82", "%80", "%ff"}

func genB(t *rapid.T) CaseB {
	c := CaseB{Prior: rapid.SampledFrom([]int{0, 0, 1, 2}).Draw(t, "prior")}
	mode := rapid.SampledFrom([]string{"small", "small", "small", "small", "dup", "count", "member", "total", "grow", "hostile", "hostile", "near", "seed", "owspad"}).Draw(t, "mode")
	c.Mode = mode
	level := rapid.SampledFrom([]int{0, 1, 1, 2, 3}).Draw(t, "level")
	if mode == "count" || mode == "member" || mode == "total" || mode == "grow" || mode == "owspad" {
		level = rapid.SampledFrom([]int{0, 0, 1}).Draw(t, "blevel")
	}
	near := func(center int, label string) int {
		return center + rapid.SampledFrom([]int{-2, -1, 0, 0, 1, 1, 2}).Draw(t, label)
	}
	member := func(label string) Seg {
		ht := genHdrMember(level).Draw(t, label)
		return Seg{Head: vk.Str(ht[0]), Tail: vk.Str(ht[1])}
	}
	if mode == "seed" {
		// the fuzz corpus (the repository's own tables and hostile constants)
		c.Segs = []Seg{{Head: vk.Str(rapid.SampledFrom(fuzzSeeds()).Draw(t, "seed"))}}
		return c
	}
	if mode == "hostile" {
		var sb strings.Builder
		n := rapid.IntRange(0, 24).Draw(t, "hn")
		for i := 0; i < n; i++ {
			switch rapid.IntRange(0, 9).Draw(t, "hk") {
			case 0:
				sb.WriteString(rapid.SampledFrom(vk.InvalidFragments).Draw(t, "frag"))
			case 1, 2:
				sb.WriteString(rapid.SampledFrom([]string{"=", ",", ";", "%", " ", "k=v", "k=", ";p", ";p=", "%zz", "%FF", "%2C", ",,", "=;", ";;", ";=", "\t"}).Draw(t, "tok"))
			default:
				sb.WriteRune(rapid.SampledFrom(vk.HostileRunes).Draw(t, "r"))
			}
		}
		c.Segs = []Seg{{Head: vk.Str(sb.String())}}
		return c
	}
	n := rapid.IntRange(0, 5).Draw(t, "nm")
	if mode != "small" && n == 0 {
		n = 1
	}
	for i := 0; i < n; i++ {
		c.Segs = append(c.Segs, member("m"))
	}
	fixEdges := func() {
		// most headers neither start nor end with OWS (the strict grammar)
		if len(c.Segs) == 0 || rapid.IntRange(0, 5).Draw(t, "edgeows") == 0 {
			return
		}
		c.Segs[0].Head = vk.Str(trimLeftOWS(string(c.Segs[0].Head)))
		l := &c.Segs[len(c.Segs)-1]
		if l.Tail != "" {
			l.Tail = vk.Str(trimRightOWS(string(l.Tail)))
		}
		if l.Tail == "" && l.N <= 0 && l.Fill <= 0 && l.Count <= 0 {
			l.Head = vk.Str(trimRightOWS(string(l.Head)))
		}
	}
	freshKey := func(base string) string {
		h := c.header()
		for i := 0; ; i++ {
			k := base + strconv.Itoa(i)
			if !strings.Contains(h, k+"=") {
				return k
			}
		}
	}
	totalTo := func(target int, pads []string) {
		for guard := 0; guard < 12; guard++ {
			need := target - headerLen(c.Segs)
			if need <= 0 {
				return
			}
			k := freshKey("t")
			overhead := len(k) + 1
			if len(c.Segs) > 0 {
				overhead++
			}
			if need < overhead {
				// not enough room for another member: lengthen the last padded one
				for i := len(c.Segs) - 1; i >= 0; i-- {
					if c.Segs[i].Fill > 0 || c.Segs[i].N > 0 {
						c.Segs[i].Fill += need
						break
					}
				}
				return
			}
			body := need - overhead
			if max := limMemberBytes - 90 - len(k) - 1; body > max {
				body = max
				if rest := need - overhead - body; rest < 8 {
					body -= 8 // leave room for the next member's key
				}
			}
			if body < 0 {
				body = 0
			}
			p := rapid.SampledFrom(pads).Draw(t, "tpad")
			c.Segs = append(c.Segs, Seg{Head: vk.Str(k + "="), Pad: vk.Str(p), N: body / len(p), Fill: body % len(p)})
		}
	}
	switch mode {
	case "small":
	case "near":
		// a (mostly valid) header with one byte-level edit
		fixEdges()
		h := c.header()
		pos := 0
		if len(h) > 0 {
			pos = rapid.IntRange(0, len(h)).Draw(t, "pos")
		}
		ins := rapid.SampledFrom([]string{",", ";", "=", "%", " ", "\t", "\"", "\\", "\xff", "é", "\x00", "%zz", "%FF", ";;", ",,", "\n"}).Draw(t, "ins")
		switch rapid.IntRange(0, 2).Draw(t, "edit") {
		case 0:
			h = h[:pos] + ins + h[pos:]
		case 1:
			if pos < len(h) {
				h = h[:pos] + h[pos+1:]
			}
		default:
			if pos < len(h) {
				h = h[:pos] + ins + h[pos+1:]
			}
		}
		c.Segs = []Seg{{Head: vk.Str(h)}}
		return c
	case "dup":
		nd := rapid.IntRange(1, 3).Draw(t, "ndup")
		for i := 0; i < nd; i++ {
			src := string(c.Segs[rapid.IntRange(0, len(c.Segs)-1).Draw(t, "dupof")].Head)
			key := src
			if j := strings.IndexByte(src, '='); j >= 0 {
				key = src[:j]
			}
			m := member("dm")
			hd := string(m.Head)
			if j := strings.IndexByte(hd, '='); j >= 0 {
				m.Head = vk.Str(key + hd[j:])
			}
			at := rapid.IntRange(0, len(c.Segs)).Draw(t, "dupat")
			c.Segs = append(c.Segs[:at], append([]Seg{m}, c.Segs[at:]...)...)
		}
	case "count":
		target := near(limMembers, "count")
		prefix := rapid.SampledFrom([]string{"p", "m.", " k", "%", "key"}).Draw(t, "bulkprefix")
		tail := rapid.SampledFrom([]string{"=", "=v", " = v ", "=%2C", "=;p", "=1;p=2"}).Draw(t, "bulktail")
		cnt := target - len(c.Segs)
		dupSegs := rapid.IntRange(0, 3).Draw(t, "dupsegs") == 0
		bulk := Seg{Head: vk.Str(prefix), Tail: vk.Str(tail), Count: cnt}
		at := rapid.IntRange(0, len(c.Segs)).Draw(t, "bulkat")
		c.Segs = append(c.Segs[:at], append([]Seg{bulk}, c.Segs[at:]...)...)
		if dupSegs {
			// more list-members than distinct keys
			k := rapid.IntRange(1, 3).Draw(t, "ndupseg")
			for i := 0; i < k; i++ {
				c.Segs = append(c.Segs, Seg{Head: vk.Str(strings.TrimSpace(prefix) + strconv.Itoa(rapid.IntRange(0, cnt-1).Draw(t, "dupi")) + "=dup")})
			}
		}
	case "member":
		i := rapid.IntRange(0, len(c.Segs)-1).Draw(t, "big")
		s := &c.Segs[i]
		need := near(limMemberBytes, "msize") - s.size()
		p := rapid.SampledFrom(hdrPads).Draw(t, "mpad")
		s.Pad, s.N, s.Fill = vk.Str(p), need/len(p), need%len(p)
		if rapid.IntRange(0, 3).Draw(t, "alsototal") == 0 {
			totalTo(near(limTotalBytes, "tsize"), hdrPads)
		}
	case "total":
		totalTo(near(limTotalBytes, "tsize"), hdrPads)
	case "owspad":
		// one list-member with a long run of optional whitespace in one of the
		// places the grammar allows it, sized to the per-member or total limit
		pieces := []string{genHdrKey(0).Draw(t, "okey"), "=", genRawValue(level, 4).Draw(t, "oval")}
		for i, np := 0, rapid.IntRange(0, 2).Draw(t, "onp"); i < np; i++ {
			pieces = append(pieces, ";", genHdrKey(0).Draw(t, "opk"))
			if rapid.Bool().Draw(t, "opv") {
				pieces = append(pieces, "=", genRawValue(level, 3).Draw(t, "opval"))
			}
		}
		slot := rapid.IntRange(0, len(pieces)).Draw(t, "slot")
		s := Seg{Head: vk.Str(strings.Join(pieces[:slot], "")), Tail: vk.Str(strings.Join(pieces[slot:], "")), Pad: vk.Str(rapid.SampledFrom([]string{" ", " ", "\t"}).Draw(t, "opad"))}
		if rapid.IntRange(0, 2).Draw(t, "ototal") == 0 {
			// a moderate run; the rest of the header brings the total to the limit
			s.N = rapid.IntRange(1, 3000).Draw(t, "on")
			at := rapid.IntRange(0, len(c.Segs)).Draw(t, "oat")
			c.Segs = append(c.Segs[:at], append([]Seg{s}, c.Segs[at:]...)...)
			totalTo(near(limTotalBytes, "tsize"), hdrPads)
		} else {
			s.N = near(limMemberBytes, "msize") - s.size()
			at := rapid.IntRange(0, len(c.Segs)).Draw(t, "oat")
			c.Segs = append(c.Segs[:at], append([]Seg{s}, c.Segs[at:]...)...)
		}
	case "grow":
		// escapes that decode to invalid UTF-8: 3 bytes in, 9 bytes out
		p := rapid.SampledFrom(growPads).Draw(t, "gpad")
		if rapid.Bool().Draw(t, "growmember") {
			i := rapid.IntRange(0, len(c.Segs)-1).Draw(t, "big")
			c.Segs[i].Pad = vk.Str(p)
			c.Segs[i].N = rapid.IntRange(300, 1300).Draw(t, "gn")
		} else {
			totalTo(rapid.IntRange(2500, 8192).Draw(t, "gtotal"), []string{p})
		}
	}
	fixEdges()
	return c
}

func runB(c CaseB) ([]vk.Violation, vk.Info) {
	vs, info := checkHeader(c.header(), c.Prior)
	info.Class("mode_" + c.Mode)
	return vs, info
}

func TestHeaderParse(t *testing.T) {
	vk.Run(t, vk.Spec[CaseB]{
		Property: "C11", Check: "header_parse",
		Rule: "header strings: list-members generated from the W3C grammar (token keys, values over every baggage-octet, 0..3 properties, optional whitespace in every allowed place, also one run of it that brings a list-member to 4096±2 bytes or the header to 8192±2) with percent escapes that are valid (fixed ones and minimal / full / partial encodings of arbitrary text in either hex case), decode to invalid UTF-8 (%FF, %C3%28, truncated sequences) or are malformed (%zz, lone %), " +
			"illegal bytes, empty / keyless properties, repeated keys, 178..182 list-members, list-members of 4096±2 bytes, headers of 8192±2 bytes, one-byte edits of valid headers and random hostile strings; " +
			"non-trivial = the header has at least two list-members or a percent sign; distinct = distinct case encodings",
		Quick: 40000, Thorough: 400000,
		Gen: genB, Run: runB,
		Known: map[string]func(CaseB, vk.Violation) bool{
			knownCanonicalOverLimit: func(c CaseB, v vk.Violation) bool {
				return knownForHeader(knownCanonicalOverLimit, c.header(), v)
			},
		},
	})
}
