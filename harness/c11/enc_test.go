package c11

import (
	"fmt"
	"strings"
	"testing"
	"unicode/utf8"

	"go.opentelemetry.io/otel/baggage"
	"go.opentelemetry.io/otel/verif/internal/vk"
	"pgregory.net/rapid"
)

// Sub-check encoded_constructors: the percent-ENCODED constructors
// NewMember / NewKeyValueProperty next to the Raw ones.
//
// Reading of their documentation ("The passed key must be compliant with W3C
// Baggage specification. The passed value must be percent-encoded as defined
// in W3C Baggage specification", i.e. baggage-octets whose %XX triplets spell
// UTF-8):
//   - a token key with a well-formed encoding of valid UTF-8 (any mix of
//     escaped / literal baggage-octets, either hex case) MUST be accepted and
//     gives the member / property the Raw constructor builds from the text;
//   - anything else (escapes that decode to bytes that are not UTF-8,
//     malformed triplets, bytes outside the baggage-octet range, non-token
//     keys) is outside the documented input: the constructor may return an
//     error (the tree does) or a value, but never a value that is not valid
//     UTF-8, and whatever it hands out must be accepted by the other
//     constructors and survive New -> String -> Parse and Inject -> Extract
//     unchanged like any other member.

// Enc is a percent-encoding recipe: bytes that must be escaped always are;
// the others are escaped when Mode is 1 (full) or Mode is 2 and the mask bit
// of the byte position is set; the hex digits of an escape are lower case
// when the Lower bit of the position is set.
type Enc struct {
	Mode  int    `json:"mode"`
	Mask  uint64 `json:"mask"`
	Lower uint64 `json:"lower"`
}

func (e Enc) encode(s string) string {
	var sb strings.Builder
	for i := 0; i < len(s); i++ {
		c := s[i]
		bit := uint64(1) << (uint(i) % 64)
		esc := !isBaggageOctet(c) || c == '%' || e.Mode == 1 || (e.Mode == 2 && e.Mask&bit != 0)
		if !esc {
			sb.WriteByte(c)
			continue
		}
		if e.Lower&bit != 0 {
			fmt.Fprintf(&sb, "%%%02x", c)
		} else {
			fmt.Fprintf(&sb, "%%%02X", c)
		}
	}
	return sb.String()
}

// EProp is a property: Kind 0 NewKeyProperty(K); 1 NewKeyValuePropertyRaw(K, V);
// 2 NewKeyValueProperty(K, Enc.encode(V)); 3 NewKeyValueProperty(K, Verb).
type EProp struct {
	K    vk.Str `json:"k"`
	Kind int    `json:"kind"`
	V    string `json:"v,omitempty"`
	Enc  Enc    `json:"enc"`
	Verb vk.Str `json:"verb,omitempty"`
}

// EMember is a member: Kind 1 NewMemberRaw(K, V); 2 NewMember(K, Enc.encode(V));
// 3 NewMember(K, Verb).
type EMember struct {
	K     vk.Str  `json:"k"`
	Kind  int     `json:"kind"`
	V     string  `json:"v,omitempty"`
	Enc   Enc     `json:"enc"`
	Verb  vk.Str  `json:"verb,omitempty"`
	Props []EProp `json:"props,omitempty"`
}

// CaseE is a list of members handed to New.
type CaseE struct {
	Members []EMember `json:"members"`
}

func genEnc() *rapid.Generator[Enc] {
	return rapid.Custom(func(t *rapid.T) Enc {
		e := Enc{Mode: rapid.IntRange(0, 2).Draw(t, "encmode")}
		if e.Mode == 2 {
			e.Mask = rapid.Uint64().Draw(t, "mask")
		}
		switch rapid.IntRange(0, 2).Draw(t, "hexcase") {
		case 1:
			e.Lower = ^uint64(0)
		case 2:
			e.Lower = rapid.Uint64().Draw(t, "lower")
		}
		return e
	})
}

var moreBadEscapes = []string{"%80", "%BF", "%C0%80", "%E2%82", "%E2%28%A1", "%ED%A0%80", "%ED%BF%BF", "%F4%90%80%80", "%F0%9F%98", "%FF", "%fe%ff", "%C4", "%e2%82", "a%80b"}

// genVerbatim draws an encoded text that is mostly NOT a proper encoding.
func genVerbatim() *rapid.Generator[string] {
	return rapid.Custom(func(t *rapid.T) string {
		switch rapid.IntRange(0, 3).Draw(t, "vkind") {
		case 0:
			return genRawValue(rapid.SampledFrom([]int{1, 2, 3}).Draw(t, "level"), 6).Draw(t, "raw")
		case 1:
			// a lone byte 0x80..0xFF, either hex case
			b := rapid.IntRange(0x80, 0xff).Draw(t, "byte")
			f := "%%%02X"
			if rapid.Bool().Draw(t, "lower") {
				f = "%%%02x"
			}
			return genRawValue(0, 3).Draw(t, "pre") + fmt.Sprintf(f, b) + genRawValue(0, 3).Draw(t, "post")
		default:
			// a proper encoding with one offending piece spliced in
			s := genEnc().Draw(t, "enc").encode(genValue(5).Draw(t, "v"))
			piece := rapid.SampledFrom(append(append(append([]string{}, moreBadEscapes...), badUTF8Escapes...), malformedEsc...)).Draw(t, "piece")
			at := rapid.IntRange(0, len(s)).Draw(t, "at")
			return s[:at] + piece + s[at:]
		}
	})
}

func genEKey(encoded bool) *rapid.Generator[vk.Str] {
	return rapid.Custom(func(t *rapid.T) vk.Str {
		if encoded && rapid.IntRange(0, 14).Draw(t, "badkey") == 9 {
			return vk.Str(rapid.SampledFrom(badKeysHdr).Draw(t, "bk"))
		}
		return vk.Str(genKey().Draw(t, "k"))
	})
}

func genE(t *rapid.T) CaseE {
	c := CaseE{}
	n := rapid.IntRange(1, 4).Draw(t, "nm")
	for i := 0; i < n; i++ {
		m := EMember{Kind: rapid.SampledFrom([]int{1, 2, 2, 3, 3}).Draw(t, "mkind")}
		m.K = genEKey(m.Kind != 1).Draw(t, "key")
		switch m.Kind {
		case 1:
			m.V = genValue(8).Draw(t, "v")
		case 2:
			m.V, m.Enc = genValue(8).Draw(t, "v"), genEnc().Draw(t, "enc")
		default:
			m.Verb = vk.Str(genVerbatim().Draw(t, "verb"))
		}
		np := rapid.SampledFrom([]int{0, 0, 1, 1, 2, 3}).Draw(t, "np")
		for j := 0; j < np; j++ {
			p := EProp{Kind: rapid.SampledFrom([]int{0, 1, 2, 2, 3, 3}).Draw(t, "pkind")}
			p.K = genEKey(p.Kind >= 2).Draw(t, "pk")
			switch p.Kind {
			case 1:
				p.V = genValue(5).Draw(t, "pv")
			case 2:
				p.V, p.Enc = genValue(5).Draw(t, "pv"), genEnc().Draw(t, "penc")
			case 3:
				p.Verb = vk.Str(genVerbatim().Draw(t, "pverb"))
			}
			m.Props = append(m.Props, p)
		}
		c.Members = append(c.Members, m)
	}
	return c
}

// encodedText returns the text handed to the encoded constructor and what
// the documentation makes of it: proper (must be accepted, with this decoded
// value) or not.
func encodedText(kind int, v string, e Enc, verb vk.Str) (text string, proper bool, decoded string, class string) {
	if kind == 2 {
		text = e.encode(v)
	} else {
		text = string(verb)
	}
	if !validRawValue(text) {
		class = "malformed_escape"
		for i := 0; i < len(text); i++ {
			if !isBaggageOctet(text[i]) {
				class = "byte_outside_baggage_octets"
			}
		}
		return text, false, "", class
	}
	dec := decodeRaw(text)
	if !utf8.Valid(dec) {
		return text, false, "", "escapes_decode_to_invalid_utf8"
	}
	return text, true, string(dec), "proper_encoding"
}

func runE(c CaseE) ([]vk.Violation, vk.Info) {
	var vs []vk.Violation
	var info vk.Info
	bad := func(kind, format string, a ...any) { vs = append(vs, vk.V(kind, format, a...)) }

	var members []baggage.Member
	want := model{}
	usedEncoded := false
	for _, em := range c.Members {
		// ---- properties
		var props []baggage.Property
		var mprops []mprop
		for _, ep := range em.Props {
			key := string(ep.K)
			var p baggage.Property
			var err error
			switch ep.Kind {
			case 0:
				p, err = baggage.NewKeyProperty(key)
				if err != nil {
					bad("constructor_rejects_valid", "NewKeyProperty(%q): %v", key, err)
					continue
				}
			case 1:
				p, err = baggage.NewKeyValuePropertyRaw(key, ep.V)
				if err != nil {
					bad("constructor_rejects_valid", "NewKeyValuePropertyRaw(%q, %q): %v", key, ep.V, err)
					continue
				}
			default:
				text, proper, decoded, class := encodedText(ep.Kind, ep.V, ep.Enc, ep.Verb)
				proper = proper && isToken(key)
				info.Class("property_" + class)
				info.ClassIf(!isToken(key), "property_key_not_token")
				usedEncoded = usedEncoded || strings.Contains(text, "%")
				p, err = baggage.NewKeyValueProperty(key, text)
				if err != nil {
					info.Class("property_encoded_rejected")
					if proper {
						bad("proper_encoding_rejected", "NewKeyValueProperty(%q, %q): %v (the text is a well-formed encoding of %q)", key, text, err, decoded)
					}
					continue
				}
				info.Class("property_encoded_accepted")
				v, has := p.Value()
				if !utf8.ValidString(v) {
					bad("constructor_accepts_invalid_utf8", "NewKeyValueProperty(%q, %q) returned a property whose value %q is not valid UTF-8", key, text, v)
					continue
				}
				if proper && (!has || v != decoded || p.Key() != key) {
					bad("encoded_property_differs", "NewKeyValueProperty(%q, %q) = %q=%q (has value %v), the text encodes %q", key, text, p.Key(), v, has, decoded)
					continue
				}
			}
			v, has := p.Value()
			mp := mprop{K: p.Key(), V: v, Has: has}
			switch ep.Kind {
			case 0:
				if mp != (mprop{K: key}) {
					bad("property_differs", "NewKeyProperty(%q) reads back as %+v", key, mp)
				}
			case 1:
				if mp != (mprop{K: key, V: ep.V, Has: true}) {
					bad("property_differs", "NewKeyValuePropertyRaw(%q, %q) reads back as %+v", key, ep.V, mp)
				}
			}
			// Property.String on its own: it must parse back to the property.
			if isToken(mp.K) {
				hdr := "k=v;" + p.String()
				if pb, err := baggage.Parse(hdr); err != nil {
					bad("property_string_rejected", "Parse(%q) fails (Property.String of %+v): %v", hdr, mp, err)
				} else if got := fromMember(pb.Member("k")); !got.equal(mmember{K: "k", V: "v", Props: []mprop{mp}}) {
					bad("property_string_differs", "Property.String() of %+v = %q parses back as %s", mp, p.String(), got.render())
				}
			}
			props = append(props, p)
			mprops = append(mprops, mp)
		}

		// ---- the member
		key := string(em.K)
		var m baggage.Member
		var err error
		if em.Kind == 1 {
			m, err = baggage.NewMemberRaw(key, em.V, props...)
			if err != nil {
				bad("constructor_rejects_valid", "NewMemberRaw(%q, %q, %d props): %v", key, em.V, len(props), err)
				continue
			}
			if got := fromMember(m); !got.equal(mmember{K: key, V: em.V, Props: mprops}) {
				bad("member_differs", "NewMemberRaw(%q, %q, …) reads back as %s", key, em.V, got.render())
			}
		} else {
			text, proper, decoded, class := encodedText(em.Kind, em.V, em.Enc, em.Verb)
			proper = proper && isToken(key)
			info.Class("member_" + class)
			info.ClassIf(!isToken(key), "member_key_not_token")
			info.ClassIf(len(props) > 0, "encoded_member_with_properties")
			usedEncoded = usedEncoded || strings.Contains(text, "%")
			m, err = baggage.NewMember(key, text, props...)
			if err != nil {
				info.Class("member_encoded_rejected")
				if proper {
					bad("proper_encoding_rejected", "NewMember(%q, %q, %d props): %v (the text is a well-formed encoding of %q)", key, text, len(props), err, decoded)
				}
				continue
			}
			info.Class("member_encoded_accepted")
			if !utf8.ValidString(m.Value()) {
				bad("constructor_accepts_invalid_utf8", "NewMember(%q, %q) returned a member whose value %q is not valid UTF-8", key, text, m.Value())
			}
			if proper {
				if got := fromMember(m); !got.equal(mmember{K: key, V: decoded, Props: mprops}) {
					bad("encoded_member_differs", "NewMember(%q, %q, …) reads back as %s, the text encodes %q", key, text, got.render(), decoded)
				}
				// the Raw constructor must build the same thing from the decoded text
				twin, err := baggage.NewMemberRaw(key, decoded, props...)
				if err != nil {
					bad("constructor_rejects_valid", "NewMemberRaw(%q, %q, …): %v", key, decoded, err)
				} else if !fromMember(twin).equal(fromMember(m)) || twin.String() != m.String() {
					bad("encoded_member_differs", "NewMember(%q, %q) and NewMemberRaw(%q, %q) differ: %q vs %q", key, text, key, decoded, m.String(), twin.String())
				}
			}
		}
		props = nil // the constructors took their copies
		mm := fromMember(m)
		// Member.String on its own: a one-member header of that member.
		if isToken(mm.K) {
			s := m.String()
			if pb, err := baggage.Parse(s); err != nil {
				bad("member_string_rejected", "Parse(Member.String()) fails: %v; String() = %q", err, short(s))
			} else if got, _ := observe(pb); !got.equal(model{mm.K: mm}) {
				bad("member_string_differs", "Member.String() = %q parses back as %s, the member is %s", short(s), shortList(got.render()), mm.render())
			}
		}
		members = append(members, m)
		want[mm.K] = mm
	}

	info.NonTrivial = usedEncoded
	info.ClassIf(len(members) == 0, "no_member_accepted")
	if len(members) == 0 {
		return vs, info
	}

	// ---- New and the round trips: identity on whatever was accepted
	b, err := baggage.New(members...)
	if err != nil {
		bad("valid_baggage_rejected", "New rejected %d small members handed out by the constructors: %v", len(members), err)
		return vs, info
	}
	got, problems := observe(b)
	for _, p := range problems {
		bad("accessors_disagree", "%s", p)
	}
	if !got.equal(want) {
		bad("new_differs_from_members", "New(...) holds something else than it was given: %s", mdiff(got, want))
	}
	s := b.String()
	if p, err := baggage.Parse(s); err != nil {
		bad("own_string_rejected", "Parse(b.String()) fails: %v; String() = %q", err, short(s))
	} else if pm, _ := observe(p); !pm.equal(want) {
		bad("round_trip_differs", "Parse(b.String()) != b: %s; String() = %q", mdiff(pm, want), short(s))
	}
	e, hdr := injectExtract(b)
	if em, _ := observe(e); !em.equal(want) {
		bad("inject_extract_differs", "Extract(Inject(b)) != b: %s; header = %q", mdiff(em, want), short(hdr))
	}
	return vs, info
}

func TestEncodedConstructors(t *testing.T) {
	vk.Run(t, vk.Spec[CaseE]{
		Property: "C11", Check: "encoded_constructors",
		Rule: "1..4 members with 0..3 properties, each built through the Raw constructor or through the percent-encoded one (NewMember / NewKeyValueProperty, also NewMember with properties) from (a) a reference encoding of a valid UTF-8 value " +
			"(minimal, full or random-mask escaping, upper / lower / mixed hex) or (b) a text that is not a proper encoding: escapes that decode to a lone 0x80-0xFF byte, truncated or overlong sequences, encoded surrogates, malformed triplets (%zz, lone %), bytes outside the baggage-octet range, non-token keys; " +
			"Member.String / Property.String of every value are parsed on their own; non-trivial = some text handed to an encoded constructor contains a percent sign; distinct = distinct case encodings",
		Quick: 15000, Thorough: 150000,
		Gen: genE, Run: runE,
	})
}
