package c11

import (
	"fmt"
	"strconv"
	"strings"
	"testing"

	"go.opentelemetry.io/otel/baggage"
	"go.opentelemetry.io/otel/verif/internal/vk"
	"pgregory.net/rapid"
)

// Text is a value described compactly: S + Pad×N + "x"×Fill + Tail.
type Text struct {
	S    string `json:"s"`
	Pad  string `json:"pad,omitempty"`
	N    int    `json:"n,omitempty"`
	Fill int    `json:"fill,omitempty"`
	Tail string `json:"tail,omitempty"`
}

func (t Text) String() string {
	if t.N <= 0 && t.Fill <= 0 && t.Tail == "" {
		return t.S
	}
	n, f := t.N, t.Fill
	if n < 0 {
		n = 0
	}
	if f < 0 {
		f = 0
	}
	return t.S + strings.Repeat(t.Pad, n) + strings.Repeat("x", f) + t.Tail
}

func (t Text) encLen() int { return refEscapedLen(t.String()) }

// AProp is a property built with NewKeyProperty (HasV false) or
// NewKeyValuePropertyRaw (HasV true).
type AProp struct {
	K    string `json:"k"`
	HasV bool   `json:"hasv"`
	V    Text   `json:"v"`
}

// AMember is a member built with NewMemberRaw.
type AMember struct {
	K     string  `json:"k"`
	V     Text    `json:"v"`
	Props []AProp `json:"props,omitempty"`
}

func (m AMember) encLen() int {
	n := len(m.K) + 1 + m.V.encLen()
	for _, p := range m.Props {
		n += 1 + len(p.K)
		if p.HasV {
			n += 1 + p.V.encLen()
		}
	}
	return n
}

// CaseA is one API-built baggage.
type CaseA struct {
	// Bulk members BulkPrefix+"0", BulkPrefix+"1", … with value BulkVal come
	// first (or last when BulkLast), the explicit members after them.
	Bulk       int       `json:"bulk"`
	BulkPrefix string    `json:"bulk_prefix,omitempty"`
	BulkVal    string    `json:"bulk_val,omitempty"`
	BulkLast   bool      `json:"bulk_last,omitempty"`
	Members    []AMember `json:"members"`
	Mode       string    `json:"mode"`    // generator mode, informational
	BadKey     vk.Str    `json:"bad_key"` // a key NewMemberRaw documents as invalid
}

func (c CaseA) all() []AMember {
	bulk := make([]AMember, 0, c.Bulk)
	for i := 0; i < c.Bulk; i++ {
		bulk = append(bulk, AMember{K: c.BulkPrefix + strconv.Itoa(i), V: Text{S: c.BulkVal}})
	}
	if c.BulkLast {
		return append(append([]AMember{}, c.Members...), bulk...)
	}
	return append(bulk, c.Members...)
}

// refTotal is the generator's estimate of the serialised size after
// last-one-wins deduplication.
func refTotal(ms []AMember) (total, distinct int) {
	last := map[string]int{}
	for i, m := range ms {
		last[m.K] = i
	}
	for i, m := range ms {
		if last[m.K] == i {
			total += m.encLen()
		}
	}
	distinct = len(last)
	if distinct > 1 {
		total += distinct - 1
	}
	return total, distinct
}

var keyPool = []string{"a", "b", "k", "key1", "K", "a.b", "%41", "!#$%&'*+-.^_`|~"}

func genToken(maxLen int) *rapid.Generator[string] {
	return rapid.Custom(func(t *rapid.T) string {
		n := 1
		switch rapid.IntRange(0, 9).Draw(t, "klen") {
		case 0:
			n = maxLen
		case 1, 2:
			n = rapid.IntRange(1, maxLen).Draw(t, "kn")
		default:
			n = rapid.IntRange(1, 4).Draw(t, "kn")
			if n > maxLen {
				n = maxLen
			}
		}
		b := make([]byte, n)
		for i := range b {
			b[i] = tokenChars[rapid.IntRange(0, len(tokenChars)-1).Draw(t, "kc")]
		}
		return string(b)
	})
}

func genKey() *rapid.Generator[string] {
	return rapid.Custom(func(t *rapid.T) string {
		if rapid.IntRange(0, 2).Draw(t, "pool") == 0 {
			return rapid.SampledFrom(keyPool).Draw(t, "k")
		}
		return genToken(40).Draw(t, "tok")
	})
}

// blanks: optional whitespace of the header grammar, and other characters
// that are white space to strings.TrimSpace (they are data in a value).
var blanks = []string{" ", "\t", "  ", " \t", "\t ", " ", "\t", "\r", "\n", "\v", "\f", "\u0085", "\u00a0", "\u2028", "\u3000"}

// boundaryRunes: first / last rune of every UTF-8 width, the runes next to
// the surrogate gap, and Unicode white space.
var boundaryRunes = []rune{0x80, 0x85, 0xA0, 0x7FF, 0x800, 0x1680, 0x2000, 0x2028, 0x2029, 0x3000, 0xD7FF, 0xE000, 0xFFFE, 0xFFFF, 0x10000, 0x10FFFF, 0xFFFD}

// genRune: the hostile alphabet, every ASCII character (controls included)
// and the boundary runes.
func genRune() *rapid.Generator[rune] {
	return rapid.Custom(func(t *rapid.T) rune {
		switch k := rapid.IntRange(0, 9).Draw(t, "rk"); {
		case k < 6:
			return rapid.SampledFrom(vk.HostileRunes).Draw(t, "r")
		case k < 9:
			return rune(rapid.IntRange(0, 0x7f).Draw(t, "ascii"))
		default:
			return rapid.SampledFrom(boundaryRunes).Draw(t, "br")
		}
	})
}

// genValue draws valid UTF-8 over the hostile alphabet, with a bias to
// blanks at either end.
func genValue(maxRunes int) *rapid.Generator[string] {
	return rapid.Custom(func(t *rapid.T) string {
		n := rapid.IntRange(0, maxRunes).Draw(t, "vn")
		var sb strings.Builder
		if rapid.IntRange(0, 5).Draw(t, "lead") == 0 {
			sb.WriteString(rapid.SampledFrom(blanks).Draw(t, "lb"))
		}
		for i := 0; i < n; i++ {
			sb.WriteRune(genRune().Draw(t, "r"))
		}
		if rapid.IntRange(0, 5).Draw(t, "trail") == 0 {
			sb.WriteString(rapid.SampledFrom(blanks).Draw(t, "tb"))
		}
		return sb.String()
	})
}

func genProps() *rapid.Generator[[]AProp] { return genPropsN(false) }

// genPropsN: 0..4 properties; with many, now and then 8, 9, 17 or 33.
func genPropsN(many bool) *rapid.Generator[[]AProp] {
	return rapid.Custom(func(t *rapid.T) []AProp {
		counts := []int{0, 0, 0, 1, 1, 2, 3, 4}
		if many {
			counts = []int{0, 0, 0, 0, 0, 0, 1, 1, 1, 1, 2, 2, 3, 3, 4, 4, 4, 8, 9, 17, 33}
		}
		n := rapid.SampledFrom(counts).Draw(t, "np")
		ps := make([]AProp, 0, n)
		for i := 0; i < n; i++ {
			p := AProp{}
			if i > 0 && rapid.IntRange(0, 2).Draw(t, "dupp") == 0 {
				p.K = ps[rapid.IntRange(0, i-1).Draw(t, "dupi")].K
			} else {
				p.K = genKey().Draw(t, "pk")
			}
			switch rapid.IntRange(0, 3).Draw(t, "pkind") {
			case 0: // key only
			case 1: // empty value
				p.HasV = true
			default:
				p.HasV = true
				p.V.S = genValue(6).Draw(t, "pv")
			}
			ps = append(ps, p)
		}
		return ps
	})
}

func genAMember() *rapid.Generator[AMember] {
	return rapid.Custom(func(t *rapid.T) AMember {
		// mostly short values; now and then a long one of mixed content
		maxRunes := rapid.SampledFrom([]int{12, 12, 12, 12, 12, 12, 12, 12, 40, 150}).Draw(t, "vmax")
		return AMember{K: genKey().Draw(t, "key"), V: Text{S: genValue(maxRunes).Draw(t, "val")}, Props: genPropsN(true).Draw(t, "props")}
	})
}

// pads: text and the size it has once escaped.
var apiPads = []struct {
	s string
	n int
}{{"x", 1}, {"=", 1}, {"%", 3}, {",", 3}, {";", 3}, {" ", 3}, {"\"", 3}, {"\\", 3}, {"é", 6}, {"世", 9}, {"😀", 12}, {"\U0010FFFF", 12}}

// grow adds about `need` escaped bytes to the text (exactly `need` when
// need >= 0).
func grow(t *rapid.T, x *Text, need int) {
	if need <= 0 {
		return
	}
	if x.N > 0 || x.Fill > 0 {
		x.Fill += need
		return
	}
	p := rapid.SampledFrom(apiPads).Draw(t, "pad")
	x.Pad, x.N, x.Fill = p.s, need/p.n, need%p.n
	if rapid.IntRange(0, 3).Draw(t, "tail") == 0 && x.N > 0 {
		// move one pad unit behind the filler so that the value does not end in "x"
		x.N--
		x.Tail = p.s
	}
}

// growMember adds need escaped bytes to member m, in its value or in one of
// its property values.
func growMember(t *rapid.T, m *AMember, need int) {
	var cands []*Text
	cands = append(cands, &m.V)
	for i := range m.Props {
		if m.Props[i].HasV {
			cands = append(cands, &m.Props[i].V)
		}
	}
	grow(t, cands[rapid.IntRange(0, len(cands)-1).Draw(t, "where")], need)
}

func freshKey(ms []AMember, base string) string {
	used := map[string]bool{}
	for _, m := range ms {
		used[m.K] = true
	}
	for i := 0; ; i++ {
		k := base + strconv.Itoa(i)
		if !used[k] {
			return k
		}
	}
}

var badKeys = []string{"", "\xff", "a\xc3", "\xed\xa0\x80", "k\x80", "\xc0\xaf"}

func genA(t *rapid.T) CaseA {
	c := CaseA{}
	c.BadKey = vk.Str(rapid.SampledFrom(badKeys).Draw(t, "badkey"))
	mode := rapid.SampledFrom([]string{"small", "small", "small", "small", "count", "member", "total", "count+total", "dup"}).Draw(t, "mode")
	c.Mode = mode
	c.Members = rapid.SliceOfN(genAMember(), 0, 5).Draw(t, "members")
	if len(c.Members) == 0 && rapid.IntRange(0, 9).Draw(t, "allowempty") > 0 {
		c.Members = append(c.Members, genAMember().Draw(t, "m0"))
	}
	near := func(center int, label string) int {
		return center + rapid.SampledFrom([]int{-2, -1, 0, 0, 1, 1, 2}).Draw(t, label)
	}
	setBulk := func(target int) {
		c.BulkPrefix = rapid.SampledFrom([]string{"p", "m.", "k", "%", "key"}).Draw(t, "bulkprefix")
		c.BulkVal = rapid.SampledFrom([]string{"", "", "v", " ", "é"}).Draw(t, "bulkval")
		c.BulkLast = rapid.Bool().Draw(t, "bulklast")
		_, d0 := refTotal(c.Members)
		c.Bulk = target - d0
		if c.Bulk < 0 {
			c.Bulk = 0
		}
		// an explicit key that equals a bulk key makes the count fall short
		for i := 0; i < 4; i++ {
			if _, d := refTotal(c.all()); d < target {
				c.Bulk += target - d
			}
		}
	}
	totalTo := func(target int) {
		// raise the serialised size to target by padding explicit members,
		// none of which may pass the per-member limit on the way.
		for guard := 0; guard < 12; guard++ {
			total, _ := refTotal(c.all())
			need := target - total
			if need <= 0 {
				return
			}
			// pick a member that is the last of its key and still has room
			all := c.all()
			off := 0
			if !c.BulkLast {
				off = c.Bulk
			}
			last := map[string]int{}
			for i, m := range all {
				last[m.K] = i
			}
			picked := -1
			for i := len(c.Members) - 1; i >= 0; i-- {
				m := c.Members[i]
				if last[m.K] != off+i || m.V.N != 0 || m.V.Fill != 0 {
					continue
				}
				if room := limMemberBytes - 6 - m.encLen(); room > 0 {
					picked = i
					if need > room {
						need = room
					}
					break
				}
			}
			if picked < 0 {
				nk := freshKey(all, "t")
				c.Members = append(c.Members, AMember{K: nk})
				continue // the new member costs len(key)+2 bytes; recompute
			}
			grow(t, &c.Members[picked].V, need)
		}
	}
	switch mode {
	case "small":
	case "dup":
		// duplicates of a key at the member level
		if len(c.Members) > 0 {
			n := rapid.IntRange(1, 3).Draw(t, "ndup")
			for i := 0; i < n; i++ {
				m := genAMember().Draw(t, "dupm")
				m.K = c.Members[rapid.IntRange(0, len(c.Members)-1).Draw(t, "dupof")].K
				c.Members = append(c.Members, m)
			}
		}
	case "count":
		setBulk(near(limMembers, "count"))
		if c.Bulk > 0 && rapid.Bool().Draw(t, "dupbulk") {
			// one more member that repeats a bulk key: 181 members, 180 distinct
			m := genAMember().Draw(t, "dupm")
			m.K = c.BulkPrefix + strconv.Itoa(rapid.IntRange(0, c.Bulk-1).Draw(t, "dupbulki"))
			c.Members = append(c.Members, m)
		}
	case "member":
		if len(c.Members) == 0 {
			c.Members = append(c.Members, genAMember().Draw(t, "m0"))
		}
		i := rapid.IntRange(0, len(c.Members)-1).Draw(t, "big")
		growMember(t, &c.Members[i], near(limMemberBytes, "msize")-c.Members[i].encLen())
		if rapid.IntRange(0, 3).Draw(t, "alsototal") == 0 {
			totalTo(near(limTotalBytes, "tsize"))
		}
	case "total":
		totalTo(near(limTotalBytes, "tsize"))
	case "count+total":
		setBulk(near(limMembers, "count"))
		totalTo(near(limTotalBytes, "tsize"))
	}
	return c
}

func buildMember(am AMember) (baggage.Member, error) {
	props := make([]baggage.Property, 0, len(am.Props))
	for _, ap := range am.Props {
		var p baggage.Property
		var err error
		if ap.HasV {
			p, err = baggage.NewKeyValuePropertyRaw(ap.K, ap.V.String())
		} else {
			p, err = baggage.NewKeyProperty(ap.K)
		}
		if err != nil {
			return baggage.Member{}, fmt.Errorf("property %q: %w", ap.K, err)
		}
		props = append(props, p)
	}
	m, err := baggage.NewMemberRaw(am.K, am.V.String(), props...)
	// the constructor must have taken its own copy of the property list
	for i := range props {
		props[i] = baggage.Property{}
	}
	return m, err
}

func modelMember(am AMember) mmember {
	mm := mmember{K: am.K, V: am.V.String()}
	for _, ap := range am.Props {
		p := mprop{K: ap.K, Has: ap.HasV}
		if ap.HasV {
			p.V = ap.V.String()
		}
		mm.Props = append(mm.Props, p)
	}
	return mm
}

func needsEscape(s string) bool { return refEscapedLen(s) != len(s) }

func runA(c CaseA) ([]vk.Violation, vk.Info) {
	var vs []vk.Violation
	var info vk.Info
	bad := func(kind, format string, a ...any) { vs = append(vs, vk.V(kind, format, a...)) }

	// documented rejections of the member constructor
	if _, err := baggage.NewMemberRaw(string(c.BadKey), "v"); err == nil {
		bad("invalid_key_accepted", "NewMemberRaw(%q, …) returned no error (key must be non-empty valid UTF-8)", string(c.BadKey))
	}
	if _, err := baggage.New(baggage.Member{}); err == nil {
		bad("zero_member_accepted", "New(Member{}) returned no error")
	}

	all := c.all()
	members := make([]baggage.Member, 0, len(all))
	want := model{}
	implSize := map[string]int{}
	escapes, hasProps := false, false
	manyProps, longMixed, controls, otherASCII, boundary := false, false, false, false, false
	scan := func(v string) {
		for _, r := range v {
			controls = controls || (r < 0x20 && r != '\t' && r != '\n' && r != 0) || r == '\r'
			otherASCII = otherASCII || (r > 0x20 && r < 0x7f && !strings.ContainsRune(string(vk.HostileRunes), r))
			for _, b := range boundaryRunes {
				boundary = boundary || r == b
			}
		}
	}
	for _, am := range all {
		if !isToken(am.K) {
			panic("harness bug: generated a non-token key")
		}
		m, err := buildMember(am)
		if err != nil {
			bad("constructor_rejects_valid", "NewMemberRaw(%q, %q, %d props): %v", am.K, short(am.V.String()), len(am.Props), err)
			return vs, info
		}
		members = append(members, m)
		mm := modelMember(am)
		if got := fromMember(m); !got.equal(mm) {
			bad("member_differs", "constructed member reads back as %s, built from %s", short(got.render()), short(mm.render()))
		}
		want[am.K] = mm
		implSize[am.K] = len(m.String())
		escapes = escapes || needsEscape(mm.V)
		for _, p := range mm.Props {
			escapes = escapes || needsEscape(p.V)
		}
		hasProps = hasProps || len(mm.Props) > 0
		manyProps = manyProps || len(mm.Props) >= 8
		longMixed = longMixed || (am.V.N == 0 && am.V.Fill == 0 && len([]rune(am.V.S)) > 16)
		scan(mm.V)
		for _, p := range mm.Props {
			scan(p.V)
		}
	}
	total, maxMember := 0, 0
	for _, n := range implSize {
		total += n
		if n > maxMember {
			maxMember = n
		}
	}
	if len(implSize) > 1 {
		total += len(implSize) - 1
	}
	overCount, overTotal, overMember := len(want) > limMembers, total > limTotalBytes, maxMember > limMemberBytes
	over := overCount || overTotal || overMember

	info.NonTrivial = escapes || hasProps
	info.ClassIf(escapes, "value_needs_escaping")
	info.ClassIf(hasProps, "has_properties")
	info.ClassIf(len(all) > len(want), "duplicate_member_keys")
	info.ClassIf(len(want) == 0, "empty")
	info.ClassIf(len(want) == limMembers, "exactly_180_members")
	info.ClassIf(len(want) == limMembers+1, "181_members")
	info.ClassIf(total == limTotalBytes, "exactly_8192_bytes")
	info.ClassIf(total == limTotalBytes+1, "8193_bytes")
	info.ClassIf(maxMember == limMemberBytes, "member_exactly_4096_bytes")
	info.ClassIf(maxMember == limMemberBytes+1, "member_4097_bytes")
	info.ClassIf(overCount, "over_member_count")
	info.ClassIf(overTotal, "over_total_bytes")
	info.ClassIf(overMember, "over_member_bytes")
	info.Class("mode_" + c.Mode)
	info.ClassIf(manyProps, "member_with_8_or_more_properties")
	info.ClassIf(longMixed, "long_value_of_mixed_content")
	info.ClassIf(controls, "value_with_other_ascii_control")
	info.ClassIf(otherASCII, "value_with_ascii_outside_hostile_alphabet")
	info.ClassIf(boundary, "value_with_boundary_rune")

	// the argument slice is lent with spare capacity and overwritten as soon
	// as New has returned
	lent := append(make([]baggage.Member, 0, len(members)+4), members...)
	b, err := baggage.New(lent...)
	for i := range lent {
		lent[i] = baggage.Member{}
	}
	_ = append(lent, baggage.Member{})
	if err != nil {
		info.Class("new_rejects")
		if !over {
			bad("valid_baggage_rejected", "New rejected %d distinct members, %d bytes serialised, largest member %d bytes (all within 180/8192/4096): %v", len(want), total, maxMember, err)
		}
		return vs, info
	}
	info.Class("new_accepts")

	// accepted: the limits hold on what it serialises to
	s := b.String()
	if len(s) > limTotalBytes {
		bad("total_limit", "New accepted a baggage whose String() has %d bytes (> 8192)", len(s))
	}
	if b.Len() > limMembers {
		bad("member_count_limit", "New accepted a baggage with %d members (> 180)", b.Len())
	}
	for _, m := range b.Members() {
		if n := len(m.String()); n > limMemberBytes {
			bad("member_limit", "New accepted member %q whose String() has %d bytes (> 4096)", m.Key(), n)
			break
		}
	}
	got, problems := observe(b)
	for _, p := range problems {
		bad("accessors_disagree", "%s", p)
	}
	if !got.equal(want) {
		bad("new_differs_from_members", "New(...) holds something else than it was given: %s", mdiff(got, want))
	}
	// String -> Parse
	p, err := baggage.Parse(s)
	if err != nil {
		bad("own_string_rejected", "Parse(b.String()) fails: %v; String() = %q", err, short(s))
	} else {
		pm, _ := observe(p)
		if !pm.equal(want) {
			bad("round_trip_differs", "Parse(b.String()) != b: %s; String() = %q", mdiff(pm, want), short(s))
		}
	}
	// Inject -> Extract
	e, hdr := injectExtract(b)
	em, _ := observe(e)
	if !em.equal(want) {
		bad("inject_extract_differs", "Extract(Inject(b)) != b: %s; header = %q", mdiff(em, want), short(hdr))
	}
	return vs, info
}

func TestAPIRoundTrip(t *testing.T) {
	vk.Run(t, vk.Spec[CaseA]{
		Property: "C11", Check: "api_round_trip",
		Rule: "baggage built with NewMemberRaw / NewKeyProperty / NewKeyValuePropertyRaw: token keys of 1..40 characters over all token characters, values of valid UTF-8 over a delimiter-heavy alphabet " +
			"(,;=%\"\\ blanks and Unicode white space at both ends, every ASCII character incl. all controls, first / last rune of every UTF-8 width, non-BMP runes; mostly up to 12 runes, now and then up to 150), 0..4 and now and then 8, 9, 17 or 33 properties (key only, empty value, value, repeated property keys), repeated member keys, and sizes aimed at 180±2 members, 4096±2 bytes per member, 8192±2 bytes in total; " +
			"non-trivial = some value or property value needs escaping, or a member has properties; distinct = distinct case encodings",
		Quick: 20000, Thorough: 200000,
		Gen: genA, Run: runA,
	})
}
