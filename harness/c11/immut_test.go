package c11

import (
	"context"
	"testing"

	"go.opentelemetry.io/otel/baggage"
	ibaggage "go.opentelemetry.io/otel/internal/baggage"
	"go.opentelemetry.io/otel/propagation"
	"go.opentelemetry.io/otel/verif/internal/vk"
	"pgregory.net/rapid"
)

// Op is one step of an edit sequence. Indices are taken modulo the number
// of values / contexts that exist when the step runs.
type Op struct {
	Kind string  `json:"op"`            // set | setzero | delete | store | load | without | scribble | zero | setfrom | rebuild | reparse | propagate | hook
	On   int     `json:"on"`            // value operated on
	Ctx  int     `json:"ctx"`           // store / without / propagate / hook: parent context (-1 = Background); load: context read
	M    AMember `json:"m"`             // set: the member
	Key  string  `json:"key,omitempty"` // delete: the key; setfrom: the key read from value Src
	Src  int     `json:"src,omitempty"` // setfrom: the value the member is read from
	Hook int     `json:"hook,omitempty"`
}

// The hooks internal/baggage/context.go offers to the OpenTracing bridge.
// Hook (op "hook"): 1 a get hook, 2 a set hook, 3 both, 4 both and then the
// set hook removed again (nil), 0 a nil get hook. The hooks installed here
// pass through what they are given.
func withHooks(parent context.Context, kind int) context.Context {
	get := func(_ context.Context, l ibaggage.List) ibaggage.List { return l }
	set := func(ctx context.Context, _ ibaggage.List) context.Context { return ctx }
	switch kind {
	case 1:
		return ibaggage.ContextWithGetHook(parent, get)
	case 2:
		return ibaggage.ContextWithSetHook(parent, set)
	case 3:
		return ibaggage.ContextWithSetHook(ibaggage.ContextWithGetHook(parent, get), set)
	case 4:
		return ibaggage.ContextWithSetHook(ibaggage.ContextWithSetHook(ibaggage.ContextWithGetHook(parent, get), set), nil)
	}
	return ibaggage.ContextWithGetHook(parent, nil)
}

// allTokenKeys: every member key and property key of the model is a W3C
// token, so that Baggage.String() leaves nothing out.
func allTokenKeys(m model) bool {
	for k, mm := range m {
		if !isToken(k) {
			return false
		}
		for _, p := range mm.Props {
			if !isToken(p.K) {
				return false
			}
		}
	}
	return true
}

// CaseC is an initial baggage and a sequence of steps.
type CaseC struct {
	Init []AMember `json:"init"`
	Ops  []Op      `json:"ops"`
}

// SetMember places no restriction on keys beyond what NewMemberRaw accepts.
var editKeys = []string{"a", "b", "c", "k.1", "é", "a b", "%41", "😀", "key=,;", "a", "b", "c", "k.1"}

func genEditMember() *rapid.Generator[AMember] {
	return rapid.Custom(func(t *rapid.T) AMember {
		return AMember{K: rapid.SampledFrom(editKeys).Draw(t, "key"), V: Text{S: genValue(5).Draw(t, "val")}, Props: genProps().Draw(t, "props")}
	})
}

func genC(t *rapid.T) CaseC {
	c := CaseC{Init: rapid.SliceOfN(genEditMember(), 0, 4).Draw(t, "init")}
	nVals, nCtxs := 1, 0
	var used []string // keys some value holds (or held)
	for _, m := range c.Init {
		used = append(used, m.K)
	}
	setOp := func(t *rapid.T, on int) {
		m := genEditMember().Draw(t, "m")
		used = append(used, m.K)
		c.Ops = append(c.Ops, Op{Kind: "set", On: on, M: m})
		nVals++
	}
	val := func(t *rapid.T) int {
		// bias to recent values and to the very first one
		switch rapid.IntRange(0, 3).Draw(t, "which") {
		case 0:
			return 0
		case 1:
			return nVals - 1
		}
		return rapid.IntRange(0, nVals-1).Draw(t, "on")
	}
	ctx := func(t *rapid.T) int {
		if nCtxs == 0 {
			return -1
		}
		return rapid.IntRange(-1, nCtxs-1).Draw(t, "ctx")
	}
	t.Repeat(map[string]func(*rapid.T){
		"set":  func(t *rapid.T) { setOp(t, val(t)) },
		"set2": func(t *rapid.T) { setOp(t, val(t)) }, // twice as likely as the other actions
		"setzero": func(t *rapid.T) {
			c.Ops = append(c.Ops, Op{Kind: "setzero", On: val(t)})
			nVals++
		},
		"delete": func(t *rapid.T) {
			key := ""
			if len(used) > 0 && rapid.IntRange(0, 3).Draw(t, "usedkey") > 0 {
				key = rapid.SampledFrom(used).Draw(t, "key")
			} else {
				key = rapid.SampledFrom(append([]string{"", "zz"}, editKeys...)).Draw(t, "key")
			}
			c.Ops = append(c.Ops, Op{Kind: "delete", On: val(t), Key: key})
			nVals++
		},
		"store": func(t *rapid.T) {
			c.Ops = append(c.Ops, Op{Kind: "store", On: val(t), Ctx: ctx(t)})
			nCtxs++
		},
		"load": func(t *rapid.T) {
			c.Ops = append(c.Ops, Op{Kind: "load", Ctx: ctx(t)})
			nVals++
		},
		"without": func(t *rapid.T) {
			c.Ops = append(c.Ops, Op{Kind: "without", Ctx: ctx(t)})
			nCtxs++
		},
		"zero": func(t *rapid.T) { // the zero-value Baggage{} becomes a value like any other
			c.Ops = append(c.Ops, Op{Kind: "zero"})
			nVals++
		},
		"scribble": func(t *rapid.T) {
			c.Ops = append(c.Ops, Op{Kind: "scribble", On: val(t)})
		},
		"setfrom": func(t *rapid.T) { // a member read from one value is set on another
			key := "a"
			if len(used) > 0 {
				key = rapid.SampledFrom(used).Draw(t, "key")
			}
			c.Ops = append(c.Ops, Op{Kind: "setfrom", On: val(t), Src: val(t), Key: key})
			nVals++
		},
		"rebuild": func(t *rapid.T) { // New(b.Members()...)
			c.Ops = append(c.Ops, Op{Kind: "rebuild", On: val(t)})
			nVals++
		},
		"reparse": func(t *rapid.T) { // Parse(b.String())
			c.Ops = append(c.Ops, Op{Kind: "reparse", On: val(t)})
			nVals++
		},
		"propagate": func(t *rapid.T) { // Inject the value, Extract into a context derived from an earlier one
			c.Ops = append(c.Ops, Op{Kind: "propagate", On: val(t), Ctx: ctx(t)})
			nCtxs++
		},
		"hook": func(t *rapid.T) {
			c.Ops = append(c.Ops, Op{Kind: "hook", Ctx: ctx(t), Hook: rapid.IntRange(0, 4).Draw(t, "hook")})
			nCtxs++
		},
	})
	return c
}

func idx(i, n int) int {
	if n <= 0 {
		return 0
	}
	i %= n
	if i < 0 {
		i += n
	}
	return i
}

func runC(c CaseC) ([]vk.Violation, vk.Info) {
	var vs []vk.Violation
	var info vk.Info
	bad := func(kind, format string, a ...any) { vs = append(vs, vk.V(kind, format, a...)) }

	var ms []baggage.Member
	m0 := model{}
	for _, am := range c.Init {
		m, err := buildMember(am)
		if err != nil {
			bad("constructor_rejects_valid", "NewMemberRaw(%q, …): %v", am.K, err)
			return vs, info
		}
		ms = append(ms, m)
		m0[am.K] = modelMember(am)
	}
	b0, err := baggage.New(ms...)
	if err != nil {
		bad("valid_baggage_rejected", "New of %d small members: %v", len(ms), err)
		return vs, info
	}

	values := []baggage.Baggage{b0}
	models := []model{m0}
	shared := []bool{false} // the value is (or was read from) the baggage of some context
	var ctxs []context.Context
	var ctxModels []model
	var hooked []bool // the context (or one it derives from) went through a hook installer
	parentHooked := func(i int) bool {
		if i < 0 || len(ctxs) == 0 {
			return false
		}
		return hooked[idx(i, len(ctxs))]
	}

	parentOf := func(i int) context.Context {
		if i < 0 || len(ctxs) == 0 {
			return context.Background()
		}
		return ctxs[idx(i, len(ctxs))]
	}
	// verify compares every value and every context with its model.
	verify := func(step int, op Op, receiver int) bool {
		ok := true
		for i, v := range values {
			got, problems := observe(v)
			for _, p := range problems {
				bad("accessors_disagree", "step %d (%s): value %d: %s", step, op.Kind, i, p)
				ok = false
			}
			if !got.equal(models[i]) {
				kind := "earlier_value_changed"
				switch {
				case i == len(values)-1 && i != receiver && (op.Kind == "set" || op.Kind == "delete" || op.Kind == "setzero" || op.Kind == "load" || op.Kind == "setfrom" || op.Kind == "rebuild" || op.Kind == "reparse"):
					kind = "result_differs_from_model"
				case i == receiver:
					kind = "receiver_changed"
				}
				bad(kind, "step %d (%s on value %d): value %d: %s", step, op.Kind, receiver, i, mdiff(got, models[i]))
				ok = false
			}
		}
		for j, cx := range ctxs {
			got, _ := observe(baggage.FromContext(cx))
			if !got.equal(ctxModels[j]) {
				bad("context_copy_changed", "step %d (%s on value %d): baggage of context %d: %s", step, op.Kind, receiver, j, mdiff(got, ctxModels[j]))
				ok = false
			}
		}
		return ok
	}
	if !verify(-1, Op{Kind: "init"}, -1) {
		return vs, info
	}

	editOnShared := false
	for step, op := range c.Ops {
		on := idx(op.On, len(values))
		receiver := -1
		switch op.Kind {
		case "set":
			receiver = on
			m, err := buildMember(op.M)
			if err != nil {
				bad("constructor_rejects_valid", "NewMemberRaw(%q, …): %v", op.M.K, err)
				return vs, info
			}
			r, err := values[on].SetMember(m)
			if err != nil {
				bad("setmember_rejects_valid", "SetMember(%q): %v", op.M.K, err)
				return vs, info
			}
			nm := models[on].clone()
			_, replaced := nm[op.M.K]
			nm[op.M.K] = modelMember(op.M)
			values, models, shared = append(values, r), append(models, nm), append(shared, false)
			info.ClassIf(replaced, "set_replaces")
			info.ClassIf(!replaced, "set_adds")
			editOnShared = editOnShared || shared[on]
		case "setzero":
			receiver = on
			r, err := values[on].SetMember(baggage.Member{})
			if err == nil {
				bad("zero_member_accepted", "step %d: SetMember(Member{}) returned no error", step)
			}
			values, models, shared = append(values, r), append(models, models[on]), append(shared, shared[on])
			info.Class("set_zero_member")
		case "delete":
			receiver = on
			r := values[on].DeleteMember(op.Key)
			nm := models[on].clone()
			_, present := nm[op.Key]
			delete(nm, op.Key)
			values, models, shared = append(values, r), append(models, nm), append(shared, false)
			info.ClassIf(present, "delete_present")
			info.ClassIf(!present, "delete_absent")
			editOnShared = editOnShared || (shared[on] && present)
		case "store":
			receiver = on
			ph := parentHooked(op.Ctx)
			ctxs = append(ctxs, baggage.ContextWithBaggage(parentOf(op.Ctx), values[on]))
			ctxModels, hooked = append(ctxModels, models[on]), append(hooked, ph)
			shared[on] = true
			info.ClassIf(op.Ctx >= 0 && len(ctxs) > 1, "context_chain")
			info.ClassIf(ph, "store_in_context_with_hooks")
		case "load":
			if len(ctxs) == 0 || op.Ctx < 0 {
				values, models, shared = append(values, baggage.FromContext(context.Background())), append(models, model{}), append(shared, false)
			} else {
				j := idx(op.Ctx, len(ctxs))
				values, models, shared = append(values, baggage.FromContext(ctxs[j])), append(models, ctxModels[j]), append(shared, true)
			}
		case "zero":
			var z baggage.Baggage
			zp, zerr := baggage.Parse(z.String())
			if z.Len() != 0 || len(z.Members()) != 0 || zerr != nil || zp.Len() != 0 {
				bad("zero_value_not_empty", "Baggage{}: Len() = %d, %d Members(), String() = %q parses to %d members (%v)", z.Len(), len(z.Members()), z.String(), zp.Len(), zerr)
			}
			values, models, shared = append(values, z), append(models, model{}), append(shared, false)
			info.Class("zero_value_baggage")
		case "without":
			ph := parentHooked(op.Ctx)
			ctxs = append(ctxs, baggage.ContextWithoutBaggage(parentOf(op.Ctx)))
			ctxModels, hooked = append(ctxModels, model{}), append(hooked, ph)
			info.ClassIf(ph, "without_in_context_with_hooks")
		case "setfrom":
			receiver = on
			src := idx(op.Src, len(values))
			mm, present := models[src][op.Key]
			r, err := values[on].SetMember(values[src].Member(op.Key))
			nm := models[on]
			if present {
				if err != nil {
					bad("setmember_rejects_valid", "step %d: SetMember(values[%d].Member(%q)): %v", step, src, op.Key, err)
					return vs, info
				}
				nm = models[on].clone()
				nm[op.Key] = mm
				editOnShared = editOnShared || shared[on]
			} else if err == nil {
				// Member of an absent key is documented to be the zero Member
				bad("zero_member_accepted", "step %d: SetMember(values[%d].Member(%q)) of an absent key returned no error", step, src, op.Key)
			}
			values, models, shared = append(values, r), append(models, nm), append(shared, !present && shared[on])
			info.ClassIf(present, "set_member_read_from_another_value")
			info.ClassIf(present && shared[src], "set_member_read_from_a_context_held_value")
		case "rebuild":
			receiver = on
			lent := append(make([]baggage.Member, 0, len(models[on])+2), values[on].Members()...)
			r, err := baggage.New(lent...)
			for i := range lent {
				lent[i] = baggage.Member{}
			}
			if err != nil {
				bad("valid_baggage_rejected", "step %d: New(values[%d].Members()...) of %d small members: %v", step, on, len(models[on]), err)
				return vs, info
			}
			values, models, shared = append(values, r), append(models, models[on]), append(shared, false)
			info.Class("rebuilt_from_members")
		case "reparse":
			receiver = on
			hdr := values[on].String()
			r, err := baggage.Parse(hdr)
			if allTokenKeys(models[on]) {
				if err != nil {
					bad("own_string_rejected", "step %d: Parse(values[%d].String()) fails: %v; String() = %q", step, on, err, short(hdr))
					return vs, info
				}
				values, models, shared = append(values, r), append(models, models[on]), append(shared, false)
				info.Class("reparsed_value")
			} else {
				// String() leaves out what has no W3C key: the result is taken as it comes
				got, _ := observe(r)
				values, models, shared = append(values, r), append(models, got), append(shared, false)
				info.Class("reparsed_value_with_non_token_keys")
			}
		case "propagate":
			receiver = on
			carrier := propagation.MapCarrier{}
			propagation.Baggage{}.Inject(baggage.ContextWithBaggage(context.Background(), values[on]), carrier)
			nctx := propagation.Baggage{}.Extract(parentOf(op.Ctx), carrier)
			hooked = append(hooked, parentHooked(op.Ctx))
			if allTokenKeys(models[on]) && len(models[on]) > 0 {
				ctxs, ctxModels = append(ctxs, nctx), append(ctxModels, models[on])
				info.Class("context_from_extract")
				info.ClassIf(op.Ctx >= 0 && len(ctxs) > 1, "extract_into_derived_context")
			} else {
				got, _ := observe(baggage.FromContext(nctx))
				ctxs, ctxModels = append(ctxs, nctx), append(ctxModels, got)
				info.Class("context_from_extract_unasserted")
			}
		case "hook":
			// a context derived through the bridge's hook installers: what it
			// holds at this moment is recorded and must never change
			parent := parentOf(op.Ctx)
			nctx := withHooks(parent, op.Hook)
			hooked = append(hooked, true)
			got, _ := observe(baggage.FromContext(nctx))
			pm, _ := observe(baggage.FromContext(parent))
			ctxs, ctxModels = append(ctxs, nctx), append(ctxModels, got)
			info.Class("context_with_hooks")
			info.ClassIf(!got.equal(pm), "hook_installer_changes_baggage")
		case "scribble":
			receiver = on
			v := values[on]
			list := v.Members()
			for i := range list {
				ps := list[i].Properties()
				for j := range ps {
					ps[j] = baggage.Property{}
				}
				ps2 := v.Member(list[i].Key()).Properties()
				for j := range ps2 {
					ps2[j], _ = baggage.NewKeyProperty("scribbled")
				}
				list[i] = baggage.Member{}
			}
			info.Class("scribble")
		default:
			continue
		}
		if !verify(step, op, receiver) {
			break
		}
	}
	info.NonTrivial = editOnShared
	info.ClassIf(editOnShared, "edit_of_value_held_by_a_context")
	info.ClassIf(len(ctxs) >= 2, "several_contexts")
	info.ClassIf(len(values) >= 10, "ten_or_more_values")
	return vs, info
}

func TestImmutability(t *testing.T) {
	vk.Run(t, vk.Spec[CaseC]{
		Property: "C11", Check: "immutability",
		Rule: "edit sequences (rapid state machine, ~30 steps) of SetMember / SetMember(zero) / DeleteMember on any earlier value, ContextWithBaggage / ContextWithoutBaggage on Background or an earlier context, FromContext, " +
			"SetMember of a Member read from another value, New(b.Members()...), Parse(b.String()), Inject of a value followed by Extract into a context derived from an earlier one, contexts derived through the get / set hook installers of internal/baggage (pass-through hooks, nil hooks), " +
			"and overwriting of the slices returned by Members() / Properties() or lent to New; after every step every value ever produced and the baggage of every context are read through Member / Members / Len and compared with their immutable-map models; " +
			"non-trivial = a set or an effective delete is applied to a value that is held by (or was read from) a context; distinct = distinct case encodings",
		Quick: 8000, Thorough: 80000,
		Gen: genC, Run: runC,
	})
}
