//go:build verif

// Package c16 decides property C16 (the global tracer / meter / propagator
// placeholders forward to the installed SDK without loss or deadlock) by
// running generated concurrent programs against the PUBLIC otel API
// (otel.Tracer, otel.Meter, otel.Get*/Set*Provider, otel.Get/SetTextMapPropagator)
// and evaluating a schedule-independent oracle over the recorded history.
// Every execution starts from pristine globals (global.VerifResetGlobals, the
// one verification hook of /repo, build tag "verif").
//
// A program has four barrier-separated phases: 0 = before installation
// (handles, instruments of all 14 kinds, callbacks, some Unregister()ed),
// 1 = goroutines doing the same things and recording / starting spans while
// one or several goroutines call otel.SetMeterProvider / SetTracerProvider /
// SetTextMapPropagator, 2 = after installation, 3 = a sweep that uses every
// handle ever obtained once more and collects. An op only uses handles obtained
// in an earlier phase or earlier by the same goroutine.
//
// Readings of the statement (conservative where it is ambiguous):
//   - "installation returned" = the logical-clock instant at which the FIRST
//     otel.Set*Provider(sdk) call of the program returned. All racing installers
//     of a program install the SAME SDK object (the second installation of a
//     different provider is documented to replace the provider for new handles
//     only; which of two racing different providers wins is not specified, so
//     it is not generated). otel.SetXProvider(otel.GetXProvider()) ("self
//     install", documented to be rejected) is generated before / during / after
//     the installation and must not disturb it.
//   - A measurement whose Add/Record was ISSUED after that instant, through a
//     handle obtained at any time, must be in every collection started after the
//     measurement returned. Measurements issued earlier may or may not be
//     forwarded. Every synchronous measurement of an instrument identity has a
//     value +-4^k with its own k, so the reported sum decodes to the exact
//     subset of measurements that reached the SDK (a doubled or foreign
//     measurement does not decode); gauges carry distinct values and must not
//     report a value that was overwritten by a later post-install Record.
//   - A span started after SetTracerProvider returned must reach the SDK's
//     span processor exactly once (OnEnd), with the scope of the tracer handle.
//   - A callback (meter.RegisterCallback or instrument option) runs exactly
//     once in every Collect that started after both its registration and the
//     installation had returned and that ended before any Unregister of it was
//     issued; never in a Collect started after its Unregister returned; never
//     more than once per Collect. When it ran its observations must be in that
//     collection.
//   - RegisterCallback is always given instruments created through the same
//     meter HANDLE (an SDK meter obtained after installation is documented to
//     reject instruments of another implementation, i.e. global placeholders
//     obtained before). Option callbacks are only attached to instrument
//     identities that are created once (the SDK documents that repeated creation
//     ignores later callbacks).
//   - The installed MeterProvider has 1-3 ManualReaders; Collect ops name a
//     reader, the collections of different readers may overlap (a last phase
//     makes them collect concurrently, and callbacks yield / sleep a generated
//     tiny while before they observe). Every clause about callbacks and data is
//     evaluated per reader and collection: an active callback's observations
//     must be in THAT reader's collection exactly once. A callback learns which
//     collection it serves from the context the SDK passes on from Collect
//     (assumption: the SDK hands Collect's context to the callbacks; a callback
//     run without it is reported as callback_outside_collection).
//   - About one instrument in twelve gets a name the SDK refuses (leading digit,
//     space, longer than 255) which the placeholder API accepts before
//     installation; callbacks registered on such an instrument are rejected by
//     the SDK (at installation if registered before). Nothing is asserted about
//     the data of refused instruments / rejected callbacks, except that
//     installation, Unregister and everything else still complete, that all
//     OTHER instruments and callbacks forward as usual, that the constructor /
//     RegisterCallback may return the corresponding error once the SDK is
//     installed. Whether a rejection that happens at installation is reported
//     to the otel error handler is only recorded as a class (the statement
//     does not ask for it).
//   - In 40% of the programs the installed MeterProvider is not the SDK's but a
//     WRAPPER of the harness (refProvider / refMeter, embedding the API's
//     embedded.MeterProvider and the SDK's meter) that answers the creation of
//     instruments whose name carries a mark (generated per instrument, about 1
//     in 12) with (nil, err), and RegisterCallback with (nil, err) when one of
//     the instruments it is given is nil (= was refused), and hands everything
//     else to the SDK meter. Such instruments / callbacks are treated like the
//     ones with a refused name: nothing is asserted about their data, calls on
//     them must simply not panic, installation and everything else complete,
//     everything NOT refused forwards as before. (Without the wrapper the
//     marked names are ordinary instruments.)
//   - About one measurement in five (and a second sweep measurement for half
//     of the handles) carries a value outside the +-4^k code: 0 (most often),
//     -0, MaxInt64 / MinInt64 / 2^53+1, MaxFloat64, the smallest denormal, 0.1,
//     +-Inf, NaN, negative values - negative ones only on up-down counters and
//     gauges, NaN not on monotonic counters (the API leaves those undefined).
//     Such a measurement is recorded with an attribute of its own (sv=<index>),
//     so it owns a data point: issued after installation returned, that point
//     must exist in every later collection (also for an increment of 0) and
//     report exactly that value (histograms: count 1, sum = value; floats
//     compared with ==, NaN with NaN); a point that exists must report that
//     value. Half of the RegisterCallback callbacks also observe 0 (attributes
//     cb, z) on each of their instruments: when the callback ran, that point
//     must be in the collection with value 0.
//   - In 40% of the programs the auto-instrumentation flag of internal/global
//     (autoInstEnabled, flipped by an eBPF agent from outside the process; hook
//     global.VerifSetAutoInstrumentation, build tag verif) is ON when the
//     program starts and is switched off at the barrier before a generated
//     phase (or never). It is only written while no goroutine of the program
//     runs. While it is on, spans started through placeholder tracers that have
//     no delegate yet are auto-instrumentation SDK spans: they belong to the
//     agent, nothing is asserted about their delivery; starting / ending them
//     must not panic. Everything else is unchanged: installation completes,
//     and every span started after SetTracerProvider returned - through any
//     tracer handle, also one that produced auto spans before, also with the
//     flag still on (trace.go: Start uses the delegate when there is one) -
//     reaches the installed SDK exactly once.
//   - The only errors that may reach the otel error handler are those
//     rejections (ErrInstrumentName, "invalid observable", the wrapper's two
//     errors), at most one per provoking operation; every other op and every
//     Collect must succeed. A panic escaping from any op is caught per op and
//     reported as the first violation.
//   - Instruments handed to RegisterCallback: any subset (also the empty one)
//     of the observable instruments of the meter, where an instrument is either
//     a placeholder created through the global meter handle or (op.Nat) an
//     instrument obtained directly from the Meter of the same scope of the SDK
//     that is going to be installed (legal: the placeholder passes foreign
//     observables through unchanged and the SDK accepts its own instruments).
//     In half of the programs one scope is "bare": its placeholder meter never
//     owns a placeholder instrument, only such SDK instruments and callbacks.
//     A callback registered WITHOUT instruments is never invoked by the SDK
//     (documented no-op), so nothing is asserted about its invocations.
//   - "registered with the SDK exactly once unless it had been unregistered" is
//     also decided directly: in 70% of the programs the installed MeterProvider
//     is a wrapper of the harness (the refusing one, or one that only counts)
//     which attributes every RegisterCallback arriving at the SDK's Meter to the
//     program's callback (it calls the function once with a probe context; the
//     harness's callbacks answer with their id and do nothing else) and counts
//     the Unregister calls arriving at the SDK's Registration. At the end of
//     the program: never more than one registration per callback; exactly one
//     when no Unregister was issued before SetMeterProvider returned; none when
//     an Unregister had returned before SetMeterProvider was issued; and when
//     it is registered and an Unregister of it returned, an Unregister reached
//     the SDK ("callback registrations ... start forwarding").
//   - Spans are started with generated options (span kind, an attribute) and a
//     third of them start a child span inside, with the context Start returned,
//     through any tracer handle; one span in six also yields a tracer from its
//     TracerProvider() (not while auto-instrumentation may be attached). For a
//     span started after SetTracerProvider returned, "reaches the SDK" is read
//     as: the SDK records it with that kind, that attribute and the outer
//     span's span context as its parent (none for a background context).
//   - "Obtained from the global API" covers every way a library gets hold of a
//     tracer / provider handle: otel.Tracer, otel.GetTracerProvider().Tracer,
//     the TracerProvider() of a span VALUE a global tracer's Start returned, the
//     TracerProvider() of trace.SpanFromContext(the CONTEXT that Start
//     returned) (Tracer.Start is documented to return "a Context containing the
//     newly-created span"; Span.TracerProvider() to give a provider "on the same
//     telemetry pipeline as the current Span"), immediately or later from a
//     span / context the program held on to. The context given to Start is a
//     generated dimension: background, a valid remote / local span context with
//     any trace-flags byte, a span context that is not valid (trace id or span
//     id missing), or a context an earlier Start returned. Every tracer handle
//     obtained by any route forwards after installation (span_lost otherwise).
//     The installed SDK samples everything (AlwaysSample) so that an unsampled
//     generated parent does not make the SDK drop the span by design. A span
//     started after installation with a context that carries a valid span
//     context is recorded as its child (same reading as for child spans: the
//     span reaches the SDK as it was made); with a context without a valid span
//     context it has no valid parent.
//   - Two goroutines of one phase may Unregister the same Registration
//     concurrently (a third of the programs), also while SetMeterProvider runs.
//   - Deadlock freedom: the program simply runs to completion; a hang is turned
//     into a violation by the vk watchdog (goroutine dump) and the driver.
package c16

import (
	"context"
	"errors"
	"fmt"
	"math"
	"runtime/debug"
	"sort"
	"strings"
	"sync"
	"sync/atomic"
	"testing"
	"time"

	"github.com/go-logr/logr"
	"go.opentelemetry.io/otel"
	"go.opentelemetry.io/otel/attribute"
	"go.opentelemetry.io/otel/internal/global"
	"go.opentelemetry.io/otel/metric"
	"go.opentelemetry.io/otel/metric/embedded"
	"go.opentelemetry.io/otel/propagation"
	sdkmetric "go.opentelemetry.io/otel/sdk/metric"
	"go.opentelemetry.io/otel/sdk/metric/metricdata"
	"go.opentelemetry.io/otel/sdk/resource"
	sdktrace "go.opentelemetry.io/otel/sdk/trace"
	"go.opentelemetry.io/otel/trace"
	"go.opentelemetry.io/otel/verif/internal/vk"
)

// Op is one step of one goroutine.
type Op struct {
	K   string `json:"k"`             // mprov tprov prop meter tracer inst rec span reg unreg inject collect pause set_mp set_tp set_prop self_mp self_tp self_prop
	P   int    `json:"p,omitempty"`   // perturbation before the op (vk.Perturb)
	D   int    `json:"d,omitempty"`   // slot defined (mprov tprov prop meter tracer inst)
	U   int    `json:"u,omitempty"`   // slot used: meter/tracer: provider handle (unless Dir); inst, reg: meter; rec: instrument; span: tracer; inject: propagator handle
	Dir bool   `json:"dir,omitempty"` // meter/tracer: through otel.Meter / otel.Tracer
	S   int    `json:"s,omitempty"`   // meter/tracer: scope index
	Kd  int    `json:"kd,omitempty"`  // inst: kind index
	N   int    `json:"n,omitempty"`   // inst: name index (same meter scope + kind + name = same identity)
	OC  bool   `json:"oc,omitempty"`  // inst: created with an option callback (id CB)
	CB  int    `json:"cb,omitempty"`  // reg / unreg / inst+OC: callback id
	Is  []int  `json:"is,omitempty"`  // reg: observable instrument slots (created through meter slot U)
	Bit int    `json:"bit,omitempty"` // rec: index of the measurement within its instrument identity
	Neg bool   `json:"neg,omitempty"` // rec: negative (up-down counters)
	A   int    `json:"a,omitempty"`   // rec: attribute variant
	Sp  int    `json:"sp,omitempty"`  // span: id
	R   int    `json:"r,omitempty"`   // collect: reader index
	Y   int    `json:"y,omitempty"`   // reg: perturbation inside the callback, before it observes (vk.Perturb)
	Bad int    `json:"bad,omitempty"` // inst: 1..3 = a name the SDK refuses (leading digit / space / longer than 255)
	Ref bool   `json:"ref,omitempty"` // inst: the name carries the mark the refusing wrapper provider (Case.Wrap) answers with (nil, err)
	Sv  int    `json:"sv,omitempty"`  // rec: special value class (0 = the coded value +-4^Bit); recorded with an attribute of its own (sv=Bit)
	Z   bool   `json:"z,omitempty"`   // reg: the callback also observes 0 (attributes cb, z) on every instrument
	Kn  int    `json:"kn,omitempty"`  // span: 1..5 = started with trace.WithSpanKind(kind Kn)
	At  bool   `json:"at,omitempty"`  // span: started with trace.WithAttributes(sa=<span id>)
	In  int    `json:"in,omitempty"`  // span: a child span (id CSp) is started inside it, with the context Start returned, through tracer slot In-1
	CSp int    `json:"csp,omitempty"` // span: id of the child
	TD  int    `json:"td,omitempty"`  // span: tracer slot TD-1 is obtained (scope S) from the span's TracerProvider()
	Nat bool   `json:"nat,omitempty"` // inst (observable kinds): created directly on the Meter of the SDK that is (going to be) installed, same scope as meter slot U, not through the global API
	Pk  int    `json:"pk,omitempty"`  // span: the context Start is given: 0 background, 1 carries a valid REMOTE span context, 2 a valid local (non-remote) span context, 3 a span context that is not valid (trace id or span id missing), 4 the context an earlier Start returned (saved-context slot Px-1)
	Pf  int    `json:"pf,omitempty"`  // span (Pk 1..3): trace flags byte of that span context (0..255; Pk 3: odd = the trace id is missing, even = the span id)
	Px  int    `json:"px,omitempty"`  // span with Pk 4 / tprov: saved-context slot Px-1 (tprov with Px 0: otel.GetTracerProvider())
	Cx  int    `json:"cx,omitempty"`  // span: the context Start returned and the span value are kept in saved-context slot Cx-1 (a library that holds on to them)
	TV  int    `json:"tv,omitempty"`  // span with TD / tprov with Px: the provider is 0 = the span VALUE's TracerProvider(), 1 = trace.SpanFromContext(the context Start returned).TracerProvider()
}

// parentKinds names Op.Pk for class labels and messages.
var parentKinds = []string{"background", "valid_remote_parent", "valid_local_parent", "invalid_span_context", "saved_context"}

// genParent is the span context put into the context a span op with Pk 1..3
// starts with (a function of the span id, the flags byte is generated).
func genParent(pk, pf, id int) trace.SpanContext {
	var tid trace.TraceID
	var sid trace.SpanID
	tid[0], tid[13], tid[14], tid[15] = 0xc1, byte(id>>16), byte(id>>8), byte(id)
	sid[0], sid[5], sid[6], sid[7] = 0x16, byte(id>>16), byte(id>>8), byte(id)
	if pk == 3 {
		if pf&1 == 1 {
			tid = trace.TraceID{}
		} else {
			sid = trace.SpanID{}
		}
	}
	return trace.NewSpanContext(trace.SpanContextConfig{TraceID: tid, SpanID: sid, TraceFlags: trace.TraceFlags(byte(pf)), Remote: pk == 1})
}

// savedCtx is what a span op with Cx keeps: the context Start returned, the
// span value, and what the span value's SpanContext() returned.
type savedCtx struct {
	ctx  context.Context
	span trace.Span
	sc   trace.SpanContext
}

// Case is one generated program.
type Case struct {
	Phases  [][][]Op `json:"phases"`
	Readers int      `json:"readers"`            // ManualReaders of the installed MeterProvider (1-3)
	Wrap    bool     `json:"wrap"`               // the installed MeterProvider is a wrapper of the harness that refuses marked instruments with (nil, err)
	Rec     bool     `json:"rec,omitempty"`      // the installed MeterProvider is a wrapper of the harness that only counts the RegisterCallback / Unregister calls reaching the SDK (Wrap counts too)
	AutoOn  bool     `json:"auto_on,omitempty"`  // the auto-instrumentation flag (global.autoInstEnabled) is on when the program starts
	AutoOff int      `json:"auto_off,omitempty"` // ... and is switched off at the barrier before this phase (>= number of phases: never)
	Runs    int      `json:"runs"`
}

const maxBits = 26 // 4^25 = 2^50: sums stay exact in float64

const (
	shapeCounter = iota
	shapeUpDown
	shapeHist
	shapeGauge
)

type kindDef struct {
	short string
	float bool
	obs   bool
	shape int
}

var kinds = []kindDef{
	{"ic", false, false, shapeCounter}, {"iudc", false, false, shapeUpDown}, {"ih", false, false, shapeHist}, {"ig", false, false, shapeGauge},
	{"fc", true, false, shapeCounter}, {"fudc", true, false, shapeUpDown}, {"fh", true, false, shapeHist}, {"fg", true, false, shapeGauge},
	{"aic", false, true, shapeCounter}, {"aiudc", false, true, shapeUpDown}, {"aig", false, true, shapeGauge},
	{"afc", true, true, shapeCounter}, {"afudc", true, true, shapeUpDown}, {"afg", true, true, shapeGauge},
}

type scopeDef struct{ name, version, schema, attr string }

var scopes = []scopeDef{
	{name: "m0"},
	{name: "m0", version: "v1"},
	{name: "m1", schema: "https://verif.invalid/schema"},
	{name: "m2", attr: "x"},
}

func meterOpts(s scopeDef) []metric.MeterOption {
	var o []metric.MeterOption
	if s.version != "" {
		o = append(o, metric.WithInstrumentationVersion(s.version))
	}
	if s.schema != "" {
		o = append(o, metric.WithSchemaURL(s.schema))
	}
	if s.attr != "" {
		o = append(o, metric.WithInstrumentationAttributes(attribute.String("scope.attr", s.attr)))
	}
	return o
}

func tracerOpts(s scopeDef) []trace.TracerOption {
	var o []trace.TracerOption
	if s.version != "" {
		o = append(o, trace.WithInstrumentationVersion(s.version))
	}
	if s.schema != "" {
		o = append(o, trace.WithSchemaURL(s.schema))
	}
	if s.attr != "" {
		o = append(o, trace.WithInstrumentationAttributes(attribute.String("scope.attr", s.attr)))
	}
	return o
}

func scopeIndex(name, version, schema string, attrs attribute.Set) int {
	a := ""
	if v, ok := attrs.Value("scope.attr"); ok {
		a = v.AsString()
	}
	for i, s := range scopes {
		if s.name == name && s.version == version && s.schema == schema && s.attr == a && (attrs.Len() == 0) == (s.attr == "") {
			return i
		}
	}
	return -1
}

func instName(op Op) string {
	if op.Ref && op.Bad == 0 {
		op.Ref = false
		return instName(op) + refusedMark
	}
	switch op.Bad {
	case 1:
		return fmt.Sprintf("1st.%s_%d", kinds[op.Kd].short, op.N)
	case 2:
		return fmt.Sprintf("%s sp %d", kinds[op.Kd].short, op.N)
	case 3:
		return fmt.Sprintf("%s_%d_%s", kinds[op.Kd].short, op.N, strings.Repeat("x", 260))
	}
	if op.OC {
		return fmt.Sprintf("%s_oc%d", kinds[op.Kd].short, op.CB)
	}
	if op.Nat {
		return fmt.Sprintf("%s_nat%d", kinds[op.Kd].short, op.N)
	}
	return fmt.Sprintf("%s_%d", kinds[op.Kd].short, op.N)
}

// description / unit are a function of the name index so that instruments of
// the same name never conflict.
func instDescUnit(op Op) (string, string) {
	if op.Bad != 0 {
		return "", ""
	}
	if op.OC {
		return "with option callback", ""
	}
	if op.N == 1 {
		return "d1", "By"
	}
	return "", ""
}

func mkOpts[T any](op Op, extra ...any) []T {
	var out []T
	d, u := instDescUnit(op)
	if d != "" {
		out = append(out, any(metric.WithDescription(d)).(T))
	}
	if u != "" {
		out = append(out, any(metric.WithUnit(u)).(T))
	}
	for _, e := range extra {
		out = append(out, e.(T))
	}
	return out
}

// ---------------------------------------------------------------------
// special measurement values (outside the 4^k code)

func svAllowed(k kindDef) []int {
	signed := k.shape == shapeUpDown || k.shape == shapeGauge
	switch {
	case !k.float && signed:
		return []int{1, 2, 3, 4, 5}
	case !k.float:
		return []int{1, 2, 3}
	case signed:
		return []int{1, 2, 3, 4, 5, 6, 7, 8, 9}
	case k.shape == shapeHist:
		return []int{1, 2, 3, 4, 5, 6, 7}
	}
	return []int{1, 2, 3, 4, 5, 6} // monotonic float counter: non-negative, no NaN
}

func svInt(sv int) int64 {
	switch sv {
	case 2:
		return math.MaxInt64
	case 3:
		return 1<<53 + 1
	case 4:
		return -1
	case 5:
		return math.MinInt64
	}
	return 0
}

func svFloat(sv int) float64 {
	switch sv {
	case 2:
		return math.Copysign(0, -1)
	case 3:
		return math.MaxFloat64
	case 4:
		return math.SmallestNonzeroFloat64
	case 5:
		return math.Inf(1)
	case 6:
		return 0.1
	case 7:
		return math.NaN()
	case 8:
		return -1.5
	case 9:
		return math.Inf(-1)
	}
	return 0
}

func sameFloat(a, b float64) bool { return a == b || (math.IsNaN(a) && math.IsNaN(b)) }

// ---------------------------------------------------------------------
// a MeterProvider of the harness that wraps the SDK's and refuses marked
// instruments the way a strict bridge would: (nil, err); callbacks that touch
// a refused (hence nil) instrument are refused the same way. Everything else
// goes to the real SDK meter.

const refusedMark = "_refused"

var (
	errRefused   = errors.New("verif: instrument refused by the wrapping provider")
	errRefusedCB = errors.New("verif: callback refused by the wrapping provider: it observes a refused instrument")
)

type refProvider struct {
	embedded.MeterProvider
	inner  metric.MeterProvider
	refuse bool // answer marked instruments with (nil, err)

	mu     sync.Mutex
	regs   map[int]int // callback id -> RegisterCallback calls that reached the SDK meter and succeeded
	unregs map[int]int // callback id -> Unregister calls that reached the SDK's Registration
}

func (p *refProvider) Meter(name string, opts ...metric.MeterOption) metric.Meter {
	return &refMeter{Meter: p.inner.Meter(name, opts...), p: p}
}

func (p *refProvider) counts(cb int) (regs, unregs int) {
	p.mu.Lock()
	defer p.mu.Unlock()
	return p.regs[cb], p.unregs[cb]
}

type refMeter struct {
	metric.Meter
	p *refProvider
}

// probeKey marks the context with which the counting wrapper asks a callback
// of the harness for its id (the callback writes it into the *int and returns
// without observing): that is how a registration arriving at the SDK is
// attributed to the RegisterCallback op of the program it stems from.
type probeKey struct{}

type refReg struct {
	embedded.Registration
	inner metric.Registration
	p     *refProvider
	cb    int
}

func (r *refReg) Unregister() error {
	r.p.mu.Lock()
	r.p.unregs[r.cb]++
	r.p.mu.Unlock()
	return r.inner.Unregister()
}

func (m *refMeter) refusedName(n string) bool { return m.p.refuse && strings.HasSuffix(n, refusedMark) }

func (m *refMeter) Int64Counter(n string, o ...metric.Int64CounterOption) (metric.Int64Counter, error) {
	if m.refusedName(n) {
		return nil, errRefused
	}
	return m.Meter.Int64Counter(n, o...)
}

func (m *refMeter) Int64UpDownCounter(n string, o ...metric.Int64UpDownCounterOption) (metric.Int64UpDownCounter, error) {
	if m.refusedName(n) {
		return nil, errRefused
	}
	return m.Meter.Int64UpDownCounter(n, o...)
}

func (m *refMeter) Int64Histogram(n string, o ...metric.Int64HistogramOption) (metric.Int64Histogram, error) {
	if m.refusedName(n) {
		return nil, errRefused
	}
	return m.Meter.Int64Histogram(n, o...)
}

func (m *refMeter) Int64Gauge(n string, o ...metric.Int64GaugeOption) (metric.Int64Gauge, error) {
	if m.refusedName(n) {
		return nil, errRefused
	}
	return m.Meter.Int64Gauge(n, o...)
}

func (m *refMeter) Int64ObservableCounter(n string, o ...metric.Int64ObservableCounterOption) (metric.Int64ObservableCounter, error) {
	if m.refusedName(n) {
		return nil, errRefused
	}
	return m.Meter.Int64ObservableCounter(n, o...)
}

func (m *refMeter) Int64ObservableUpDownCounter(n string, o ...metric.Int64ObservableUpDownCounterOption) (metric.Int64ObservableUpDownCounter, error) {
	if m.refusedName(n) {
		return nil, errRefused
	}
	return m.Meter.Int64ObservableUpDownCounter(n, o...)
}

func (m *refMeter) Int64ObservableGauge(n string, o ...metric.Int64ObservableGaugeOption) (metric.Int64ObservableGauge, error) {
	if m.refusedName(n) {
		return nil, errRefused
	}
	return m.Meter.Int64ObservableGauge(n, o...)
}

func (m *refMeter) Float64Counter(n string, o ...metric.Float64CounterOption) (metric.Float64Counter, error) {
	if m.refusedName(n) {
		return nil, errRefused
	}
	return m.Meter.Float64Counter(n, o...)
}

func (m *refMeter) Float64UpDownCounter(n string, o ...metric.Float64UpDownCounterOption) (metric.Float64UpDownCounter, error) {
	if m.refusedName(n) {
		return nil, errRefused
	}
	return m.Meter.Float64UpDownCounter(n, o...)
}

func (m *refMeter) Float64Histogram(n string, o ...metric.Float64HistogramOption) (metric.Float64Histogram, error) {
	if m.refusedName(n) {
		return nil, errRefused
	}
	return m.Meter.Float64Histogram(n, o...)
}

func (m *refMeter) Float64Gauge(n string, o ...metric.Float64GaugeOption) (metric.Float64Gauge, error) {
	if m.refusedName(n) {
		return nil, errRefused
	}
	return m.Meter.Float64Gauge(n, o...)
}

func (m *refMeter) Float64ObservableCounter(n string, o ...metric.Float64ObservableCounterOption) (metric.Float64ObservableCounter, error) {
	if m.refusedName(n) {
		return nil, errRefused
	}
	return m.Meter.Float64ObservableCounter(n, o...)
}

func (m *refMeter) Float64ObservableUpDownCounter(n string, o ...metric.Float64ObservableUpDownCounterOption) (metric.Float64ObservableUpDownCounter, error) {
	if m.refusedName(n) {
		return nil, errRefused
	}
	return m.Meter.Float64ObservableUpDownCounter(n, o...)
}

func (m *refMeter) Float64ObservableGauge(n string, o ...metric.Float64ObservableGaugeOption) (metric.Float64ObservableGauge, error) {
	if m.refusedName(n) {
		return nil, errRefused
	}
	return m.Meter.Float64ObservableGauge(n, o...)
}

func (m *refMeter) RegisterCallback(f metric.Callback, insts ...metric.Observable) (metric.Registration, error) {
	for _, i := range insts {
		if i == nil {
			return nil, errRefusedCB
		}
	}
	id := -1
	_ = f(context.WithValue(context.Background(), probeKey{}, &id), nil)
	reg, err := m.Meter.RegisterCallback(f, insts...)
	if err != nil || reg == nil {
		return reg, err
	}
	m.p.mu.Lock()
	m.p.regs[id]++
	m.p.mu.Unlock()
	return &refReg{inner: reg, p: m.p, cb: id}, nil
}

// probed answers the counting wrapper's question (see probeKey).
func probed(ctx context.Context, cb int) bool {
	if p, ok := ctx.Value(probeKey{}).(*int); ok {
		*p = cb
		return true
	}
	return false
}

func obsValue(cb, collect int) int64 { return int64(cb+1)*1000 + int64(collect) + 1 }

func pow4(k int) int64 { return int64(1) << (2 * uint(k)) }

// ---------------------------------------------------------------------
// recorders

type spanSeen struct {
	scope  int
	at     int64
	kind   trace.SpanKind
	sa     int64 // value of attribute "sa", -1 when absent
	sc     trace.SpanContext
	parent trace.SpanContext
}

type recSP struct {
	clock *vk.Clock
	mu    sync.Mutex
	ended map[string][]spanSeen
	start map[string]int
}

func (p *recSP) OnStart(_ context.Context, s sdktrace.ReadWriteSpan) {
	p.mu.Lock()
	p.start[s.Name()]++
	p.mu.Unlock()
}

func (p *recSP) OnEnd(s sdktrace.ReadOnlySpan) {
	sc := s.InstrumentationScope()
	p.mu.Lock()
	sa := int64(-1)
	for _, kv := range s.Attributes() {
		if kv.Key == "sa" {
			sa = kv.Value.AsInt64()
		}
	}
	p.ended[s.Name()] = append(p.ended[s.Name()], spanSeen{scopeIndex(sc.Name, sc.Version, sc.SchemaURL, sc.Attributes), p.clock.Tick(), s.SpanKind(), sa, s.SpanContext(), s.Parent()})
	p.mu.Unlock()
}
func (p *recSP) Shutdown(context.Context) error   { return nil }
func (p *recSP) ForceFlush(context.Context) error { return nil }

type propKey struct{}

type recProp struct{ injects, extracts atomic.Int64 }

func (p *recProp) Inject(_ context.Context, c propagation.TextMapCarrier) {
	p.injects.Add(1)
	c.Set("verif", "on")
}

func (p *recProp) Extract(ctx context.Context, c propagation.TextMapCarrier) context.Context {
	p.extracts.Add(1)
	return context.WithValue(ctx, propKey{}, c.Get("verif-in"))
}
func (p *recProp) Fields() []string { return []string{"verif"} }

// ---------------------------------------------------------------------

type opRec struct {
	start, end int64
	done       bool
	skipped    bool
	err        error
	note       string
	panicked   string
	outer      trace.SpanContext // span: what the outer span's SpanContext() returned
	parent     trace.SpanContext // span: the span context the context given to Start carried (zero value: none / not valid)
}

type collKey struct{}

type collection struct {
	idx        int
	reader     int
	start, end int64
	err        error
	rm         metricdata.ResourceMetrics
}

type instMeta struct {
	defined bool
	meter   int
	scope   int
	op      Op // the defining op
	ident   string
}

type cbMeta struct {
	defined bool
	opt     bool
	tainted bool // observes an instrument whose name the SDK refuses: the SDK rejects the registration
	regPh   int
	z       bool // also observes 0 with attributes (cb, z)
	insts   []int
	reg     *opRec
	unregs  []*opRec
}

type world struct {
	clock   *vk.Clock
	mp      *sdkmetric.MeterProvider
	install metric.MeterProvider // what otel.SetMeterProvider is given: the SDK's or the refusing wrapper around it
	readers []*sdkmetric.ManualReader
	rdMu    []sync.Mutex
	tp      *sdktrace.TracerProvider
	sp      *recSP
	pr      *recProp
	mprovs  []metric.MeterProvider
	tprovs  []trace.TracerProvider
	props   []propagation.TextMapPropagator
	meters  []metric.Meter
	tracers []trace.Tracer
	saved   []*savedCtx
	insts   []any
	regs    []metric.Registration

	collsMu sync.Mutex
	colls   []*collection

	invMu sync.Mutex
	inv   map[[2]int]int
}

// invoked notes one run of callback cb; the collection it belongs to is the
// one whose Collect call carries the context the SDK hands to the callback.
func (w *world) invoked(ctx context.Context, cb int) int {
	j := -1
	if v, ok := ctx.Value(collKey{}).(int); ok {
		j = v
	}
	w.invMu.Lock()
	w.inv[[2]int{cb, j}]++
	w.invMu.Unlock()
	return j
}

// collect runs one collection of reader rd (one at a time per reader; the
// collections of different readers may overlap).
func (w *world) collect(rd int) *collection {
	w.rdMu[rd].Lock()
	defer w.rdMu[rd].Unlock()
	w.collsMu.Lock()
	col := &collection{idx: len(w.colls), reader: rd}
	w.colls = append(w.colls, col)
	w.collsMu.Unlock()
	ctx := context.WithValue(context.Background(), collKey{}, col.idx)
	col.start = w.clock.Tick()
	col.err = w.readers[rd].Collect(ctx, &col.rm)
	col.end = w.clock.Tick()
	return col
}

func measAttrs(op Op) attribute.Set {
	var kvs []attribute.KeyValue
	if op.A == 1 {
		kvs = append(kvs, attribute.Int("a", 1))
	}
	if op.Sv != 0 {
		kvs = append(kvs, attribute.Int("sv", op.Bit))
	}
	return attribute.NewSet(kvs...)
}

func measKey(op Op) string {
	k := ""
	if op.A == 1 {
		k = "a=1;"
	}
	if op.Sv != 0 {
		k += fmt.Sprintf("sv=%d;", op.Bit)
	}
	return k
}

func (w *world) createInst(m metric.Meter, op Op) (any, error) {
	name := instName(op)
	cbi := func(ctx context.Context, o metric.Int64Observer) error {
		j := w.invoked(ctx, op.CB)
		o.Observe(obsValue(op.CB, j), metric.WithAttributes(attribute.Int("cb", op.CB)))
		return nil
	}
	cbf := func(ctx context.Context, o metric.Float64Observer) error {
		j := w.invoked(ctx, op.CB)
		o.Observe(float64(obsValue(op.CB, j)), metric.WithAttributes(attribute.Int("cb", op.CB)))
		return nil
	}
	var ei, ef []any
	if op.OC {
		ei, ef = []any{metric.WithInt64Callback(cbi)}, []any{metric.WithFloat64Callback(cbf)}
	}
	switch op.Kd {
	case 0:
		return m.Int64Counter(name, mkOpts[metric.Int64CounterOption](op)...)
	case 1:
		return m.Int64UpDownCounter(name, mkOpts[metric.Int64UpDownCounterOption](op)...)
	case 2:
		return m.Int64Histogram(name, mkOpts[metric.Int64HistogramOption](op)...)
	case 3:
		return m.Int64Gauge(name, mkOpts[metric.Int64GaugeOption](op)...)
	case 4:
		return m.Float64Counter(name, mkOpts[metric.Float64CounterOption](op)...)
	case 5:
		return m.Float64UpDownCounter(name, mkOpts[metric.Float64UpDownCounterOption](op)...)
	case 6:
		return m.Float64Histogram(name, mkOpts[metric.Float64HistogramOption](op)...)
	case 7:
		return m.Float64Gauge(name, mkOpts[metric.Float64GaugeOption](op)...)
	case 8:
		return m.Int64ObservableCounter(name, mkOpts[metric.Int64ObservableCounterOption](op, ei...)...)
	case 9:
		return m.Int64ObservableUpDownCounter(name, mkOpts[metric.Int64ObservableUpDownCounterOption](op, ei...)...)
	case 10:
		return m.Int64ObservableGauge(name, mkOpts[metric.Int64ObservableGaugeOption](op, ei...)...)
	case 11:
		return m.Float64ObservableCounter(name, mkOpts[metric.Float64ObservableCounterOption](op, ef...)...)
	case 12:
		return m.Float64ObservableUpDownCounter(name, mkOpts[metric.Float64ObservableUpDownCounterOption](op, ef...)...)
	case 13:
		return m.Float64ObservableGauge(name, mkOpts[metric.Float64ObservableGaugeOption](op, ef...)...)
	}
	return nil, fmt.Errorf("harness: unknown kind %d", op.Kd)
}

func recValue(kd int, op Op) int64 {
	if kinds[kd].shape == shapeGauge {
		return int64(op.Bit) + 1
	}
	v := pow4(op.Bit)
	if op.Neg && kinds[kd].shape == shapeUpDown {
		v = -v
	}
	return v
}

func (w *world) record(h any, kd int, op Op) {
	ctx := context.Background()
	v := recValue(kd, op)
	fv := float64(v)
	if op.Sv != 0 {
		v, fv = svInt(op.Sv), svFloat(op.Sv)
	}
	set := measAttrs(op)
	switch kd {
	case 0:
		h.(metric.Int64Counter).Add(ctx, v, metric.WithAttributeSet(set))
	case 1:
		h.(metric.Int64UpDownCounter).Add(ctx, v, metric.WithAttributeSet(set))
	case 2:
		h.(metric.Int64Histogram).Record(ctx, v, metric.WithAttributeSet(set))
	case 3:
		h.(metric.Int64Gauge).Record(ctx, v, metric.WithAttributeSet(set))
	case 4:
		h.(metric.Float64Counter).Add(ctx, fv, metric.WithAttributeSet(set))
	case 5:
		h.(metric.Float64UpDownCounter).Add(ctx, fv, metric.WithAttributeSet(set))
	case 6:
		h.(metric.Float64Histogram).Record(ctx, fv, metric.WithAttributeSet(set))
	case 7:
		h.(metric.Float64Gauge).Record(ctx, fv, metric.WithAttributeSet(set))
	}
}

func spanOpts(kn int, at bool, id int) []trace.SpanStartOption {
	var o []trace.SpanStartOption
	if kn >= 1 && kn <= 5 {
		o = append(o, trace.WithSpanKind(trace.SpanKind(kn)))
	}
	if at {
		o = append(o, trace.WithAttributes(attribute.Int("sa", id)))
	}
	return o
}

func maxSlot(n *int, d int) {
	if d+1 > *n {
		*n = d + 1
	}
}

const never = int64(1) << 62

func runOnce(c Case) ([]vk.Violation, map[string]bool) {
	var vs []vk.Violation
	classes := map[string]bool{}
	bad := func(kind, format string, a ...any) {
		if len(vs) < 40 {
			vs = append(vs, vk.V(kind, format, a...))
		}
	}

	global.VerifResetGlobals()
	// The flag is a plain bool an agent flips from outside the process: it is
	// only touched here, at phase barriers and at the end, i.e. never while a
	// goroutine of the program runs (no race of the harness's own making).
	global.VerifSetAutoInstrumentation(c.AutoOn)
	logs := &vk.LogCapture{}
	otel.SetLogger(logr.New(logs))
	errs := &vk.ErrCapture{}
	otel.SetErrorHandler(errs)

	clock := &vk.Clock{}
	w := &world{clock: clock, inv: map[[2]int]int{}}
	nReaders := c.Readers
	if nReaders < 1 {
		nReaders = 1
	}
	if nReaders > 3 {
		nReaders = 3
	}
	mpOpts := []sdkmetric.Option{sdkmetric.WithResource(resource.Empty())}
	for i := 0; i < nReaders; i++ {
		rd := sdkmetric.NewManualReader()
		w.readers = append(w.readers, rd)
		mpOpts = append(mpOpts, sdkmetric.WithReader(rd))
	}
	w.rdMu = make([]sync.Mutex, nReaders)
	w.mp = sdkmetric.NewMeterProvider(mpOpts...)
	w.install = w.mp
	var counting *refProvider
	if c.Wrap || c.Rec {
		counting = &refProvider{inner: w.mp, refuse: c.Wrap, regs: map[int]int{}, unregs: map[int]int{}}
		w.install = counting
	}
	rejected := func(op Op) bool { return op.Bad != 0 || (c.Wrap && op.Ref) }
	w.sp = &recSP{clock: clock, ended: map[string][]spanSeen{}, start: map[string]int{}}
	// AlwaysSample: the generated parent span contexts carry any flags byte; the
	// default sampler would (correctly) drop the children of unsampled parents
	w.tp = sdktrace.NewTracerProvider(sdktrace.WithSpanProcessor(w.sp), sdktrace.WithResource(resource.Empty()), sdktrace.WithSampler(sdktrace.AlwaysSample()))
	w.pr = &recProp{}
	defer func() {
		_ = w.mp.Shutdown(context.Background())
		_ = w.tp.Shutdown(context.Background())
		global.VerifSetAutoInstrumentation(false)
		global.VerifResetGlobals()
	}()

	// ---- static tables from the program text ----
	var nMprov, nTprov, nProp, nMeter, nTracer, nInst, nCB, nCtx int
	each := func(f func(ph, g, i int, op Op)) {
		for ph, phase := range c.Phases {
			for g, ops := range phase {
				for i, op := range ops {
					f(ph, g, i, op)
				}
			}
		}
	}
	each(func(_, _, _ int, op Op) {
		switch op.K {
		case "mprov":
			maxSlot(&nMprov, op.D)
		case "tprov":
			maxSlot(&nTprov, op.D)
		case "prop":
			maxSlot(&nProp, op.D)
		case "meter":
			maxSlot(&nMeter, op.D)
		case "tracer":
			maxSlot(&nTracer, op.D)
		case "span":
			if op.TD > 0 {
				maxSlot(&nTracer, op.TD-1)
			}
			if op.Cx > 0 {
				maxSlot(&nCtx, op.Cx-1)
			}
		case "inst":
			maxSlot(&nInst, op.D)
			if op.OC {
				maxSlot(&nCB, op.CB)
			}
		case "reg":
			maxSlot(&nCB, op.CB)
		}
	})
	w.mprovs = make([]metric.MeterProvider, nMprov)
	w.tprovs = make([]trace.TracerProvider, nTprov)
	w.props = make([]propagation.TextMapPropagator, nProp)
	w.meters = make([]metric.Meter, nMeter)
	w.tracers = make([]trace.Tracer, nTracer)
	w.saved = make([]*savedCtx, nCtx)
	w.insts = make([]any, nInst)
	w.regs = make([]metric.Registration, nCB)
	meterScope := make([]int, nMeter)
	meterPhase := make([]int, nMeter)
	tracerScope := make([]int, nTracer)
	tracerPhase := make([]int, nTracer)
	tracerHow := make([]string, nTracer) // how the program got hold of the tracer handle (for messages)
	tprovHow := make([]string, nTprov)
	ctxHow := make([]string, nCtx)
	propPhase := make([]int, nProp)
	im := make([]instMeta, nInst)
	cm := make([]cbMeta, nCB)
	recs := make([][][]opRec, len(c.Phases))
	for ph, phase := range c.Phases {
		recs[ph] = make([][]opRec, len(phase))
		for g, ops := range phase {
			recs[ph][g] = make([]opRec, len(ops))
		}
	}
	valid := true
	each(func(ph, _, _ int, op Op) {
		switch op.K {
		case "meter":
			if op.S < 0 || op.S >= len(scopes) {
				valid = false
				return
			}
			meterScope[op.D], meterPhase[op.D] = op.S, ph
		case "tracer":
			if op.S < 0 || op.S >= len(scopes) {
				valid = false
				return
			}
			tracerScope[op.D], tracerPhase[op.D] = op.S, ph
		case "span":
			if op.Pk < 0 || op.Pk >= len(parentKinds) || op.Cx < 0 || op.Px < 0 || op.Px > nCtx || (op.Pk == 4 && op.Px == 0) {
				valid = false
				return
			}
			how := fmt.Sprintf("span sp%d (started in phase %d with a context of kind %s)", op.Sp, ph, parentKinds[op.Pk])
			if op.Cx > 0 {
				ctxHow[op.Cx-1] = how
			}
			if op.TD > 0 {
				if op.S < 0 || op.S >= len(scopes) {
					valid = false
					return
				}
				tracerScope[op.TD-1], tracerPhase[op.TD-1] = op.S, ph
				if op.TV == 1 {
					tracerHow[op.TD-1] = "trace.SpanFromContext(the context Start returned).TracerProvider().Tracer(..) of " + how
				} else {
					tracerHow[op.TD-1] = "TracerProvider().Tracer(..) of the span value of " + how
				}
			}
		case "tprov":
			if op.Px < 0 || op.Px > nCtx {
				valid = false
				return
			}
			switch {
			case op.Px == 0:
				tprovHow[op.D] = fmt.Sprintf("otel.GetTracerProvider() in phase %d", ph)
			case op.TV == 1:
				tprovHow[op.D] = fmt.Sprintf("trace.SpanFromContext(saved context %d).TracerProvider() in phase %d", op.Px-1, ph)
			default:
				tprovHow[op.D] = fmt.Sprintf("TracerProvider() of the saved span value %d in phase %d", op.Px-1, ph)
			}
		case "prop":
			propPhase[op.D] = ph
		}
	})
	each(func(ph, g, i int, op Op) {
		switch op.K {
		case "inst":
			if op.U < 0 || op.U >= nMeter || op.Kd < 0 || op.Kd >= len(kinds) || (op.Nat && (!kinds[op.Kd].obs || op.OC || op.Bad != 0 || op.Ref)) {
				valid = false
				return
			}
			sc := meterScope[op.U]
			im[op.D] = instMeta{defined: true, meter: op.U, scope: sc, op: op, ident: fmt.Sprintf("%d/%s", sc, instName(op))}
			if op.OC {
				cm[op.CB] = cbMeta{defined: true, opt: true, tainted: rejected(op), insts: []int{op.D}, reg: &recs[ph][g][i]}
			}
		case "reg":
			cm[op.CB] = cbMeta{defined: true, insts: op.Is, reg: &recs[ph][g][i], regPh: ph, z: op.Z}
		}
	})
	each(func(ph, g, i int, op Op) {
		switch op.K {
		case "unreg":
			if op.CB < 0 || op.CB >= nCB || !cm[op.CB].defined || cm[op.CB].opt {
				valid = false
				return
			}
			cm[op.CB].unregs = append(cm[op.CB].unregs, &recs[ph][g][i])
		case "reg":
			for _, s := range op.Is {
				if s < 0 || s >= nInst || !im[s].defined || !kinds[im[s].op.Kd].obs || im[s].meter != op.U {
					valid = false
				}
			}
			if op.U < 0 || op.U >= nMeter {
				valid = false
			}
			if valid {
				for _, s := range op.Is {
					if rejected(im[s].op) {
						cm[op.CB].tainted = true
					}
				}
			}
		case "rec":
			if op.U < 0 || op.U >= nInst || !im[op.U].defined || kinds[im[op.U].op.Kd].obs || op.Bit < 0 || op.Bit >= maxBits {
				valid = false
			}
		case "span":
			if op.U < 0 || op.U >= nTracer || op.In < 0 || op.In > nTracer {
				valid = false
			}
		case "inject":
			if op.U < 0 || op.U >= nProp {
				valid = false
			}
		case "meter":
			if !op.Dir && (op.U < 0 || op.U >= nMprov) {
				valid = false
			}
		case "tracer":
			if !op.Dir && (op.U < 0 || op.U >= nTprov) {
				valid = false
			}
		}
	})
	if !valid {
		classes["malformed_program(no assertion)"] = true
		return nil, classes
	}
	each(func(_, _, _ int, op Op) {
		if op.K == "tprov" && op.Px > 0 {
			tprovHow[op.D] += ", kept from " + ctxHow[op.Px-1]
		}
	})
	each(func(_, _, _ int, op Op) {
		if op.K == "tracer" {
			if op.Dir {
				tracerHow[op.D] = "otel.Tracer(..)"
			} else {
				tracerHow[op.D] = fmt.Sprintf("Tracer(..) on provider handle %d (%s)", op.U, tprovHow[op.U])
			}
		}
	})

	type injRec struct {
		injected, extracted, fields bool
	}
	injs := map[*opRec]*injRec{}
	var injMu sync.Mutex

	exec := func(ph, g, i int, op Op) {
		r := &recs[ph][g][i]
		ctx := context.Background()
		vk.Perturb(op.P)
		r.start = clock.Tick()
		defer func() {
			// a panic escaping from the code under test: note it (first
			// violation) and let the rest of the program run
			if p := recover(); p != nil {
				r.panicked = fmt.Sprintf("%v\n%s", p, debug.Stack())
				r.end = clock.Tick()
				r.done = true
			}
		}()
		switch op.K {
		case "mprov":
			w.mprovs[op.D] = otel.GetMeterProvider()
		case "tprov":
			switch {
			case op.Px == 0:
				w.tprovs[op.D] = otel.GetTracerProvider()
			case w.saved[op.Px-1] == nil:
				r.skipped = true
			case op.TV == 1:
				w.tprovs[op.D] = trace.SpanFromContext(w.saved[op.Px-1].ctx).TracerProvider()
			default:
				w.tprovs[op.D] = w.saved[op.Px-1].span.TracerProvider()
			}
		case "prop":
			w.props[op.D] = otel.GetTextMapPropagator()
		case "meter":
			s := scopes[op.S]
			if op.Dir {
				w.meters[op.D] = otel.Meter(s.name, meterOpts(s)...)
			} else if h := w.mprovs[op.U]; h != nil {
				w.meters[op.D] = h.Meter(s.name, meterOpts(s)...)
			} else {
				r.skipped = true
			}
		case "tracer":
			s := scopes[op.S]
			if op.Dir {
				w.tracers[op.D] = otel.Tracer(s.name, tracerOpts(s)...)
			} else if h := w.tprovs[op.U]; h != nil {
				w.tracers[op.D] = h.Tracer(s.name, tracerOpts(s)...)
			} else {
				r.skipped = true
			}
		case "inst":
			if w.meters[op.U] == nil {
				r.skipped = true
				break
			}
			m := w.meters[op.U]
			if op.Nat {
				// directly on the SDK that is (going to be) installed
				sc := scopes[meterScope[op.U]]
				m = w.mp.Meter(sc.name, meterOpts(sc)...)
			}
			h, err := w.createInst(m, op)
			r.err = err
			if err == nil {
				w.insts[op.D] = h
			}
		case "rec":
			if h := w.insts[op.U]; h != nil {
				w.record(h, im[op.U].op.Kd, op)
			} else {
				r.skipped = true
			}
		case "span":
			if tr := w.tracers[op.U]; tr != nil {
				switch op.Pk {
				case 1:
					r.parent = genParent(op.Pk, op.Pf, op.Sp)
					ctx = trace.ContextWithRemoteSpanContext(ctx, r.parent)
				case 2:
					r.parent = genParent(op.Pk, op.Pf, op.Sp)
					ctx = trace.ContextWithSpanContext(ctx, r.parent)
				case 3:
					ctx = trace.ContextWithSpanContext(ctx, genParent(op.Pk, op.Pf, op.Sp))
				case 4:
					if sv := w.saved[op.Px-1]; sv != nil {
						ctx = sv.ctx
						if sv.sc.IsValid() {
							r.parent = sv.sc
						}
					}
				}
				ctx2, sp := tr.Start(ctx, fmt.Sprintf("sp%d", op.Sp), spanOpts(op.Kn, op.At, op.Sp)...)
				r.note = fmt.Sprintf("recording=%v", sp.IsRecording())
				r.outer = sp.SpanContext()
				if op.Cx > 0 {
					w.saved[op.Cx-1] = &savedCtx{ctx: ctx2, span: sp, sc: r.outer}
				}
				if op.TD > 0 {
					sc := scopes[op.S]
					if op.TV == 1 {
						w.tracers[op.TD-1] = trace.SpanFromContext(ctx2).TracerProvider().Tracer(sc.name, tracerOpts(sc)...)
					} else {
						w.tracers[op.TD-1] = sp.TracerProvider().Tracer(sc.name, tracerOpts(sc)...)
					}
				}
				if op.In > 0 {
					if tr2 := w.tracers[op.In-1]; tr2 != nil {
						_, ch := tr2.Start(ctx2, fmt.Sprintf("sp%d", op.CSp), spanOpts(op.Kn, op.At, op.CSp)...)
						ch.End()
						r.note += " child started"
					}
				}
				sp.End()
			} else {
				r.skipped = true
			}
		case "reg":
			m := w.meters[op.U]
			var hs []metric.Observable
			var ks []int
			missing := false
			seenIdent := map[string]bool{}
			for _, s := range op.Is {
				h, ok := w.insts[s].(metric.Observable)
				if !ok || h == nil {
					missing = true
					continue
				}
				// two handles of the same identity are the same SDK instrument:
				// observe it once per callback run
				if !seenIdent[im[s].ident] {
					seenIdent[im[s].ident] = true
					hs = append(hs, h)
					ks = append(ks, im[s].op.Kd)
				}
			}
			if m == nil || missing {
				r.skipped = true
				break
			}
			cb := op.CB
			delay, zero := op.Y, op.Z
			f := func(ctx context.Context, o metric.Observer) error {
				if probed(ctx, cb) {
					return nil
				}
				j := w.invoked(ctx, cb)
				v := obsValue(cb, j)
				vk.Perturb(delay) // lets the collections of other readers get into the same callback
				for x, h := range hs {
					if kinds[ks[x]].float {
						o.ObserveFloat64(h.(metric.Float64Observable), float64(v), metric.WithAttributes(attribute.Int("cb", cb)))
						if zero {
							o.ObserveFloat64(h.(metric.Float64Observable), 0, metric.WithAttributes(attribute.Int("cb", cb), attribute.Int("z", 1)))
						}
					} else {
						o.ObserveInt64(h.(metric.Int64Observable), v, metric.WithAttributes(attribute.Int("cb", cb)))
						if zero {
							o.ObserveInt64(h.(metric.Int64Observable), 0, metric.WithAttributes(attribute.Int("cb", cb), attribute.Int("z", 1)))
						}
					}
				}
				return nil
			}
			reg, err := m.RegisterCallback(f, hs...)
			r.err = err
			if err == nil {
				w.regs[cb] = reg
			}
		case "unreg":
			if reg := w.regs[op.CB]; reg != nil {
				r.err = reg.Unregister()
			} else {
				r.skipped = true
			}
		case "inject":
			if h := w.props[op.U]; h != nil {
				car := propagation.MapCarrier{"verif-in": "x"}
				h.Inject(ctx, car)
				out := h.Extract(ctx, car)
				f := h.Fields()
				ir := &injRec{injected: car.Get("verif") == "on", extracted: out.Value(propKey{}) == "x", fields: len(f) == 1 && f[0] == "verif"}
				injMu.Lock()
				injs[r] = ir
				injMu.Unlock()
			} else {
				r.skipped = true
			}
		case "collect":
			rd := op.R
			if rd < 0 || rd >= nReaders {
				rd = 0
			}
			col := w.collect(rd)
			r.note = fmt.Sprintf("collection#%d reader %d", col.idx, rd)
		case "pause":
			time.Sleep(100 * time.Microsecond)
		case "set_mp":
			otel.SetMeterProvider(w.install)
		case "set_tp":
			otel.SetTracerProvider(w.tp)
		case "set_prop":
			otel.SetTextMapPropagator(w.pr)
		case "self_mp":
			otel.SetMeterProvider(otel.GetMeterProvider())
		case "self_tp":
			otel.SetTracerProvider(otel.GetTracerProvider())
		case "self_prop":
			otel.SetTextMapPropagator(otel.GetTextMapPropagator())
		}
		r.end = clock.Tick()
		r.done = true
	}

	for ph, phase := range c.Phases {
		if c.AutoOn && ph == c.AutoOff {
			global.VerifSetAutoInstrumentation(false)
		}
		vk.Parallel(len(phase), func(g int) {
			for i, op := range phase[g] {
				exec(ph, g, i, op)
			}
		})
	}
	for rd := 0; rd < nReaders; rd++ {
		w.collect(rd)
	}

	// ---- instants ----
	instant := func(kind string) (iss, ret int64) {
		iss, ret = never, never
		each(func(ph, g, i int, op Op) {
			if op.K == kind {
				r := recs[ph][g][i]
				if r.start < iss {
					iss = r.start
				}
				if r.end < ret {
					ret = r.end
				}
			}
		})
		return
	}
	mpIss, mpRet := instant("set_mp")
	tpIss, tpRet := instant("set_tp")
	prIss, prRet := instant("set_prop")
	_ = tpIss
	_ = prIss

	// ---- no errors ----
	// The only errors a program provokes: instruments with a name the SDK
	// refuses (reported when the placeholder is connected at installation, or
	// returned by the constructor afterwards) and callbacks registered on such an
	// instrument (rejected by the SDK's RegisterCallback).
	each(func(ph, g, i int, op Op) {
		if r := recs[ph][g][i]; r.panicked != "" {
			bad("panic", "phase %d goroutine %d op %d (%s) panicked: %s", ph, g, i, op.K, r.panicked)
		}
	})
	nameErrs, obsErrs := 0, 0
	for _, e := range errs.Errors() {
		switch {
		case errors.Is(e, sdkmetric.ErrInstrumentName), errors.Is(e, errRefused):
			nameErrs++
		case strings.Contains(e.Error(), "invalid observable"), errors.Is(e, errRefusedCB):
			obsErrs++
		default:
			bad("error_reported", "an error reached the otel error handler which no operation of the program explains: %v", e)
		}
	}
	badOps, taintedRegs := 0, 0
	ipMP := -1 // phase of SetMeterProvider
	each(func(ph, _, _ int, op Op) {
		if op.K == "set_mp" {
			ipMP = ph
		}
	})
	preBad := map[string]bool{}
	preTainted := 0
	each(func(ph, g, i int, op Op) {
		r := recs[ph][g][i]
		switch {
		case op.K == "inst" && rejected(op) && r.done && !r.skipped:
			badOps++
			if ph < ipMP {
				preBad[im[op.D].ident] = true
				if c.Wrap && op.Ref {
					classes["wrapper_refuses_pre_install_instrument_with_nil_and_error"] = true
				}
			}
			if r.err != nil {
				classes["refused_instrument_name:constructor_returned_error"] = true
				if !errors.Is(r.err, sdkmetric.ErrInstrumentName) && !errors.Is(r.err, errRefused) {
					bad("op_failed", "phase %d goroutine %d op %d: creating %q returned %v, expected the provider's rejection error or a placeholder", ph, g, i, instName(op), r.err)
				}
			} else {
				classes["refused_instrument_name:placeholder"] = true
			}
			return
		case op.K == "reg" && cm[op.CB].tainted && r.done && !r.skipped:
			taintedRegs++
			if r.err != nil {
				classes["RegisterCallback_on_refused_instrument:returned_error"] = true
			} else {
				classes["RegisterCallback_on_refused_instrument:accepted_by_placeholder"] = true
			}
			if ph < ipMP && r.err == nil {
				early := false
				for _, u := range cm[op.CB].unregs {
					each(func(uph, ug, ui int, _ Op) {
						if &recs[uph][ug][ui] == u && uph <= ipMP {
							early = true
						}
					})
				}
				if !early {
					preTainted++
				}
			}
			return
		}
		if r.err != nil {
			bad("op_failed", "phase %d goroutine %d op %d (%s) returned an error: %v", ph, g, i, op.K, r.err)
		}
		if r.skipped {
			classes["op_skipped(handle missing)"] = true
		}
	})
	if nameErrs > badOps {
		bad("error_reported", "%d 'invalid instrument name' errors reached the error handler, the program creates only %d instruments with a refused name", nameErrs, badOps)
	}
	if obsErrs > taintedRegs {
		bad("error_reported", "%d 'invalid observable' errors reached the error handler, the program registers only %d callbacks on refused instruments", obsErrs, taintedRegs)
	}
	if c.Wrap {
		classes["installed_provider_is_refusing_wrapper"] = true
	}
	if ipMP >= 0 {
		// Whether (and how often) the rejections are REPORTED is not part of
		// the statement: only recorded as classes, never asserted.
		if nameErrs < len(preBad) {
			classes["refused_pre_install_instrument_not_reported(not asserted)"] = true
		}
		if obsErrs < preTainted {
			classes["rejected_pre_install_callback_not_reported(not asserted)"] = true
		}
		if preTainted > 0 {
			classes["SDK_rejects_pre_install_callback_at_installation"] = true
		}
		if len(preBad) > 0 {
			classes["SDK_refuses_pre_install_instrument_at_installation"] = true
		}
	}
	for _, col := range w.colls {
		if col.err != nil {
			bad("collect_failed", "Collect #%d (reader %d) returned %v", col.idx, col.reader, col.err)
		}
	}

	// ---- measurements: model per instrument identity ----
	type meas struct {
		bit        int
		neg        bool
		attr       int
		start, end int64
		ph         int
		slot       int
		sv         int
		key        string // attribute key of its data point
	}
	type ident struct {
		scope int
		op    Op     // first defining op (name/kind/desc/unit)
		ms    []meas // coded measurements (+-4^bit, gauges bit+1)
		sp    []meas // special values, each in a data point of its own
	}
	idents := map[string]*ident{}
	var identOrder []string
	for s := range im {
		if !im[s].defined {
			continue
		}
		if _, ok := idents[im[s].ident]; !ok {
			idents[im[s].ident] = &ident{scope: im[s].scope, op: im[s].op}
			identOrder = append(identOrder, im[s].ident)
		} else {
			classes["shared_instrument_identity"] = true
		}
	}
	sort.Strings(identOrder)
	each(func(ph, g, i int, op Op) {
		r := recs[ph][g][i]
		if op.K == "rec" && r.done && !r.skipped {
			id := idents[im[op.U].ident]
			m := meas{bit: op.Bit, neg: op.Neg && kinds[id.op.Kd].shape == shapeUpDown, attr: op.A, start: r.start, end: r.end, ph: ph, slot: op.U, sv: op.Sv, key: measKey(op)}
			if op.Sv != 0 {
				id.sp = append(id.sp, m)
			} else {
				id.ms = append(id.ms, m)
			}
			if r.start < mpRet && r.end > mpIss {
				classes["measurement_overlaps_SetMeterProvider(observed)"] = true
			}
		}
		if op.K == "inst" && r.done && r.start < mpRet && r.end > mpIss {
			classes["instrument_created_while_SetMeterProvider_runs(observed)"] = true
		}
		if op.K == "reg" && r.done && r.start < mpRet && r.end > mpIss {
			classes["RegisterCallback_overlaps_SetMeterProvider(observed)"] = true
		}
		if op.K == "unreg" && r.done && !r.skipped && r.start < mpRet && r.end > mpIss {
			classes["Unregister_overlaps_SetMeterProvider(observed)"] = true
		}
		if op.K == "collect" && r.done && r.start < mpRet && r.end > mpIss {
			classes["Collect_overlaps_SetMeterProvider(observed)"] = true
		}
		if op.K == "span" && r.done && r.start < tpRet && r.end > tpIss {
			classes["span_overlaps_SetTracerProvider(observed)"] = true
		}
	})

	attrKey := func(s attribute.Set) string {
		out := ""
		for _, kv := range s.ToSlice() {
			out += string(kv.Key) + "=" + kv.Value.Emit() + ";"
		}
		return out
	}
	type point struct {
		v     int64
		exact bool
		f     float64 // raw value of float streams
		count uint64  // histograms
	}
	type stream struct {
		desc, unit string
		float      bool
		shape      int // shapeCounter/UpDown (sum), Hist, Gauge; -1 unknown
		cumulative bool
		pts        map[string]point
		dups       int
	}
	toInt := func(f float64) (int64, bool) {
		if f != math.Trunc(f) || math.Abs(f) >= 1<<53 {
			return 0, false
		}
		return int64(f), true
	}
	readStream := func(m metricdata.Metrics) *stream {
		st := &stream{desc: m.Description, unit: m.Unit, shape: -1, pts: map[string]point{}, cumulative: true}
		switch d := m.Data.(type) {
		case metricdata.Sum[int64]:
			st.shape = shapeUpDown
			if d.IsMonotonic {
				st.shape = shapeCounter
			}
			st.cumulative = d.Temporality == metricdata.CumulativeTemporality
			for _, p := range d.DataPoints {
				st.pts[attrKey(p.Attributes)] = point{v: p.Value, exact: true}
			}
		case metricdata.Sum[float64]:
			st.float = true
			st.shape = shapeUpDown
			if d.IsMonotonic {
				st.shape = shapeCounter
			}
			st.cumulative = d.Temporality == metricdata.CumulativeTemporality
			for _, p := range d.DataPoints {
				v, ok := toInt(p.Value)
				st.pts[attrKey(p.Attributes)] = point{v: v, exact: ok, f: p.Value}
			}
		case metricdata.Gauge[int64]:
			st.shape = shapeGauge
			for _, p := range d.DataPoints {
				st.pts[attrKey(p.Attributes)] = point{v: p.Value, exact: true}
			}
		case metricdata.Gauge[float64]:
			st.float, st.shape = true, shapeGauge
			for _, p := range d.DataPoints {
				v, ok := toInt(p.Value)
				st.pts[attrKey(p.Attributes)] = point{v: v, exact: ok, f: p.Value}
			}
		case metricdata.Histogram[int64]:
			st.shape = shapeHist
			st.cumulative = d.Temporality == metricdata.CumulativeTemporality
			for _, p := range d.DataPoints {
				st.pts[attrKey(p.Attributes)] = point{v: p.Sum, exact: true, count: p.Count}
			}
		case metricdata.Histogram[float64]:
			st.float, st.shape = true, shapeHist
			st.cumulative = d.Temporality == metricdata.CumulativeTemporality
			for _, p := range d.DataPoints {
				v, ok := toInt(p.Sum)
				st.pts[attrKey(p.Attributes)] = point{v: v, exact: ok, f: p.Sum, count: p.Count}
			}
		}
		return st
	}

	// decode a reported sum into the set of measurement indices it contains.
	decode := func(total int64, sign map[int]int) (map[int]bool, bool) {
		set := map[int]bool{}
		for k := 0; total != 0; k++ {
			if k > 31 {
				return nil, false
			}
			switch r := ((total % 4) + 4) % 4; {
			case r == 0:
			case r == 1 && sign[k] >= 0:
				set[k] = true
				total--
			case r == 3 && sign[k] <= 0:
				set[k] = true
				total++
			default:
				return nil, false
			}
			total /= 4
		}
		return set, true
	}

	// unregWindow: us = the instant the first Unregister of the callback was
	// issued, ue = the instant from which it is certainly unregistered (never
	// when no Unregister completed).
	unregWindow := func(cb cbMeta) (us, ue int64) {
		us, ue = never, never
		minEnd := never
		for _, u := range cb.unregs {
			if u.done && !u.skipped {
				if u.start < us {
					us = u.start
				}
				if u.end < minEnd {
					minEnd = u.end
				}
			}
		}
		if minEnd != never {
			ue = 0
			for _, u := range cb.unregs {
				if u.done && !u.skipped && u.start < minEnd && u.end > ue {
					ue = u.end
				}
			}
		}
		return
	}

	attrKeys := []string{"", "a=1;"}
	for _, col := range w.colls {
		cl := fmt.Sprintf("%d (reader %d)", col.idx, col.reader)
		for _, o := range w.colls {
			if o.reader != col.reader && o.start < col.end && o.end > col.start {
				classes["collections_of_two_readers_overlap(observed)"] = true
			}
		}
		streams := map[string]*stream{}
		for _, sm := range col.rm.ScopeMetrics {
			si := scopeIndex(sm.Scope.Name, sm.Scope.Version, sm.Scope.SchemaURL, sm.Scope.Attributes)
			if si < 0 {
				bad("unknown_scope", "Collect #%s reports scope %+v which no meter of the program has (meter options lost?)", cl, sm.Scope)
				continue
			}
			for _, m := range sm.Metrics {
				key := fmt.Sprintf("%d/%s", si, m.Name)
				st := readStream(m)
				if prev, ok := streams[key]; ok {
					prev.dups++
					continue
				}
				streams[key] = st
				if _, ok := idents[key]; !ok {
					bad("unknown_stream", "Collect #%s reports metric %q in scope %d which the program never created there", cl, m.Name, si)
				}
			}
		}
		for _, key := range identOrder {
			id := idents[key]
			if rejected(id.op) {
				continue // refused by the installed provider: nothing is asserted about its data
			}
			kd := kinds[id.op.Kd]
			st := streams[key]
			if st != nil {
				wd, wu := instDescUnit(id.op)
				if st.dups > 0 {
					bad("duplicate_stream", "Collect #%s reports metric %s %d times", cl, key, st.dups+1)
				}
				if st.desc != wd || st.unit != wu {
					bad("instrument_options_lost", "Collect #%s: metric %s has description %q unit %q, created with %q %q", cl, key, st.desc, st.unit, wd, wu)
				}
				if st.shape != kd.shape || st.float != kd.float || !st.cumulative {
					bad("wrong_instrument_kind", "Collect #%s: metric %s (kind %s) is reported with shape %d float %v cumulative %v", cl, key, kd.short, st.shape, st.float, st.cumulative)
					continue
				}
			}
			if kd.obs {
				continue // checked per callback below
			}
			sign := map[int]int{}
			for _, m := range id.ms {
				sign[m.bit] = 1
				if m.neg {
					sign[m.bit] = -1
				}
			}
			spKeys := map[string]bool{}
			for _, m := range id.sp {
				spKeys[m.key] = true
			}
			if st != nil {
				for ak := range st.pts {
					if ak != attrKeys[0] && ak != attrKeys[1] && !spKeys[ak] {
						bad("unexpected_datapoint", "Collect #%s: metric %s has a data point with attributes %q which no measurement used", cl, key, ak)
					}
				}
			}
			// special values: every such measurement has a data point of its own
			for _, m := range id.sp {
				var pt point
				has := false
				if st != nil {
					pt, has = st.pts[m.key]
				}
				want := fmt.Sprint(svInt(m.sv))
				if kd.float {
					want = fmt.Sprint(svFloat(m.sv))
				}
				must := m.start > mpRet && m.end < col.start
				if must {
					classes["special_value_measured_after_install"] = true
					if m.sv == 1 {
						classes["zero_measured_after_install"] = true
					}
				}
				switch {
				case !has && must:
					bad("measurement_lost", "Collect #%s (t=%d..%d): metric %s has no data point {%s} although the measurement of %s with these attributes (#%d, issued t=%d..%d in phase %d through instrument handle %d) was issued after SetMeterProvider had returned (t=%d) and returned before the collection started", cl, col.start, col.end, key, m.key, want, m.bit, m.start, m.end, m.ph, m.slot, mpRet)
				case has && m.start > col.end:
					bad("phantom_measurement", "Collect #%s: metric %s has a data point {%s} before that measurement was issued", cl, key, m.key)
				case has:
					ok := pt.v == svInt(m.sv) && pt.exact
					if kd.float {
						ok = sameFloat(pt.f, svFloat(m.sv))
					}
					if kd.shape == shapeHist && pt.count != 1 {
						ok = false
					}
					if !ok {
						got := fmt.Sprint(pt.v)
						if kd.float {
							got = fmt.Sprint(pt.f)
						}
						bad("measurement_value_changed", "Collect #%s: metric %s{%s} reports %s (count %d), the only measurement with these attributes carried %s", cl, key, m.key, got, pt.count, want)
					}
				}
			}
			for a, ak := range attrKeys {
				var pt point
				has := false
				if st != nil {
					pt, has = st.pts[ak]
				}
				must := func(m meas) bool { return m.attr == a && m.start > mpRet && m.end < col.start }
				may := func(m meas) bool { return m.attr == a && m.start < col.end }
				if has && !pt.exact {
					bad("value_not_decodable", "Collect #%s: metric %s{%s} reports a non-integral / out of range value", cl, key, ak)
					continue
				}
				switch kd.shape {
				case shapeGauge:
					var src *meas
					mustAny := false
					for x := range id.ms {
						m := id.ms[x]
						if must(m) {
							mustAny = true
						}
						if has && may(m) && int64(m.bit)+1 == pt.v {
							src = &id.ms[x]
						}
					}
					if !has {
						if mustAny {
							bad("measurement_lost", "Collect #%s (t=%d..%d): gauge %s{%s} has no data point although a Record was issued after SetMeterProvider returned (t=%d) and returned before the collection", cl, col.start, col.end, key, ak, mpRet)
						}
						continue
					}
					if src == nil {
						bad("phantom_measurement", "Collect #%s: gauge %s{%s} reports %d which no Record issued before the end of the collection carried with these attributes", cl, key, ak, pt.v)
						continue
					}
					for _, m := range id.ms {
						if must(m) && m.start > src.end {
							bad("measurement_lost", "Collect #%s: gauge %s{%s} reports the value of Record #%d (t=%d..%d) although Record #%d was issued later (t=%d..%d), after SetMeterProvider returned (t=%d), and returned before the collection started (t=%d)", cl, key, ak, src.bit, src.start, src.end, m.bit, m.start, m.end, mpRet, col.start)
							break
						}
					}
				default:
					total := int64(0)
					if has {
						total = pt.v
					}
					set, ok := decode(total, sign)
					if !ok {
						bad("value_not_decodable", "Collect #%s: metric %s{%s} reports %d which is not a sum of distinct measurements of the program (each is +-4^k): some measurement counted twice or a foreign value", cl, key, ak, total)
						continue
					}
					if kd.shape == shapeHist && has && pt.count != uint64(len(set)) {
						bad("histogram_count", "Collect #%s: histogram %s{%s} has count %d but its sum %d is made of %d measurements", cl, key, ak, pt.count, total, len(set))
					}
					for _, m := range id.ms {
						if must(m) && !set[m.bit] {
							bad("measurement_lost", "Collect #%s (t=%d..%d): metric %s{%s} = %d does not contain measurement #%d (%d, issued t=%d..%d in phase %d through instrument handle %d) although it was issued after SetMeterProvider had returned (t=%d) and returned before the collection started", cl, col.start, col.end, key, ak, total, m.bit, pow4(m.bit), m.start, m.end, m.ph, m.slot, mpRet)
						}
						if m.attr == a && set[m.bit] && m.start < mpRet {
							classes["measurement_issued_before_install_returned_was_forwarded"] = true
						}
					}
					for bit := range set {
						found := false
						for _, m := range id.ms {
							if m.bit == bit && may(m) {
								found = true
							}
						}
						if !found {
							bad("phantom_measurement", "Collect #%s: metric %s{%s} = %d contains measurement #%d which was not issued with these attributes before the collection ended", cl, key, ak, total, bit)
						}
					}
				}
			}
		}

		// ---- callbacks in this collection ----
		for k := range cm {
			cb := cm[k]
			if !cb.defined || !cb.reg.done || cb.reg.skipped || cb.reg.err != nil || cb.tainted {
				continue
			}
			n := w.inv[[2]int{k, col.idx}]
			if n > 0 {
				for _, o := range w.colls {
					if o.reader != col.reader && o.start < col.end && o.end > col.start && w.inv[[2]int{k, o.idx}] > 0 {
						classes["callback_ran_in_overlapping_collections_of_two_readers(observed)"] = true
					}
				}
			}
			active := cb.reg.end
			if mpRet > active {
				active = mpRet
			}
			us, ue := unregWindow(cb)
			what := "callback"
			if cb.opt {
				what = "instrument-option callback"
			}
			switch {
			case n > 1:
				bad("callback_ran_twice", "Collect #%s (t=%d..%d): %s %d ran %d times in one collection (registered t=%d..%d, SetMeterProvider returned t=%d)", cl, col.start, col.end, what, k, n, cb.reg.start, cb.reg.end, mpRet)
			case len(cb.insts) == 0:
				// a callback registered without instruments: the SDK has nothing
				// to call it for; only the registration count is checked (below)
			case active < col.start && us > col.end && n != 1:
				bad("callback_not_run", "Collect #%s (t=%d..%d): %s %d did not run although its registration (t=%d..%d) and SetMeterProvider (returned t=%d) had completed before and no Unregister was issued before the collection ended", cl, col.start, col.end, what, k, cb.reg.start, cb.reg.end, mpRet)
			case ue < col.start && n != 0:
				bad("unregistered_callback_ran", "Collect #%s (t=%d..%d): callback %d ran although its Unregister had returned at t=%d (issued t=%d; registered t=%d..%d; SetMeterProvider t=%d..%d)", cl, col.start, col.end, k, ue, us, cb.reg.start, cb.reg.end, mpIss, mpRet)
			case cb.reg.start > col.end && n != 0:
				bad("callback_ran_before_registration", "Collect #%s: callback %d ran before it was registered", cl, k)
			}
			if n == 1 {
				if active >= col.start || us <= col.end {
					classes["callback_state_changes_during_Collect(observed)"] = true
				}
				want := obsValue(k, col.idx)
				for _, s := range cb.insts {
					st := streams[im[s].ident]
					var pt point
					has := false
					if st != nil {
						pt, has = st.pts[fmt.Sprintf("cb=%d;", k)]
					}
					if cb.z && !cb.opt {
						var zp point
						zok := false
						if st != nil {
							zp, zok = st.pts[fmt.Sprintf("cb=%d;z=1;", k)]
						}
						if !zok || !zp.exact || zp.v != 0 {
							bad("observation_lost", "Collect #%s: callback %d ran and observed 0 with attributes {cb=%d, z=1} on %s, the collection has %v (present %v)", cl, k, k, im[s].ident, zp.v, zok)
						}
					}
					if !has || !pt.exact || pt.v != want {
						bad("observation_lost", "Collect #%s: %s %d ran and observed %d on %s, the collection has %v (present %v)", cl, what, k, want, im[s].ident, pt.v, has)
					}
				}
			}
		}
	}
	for key, n := range w.inv {
		if key[1] < 0 && n > 0 {
			bad("callback_outside_collection", "callback %d ran %d times while no Collect was in progress", key[0], n)
		}
	}

	// ---- registrations that reached the SDK (counting wrapper installed) ----
	// "each previously registered callback is registered with the SDK exactly
	// once unless it had been unregistered"; "callback registrations obtained
	// before an SDK is installed start forwarding".
	if counting != nil && ipMP >= 0 {
		classes["installed_provider_counts_registrations"] = true
		for k := range cm {
			cb := cm[k]
			if !cb.defined || cb.opt || !cb.reg.done || cb.reg.skipped || cb.reg.err != nil || cb.tainted {
				continue
			}
			regs, unregs := counting.counts(k)
			us, ue := unregWindow(cb)
			pre := cb.reg.end < mpIss
			if len(cb.insts) == 0 {
				classes["callback_without_instruments:registration_counted"] = true
			}
			switch {
			case regs > 1:
				bad("callback_registered_twice", "callback %d (RegisterCallback t=%d..%d, SetMeterProvider t=%d..%d) was registered with the installed SDK %d times", k, cb.reg.start, cb.reg.end, mpIss, mpRet, regs)
			case us > mpRet && regs != 1:
				bad("callback_not_registered", "callback %d (RegisterCallback t=%d..%d through meter handle %d, instruments %v; no Unregister issued before SetMeterProvider returned at t=%d) was never registered with the installed SDK's Meter", k, cb.reg.start, cb.reg.end, cmMeter(c, k), cb.insts, mpRet)
			case pre && ue < mpIss && regs != 0:
				bad("unregistered_callback_registered", "callback %d was unregistered (t=%d) before SetMeterProvider was issued (t=%d) but was registered with the installed SDK", k, ue, mpIss)
			}
			if regs == 1 && ue != never && unregs == 0 {
				bad("unregister_not_forwarded", "callback %d is registered with the installed SDK and its Unregister returned (t=%d, SetMeterProvider returned t=%d), but no Unregister reached the SDK's registration", k, ue, mpRet)
			}
			if pre && regs == 1 {
				classes["pre_install_callback_registered_with_SDK_exactly_once(counted)"] = true
			}
		}
	}

	// ---- spans ----
	w.sp.mu.Lock()
	ended := map[string][]spanSeen{}
	for k, v := range w.sp.ended {
		ended[k] = append([]spanSeen{}, v...)
	}
	w.sp.mu.Unlock()
	known := map[string]bool{}
	checkSpan := func(ph int, op Op, r opRec, id, trSlot int, child bool) {
		name := fmt.Sprintf("sp%d", id)
		known[name] = true
		seen := ended[name]
		switch {
		case len(seen) > 1:
			bad("span_recorded_twice", "span %s reached the SDK span processor %d times", name, len(seen))
		case len(seen) == 0 && r.start > tpRet:
			bad("span_lost", "span %s (started t=%d in phase %d through tracer handle %d obtained in phase %d by %s; child of another span: %v) never reached the SDK although SetTracerProvider had returned at t=%d (%s)", name, r.start, ph, trSlot, tracerPhase[trSlot], tracerHow[trSlot], child, tpRet, r.note)
		case len(seen) == 1 && r.end < tpIss:
			bad("span_before_install_recorded", "span %s ended (t=%d) before SetTracerProvider was issued (t=%d) but reached the SDK", name, r.end, tpIss)
		}
		if len(seen) == 1 && seen[0].scope != tracerScope[trSlot] {
			bad("tracer_scope_lost", "span %s was recorded under scope %d, its tracer was obtained with scope %d (%+v)", name, seen[0].scope, tracerScope[trSlot], scopes[tracerScope[trSlot]])
		}
		if len(seen) == 1 && r.start < tpRet {
			classes["span_started_before_install_returned_was_recorded"] = true
		}
		if len(seen) == 1 && r.start > tpRet {
			// the span as it was made: start options and parent context
			wantKind := trace.SpanKindInternal
			if op.Kn >= 1 && op.Kn <= 5 {
				wantKind = trace.SpanKind(op.Kn)
				classes["span_with_kind_option_after_install"] = true
			}
			if seen[0].kind != wantKind {
				bad("span_options_lost", "span %s (started t=%d, after SetTracerProvider returned at t=%d, through tracer handle %d obtained in phase %d) was started with span kind %v, the SDK recorded kind %v", name, r.start, tpRet, trSlot, tracerPhase[trSlot], wantKind, seen[0].kind)
			}
			if op.At && seen[0].sa != int64(id) {
				bad("span_options_lost", "span %s (started t=%d, after SetTracerProvider returned at t=%d, through tracer handle %d obtained in phase %d) was started with attribute sa=%d, the SDK recorded sa=%d (-1: absent)", name, r.start, tpRet, trSlot, tracerPhase[trSlot], id, seen[0].sa)
			}
			if child {
				classes["child_span_started_in_context_of_another_span_after_install"] = true
				if tracerPhase[trSlot] < ph && tracerPhase[op.U] < ph && trSlot != op.U {
					classes["child_span_through_a_different_older_tracer_handle"] = true
				}
				if seen[0].parent.SpanID() != r.outer.SpanID() || (r.outer.IsValid() && seen[0].sc.TraceID() != r.outer.TraceID()) {
					bad("span_parent_lost", "span %s was started (t=%d, after SetTracerProvider returned at t=%d, through tracer handle %d) with the context returned by the Start of span sp%d (span context %s/%s): the SDK recorded parent span id %s, trace id %s", name, r.start, tpRet, trSlot, op.Sp, r.outer.TraceID(), r.outer.SpanID(), seen[0].parent.SpanID(), seen[0].sc.TraceID())
				}
			} else if !r.parent.IsValid() {
				if seen[0].parent.IsValid() {
					bad("span_parent_lost", "span %s was started with a context of kind %s that carries no valid span context, the SDK recorded parent span id %s", name, parentKinds[op.Pk], seen[0].parent.SpanID())
				}
			} else {
				classes["span_after_install_started_with_valid_parent_in_context:"+parentKinds[op.Pk]] = true
				if seen[0].parent.SpanID() != r.parent.SpanID() || seen[0].sc.TraceID() != r.parent.TraceID() {
					bad("span_parent_lost", "span %s was started (t=%d, after SetTracerProvider returned at t=%d, through tracer handle %d obtained by %s) with a context of kind %s carrying span context %s/%s: the SDK recorded parent span id %s, trace id %s", name, r.start, tpRet, trSlot, tracerHow[trSlot], parentKinds[op.Pk], r.parent.TraceID(), r.parent.SpanID(), seen[0].parent.SpanID(), seen[0].sc.TraceID())
				}
			}
		}
	}
	each(func(ph, g, i int, op Op) {
		r := recs[ph][g][i]
		if op.K != "span" || !r.done || r.skipped {
			return
		}
		checkSpan(ph, op, r, op.Sp, op.U, false)
		if op.In > 0 && strings.HasSuffix(r.note, "child started") {
			checkSpan(ph, op, r, op.CSp, op.In-1, true)
		}
	})
	for name := range ended {
		if !known[name] {
			bad("unknown_span", "the SDK recorded span %q which the program never started", name)
		}
	}

	// ---- propagator ----
	each(func(ph, g, i int, op Op) {
		r := &recs[ph][g][i]
		if op.K != "inject" || !r.done || r.skipped {
			return
		}
		ir := injs[r]
		if r.start > prRet && !(ir.injected && ir.extracted && ir.fields) {
			bad("propagator_not_forwarding", "Inject/Extract/Fields through propagator handle %d (obtained in phase %d) issued at t=%d, after SetTextMapPropagator returned (t=%d): injected=%v extracted=%v fields=%v", op.U, propPhase[op.U], r.start, prRet, ir.injected, ir.extracted, ir.fields)
		}
	})

	for _, e := range logs.Entries() {
		if e.Err != nil && (e.Err.Error() == "no delegate configured in meter provider" || e.Err.Error() == "no delegate configured in tracer provider" || e.Err.Error() == "no delegate configured in text map propagator") {
			classes["self_install_rejected(logged)"] = true
		}
	}

	if len(vs) > 0 {
		var h []string
		each(func(ph, g, i int, op Op) {
			r := recs[ph][g][i]
			if !r.done {
				return
			}
			d := op.K
			switch op.K {
			case "meter", "tracer":
				d = fmt.Sprintf("%s slot %d scope %d direct=%v via %d", op.K, op.D, op.S, op.Dir, op.U)
			case "inst":
				d = fmt.Sprintf("inst slot %d = meter[%d].%s option-callback=%v", op.D, op.U, instName(op), op.OC)
			case "rec":
				d = fmt.Sprintf("rec inst[%d] (%s) #%d value %d attr %d", op.U, im[op.U].ident, op.Bit, recValue(im[op.U].op.Kd, op), op.A)
				if op.Sv != 0 {
					d = fmt.Sprintf("rec inst[%d] (%s) #%d special value int %d / float %v attrs {%s}", op.U, im[op.U].ident, op.Bit, svInt(op.Sv), svFloat(op.Sv), measKey(op))
				}
			case "span":
				d = fmt.Sprintf("span sp%d tracer[%d] %s", op.Sp, op.U, r.note)
			case "reg":
				d = fmt.Sprintf("RegisterCallback cb %d meter[%d] insts %v", op.CB, op.U, op.Is)
			case "unreg":
				d = fmt.Sprintf("Unregister cb %d", op.CB)
			case "collect":
				d = "Collect " + r.note
			case "inject":
				d = fmt.Sprintf("inject prop[%d]", op.U)
			case "mprov", "tprov", "prop":
				d = fmt.Sprintf("%s slot %d", op.K, op.D)
			}
			if r.skipped {
				d += " (skipped)"
			}
			h = append(h, fmt.Sprintf("t=%d..%d p%d.g%d %s", r.start, r.end, ph, g, d))
		})
		w.invMu.Lock()
		for key, n := range w.inv {
			h = append(h, fmt.Sprintf("t=%d callback %d ran %d time(s) in collection #%d", collStart(w.colls, key[1]), key[0], n, key[1]))
		}
		w.invMu.Unlock()
		sort.SliceStable(h, func(i, j int) bool {
			var a, b int64
			fmt.Sscanf(h[i], "t=%d", &a)
			fmt.Sscanf(h[j], "t=%d", &b)
			if a != b {
				return a < b
			}
			return h[i] < h[j]
		})
		if len(h) > 500 {
			h = h[:500]
		}
		vs[0].Observed = h
	}
	return vs, classes
}

// cmMeter: the meter slot callback k was registered through.
func cmMeter(c Case, k int) int {
	for _, phase := range c.Phases {
		for _, ops := range phase {
			for _, op := range ops {
				if op.K == "reg" && op.CB == k {
					return op.U
				}
			}
		}
	}
	return -1
}

func collStart(cs []*collection, j int) int64 {
	if j >= 0 && j < len(cs) {
		return cs[j].start
	}
	return 0
}

// structural facts of a program (schedule independent).
func structure(c Case) (preUsedAfter, unregRace bool, cl map[string]bool) {
	cl = map[string]bool{}
	meterPh, tracerPh, instPh, propPh, cbPh := map[int]int{}, map[int]int{}, map[int]int{}, map[int]int{}, map[int]int{}
	installPh := map[string]int{}
	installG := map[string]map[int]bool{}
	count := map[string]int{}
	kindsSeen := map[int]bool{}
	fromSpan := map[int]bool{}
	// how the program got hold of each tracer handle: route and, when the route
	// goes through a span, the kind of context that span was started with and
	// the phase it was started in
	type origin struct {
		via    string
		pk, ph int
		span   bool
	}
	tracerVia, tprovVia, ctxVia := map[int]origin{}, map[int]origin{}, map[int]origin{}
	for ph, phase := range c.Phases {
		for g, ops := range phase {
			for _, op := range ops {
				switch op.K {
				case "meter":
					meterPh[op.D] = ph
					if !op.Dir {
						cl["meter_through_provider_handle"] = true
					}
				case "tprov":
					tprovVia[op.D] = origin{via: "provider_handle"}
					if op.Px > 0 {
						o := ctxVia[op.Px-1]
						o.via = "provider_handle_from_kept_span_value"
						if op.TV == 1 {
							o.via = "provider_handle_from_span_in_kept_context"
						}
						tprovVia[op.D] = o
					}
				case "tracer":
					tracerPh[op.D] = ph
					tracerVia[op.D] = origin{via: "otel.Tracer"}
					if !op.Dir {
						tracerVia[op.D] = tprovVia[op.U]
					}
				case "span":
					pk := op.Pk
					if pk < 0 || pk >= len(parentKinds) {
						pk = 0
					}
					if op.Cx > 0 {
						ctxVia[op.Cx-1] = origin{pk: pk, ph: ph, span: true}
					}
					if op.TD > 0 {
						tracerPh[op.TD-1] = ph
						fromSpan[op.TD-1] = true
						tracerVia[op.TD-1] = origin{via: "span_value.TracerProvider()", pk: pk, ph: ph, span: true}
						if op.TV == 1 {
							tracerVia[op.TD-1] = origin{via: "SpanFromContext(returned_context).TracerProvider()", pk: pk, ph: ph, span: true}
						}
					}
				case "inst":
					instPh[op.D] = ph
					kindsSeen[op.Kd] = true
					if op.OC {
						cbPh[op.CB] = ph
						cl["instrument_option_callback"] = true
					}
				case "prop":
					propPh[op.D] = ph
				case "reg":
					cbPh[op.CB] = ph
				case "set_mp", "set_tp", "set_prop":
					installPh[op.K] = ph
					if installG[op.K] == nil {
						installG[op.K] = map[int]bool{}
					}
					installG[op.K][g] = true
					count[op.K]++
				}
			}
		}
	}
	ip, hasMP := installPh["set_mp"]
	// scopes that own a placeholder instrument before the installation phase
	meterSc := map[int]int{}
	placeholderSc := map[int]bool{}
	natSlot := map[int]bool{}
	for ph, phase := range c.Phases {
		for _, ops := range phase {
			for _, op := range ops {
				switch op.K {
				case "meter":
					meterSc[op.D] = op.S
				case "inst":
					if op.Nat {
						natSlot[op.D] = true
					} else if hasMP && ph <= ip {
						placeholderSc[meterSc[op.U]] = true
					}
				}
			}
		}
	}
	for ph, phase := range c.Phases {
		for _, ops := range phase {
			for _, op := range ops {
				if op.K != "reg" {
					continue
				}
				nat := 0
				for _, s := range op.Is {
					if natSlot[s] {
						nat++
					}
				}
				pre := hasMP && ph < ip
				if len(op.Is) == 0 {
					cl["callback_without_instruments"] = true
				}
				if nat > 0 && pre {
					cl["pre_install_callback_observes_instrument_obtained_directly_from_SDK"] = true
				}
				if nat > 0 && nat < len(op.Is) {
					cl["callback_mixes_placeholder_and_SDK_instruments"] = true
				}
				if pre && !placeholderSc[meterSc[op.U]] {
					cl["pre_install_callback_on_meter_without_placeholder_instruments"] = true
					if nat > 0 {
						cl["pre_install_callback_on_meter_without_placeholder_instruments:observes_SDK_instrument"] = true
					}
				}
			}
		}
	}
	tpPh, hasTP := installPh["set_tp"]
	prPh, hasPR := installPh["set_prop"]
	unregBefore := map[int]bool{}
	unregAt := map[int][2]int{}
	autoTracer := map[int]bool{} // placeholder tracers that started a span before installation while the flag was on
	if c.AutoOn {
		cl["auto:flag_on_at_start"] = true
		if hasTP && c.AutoOff > tpPh {
			cl["auto:flag_on_while_SetTracerProvider_runs"] = true
		}
		if hasTP && c.AutoOff > tpPh+1 {
			cl["auto:flag_still_on_after_install"] = true
		}
	}
	for ph, phase := range c.Phases {
		for g, ops := range phase {
			for _, op := range ops {
				switch op.K {
				case "rec":
					if hasMP && instPh[op.U] < ip && ph > ip {
						preUsedAfter = true
						cl["pre_install_instrument_used_after_install"] = true
					}
					if hasMP && instPh[op.U] == ip && ph > ip {
						cl["instrument_created_in_install_phase_used_after"] = true
					}
				case "span":
					if hasTP && tracerPh[op.U] < tpPh && ph > tpPh {
						preUsedAfter = true
						cl["pre_install_tracer_used_after_install"] = true
						if fromSpan[op.U] {
							cl["tracer_from_pre_install_span.TracerProvider()_used_after_install"] = true
						}
						if o := tracerVia[op.U]; o.via != "" {
							l := "pre_install_tracer_used_after_install:via=" + o.via
							cl[l] = true
							if o.span {
								cl[l+":span_started_with="+parentKinds[o.pk]] = true
							}
						}
						if autoTracer[op.U] {
							cl["auto:tracer_that_started_auto_spans_used_after_install"] = true
						}
					}
					if o := tracerVia[op.U]; hasTP && ph > tpPh && o.span && o.ph < tpPh && tracerPh[op.U] > tpPh {
						cl["tracer_obtained_after_install_from_span_kept_since_before_install:via="+o.via] = true
					}
					if hasTP && ph > tpPh && op.Pk == 4 && ctxVia[op.Px-1].ph < tpPh {
						cl["span_after_install_started_with_context_kept_since_before_install"] = true
					}
					if c.AutoOn && hasTP && ph < tpPh && ph < c.AutoOff {
						autoTracer[op.U] = true
						cl["auto:span_on_placeholder_tracer_before_install_with_flag_on"] = true
					}
				case "inject":
					if hasPR && propPh[op.U] < prPh && ph > prPh {
						cl["pre_install_propagator_handle_used_after_install"] = true
					}
				case "reg":
					if hasMP && meterPh[op.U] < ip && ph > ip {
						cl["RegisterCallback_after_install_through_pre_install_meter"] = true
					}
					if hasMP && ph == ip {
						cl["RegisterCallback_concurrent_with_SetMeterProvider(program)"] = true
					}
				case "inst":
					if hasMP && ph == ip && meterPh[op.U] < ip {
						cl["instrument_created_on_pre_install_meter_concurrently_with_SetMeterProvider(program)"] = true
					}
				case "unreg":
					if w, ok := unregAt[op.CB]; ok && w[0] == ph && w[1] != g {
						cl["two_goroutines_Unregister_one_registration_in_the_same_phase"] = true
						if hasMP && ph == ip {
							cl["two_goroutines_Unregister_one_registration_while_SetMeterProvider_runs(program)"] = true
						}
					}
					unregAt[op.CB] = [2]int{ph, g}
					if hasMP && cbPh[op.CB] < ip && ph < ip {
						unregBefore[op.CB] = true
						cl["callback_unregistered_before_install"] = true
					}
					if hasMP && cbPh[op.CB] < ip && ph > ip {
						cl["pre_install_callback_unregistered_after_install"] = true
					}
					if hasMP && ph == ip && cbPh[op.CB] < ip {
						other := false
						for ig := range installG["set_mp"] {
							if ig != g {
								other = true
							}
						}
						if other {
							unregRace = true
						}
					}
				case "self_mp", "self_tp", "self_prop":
					cl["self_install"] = true
				}
			}
		}
	}
	if unregRace {
		cl["Unregister_concurrent_with_SetMeterProvider(program)"] = true
	}
	for k, n := range count {
		if n > 1 {
			cl["racing_installers:"+k] = true
		}
	}
	switch n := len(kindsSeen); {
	case n == len(kinds):
		cl["instrument_kinds:all_14"] = true
	case n >= 8:
		cl["instrument_kinds:8-13"] = true
	case n >= 4:
		cl["instrument_kinds:4-7"] = true
	default:
		cl["instrument_kinds:0-3"] = true
	}
	if len(cbPh) > 0 {
		for cb, ph := range cbPh {
			if hasMP && ph < ip && !unregBefore[cb] {
				cl["callback_registered_before_install_still_registered_at_install"] = true
			}
		}
	}
	return
}

func run(c Case) ([]vk.Violation, vk.Info) {
	var info vk.Info
	runs := c.Runs
	if runs < 1 {
		runs = 1
	}
	all := map[string]bool{}
	var vs []vk.Violation
	for i := 0; i < runs && len(vs) == 0; i++ {
		v, cl := runOnce(c)
		vs = v
		for k := range cl {
			all[k] = true
		}
	}
	pre, race, cl := structure(c)
	for k := range cl {
		all[k] = true
	}
	info.NonTrivial = pre && race
	ks := make([]string, 0, len(all))
	for k := range all {
		ks = append(ks, k)
	}
	sort.Strings(ks)
	for _, k := range ks {
		info.Class(k)
	}
	return vs, info
}

func TestGlobalDelegation(t *testing.T) {
	vk.Run(t, vk.Spec[Case]{
		Property: "C16", Check: "global_delegation",
		Rule: "generated five-phase concurrent programs over the public otel API, each executed twice from pristine globals: phase 0 (1-2 goroutines, before installation) obtains provider / propagator handles, meters and tracers (4 scopes with version / schema URL / attributes; tracers also from the TracerProvider() of a placeholder span), instruments of all 14 kinds (shared identities, option callbacks), registers callbacks over any subset of a meter's observables (also none; placeholders and, 1 in 6, instruments obtained directly from the not yet installed SDK; in half of the programs one 'bare' scope whose placeholder meter owns no placeholder instrument at all, only SDK instruments and callbacks) and unregisters some; " +
			"phase 1 (1-7 goroutines) does the same plus measurements, spans, Inject/Extract, Collect while 1-3 goroutines each call otel.SetMeterProvider / SetTracerProvider / SetTextMapPropagator with one recording SDK (1-3 ManualReaders, recording SpanProcessor, recording propagator), 50% of the programs with a 'storm' (a meter with up to 10 instruments and 8 callbacks that a dedicated goroutine unregisters while the SDK is installed); phase 2 (1-4 goroutines) continues through old and new handles; phase 3 uses every handle once more and collects; phase 4 (>= 2 readers) lets every reader collect concurrently while the callbacks yield/sleep inside; about 1 instrument in 12 has a name the SDK refuses (callbacks on it are rejected at installation); in 40% of the programs the installed provider is a wrapper of the harness that refuses marked instruments (about 1 in 12) with (nil, err) and callbacks touching them; about 1 measurement in 5 carries 0 / an extreme / a float special value in a data point of its own, half of the callbacks also observe 0; in 40% of the programs the auto-instrumentation flag is on from the start (spans through placeholder tracers before installation are auto-SDK spans) and switched off at a generated phase barrier or never; self-installs (SetX(GetX())) anywhere; in 70% of the programs the installed MeterProvider is a wrapper that counts, per callback of the program, the RegisterCallback / Unregister calls reaching the SDK; spans carry generated start options (kind, attribute), a third start a child span in their context through any tracer handle; every Start is given a generated context (background / valid remote or local span context with any flags byte / not valid span context / a context an earlier Start returned); tracer handles are obtained by every route (otel.Tracer, provider handle, the span value's TracerProvider(), trace.SpanFromContext(returned context).TracerProvider(), provider handles taken later from a kept span value / kept context), in 40% of the programs by construction from a span started before installation; in a third of the programs goroutines of one phase Unregister the same Registration concurrently; " +
			"non-trivial = a handle obtained before the installation is used after it AND an Unregister of a pre-install callback runs in the same phase as SetMeterProvider on another goroutine; distinct = distinct case encodings",
		Quick: 1000, Thorough: 15000,
		Gen: gen, Run: run, Repeat: 200,
		CaseTimeout: 20 * time.Second,
		ShrinkTime:  30 * time.Second,
	})
}
