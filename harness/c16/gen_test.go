//go:build verif

package c16

import (
	"fmt"

	"pgregory.net/rapid"
)

// ---------------------------------------------------------------------
// generator: builds programs whose every op only uses handles that were
// obtained in an earlier phase or earlier by the same goroutine (so the
// program needs no synchronisation of its own besides the phase barriers).

type where struct{ ph, g int }

type gInst struct {
	meter, scope, kind int
	ident              string
}

type gCB struct {
	meter  int
	insts  []int
	opt    bool
	unregs []where
}

type vset struct{ mprov, tprov, prop, meter, tracer, inst, cb, ctx []int }

func (v *vset) add(o vset) {
	v.mprov = append(v.mprov, o.mprov...)
	v.tprov = append(v.tprov, o.tprov...)
	v.prop = append(v.prop, o.prop...)
	v.meter = append(v.meter, o.meter...)
	v.tracer = append(v.tracer, o.tracer...)
	v.inst = append(v.inst, o.inst...)
	v.cb = append(v.cb, o.cb...)
	v.ctx = append(v.ctx, o.ctx...)
}

type builder struct {
	t           *rapid.T
	nMprov      int
	nTprov      int
	nProp       int
	meterScope  []int
	tracerScope []int
	insts       []gInst
	cbs         []gCB
	bits        map[string]int
	nSpans      int
	nCtx        int
	readers     int
	autoOn      bool
	forceTD     bool
	racingUnreg bool // goroutines of one phase may Unregister the same Registration concurrently
	bare        int  // scope index on whose meters no placeholder instrument is ever created (only instruments obtained directly from the SDK), -1: none
	vis, loc    vset
	cur         where
}

func cat(a, b []int) []int { return append(append([]int{}, a...), b...) }

type weight struct {
	k string
	w int
}

func (b *builder) pick(label string, n int) int { return rapid.IntRange(0, n-1).Draw(b.t, label) }

func (b *builder) from(label string, xs []int) int { return xs[b.pick(label, len(xs))] }

func (b *builder) perturb() int {
	return rapid.SampledFrom([]int{0, 0, 0, 0, 0, 0, 1, 1, 1, 1, 2, 2, 2, 3, 4}).Draw(b.t, "p")
}

const genBitCap = maxBits - 4 // leave room for the sweep phase

func (b *builder) mk(k string) Op {
	switch k {
	case "mprov":
		op := Op{K: k, D: b.nMprov}
		b.loc.mprov = append(b.loc.mprov, b.nMprov)
		b.nMprov++
		return op
	case "tprov":
		op := Op{K: k, D: b.nTprov}
		if cs := cat(b.vis.ctx, b.loc.ctx); len(cs) > 0 && rapid.Bool().Draw(b.t, "provider_from_saved_span") {
			// the provider handle of a span the program held on to: of the span
			// value, or of the span found in the context its Start returned
			op.Px, op.TV = b.from("saved", cs)+1, rapid.IntRange(0, 1).Draw(b.t, "from_context")
		}
		b.loc.tprov = append(b.loc.tprov, b.nTprov)
		b.nTprov++
		return op
	case "prop":
		op := Op{K: k, D: b.nProp}
		b.loc.prop = append(b.loc.prop, b.nProp)
		b.nProp++
		return op
	case "meter":
		return b.mkMeter(b.pick("scope", len(scopes)))
	case "tracer":
		op := Op{K: k, D: len(b.tracerScope), S: b.pick("scope", len(scopes)), Dir: true}
		if hs := cat(b.vis.tprov, b.loc.tprov); len(hs) > 0 && rapid.Bool().Draw(b.t, "via_handle") {
			op.Dir, op.U = false, b.from("tprov", hs)
		}
		b.loc.tracer = append(b.loc.tracer, op.D)
		b.tracerScope = append(b.tracerScope, op.S)
		return op
	case "inst":
		return b.mkInst(-1, -1, -1)
	case "rec":
		var cand []int
		anySync := false
		for _, i := range cat(b.vis.inst, b.loc.inst) {
			if !kinds[b.insts[i].kind].obs {
				anySync = true
				if b.bits[b.insts[i].ident] < genBitCap {
					cand = append(cand, i)
				}
			}
		}
		if len(cand) == 0 {
			if anySync {
				return Op{K: "pause"}
			}
			return b.mkInst(0, -1, -1)
		}
		return b.mkRec(b.from("inst", cand), -1)
	case "span":
		ts := cat(b.vis.tracer, b.loc.tracer)
		if len(ts) == 0 {
			return b.mk("tracer")
		}
		return b.mkSpan(b.from("tracer", ts), ts)
	case "reg":
		if ms := cat(b.vis.meter, b.loc.meter); len(ms) > 0 && rapid.IntRange(0, 7).Draw(b.t, "no_instruments") == 0 {
			// a callback registered without any instrument
			return b.mkReg(b.from("meter", ms), nil, 0)
		}
		by := map[int][]int{}
		var ms []int
		for _, i := range cat(b.vis.inst, b.loc.inst) {
			if kinds[b.insts[i].kind].obs {
				m := b.insts[i].meter
				if len(by[m]) == 0 {
					ms = append(ms, m)
				}
				by[m] = append(by[m], i)
			}
		}
		if len(ms) == 0 {
			return b.mkInst(1, -1, -1)
		}
		m := b.from("meter", ms)
		return b.mkReg(m, by[m], rapid.IntRange(1, 3).Draw(b.t, "ninsts"))
	case "unreg":
		var cand []int
		for _, c := range cat(b.vis.cb, b.loc.cb) {
			if b.cbs[c].opt {
				continue
			}
			ok := true
			for _, u := range b.cbs[c].unregs {
				// a second Unregister is mostly ordered after the first; when the
				// program allows it, two goroutines of one phase unregister the
				// same Registration concurrently
				if !(u.ph < b.cur.ph || u == b.cur) && !b.racingUnreg {
					ok = false
				}
			}
			if ok {
				cand = append(cand, c)
			}
		}
		if len(cand) == 0 {
			return b.mk("reg")
		}
		// prefer callbacks nobody unregistered yet
		var fresh []int
		for _, c := range cand {
			if len(b.cbs[c].unregs) == 0 {
				fresh = append(fresh, c)
			}
		}
		if len(fresh) > 0 && rapid.IntRange(0, 5).Draw(b.t, "fresh") > 0 {
			cand = fresh
		}
		return b.mkUnreg(b.from("cb", cand))
	case "inject":
		ps := cat(b.vis.prop, b.loc.prop)
		if len(ps) == 0 {
			return b.mk("prop")
		}
		return Op{K: k, U: b.from("prop", ps)}
	}
	if k == "collect" {
		return Op{K: k, R: b.pick("reader", b.readers)}
	}
	return Op{K: k} // pause, set_*, self_*
}

// mkSpan: a span through tracer slot tr with generated start options; one in
// three also starts a child span inside, through any visible tracer.
func (b *builder) mkSpan(tr int, ts []int) Op {
	op := Op{K: "span", U: tr, Sp: b.nSpans}
	b.nSpans++
	if rapid.Bool().Draw(b.t, "span_kind_option") {
		op.Kn = rapid.IntRange(1, 5).Draw(b.t, "span_kind")
	}
	op.At = rapid.Bool().Draw(b.t, "span_attribute_option")
	// the context Start is given: background / a valid remote or local span
	// context with any flags byte / a span context that is not valid / the
	// context an earlier Start returned
	pks := []int{0, 0, 0, 0, 1, 1, 2, 3}
	cs := cat(b.vis.ctx, b.loc.ctx)
	if len(cs) > 0 {
		pks = append(pks, 4, 4)
	}
	switch op.Pk = rapid.SampledFrom(pks).Draw(b.t, "incoming_context"); op.Pk {
	case 1, 2, 3:
		op.Pf = rapid.SampledFrom([]int{1, 1, 0, 0, 3, 2, 255, -1}).Draw(b.t, "parent_flags")
		if op.Pf < 0 {
			op.Pf = rapid.IntRange(0, 255).Draw(b.t, "parent_flags_byte")
		}
	case 4:
		op.Px = b.from("saved", cs) + 1
	}
	if !b.autoOn && (b.forceTD || rapid.IntRange(0, 5).Draw(b.t, "tracer_from_span") == 0) {
		// a tracer obtained from the span's TracerProvider(): of the span value
		// or of the span found in the context Start returned (not generated
		// while auto-instrumentation may be attached: the span would be the
		// agent's and so would its provider)
		op.TD, op.S = len(b.tracerScope)+1, b.pick("scope", len(scopes))
		op.TV = rapid.IntRange(0, 1).Draw(b.t, "from_context")
		b.loc.tracer = append(b.loc.tracer, op.TD-1)
		b.tracerScope = append(b.tracerScope, op.S)
	}
	if !b.autoOn && (b.forceTD || rapid.IntRange(0, 3).Draw(b.t, "keep_context") == 0) {
		// the program holds on to the returned context and the span value
		b.nCtx++
		op.Cx = b.nCtx
		b.loc.ctx = append(b.loc.ctx, op.Cx-1)
	}
	if len(ts) > 0 && rapid.IntRange(0, 2).Draw(b.t, "child_span") == 0 {
		op.In, op.CSp = b.from("child_tracer", ts)+1, b.nSpans
		b.nSpans++
	}
	return op
}

func (b *builder) mkMeter(scope int) Op {
	op := Op{K: "meter", D: len(b.meterScope), S: scope, Dir: true}
	if hs := cat(b.vis.mprov, b.loc.mprov); len(hs) > 0 && rapid.Bool().Draw(b.t, "via_handle") {
		op.Dir, op.U = false, b.from("mprov", hs)
	}
	b.loc.meter = append(b.loc.meter, op.D)
	b.meterScope = append(b.meterScope, op.S)
	return op
}

// otherScope draws a scope that is not the bare one.
func (b *builder) otherScope() int {
	s := b.pick("scope", len(scopes))
	if s == b.bare {
		s = (s + 1 + b.pick("scope_shift", len(scopes)-1)) % len(scopes)
	}
	return s
}

func (b *builder) mkUnreg(c int) Op {
	b.cbs[c].unregs = append(b.cbs[c].unregs, b.cur)
	return Op{K: "unreg", CB: c}
}

// mkRec: special -1 drawn / 0 a coded value / 1 a special value.
func (b *builder) mkRec(i, special int) Op {
	in := b.insts[i]
	op := Op{K: "rec", U: i, Bit: b.bits[in.ident]}
	b.bits[in.ident]++
	if special < 0 {
		special = 0
		if rapid.IntRange(0, 4).Draw(b.t, "special_value") == 0 {
			special = 1
		}
	}
	if special == 1 {
		// a value outside the 4^k code (zero, extreme, float specials) in a
		// data point of its own; zero is the most frequent
		op.Sv = 1
		if rapid.IntRange(0, 9).Draw(b.t, "nonzero") >= 4 {
			op.Sv = rapid.SampledFrom(svAllowed(kinds[in.kind])).Draw(b.t, "sv")
		}
	} else if kinds[in.kind].shape == shapeUpDown {
		op.Neg = rapid.Bool().Draw(b.t, "neg")
	}
	if rapid.IntRange(0, 3).Draw(b.t, "attr") == 0 {
		op.A = 1
	}
	return op
}

func (b *builder) mkReg(m int, cand []int, n int) Op {
	rem := append([]int{}, cand...)
	var is []int
	for i := 0; i < n && len(rem) > 0; i++ {
		j := b.pick("i", len(rem))
		is = append(is, rem[j])
		rem = append(rem[:j], rem[j+1:]...)
	}
	op := Op{K: "reg", U: m, CB: len(b.cbs), Is: is, Z: rapid.Bool().Draw(b.t, "observe_zero_too"), Y: rapid.SampledFrom([]int{0, 1, 1, 2, 2, 2, 3}).Draw(b.t, "cb_delay")}
	b.cbs = append(b.cbs, gCB{meter: m, insts: is})
	b.loc.cb = append(b.loc.cb, op.CB)
	return op
}

// mkInst creates an instrument: obs -1 any / 0 synchronous / 1 observable; on
// meter slot m (or any visible one when m < 0); bad -1 drawn / 0 valid name /
// 1..3 a name the SDK refuses / 4 a name the refusing wrapper provider refuses.
func (b *builder) mkInst(obs, m, bad int) Op {
	if m < 0 {
		var ms []int
		for _, x := range cat(b.vis.meter, b.loc.meter) {
			// synchronous instruments are never created on a meter of the bare scope
			if obs != 0 || b.meterScope[x] != b.bare {
				ms = append(ms, x)
			}
		}
		if len(ms) == 0 {
			if obs == 0 {
				return b.mkMeter(b.otherScope())
			}
			return b.mk("meter")
		}
		m = b.from("meter", ms)
	}
	native := false
	if b.meterScope[m] == b.bare {
		// only instruments obtained directly from the SDK on this scope
		obs, native = 1, true
	}
	var ks []int
	for k, d := range kinds {
		if obs < 0 || d.obs == (obs == 1) {
			ks = append(ks, k)
		}
	}
	kd := b.from("kind", ks)
	op := Op{K: "inst", D: len(b.insts), U: m, Kd: kd, N: b.pick("name", 2)}
	if !native && kinds[kd].obs && bad < 0 && rapid.IntRange(0, 5).Draw(b.t, "native") == 0 {
		native = true // a placeholder meter may be handed SDK instruments and placeholders side by side
	}
	if native {
		op.Nat = true
		bad = 0
	}
	if bad < 0 {
		bad = 0
		switch rapid.IntRange(0, 11).Draw(b.t, "bad_name") {
		case 0:
			bad = rapid.IntRange(1, 3).Draw(b.t, "bad_kind")
		case 1:
			bad = 4
		}
	}
	if bad == 4 {
		op.Ref = true // refused with (nil, err) when the installed provider is the refusing wrapper
	} else {
		op.Bad = bad
	}
	if op.Bad == 0 && !op.Nat && kinds[kd].obs && rapid.IntRange(0, 2).Draw(b.t, "option_callback") == 0 {
		op.OC, op.CB = true, len(b.cbs)
		b.cbs = append(b.cbs, gCB{meter: m, insts: []int{op.D}, opt: true})
		b.loc.cb = append(b.loc.cb, op.CB)
	}
	sc := b.meterScope[m]
	b.insts = append(b.insts, gInst{meter: m, scope: sc, kind: kd, ident: fmt.Sprintf("%d/%s", sc, instName(op))})
	b.loc.inst = append(b.loc.inst, op.D)
	return op
}

func (b *builder) weighted(ws []weight) Op {
	total := 0
	for _, w := range ws {
		total += w.w
	}
	x := b.pick("kind", total)
	k := ws[len(ws)-1].k
	for _, w := range ws {
		if x < w.w {
			k = w.k
			break
		}
		x -= w.w
	}
	op := b.mk(k)
	op.P = b.perturb()
	return op
}

func (b *builder) goroutine(ph, g, n int, ws []weight) []Op {
	b.cur, b.loc = where{ph, g}, vset{}
	var ops []Op
	for i := 0; i < n; i++ {
		ops = append(ops, b.weighted(ws))
	}
	return ops
}

var (
	wPre = []weight{{"meter", 4}, {"mprov", 1}, {"tprov", 1}, {"prop", 1}, {"tracer", 2}, {"inst", 10}, {"rec", 3}, {"span", 1},
		{"reg", 6}, {"unreg", 4}, {"self_mp", 1}, {"self_tp", 1}, {"self_prop", 1}, {"collect", 1}}
	wDuring = []weight{{"meter", 3}, {"mprov", 1}, {"tprov", 1}, {"prop", 1}, {"tracer", 2}, {"inst", 7}, {"rec", 8}, {"span", 3},
		{"reg", 4}, {"unreg", 6}, {"inject", 2}, {"self_mp", 1}, {"self_tp", 1}, {"self_prop", 1}, {"collect", 1}, {"pause", 1}}
	wPost = []weight{{"meter", 1}, {"tracer", 1}, {"inst", 3}, {"rec", 10}, {"span", 4}, {"reg", 3}, {"unreg", 4}, {"inject", 2},
		{"collect", 2}, {"mprov", 1}, {"prop", 1}}
)

func insertAt(ops []Op, pos int, op Op) []Op {
	if pos > len(ops) {
		pos = len(ops)
	}
	out := append([]Op{}, ops[:pos]...)
	out = append(out, op)
	return append(out, ops[pos:]...)
}

func gen(t *rapid.T) Case {
	b := &builder{t: t, bits: map[string]int{}}
	c := Case{Runs: 2}
	c.Readers = rapid.SampledFrom([]int{1, 1, 2, 2, 2, 3}).Draw(t, "readers")
	c.Wrap = rapid.IntRange(0, 9).Draw(t, "refusing_wrapper") < 4
	// auto-instrumentation attached (flag on from the start), detached again
	// before phase AutoOff (9 = stays attached)
	c.AutoOn = rapid.IntRange(0, 9).Draw(t, "auto_instrumentation") < 4
	if c.AutoOn {
		c.AutoOff = rapid.SampledFrom([]int{1, 1, 2, 3, 9, 9}).Draw(t, "auto_off_before_phase")
	}
	if !c.Wrap {
		c.Rec = rapid.Bool().Draw(t, "counting_wrapper")
	}
	b.racingUnreg = rapid.IntRange(0, 2).Draw(t, "racing_unregister") == 0
	b.bare = -1
	if rapid.Bool().Draw(t, "bare_scope") {
		b.bare = rapid.IntRange(0, len(scopes)-1).Draw(t, "bare")
	}
	b.autoOn = c.AutoOn
	b.readers = c.Readers
	storm := rapid.IntRange(0, 9).Draw(t, "storm") < 5
	var stormCBs []int

	// ---- phase 0: before installation ----
	{
		ng := rapid.IntRange(1, 2).Draw(t, "pre_goroutines")
		var ph [][]Op
		var merged vset
		for g := 0; g < ng; g++ {
			ops := b.goroutine(0, g, rapid.IntRange(0, 16).Draw(t, "pre_ops"), wPre)
			if g == 0 && c.AutoOn {
				// spans through placeholder tracers while the agent is attached
				top := b.mk("tracer")
				ops = append(ops, top)
				for i, n := 0, rapid.IntRange(1, 3).Draw(t, "auto_spans"); i < n; i++ {
					ops = append(ops, b.mk("span"))
				}
			}
			if g == 0 && !c.AutoOn && rapid.IntRange(0, 2).Draw(t, "tracer_from_placeholder_span") > 0 {
				// a tracer obtained from the TracerProvider() of a span of a
				// placeholder tracer (span value / span in the returned context,
				// any incoming context); the program keeps the context and, half
				// of the time, gets a provider handle and a tracer out of it later
				top := b.mk("tracer")
				b.forceTD = true
				sop := b.mkSpan(top.D, nil)
				b.forceTD = false
				ops = append(ops, top, sop)
				if rapid.Bool().Draw(t, "provider_from_kept_context") {
					pop := Op{K: "tprov", D: b.nTprov, Px: sop.Cx, TV: rapid.IntRange(0, 1).Draw(t, "from_context")}
					b.loc.tprov = append(b.loc.tprov, b.nTprov)
					b.nTprov++
					trop := Op{K: "tracer", D: len(b.tracerScope), S: b.pick("scope", len(scopes)), U: pop.D}
					b.loc.tracer = append(b.loc.tracer, trop.D)
					b.tracerScope = append(b.tracerScope, trop.S)
					ops = append(ops, pop, trop)
				}
			}
			if g == 0 && storm {
				// one meter with many instruments (a long meter.setDelegate) and
				// many registered callbacks
				mop := b.mkMeter(b.otherScope())
				ops = append(ops, mop)
				ni := rapid.IntRange(2, 10).Draw(t, "storm_insts")
				var obs []int
				for i := 0; i < ni; i++ {
					want := 1
					if i >= 2 && rapid.Bool().Draw(t, "storm_sync") {
						want = 0
					}
					iop := b.mkInst(want, mop.D, -1)
					ops = append(ops, iop)
					if kinds[iop.Kd].obs {
						obs = append(obs, iop.D)
					}
				}
				if rapid.IntRange(0, 3).Draw(t, "storm_rejected") == 0 {
					// an observable instrument the SDK will refuse and a callback on it
					iop := b.mkInst(1, mop.D, rapid.IntRange(1, 4).Draw(t, "bad_kind"))
					rop := b.mkReg(mop.D, []int{iop.D}, 1)
					ops = append(ops, iop, rop)
					if rapid.Bool().Draw(t, "unreg_rejected") {
						stormCBs = append(stormCBs, rop.CB)
					}
				}
				nc := rapid.IntRange(1, 8).Draw(t, "storm_cbs")
				for i := 0; i < nc; i++ {
					rop := b.mkReg(mop.D, obs, rapid.IntRange(1, 2).Draw(t, "ninsts"))
					ops = append(ops, rop)
					if rapid.IntRange(0, 5).Draw(t, "unreg_before_install") == 0 {
						ops = append(ops, b.mkUnreg(rop.CB))
					} else {
						stormCBs = append(stormCBs, rop.CB)
					}
				}
			}
			if g == ng-1 && b.bare >= 0 {
				// a meter that is only ever handed instruments obtained directly
				// from the SDK (0-2 of them) and callbacks (with any subset of
				// them, also none), some unregistered again
				mop := b.mkMeter(b.bare)
				ops = append(ops, mop)
				var nat []int
				for i, n := 0, rapid.IntRange(0, 2).Draw(t, "bare_insts"); i < n; i++ {
					iop := b.mkInst(1, mop.D, 0)
					ops = append(ops, iop)
					nat = append(nat, iop.D)
				}
				for i, n := 0, rapid.IntRange(1, 3).Draw(t, "bare_cbs"); i < n; i++ {
					rop := b.mkReg(mop.D, nat, rapid.IntRange(0, 2).Draw(t, "ninsts"))
					ops = append(ops, rop)
					if rapid.IntRange(0, 4).Draw(t, "unreg_before_install") == 0 {
						ops = append(ops, b.mkUnreg(rop.CB))
					}
				}
			}
			ph = append(ph, ops)
			merged.add(b.loc)
		}
		b.vis.add(merged)
		c.Phases = append(c.Phases, ph)
	}

	// ---- phase 1: installation races with everything else ----
	{
		ng := rapid.IntRange(1, 6).Draw(t, "during_goroutines")
		var ph [][]Op
		var merged vset
		for g := 0; g < ng; g++ {
			ph = append(ph, b.goroutine(1, g, rapid.IntRange(0, 12).Draw(t, "during_ops"), wDuring))
			merged.add(b.loc)
		}
		if storm {
			// a goroutine that unregisters the storm callbacks (interleaved with
			// a few measurements)
			b.cur, b.loc = where{1, len(ph)}, vset{}
			var ops []Op
			for _, cb := range stormCBs {
				if rapid.IntRange(0, 7).Draw(t, "keep") == 0 {
					continue
				}
				op := b.mkUnreg(cb)
				op.P = rapid.SampledFrom([]int{0, 0, 1, 1, 2, 2, 3}).Draw(t, "p")
				ops = append(ops, op)
				if rapid.IntRange(0, 3).Draw(t, "mix") == 0 {
					ops = append(ops, b.weighted([]weight{{"rec", 3}, {"inst", 1}, {"reg", 1}}))
				}
			}
			ph = append(ph, ops)
			merged.add(b.loc)
			if b.racingUnreg {
				// a second goroutine unregisters the same registrations
				b.cur, b.loc = where{1, len(ph)}, vset{}
				var ops2 []Op
				for _, cb := range stormCBs {
					if rapid.Bool().Draw(t, "also") {
						op := b.mkUnreg(cb)
						op.P = rapid.SampledFrom([]int{0, 0, 1, 1, 2, 2, 3}).Draw(t, "p")
						ops2 = append(ops2, op)
					}
				}
				ph = append(ph, ops2)
			}
		}
		// installers: the same SDK object may be installed by several racing goroutines
		place := func(kind string, prob int) {
			if rapid.IntRange(0, 99).Draw(t, "has_"+kind) >= prob {
				return
			}
			n := rapid.SampledFrom([]int{1, 1, 1, 1, 1, 1, 2, 2, 3}).Draw(t, "n_"+kind)
			for i := 0; i < n; i++ {
				g := rapid.IntRange(0, len(ph)-1).Draw(t, "g_"+kind)
				pos := 0
				if rapid.Bool().Draw(t, "late_"+kind) {
					pos = rapid.IntRange(0, len(ph[g])).Draw(t, "pos_"+kind)
				}
				ph[g] = insertAt(ph[g], pos, Op{K: kind, P: rapid.SampledFrom([]int{0, 0, 1, 1, 2, 2, 3}).Draw(t, "p_"+kind)})
			}
		}
		place("set_mp", 100)
		place("set_tp", 85)
		place("set_prop", 70)
		b.vis.add(merged)
		c.Phases = append(c.Phases, ph)
	}

	// ---- phase 2: after installation ----
	{
		ng := rapid.IntRange(1, 4).Draw(t, "post_goroutines")
		var ph [][]Op
		var merged vset
		for g := 0; g < ng; g++ {
			ph = append(ph, b.goroutine(2, g, rapid.IntRange(0, 12).Draw(t, "post_ops"), wPost))
			merged.add(b.loc)
		}
		b.vis.add(merged)
		c.Phases = append(c.Phases, ph)
	}

	// ---- phase 3: sweep: every handle ever obtained is used once more ----
	{
		b.cur, b.loc = where{3, 0}, vset{}
		var ops []Op
		for _, i := range b.vis.inst {
			if !kinds[b.insts[i].kind].obs && b.bits[b.insts[i].ident] < maxBits {
				ops = append(ops, b.mkRec(i, 0))
			}
			if !kinds[b.insts[i].kind].obs && b.bits[b.insts[i].ident] < maxBits && rapid.Bool().Draw(t, "sweep_special") {
				ops = append(ops, b.mkRec(i, 1))
			}
		}
		for _, tr := range b.vis.tracer {
			ops = append(ops, b.mkSpan(tr, b.vis.tracer))
		}
		for _, p := range b.vis.prop {
			ops = append(ops, Op{K: "inject", U: p})
		}
		ops = append(ops, b.mk("collect"))
		c.Phases = append(c.Phases, [][]Op{ops})
	}

	// ---- phase 4: the readers of the SDK collect concurrently ----
	if c.Readers > 1 {
		var ph [][]Op
		for r := 0; r < c.Readers; r++ {
			var ops []Op
			n := rapid.IntRange(1, 2).Draw(t, "concurrent_collects")
			for i := 0; i < n; i++ {
				ops = append(ops, Op{K: "collect", R: r, P: rapid.SampledFrom([]int{0, 0, 0, 1}).Draw(t, "p")})
			}
			ph = append(ph, ops)
		}
		c.Phases = append(c.Phases, ph)
	}
	return c
}
