//go:build verif

package c16

// Sub-check "many_handles": the statement quantifies over ALL tracers, meters,
// instruments and callback registrations obtained before installation - how
// many there are is a dimension of its own. A program obtains generated NUMBERS
// (log-scale, 0 .. tens of thousands) of distinct tracer scopes, meter scopes,
// instruments (spread over the meters in several ways) and callback
// registrations through the public API before the SDK is installed (some
// callbacks unregistered again), a second goroutine obtains some more while the
// installation is in progress, and afterwards EVERY handle is used once: one
// span per tracer handle, one measurement per synchronous instrument, two
// collections (half of the callbacks unregistered through their pre-install
// Registration in between).
//
// Oracle (all after both Set*Provider calls returned, so every clause is
// required by the statement):
//   - every span reaches the SDK's span processor exactly once, under the scope
//     its tracer was obtained with (name / version / schema URL / attributes);
//   - every synchronous instrument's stream is in the collection, under its
//     meter's scope, with exactly the one value measured;
//   - every callback that was not unregistered runs exactly once per
//     collection and its observation is in that collection; a callback
//     unregistered before installation, or through its Registration after it,
//     never runs (in collections started after the Unregister returned).
//
// Scopes differ by name only, version only, schema URL only, attribute only or
// a mix (the placeholder providers key their tables by all four). Not asserted
// (statement silent): that asking twice for one scope yields the same
// placeholder; whether anything is reported to the error handler (class only).

import (
	"context"
	"fmt"
	"sort"
	"sync"
	"testing"
	"time"

	"go.opentelemetry.io/otel"
	"go.opentelemetry.io/otel/attribute"
	"go.opentelemetry.io/otel/internal/global"
	"go.opentelemetry.io/otel/metric"
	sdkinstr "go.opentelemetry.io/otel/sdk/instrumentation"
	sdkmetric "go.opentelemetry.io/otel/sdk/metric"
	"go.opentelemetry.io/otel/sdk/metric/metricdata"
	"go.opentelemetry.io/otel/sdk/resource"
	sdktrace "go.opentelemetry.io/otel/sdk/trace"
	"go.opentelemetry.io/otel/trace"
	"go.opentelemetry.io/otel/verif/internal/vk"
	"pgregory.net/rapid"
)

// BulkCase is one program of the many_handles sub-check.
type BulkCase struct {
	Tracers int  `json:"tracers"`  // distinct tracer scopes obtained before installation
	TVar    int  `json:"tvar"`     // how the tracer scopes differ: 0 name, 1 version, 2 schema URL, 3 attribute, 4 a mix of the four
	TVia    bool `json:"tvia"`     // through a handle from otel.GetTracerProvider() (else otel.Tracer)
	TSrc    int  `json:"tsrc,omitempty"` // 0: as TVia says; 1 / 2: all tracers come from the provider handle of a span started before installation through otel.Tracer("bootstrap"): 1 = the span value's TracerProvider(), 2 = trace.SpanFromContext(the context Start returned).TracerProvider()
	TPar    int  `json:"tpar,omitempty"` // TSrc 1, 2: the context that span is started with (Op.Pk 0..3: background / valid remote / valid local / not valid span context)
	TTwice  bool `json:"ttwice"`   // every tracer scope is asked for twice, both handles are used afterwards
	Meters  int  `json:"meters"`   // distinct meter scopes obtained before installation
	MVar    int  `json:"mvar"`     // like TVar
	MVia    bool `json:"mvia"`     // through a handle from otel.GetMeterProvider() (else otel.Meter)
	Insts   int  `json:"insts"`    // instruments created before installation
	Spread  int  `json:"spread"`   // 0 all on the first meter, 1 round robin over the meters, 2 half on the last meter and the rest round robin, 3 round robin from the last meter backwards
	KindOff int  `json:"kind_off"` // instrument k has kind (k+KindOff) mod 14
	NatObs  bool `json:"nat_obs"`  // observable instruments are obtained directly from the SDK's Meter of the same scope (the placeholder meters then own synchronous placeholders only)
	CBs     int  `json:"cbs"`      // RegisterCallback calls before installation (round robin over the observable instruments, each through the meter of its instrument)
	UnregN  int  `json:"unreg_n"`  // every UnregN-th callback is unregistered before installation (0: none)
	Late    int  `json:"late"`     // tracers / instruments / meters obtained by a second goroutine while the installation runs
	TPFirst bool `json:"tp_first"`
}

const bulkCap = 1 << 16

func bulkClamp(n int) int {
	if n < 0 {
		return 0
	}
	if n > bulkCap {
		return bulkCap
	}
	return n
}

type bulkScope struct {
	name, version, schema string
	attr                  int // -1: none
}

func bulkScopeOf(prefix string, variant, i int) bulkScope {
	v, x := variant, i
	if variant == 4 {
		v, x = i%4, i/4
		prefix += "mix"
	}
	switch v {
	case 1:
		return bulkScope{name: prefix, version: fmt.Sprintf("v%d", x), attr: -1}
	case 2:
		return bulkScope{name: prefix, schema: fmt.Sprintf("https://verif.invalid/schema/%d", x), attr: -1}
	case 3:
		return bulkScope{name: prefix, attr: x}
	}
	return bulkScope{name: fmt.Sprintf("%s-%d", prefix, x), attr: -1}
}

func (s bulkScope) key() string {
	return fmt.Sprintf("%s|%s|%s|%d", s.name, s.version, s.schema, s.attr)
}

func bulkKeyOf(sc sdkinstr.Scope) string {
	a := -1
	if v, ok := sc.Attributes.Value("scope.id"); ok {
		a = int(v.AsInt64())
	}
	if sc.Attributes.Len() > 1 || (sc.Attributes.Len() == 1 && a < 0) {
		return "?" + sc.Name
	}
	return fmt.Sprintf("%s|%s|%s|%d", sc.Name, sc.Version, sc.SchemaURL, a)
}

func (s bulkScope) tracerOpts() []trace.TracerOption {
	var o []trace.TracerOption
	if s.version != "" {
		o = append(o, trace.WithInstrumentationVersion(s.version))
	}
	if s.schema != "" {
		o = append(o, trace.WithSchemaURL(s.schema))
	}
	if s.attr >= 0 {
		o = append(o, trace.WithInstrumentationAttributes(attribute.Int("scope.id", s.attr)))
	}
	return o
}

func (s bulkScope) meterOpts() []metric.MeterOption {
	var o []metric.MeterOption
	if s.version != "" {
		o = append(o, metric.WithInstrumentationVersion(s.version))
	}
	if s.schema != "" {
		o = append(o, metric.WithSchemaURL(s.schema))
	}
	if s.attr >= 0 {
		o = append(o, metric.WithInstrumentationAttributes(attribute.Int("scope.id", s.attr)))
	}
	return o
}

type bulkSP struct {
	mu    sync.Mutex
	ended map[string][]string // span name -> scope keys
}

func (p *bulkSP) OnStart(context.Context, sdktrace.ReadWriteSpan) {}
func (p *bulkSP) OnEnd(s sdktrace.ReadOnlySpan) {
	k := bulkKeyOf(s.InstrumentationScope())
	p.mu.Lock()
	p.ended[s.Name()] = append(p.ended[s.Name()], k)
	p.mu.Unlock()
}
func (p *bulkSP) Shutdown(context.Context) error   { return nil }
func (p *bulkSP) ForceFlush(context.Context) error { return nil }

type bulkInst struct {
	meter int // index into the meter tables (pre-install meters, then late ones)
	kd    int
	name  string
	h     any
	late  bool
}

// bulkMeterOf: the meter instrument k of n lives on.
func bulkMeterOf(spread, k, n, meters int) int {
	if meters <= 1 {
		return 0
	}
	switch spread {
	case 0:
		return 0
	case 2:
		if k < n/2 {
			return meters - 1
		}
	case 3:
		return meters - 1 - k%meters
	}
	return k % meters
}

func bulkCreate(m metric.Meter, kd int, name string) (any, error) {
	switch kd {
	case 0:
		return m.Int64Counter(name)
	case 1:
		return m.Int64UpDownCounter(name)
	case 2:
		return m.Int64Histogram(name)
	case 3:
		return m.Int64Gauge(name)
	case 4:
		return m.Float64Counter(name)
	case 5:
		return m.Float64UpDownCounter(name)
	case 6:
		return m.Float64Histogram(name)
	case 7:
		return m.Float64Gauge(name)
	case 8:
		return m.Int64ObservableCounter(name)
	case 9:
		return m.Int64ObservableUpDownCounter(name)
	case 10:
		return m.Int64ObservableGauge(name)
	case 11:
		return m.Float64ObservableCounter(name)
	case 12:
		return m.Float64ObservableUpDownCounter(name)
	case 13:
		return m.Float64ObservableGauge(name)
	}
	return nil, fmt.Errorf("harness: unknown kind %d", kd)
}

func bulkRecord(h any, kd int, v int64) {
	ctx := context.Background()
	switch kd {
	case 0:
		h.(metric.Int64Counter).Add(ctx, v)
	case 1:
		h.(metric.Int64UpDownCounter).Add(ctx, v)
	case 2:
		h.(metric.Int64Histogram).Record(ctx, v)
	case 3:
		h.(metric.Int64Gauge).Record(ctx, v)
	case 4:
		h.(metric.Float64Counter).Add(ctx, float64(v))
	case 5:
		h.(metric.Float64UpDownCounter).Add(ctx, float64(v))
	case 6:
		h.(metric.Float64Histogram).Record(ctx, float64(v))
	case 7:
		h.(metric.Float64Gauge).Record(ctx, float64(v))
	}
}

type bulkPoint struct {
	v     float64
	count uint64
	hist  bool
}

// bulkPoints flattens one collection: "scopeKey/metric/cb" -> point
// (cb = -1 for a point without attributes).
func bulkPoints(rm *metricdata.ResourceMetrics) (map[string]bulkPoint, int) {
	out := map[string]bulkPoint{}
	dups := 0
	put := func(sk, name string, set attribute.Set, p bulkPoint) {
		cb := int64(-1)
		if v, ok := set.Value("cb"); ok {
			cb = v.AsInt64()
		}
		k := fmt.Sprintf("%s/%s/%d", sk, name, cb)
		if _, ok := out[k]; ok {
			dups++
		}
		out[k] = p
	}
	for _, sm := range rm.ScopeMetrics {
		sk := bulkKeyOf(sm.Scope)
		for _, m := range sm.Metrics {
			switch d := m.Data.(type) {
			case metricdata.Sum[int64]:
				for _, p := range d.DataPoints {
					put(sk, m.Name, p.Attributes, bulkPoint{v: float64(p.Value)})
				}
			case metricdata.Sum[float64]:
				for _, p := range d.DataPoints {
					put(sk, m.Name, p.Attributes, bulkPoint{v: p.Value})
				}
			case metricdata.Gauge[int64]:
				for _, p := range d.DataPoints {
					put(sk, m.Name, p.Attributes, bulkPoint{v: float64(p.Value)})
				}
			case metricdata.Gauge[float64]:
				for _, p := range d.DataPoints {
					put(sk, m.Name, p.Attributes, bulkPoint{v: p.Value})
				}
			case metricdata.Histogram[int64]:
				for _, p := range d.DataPoints {
					put(sk, m.Name, p.Attributes, bulkPoint{v: float64(p.Sum), count: p.Count, hist: true})
				}
			case metricdata.Histogram[float64]:
				for _, p := range d.DataPoints {
					put(sk, m.Name, p.Attributes, bulkPoint{v: p.Sum, count: p.Count, hist: true})
				}
			}
		}
	}
	return out, dups
}

type bulkCollKey struct{}

func runBulk(c BulkCase) ([]vk.Violation, vk.Info) {
	var info vk.Info
	var vs []vk.Violation
	bad := func(kind, format string, a ...any) {
		if len(vs) < 20 {
			vs = append(vs, vk.V(kind, format, a...))
		}
	}
	nT, nM, nI, nC, nL := bulkClamp(c.Tracers), bulkClamp(c.Meters), bulkClamp(c.Insts), bulkClamp(c.CBs), bulkClamp(c.Late)
	if nL > 4096 {
		nL = 4096
	}
	if nM == 0 {
		nI, nC = 0, 0
	}
	kindOff := ((c.KindOff % len(kinds)) + len(kinds)) % len(kinds)

	global.VerifResetGlobals()
	global.VerifSetAutoInstrumentation(false)
	errs := &vk.ErrCapture{}
	otel.SetErrorHandler(errs)
	rd := sdkmetric.NewManualReader()
	mp := sdkmetric.NewMeterProvider(sdkmetric.WithReader(rd), sdkmetric.WithResource(resource.Empty()))
	sp := &bulkSP{ended: map[string][]string{}}
	tp := sdktrace.NewTracerProvider(sdktrace.WithSpanProcessor(sp), sdktrace.WithResource(resource.Empty()))
	defer func() {
		_ = mp.Shutdown(context.Background())
		_ = tp.Shutdown(context.Background())
		global.VerifResetGlobals()
	}()

	// ---- before installation ----
	type tracerH struct {
		h     trace.Tracer
		scope bulkScope
		span  string
	}
	var tracers []tracerH
	var tprov trace.TracerProvider
	if c.TVia {
		tprov = otel.GetTracerProvider()
	}
	if c.TSrc == 1 || c.TSrc == 2 {
		// the provider handle a library finds on a span (or in the context) it
		// was handed before installation
		ctx := context.Background()
		switch pk := ((c.TPar % 4) + 4) % 4; pk {
		case 1:
			ctx = trace.ContextWithRemoteSpanContext(ctx, genParent(pk, 1, 1))
		case 2, 3:
			ctx = trace.ContextWithSpanContext(ctx, genParent(pk, 0, 1))
		}
		ctx2, bs := otel.Tracer("bootstrap").Start(ctx, "bootstrap")
		if c.TSrc == 2 {
			tprov = trace.SpanFromContext(ctx2).TracerProvider()
		} else {
			tprov = bs.TracerProvider()
		}
		bs.End()
	}
	getTracer := func(s bulkScope) trace.Tracer {
		if tprov != nil {
			return tprov.Tracer(s.name, s.tracerOpts()...)
		}
		return otel.Tracer(s.name, s.tracerOpts()...)
	}
	same, differ := 0, 0
	for i := 0; i < nT; i++ {
		s := bulkScopeOf("lib", c.TVar, i)
		h := getTracer(s)
		tracers = append(tracers, tracerH{h, s, fmt.Sprintf("t%d", i)})
		if c.TTwice {
			h2 := getTracer(s)
			tracers = append(tracers, tracerH{h2, s, fmt.Sprintf("t%d-again", i)})
			if h2 == h {
				same++
			} else {
				differ++
			}
		}
	}

	var mprov metric.MeterProvider
	if c.MVia {
		mprov = otel.GetMeterProvider()
	}
	var meters []metric.Meter
	var mscopes []bulkScope
	getMeter := func(s bulkScope) metric.Meter {
		if mprov != nil {
			return mprov.Meter(s.name, s.meterOpts()...)
		}
		return otel.Meter(s.name, s.meterOpts()...)
	}
	for i := 0; i < nM; i++ {
		s := bulkScopeOf("mlib", c.MVar, i)
		meters = append(meters, getMeter(s))
		mscopes = append(mscopes, s)
	}
	var insts []bulkInst
	var obs []int
	opFailed := func(what string, err error) {
		if err != nil {
			bad("op_failed", "%s returned %v", what, err)
		}
	}
	for k := 0; k < nI; k++ {
		in := bulkInst{meter: bulkMeterOf(c.Spread, k, nI, nM), kd: (k + kindOff) % len(kinds), name: fmt.Sprintf("i%d", k)}
		m := meters[in.meter]
		if kinds[in.kd].obs && c.NatObs {
			s := mscopes[in.meter]
			m = mp.Meter(s.name, s.meterOpts()...)
		}
		h, err := bulkCreate(m, in.kd, in.name)
		opFailed("creating instrument "+in.name, err)
		in.h = h
		if kinds[in.kd].obs {
			obs = append(obs, k)
		}
		insts = append(insts, in)
	}
	if len(obs) == 0 {
		nC = 0
	}
	// keep the attribute sets of one observable instrument far below the SDK's
	// cardinality limit
	if nC > 400*len(obs) {
		nC = 400 * len(obs)
	}
	type cbH struct {
		inst     int
		reg      metric.Registration
		unregPre bool
		unregMid bool
	}
	var invMu sync.Mutex
	inv := map[[2]int]int{}
	cbs := make([]cbH, nC)
	for j := 0; j < nC; j++ {
		j := j
		k := obs[j%len(obs)]
		in := insts[k]
		f := func(ctx context.Context, o metric.Observer) error {
			col, _ := ctx.Value(bulkCollKey{}).(int)
			invMu.Lock()
			inv[[2]int{j, col}]++
			invMu.Unlock()
			if kinds[in.kd].float {
				o.ObserveFloat64(in.h.(metric.Float64Observable), float64(j+1), metric.WithAttributes(attribute.Int("cb", j)))
			} else {
				o.ObserveInt64(in.h.(metric.Int64Observable), int64(j+1), metric.WithAttributes(attribute.Int("cb", j)))
			}
			return nil
		}
		reg, err := meters[in.meter].RegisterCallback(f, in.h.(metric.Observable))
		opFailed(fmt.Sprintf("RegisterCallback #%d", j), err)
		cbs[j] = cbH{inst: k, reg: reg}
		if c.UnregN > 0 && j%c.UnregN == c.UnregN-1 && reg != nil {
			opFailed(fmt.Sprintf("Unregister of callback #%d", j), reg.Unregister())
			cbs[j].unregPre = true
		}
	}

	// ---- installation, with a second goroutine obtaining more handles ----
	var lateTracers []tracerH
	var lateInsts []bulkInst
	lateMeters := make([]metric.Meter, 0, nL)
	var lateScopes []bulkScope
	var lateErr error
	vk.Parallel(2, func(g int) {
		if g == 0 {
			if c.TPFirst {
				otel.SetTracerProvider(tp)
				otel.SetMeterProvider(mp)
			} else {
				otel.SetMeterProvider(mp)
				otel.SetTracerProvider(tp)
			}
			return
		}
		for l := 0; l < nL; l++ {
			s := bulkScopeOf("late", c.TVar, l)
			lateTracers = append(lateTracers, tracerH{getTracer(s), s, fmt.Sprintf("late-t%d", l)})
			// a new synchronous instrument on an old meter (when there is one) and on a new meter
			kd := (l + kindOff) % 8
			if nM > 0 {
				mi := l % nM
				h, err := bulkCreate(meters[mi], kd, fmt.Sprintf("late-i%d", l))
				if err != nil && lateErr == nil {
					lateErr = err
				}
				lateInsts = append(lateInsts, bulkInst{meter: mi, kd: kd, name: fmt.Sprintf("late-i%d", l), h: h, late: true})
			}
			ms := bulkScopeOf("mlate", c.MVar, l)
			lm := getMeter(ms)
			lateMeters = append(lateMeters, lm)
			lateScopes = append(lateScopes, ms)
			h, err := bulkCreate(lm, kd, fmt.Sprintf("late-n%d", l))
			if err != nil && lateErr == nil {
				lateErr = err
			}
			lateInsts = append(lateInsts, bulkInst{meter: nM + l, kd: kd, name: fmt.Sprintf("late-n%d", l), h: h, late: true})
		}
	})
	opFailed("creating an instrument while the installation runs", lateErr)
	tracers = append(tracers, lateTracers...)
	insts = append(insts, lateInsts...)
	mscopes = append(mscopes, lateScopes...)

	// ---- after installation: every handle is used once ----
	for _, t := range tracers {
		_, s := t.h.Start(context.Background(), t.span)
		s.End()
	}
	for k, in := range insts {
		if !kinds[in.kd].obs && in.h != nil {
			bulkRecord(in.h, in.kd, int64(k)+1)
		}
	}
	collect := func(idx int) (map[string]bulkPoint, int) {
		var rm metricdata.ResourceMetrics
		if err := rd.Collect(context.WithValue(context.Background(), bulkCollKey{}, idx), &rm); err != nil {
			bad("collect_failed", "Collect #%d returned %v", idx, err)
		}
		return bulkPoints(&rm)
	}
	pts1, dups1 := collect(1)
	for j := range cbs {
		if !cbs[j].unregPre && j%2 == 0 && cbs[j].reg != nil {
			opFailed(fmt.Sprintf("Unregister of callback #%d after installation", j), cbs[j].reg.Unregister())
			cbs[j].unregMid = true
		}
	}
	pts2, dups2 := collect(2)

	// ---- oracle ----
	sp.mu.Lock()
	ended := sp.ended
	sp.ended = map[string][]string{}
	sp.mu.Unlock()
	lost, firstLost := 0, ""
	for i, t := range tracers {
		seen := ended[t.span]
		switch {
		case len(seen) == 0:
			lost++
			if firstLost == "" {
				firstLost = fmt.Sprintf("span %q through tracer handle #%d (scope %s)", t.span, i, t.scope.key())
			}
		case len(seen) > 1:
			bad("span_recorded_twice", "span %s reached the SDK span processor %d times", t.span, len(seen))
		case seen[0] != t.scope.key():
			bad("tracer_scope_lost", "span %s was recorded under scope %q, its tracer was obtained with scope %q", t.span, seen[0], t.scope.key())
		}
		delete(ended, t.span)
	}
	if lost > 0 {
		bad("span_lost", "%d of the %d spans started after SetTracerProvider had returned never reached the SDK; first: %s (%d tracer handles of %d distinct scopes were obtained before the installation, %d while it ran)", lost, len(tracers), firstLost, len(tracers)-len(lateTracers), nT, len(lateTracers))
	}
	for name := range ended {
		bad("unknown_span", "the SDK recorded span %q which the program never started", name)
		break
	}
	if dups1+dups2 > 0 {
		bad("duplicate_stream", "the collections report %d data points twice", dups1+dups2)
	}
	for ci, pts := range []map[string]bulkPoint{pts1, pts2} {
		lostM, firstM := 0, ""
		wrong := 0
		syncN := 0
		for k, in := range insts {
			if kinds[in.kd].obs || in.h == nil {
				continue
			}
			syncN++
			key := fmt.Sprintf("%s/%s/-1", mscopes[in.meter].key(), in.name)
			p, ok := pts[key]
			want := float64(k + 1)
			switch {
			case !ok:
				lostM++
				if firstM == "" {
					firstM = fmt.Sprintf("instrument %q (kind %s, #%d, on meter #%d scope %s, created while the installation ran: %v)", in.name, kinds[in.kd].short, k, in.meter, mscopes[in.meter].key(), in.late)
				}
			case p.v != want || (p.hist && p.count != 1) || (p.hist != (kinds[in.kd].shape == shapeHist)):
				wrong++
				if wrong == 1 {
					bad("measurement_value_changed", "Collect #%d: instrument %q (kind %s) reports %v (count %d), the only measurement made through it was %v", ci+1, in.name, kinds[in.kd].short, p.v, p.count, want)
				}
			}
			delete(pts, key)
		}
		if lostM > 0 {
			bad("measurement_lost", "Collect #%d: %d of the %d synchronous instruments have no data although each recorded one measurement after SetMeterProvider had returned; first: %s (%d instruments on %d meters were created before the installation)", ci+1, lostM, syncN, firstM, nI, nM)
		}
		notRun, firstNR, twice, ranUnreg, obsLost := 0, "", 0, 0, 0
		for j, cb := range cbs {
			if cb.reg == nil {
				continue
			}
			n := inv[[2]int{j, ci + 1}]
			in := insts[cb.inst]
			key := fmt.Sprintf("%s/%s/%d", mscopes[in.meter].key(), in.name, j)
			active := !cb.unregPre && !(ci == 1 && cb.unregMid)
			switch {
			case n > 1:
				twice++
				if twice == 1 {
					bad("callback_ran_twice", "Collect #%d: callback #%d ran %d times in one collection", ci+1, j, n)
				}
			case active && n == 0:
				notRun++
				if firstNR == "" {
					firstNR = fmt.Sprintf("callback #%d on instrument %q of meter #%d (scope %s)", j, in.name, in.meter, mscopes[in.meter].key())
				}
			case !active && n != 0:
				ranUnreg++
				if ranUnreg == 1 {
					bad("unregistered_callback_ran", "Collect #%d: callback #%d ran although its Unregister had returned (before installation: %v, after installation through the Registration obtained before: %v)", ci+1, j, cb.unregPre, cb.unregMid)
				}
			}
			if n == 1 {
				if p, ok := pts[key]; !ok || p.v != float64(j+1) {
					obsLost++
					if obsLost == 1 {
						bad("observation_lost", "Collect #%d: callback #%d ran and observed %d on %q, the collection has %v (present %v)", ci+1, j, j+1, in.name, p.v, ok)
					}
				}
			}
			delete(pts, key)
		}
		if notRun > 0 {
			bad("callback_not_run", "Collect #%d: %d of the %d callbacks registered before the installation (and not unregistered) did not run; first: %s", ci+1, notRun, len(cbs), firstNR)
		}
		if len(pts) > 0 {
			ks := make([]string, 0, len(pts))
			for k := range pts {
				ks = append(ks, k)
			}
			sort.Strings(ks)
			bad("unknown_stream", "Collect #%d reports %d data points the program did not produce, e.g. %s", ci+1, len(pts), ks[0])
		}
	}
	for key, n := range inv {
		if key[1] == 0 && n > 0 {
			bad("callback_outside_collection", "callback #%d ran %d times outside the harness's collections", key[0], n)
			break
		}
	}

	// ---- classes ----
	size := func(n int) string {
		switch {
		case n == 0:
			return "0"
		case n < 16:
			return "1-15"
		case n < 256:
			return "16-255"
		case n < 4096:
			return "256-4095"
		case n < 16384:
			return "4096-16383"
		}
		return ">=16384"
	}
	info.Class("tracers:" + size(nT))
	info.Class("meters:" + size(nM))
	info.Class("instruments:" + size(nI))
	info.Class("callbacks:" + size(nC))
	info.Class("late:" + size(nL))
	info.Class(fmt.Sprintf("tracer_scopes_differ_by:%d", c.TVar))
	switch {
	case c.TSrc == 1:
		info.Class("tracers_via:span_value.TracerProvider():span_started_with=" + parentKinds[((c.TPar%4)+4)%4])
	case c.TSrc == 2:
		info.Class("tracers_via:SpanFromContext(returned_context).TracerProvider():span_started_with=" + parentKinds[((c.TPar%4)+4)%4])
	case c.TVia:
		info.Class("tracers_via:provider_handle")
	default:
		info.Class("tracers_via:otel.Tracer")
	}
	info.Class(fmt.Sprintf("meter_scopes_differ_by:%d", c.MVar))
	info.Class(fmt.Sprintf("instrument_spread:%d", c.Spread))
	maxPerMeter := 0
	perMeter := map[int]int{}
	for _, in := range insts {
		if !in.late && !(kinds[in.kd].obs && c.NatObs) {
			perMeter[in.meter]++
			if perMeter[in.meter] > maxPerMeter {
				maxPerMeter = perMeter[in.meter]
			}
		}
	}
	info.Class("max_placeholder_instruments_on_one_meter:" + size(maxPerMeter))
	info.ClassIf(nM > len(perMeter), "meters_without_placeholder_instruments")
	info.ClassIf(c.NatObs && nC > 0, "callbacks_observe_instruments_obtained_directly_from_SDK")
	info.ClassIf(c.TTwice && differ == 0 && same > 0, "same_scope_twice:same_placeholder(not asserted)")
	info.ClassIf(differ > 0, "same_scope_twice:different_placeholders(not asserted)")
	info.ClassIf(len(errs.Errors()) > 0, "error_reported(not asserted)")
	info.ClassIf(c.UnregN > 0 && nC >= c.UnregN, "callbacks_unregistered_before_install")
	info.NonTrivial = nT+nM+nI+nC >= 64
	return vs, info
}

// genCount: log-scale, 0 .. 2^(maxExp+1)-1.
func genCount(t *rapid.T, label string, maxExp int) int {
	if rapid.IntRange(0, 9).Draw(t, label+"_none") == 0 {
		return 0
	}
	e := rapid.IntRange(0, maxExp).Draw(t, label+"_exp")
	return (1 << e) + rapid.IntRange(0, (1<<e)-1).Draw(t, label+"_frac")
}

func genBulk(t *rapid.T) BulkCase {
	c := BulkCase{
		TVar: rapid.IntRange(0, 4).Draw(t, "tracer_scopes_differ_by"), TVia: rapid.Bool().Draw(t, "tracer_via_handle"),
		MVar: rapid.IntRange(0, 4).Draw(t, "meter_scopes_differ_by"), MVia: rapid.Bool().Draw(t, "meter_via_handle"),
		Spread: rapid.IntRange(0, 3).Draw(t, "spread"), KindOff: rapid.IntRange(0, len(kinds)-1).Draw(t, "kind_off"),
		NatObs: rapid.IntRange(0, 3).Draw(t, "native_observables") == 0, TPFirst: rapid.Bool().Draw(t, "tp_first"),
		TTwice: rapid.IntRange(0, 3).Draw(t, "tracer_twice") == 0,
	}
	if rapid.Bool().Draw(t, "tracers_from_span_provider") {
		c.TSrc, c.TPar = rapid.IntRange(1, 2).Draw(t, "tracer_source"), rapid.SampledFrom([]int{0, 0, 1, 2, 3}).Draw(t, "bootstrap_context")
	}
	// one or two dimensions are large (log-scale up to tens of thousands), the
	// others stay small: the cost of a case is bounded by its largest table
	big := rapid.IntRange(0, 4).Draw(t, "big_dimension")
	second := rapid.IntRange(0, 9).Draw(t, "second_big_dimension")
	// rapid draws small integers more often than large ones: the exponent of a
	// large dimension is counted down from its maximum, so that the largest
	// tables are the most frequent among the large ones
	count := func(label string, d, maxExp int) int {
		if d != big && d != second {
			return genCount(t, label, 5)
		}
		e := maxExp - rapid.IntRange(0, maxExp-4).Draw(t, label+"_exp_below_max")
		return (1 << e) + rapid.IntRange(0, (1<<e)-1).Draw(t, label+"_frac")
	}
	c.Tracers = count("tracers", 0, 14)
	c.Meters = count("meters", 1, 14)
	c.Insts = count("insts", 2, 13)
	c.CBs = count("cbs", 3, 13)
	if big == 4 {
		// many instruments AND many meters
		c.Meters = count("meters_too", 4, 11)
		c.Insts = count("insts_too", 4, 13)
	}
	if c.Meters == 0 && (c.Insts > 0 || c.CBs > 0) {
		c.Meters = 1
	}
	if rapid.Bool().Draw(t, "unreg_some") {
		c.UnregN = rapid.IntRange(1, 5).Draw(t, "unreg_every")
	}
	if rapid.IntRange(0, 2).Draw(t, "late") == 0 {
		c.Late = genCount(t, "late", 8)
	}
	return c
}

func TestManyHandles(t *testing.T) {
	vk.Run(t, vk.Spec[BulkCase]{
		Property: "C16", Check: "many_handles",
		Rule: "generated NUMBERS of handles obtained through the public otel API before the SDK is installed: distinct tracer scopes, distinct meter scopes, instruments (kinds cyclic from a generated offset; all on one meter / round robin / half on the last meter / round robin from the last meter backwards) and RegisterCallback registrations, each count log-scale from 16 to 32767 (tracers, meters) / 16383 (instruments, callbacks) in one or two generated 'large' dimensions and 0 to 63 in the others; scopes differ by name / version / schema URL / attribute / a mix; through otel.Tracer / otel.Meter or a provider handle (tracers in half of the programs through the provider handle of a span started before installation: the span value's TracerProvider() or trace.SpanFromContext(returned context).TracerProvider(), that span started with a background / valid remote / valid local / not valid span context); every tracer scope optionally asked for twice; observable instruments optionally obtained directly from the SDK (placeholder meters without placeholder instruments); every n-th callback unregistered before installation; 0-511 more tracers / instruments / meters obtained by a second goroutine while SetTracerProvider / SetMeterProvider (either order) run; afterwards every handle is used once (span, measurement), a collection, half of the callbacks unregistered through their pre-install Registration, a second collection; " +
			"non-trivial = at least 64 handles obtained before the installation; distinct = distinct case encodings",
		Quick: 40, Thorough: 600,
		Gen: genBulk, Run: runBulk, Repeat: 3,
		CaseTimeout: 600 * time.Second,
		ShrinkTime:  30 * time.Second,
	})
}
