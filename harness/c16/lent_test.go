//go:build verif

package c16

// Sub-check "lent_instruments": the hostile caller of RegisterCallback.
//
// RegisterCallback(f, insts...) is variadic: a caller that spreads a slice it
// holds LENDS that slice to the library. The statement's clauses are judged
// for such callers: every callback registered before (or while, or after) the
// installation is registered with the SDK exactly once (one invocation per
// collection) and the observations it makes of the instruments it was
// registered with arrive; and the interleaving of registration, what the
// registering goroutine goes on doing with ITS OWN slice (reading it again,
// lending it to a second RegisterCallback, sharing it read-only with another
// registering goroutine, appending into its spare capacity) and the
// installation by another goroutine completes without data race (the package
// is built with -race; a report is the driver's data_race violation).
// Nothing is asserted about the contents of the caller's slice afterwards
// (class label only).

import (
	"context"
	"fmt"
	"runtime"
	"sync"
	"sync/atomic"
	"testing"
	"time"

	"go.opentelemetry.io/otel"
	"go.opentelemetry.io/otel/attribute"
	"go.opentelemetry.io/otel/internal/global"
	"go.opentelemetry.io/otel/metric"
	sdkmetric "go.opentelemetry.io/otel/sdk/metric"
	"go.opentelemetry.io/otel/sdk/metric/metricdata"
	"go.opentelemetry.io/otel/sdk/resource"
	"go.opentelemetry.io/otel/verif/internal/vk"
	"pgregory.net/rapid"
)

type LentReg struct {
	Pick   []int `json:"pick"`   // indices into the pool of observable instruments
	Spare  int   `json:"spare"`  // spare capacity of the lent slice
	Style  int   `json:"style"`  // 0: compiler-made temporary (fresh exact slice per call); 1: own caller-held slice; 2: the slice of the previous registering goroutine (shared read-only)
	After  int   `json:"after"`  // what the goroutine does with its slice after RegisterCallback returned: 0 nothing, 1 reads it again (Rounds times), 2 lends it to a second RegisterCallback and reads it again, 3 overwrites it once everything has returned, 4 appends into the spare capacity and reads it again
	Rounds int   `json:"rounds"` // re-read rounds
	Unreg  bool  `json:"unreg"`  // unregisters at the end of its goroutine (possibly during installation)
}

type LentCase struct {
	Insts     int       `json:"insts"`
	KindOff   int       `json:"kind_off"`
	Via       bool      `json:"via"`
	InstallAt int       `json:"install_at"` // 0: installer races with the registrations; 1: installer starts when all first registrations returned (the goroutines go on with their slices); 2: installed before any registration
	Regs      []LentReg `json:"regs"`
}

func lentObserve(o metric.Observer, h any, kd int, v int64, cb int) {
	a := metric.WithAttributes(attribute.Int("cb", cb))
	if kd >= 11 {
		o.ObserveFloat64(h.(metric.Float64Observable), float64(v), a)
	} else {
		o.ObserveInt64(h.(metric.Int64Observable), v, a)
	}
}

func runLent(c LentCase) ([]vk.Violation, vk.Info) {
	var info vk.Info
	var vs []vk.Violation
	bad := func(kind, format string, a ...any) {
		if len(vs) < 20 {
			vs = append(vs, vk.V(kind, format, a...))
		}
	}
	nI := c.Insts
	if nI < 1 {
		nI = 1
	}
	if nI > 16 {
		nI = 16
	}
	regs := c.Regs
	if len(regs) > 16 {
		regs = regs[:16]
	}

	global.VerifResetGlobals()
	global.VerifSetAutoInstrumentation(false)
	errs := &vk.ErrCapture{}
	otel.SetErrorHandler(errs)
	rd := sdkmetric.NewManualReader()
	mp := sdkmetric.NewMeterProvider(sdkmetric.WithReader(rd), sdkmetric.WithResource(resource.Empty()))
	defer func() {
		_ = mp.Shutdown(context.Background())
		global.VerifResetGlobals()
	}()

	var m metric.Meter
	if c.Via {
		m = otel.GetMeterProvider().Meter("lent")
	} else {
		m = otel.Meter("lent")
	}
	type inst struct {
		h    any
		kd   int
		name string
	}
	pool := make([]inst, nI)
	for i := range pool {
		kd := 8 + ((c.KindOff+i)%6+6)%6
		name := fmt.Sprintf("o%d", i)
		h, err := bulkCreate(m, kd, name)
		if err != nil || h == nil {
			bad("create_failed", "creating observable %s (kind %d) before installation: %v", name, kd, err)
			return vs, info
		}
		pool[i] = inst{h, kd, name}
	}

	// the slices the callers hold, built before any goroutine starts
	type regState struct {
		picks  []int               // pool indices this registration is made with
		slice  []metric.Observable // the caller-held slice (nil for style 0)
		orig   []metric.Observable // private copy of what the caller put there
		calls  [2]atomic.Int64     // invocations of the first / second callback
		reg    [2]metric.Registration
		err    [2]error
		second bool
		shared bool
		change atomic.Int64
	}
	st := make([]*regState, len(regs))
	for k, r := range regs {
		s := &regState{}
		style := r.Style
		if style == 2 && (k == 0 || st[k-1].slice == nil) {
			style = 1
		}
		if style == 2 {
			s.picks, s.slice, s.orig, s.shared = st[k-1].picks, st[k-1].slice, st[k-1].orig, true
		} else {
			for _, p := range r.Pick {
				s.picks = append(s.picks, ((p%nI)+nI)%nI)
			}
			if len(s.picks) == 0 {
				s.picks = []int{k % nI}
			}
			sp := r.Spare
			if sp < 0 || sp > 64 {
				sp = 0
			}
			sl := make([]metric.Observable, 0, len(s.picks)+sp)
			for _, p := range s.picks {
				sl = append(sl, pool[p].h.(metric.Observable))
			}
			s.orig = append([]metric.Observable(nil), sl...)
			if style == 1 {
				s.slice = sl
			}
		}
		st[k] = s
	}
	mkCB := func(k, which int) metric.Callback {
		s := st[k]
		id := k + 100*which
		return func(_ context.Context, o metric.Observer) error {
			s.calls[which].Add(1)
			seen := map[int]bool{}
			for _, p := range s.picks {
				if seen[p] {
					continue // one observation per instrument (the SDK adds up repeated observations of a sum)
				}
				seen[p] = true
				lentObserve(o, pool[p].h, pool[p].kd, int64(id*1000+p+1), id)
			}
			return nil
		}
	}

	install := func() { otel.SetMeterProvider(mp) }
	if c.InstallAt == 2 {
		install()
	}
	registered := make([]chan struct{}, len(regs))
	for k := range registered {
		registered[k] = make(chan struct{})
	}
	var wg sync.WaitGroup
	for k := range regs {
		k, r, s := k, regs[k], st[k]
		wg.Add(1)
		go func() {
			defer wg.Done()
			mine := s.slice
			if mine == nil {
				// the usual call style: a temporary nobody else sees
				mine = append([]metric.Observable(nil), s.orig...)
			}
			s.reg[0], s.err[0] = m.RegisterCallback(mkCB(k, 0), mine...)
			close(registered[k])
			if s.slice == nil {
				if r.Unreg && s.reg[0] != nil {
					_ = s.reg[0].Unregister()
				}
				return
			}
			reread := func() {
				n := r.Rounds
				if n < 1 {
					n = 1
				}
				for i := 0; i < n; i++ {
					for j := range s.orig {
						if s.slice[j] != s.orig[j] {
							s.change.Add(1)
						}
					}
					runtime.Gosched()
				}
			}
			switch r.After {
			case 1:
				reread()
			case 2:
				s.second = true
				s.reg[1], s.err[1] = m.RegisterCallback(mkCB(k, 1), s.slice...)
				reread()
			case 4:
				if !s.shared && cap(s.slice) > len(s.slice) {
					// beyond len: memory the library was never given
					_ = append(s.slice, pool[0].h.(metric.Observable))
				}
				reread()
			}
			if r.Unreg && s.reg[0] != nil {
				_ = s.reg[0].Unregister()
			}
		}()
	}
	if c.InstallAt < 2 {
		wg.Add(1)
		go func() {
			defer wg.Done()
			if c.InstallAt == 1 {
				for _, ch := range registered {
					<-ch
				}
			}
			install()
		}()
	}
	wg.Wait()
	if c.InstallAt == 0 {
		install() // a second installer: same SDK object
	}
	changed := false
	for k := range regs {
		s := st[k]
		if s.slice == nil {
			continue
		}
		for j := range s.orig {
			if s.slice[j] != s.orig[j] {
				changed = true
			}
		}
	}
	for k, r := range regs {
		s := st[k]
		if s.slice == nil {
			continue
		}
		if r.After == 3 && !s.shared {
			for j := range s.slice {
				if (j+k)%2 == 0 {
					s.slice[j] = nil
				} else {
					s.slice[j] = pool[(s.picks[j]+1)%nI].h.(metric.Observable)
				}
			}
		}
	}
	for k := range regs {
		for w := 0; w < 2; w++ {
			if st[k].err[w] != nil {
				bad("register_failed", "RegisterCallback #%d of goroutine %d returned %v", w, k, st[k].err[w])
			}
		}
	}

	// ---- two collections ----
	for round := 0; round < 2; round++ {
		var before [][2]int64
		for _, s := range st {
			before = append(before, [2]int64{s.calls[0].Load(), s.calls[1].Load()})
		}
		var rm metricdata.ResourceMetrics
		if err := rd.Collect(context.Background(), &rm); err != nil {
			bad("collect_failed", "collection %d: %v", round, err)
			break
		}
		pts, _ := bulkPoints(&rm)
		for k, r := range regs {
			s := st[k]
			for w := 0; w < 2; w++ {
				if w == 1 && !s.second {
					continue
				}
				got := s.calls[w].Load() - before[k][w]
				want := int64(1)
				if w == 0 && r.Unreg {
					want = 0
				}
				id := k + 100*w
				if got != want {
					bad("callback_registration_count", "collection %d: callback %d (goroutine %d, registration #%d, style %d, after %d, install_at %d, unregistered %v) ran %d times, want %d", round, id, k, w, r.Style, r.After, c.InstallAt, w == 0 && r.Unreg, got, want)
					continue
				}
				if want == 0 {
					continue
				}
				seen := map[int]bool{}
				for _, p := range s.picks {
					if seen[p] {
						continue
					}
					seen[p] = true
					key := fmt.Sprintf("lent|||-1/%s/%d", pool[p].name, id)
					pt, ok := pts[key]
					wantV := float64(id*1000 + p + 1)
					if !ok {
						bad("observation_lost", "collection %d: callback %d (goroutine %d, style %d, after %d, install_at %d) observed instrument %s it was registered with, no data point arrived", round, id, k, r.Style, r.After, c.InstallAt, pool[p].name)
					} else if pt.v != wantV {
						bad("observation_wrong", "collection %d: callback %d observed %v on %s, data point holds %v", round, id, wantV, pool[p].name, pt.v)
					}
				}
			}
		}
	}

	lentN, reread, reuse, shared, spare, unreg := 0, 0, 0, 0, 0, 0
	for k, r := range regs {
		s := st[k]
		if s.slice == nil {
			continue
		}
		lentN++
		if r.After == 1 || r.After == 2 || r.After == 4 {
			reread++
		}
		if s.second {
			reuse++
		}
		if s.shared {
			shared++
		}
		if cap(s.slice) > len(s.slice) {
			spare++
		}
		if r.Unreg {
			unreg++
		}
	}
	info.Class(fmt.Sprintf("install_at:%d", c.InstallAt))
	info.ClassIf(lentN > 0, "caller_held_slice_lent")
	info.ClassIf(lentN == 0, "only_temporaries")
	info.ClassIf(reread > 0 && c.InstallAt < 2, "slice_read_again_around_installation")
	info.ClassIf(reuse > 0, "slice_lent_to_second_RegisterCallback")
	info.ClassIf(shared > 0, "slice_shared_by_two_registering_goroutines")
	info.ClassIf(spare > 0, "slice_with_spare_capacity")
	info.ClassIf(unreg > 0, "unregistered_around_installation")
	info.ClassIf(changed, "callers_slice_changed_by_library(not asserted)")
	info.ClassIf(len(errs.Errors()) > 0, "error_reported(not asserted)")
	info.NonTrivial = lentN > 0 && reread > 0 && c.InstallAt < 2
	return vs, info
}

func genLent(t *rapid.T) LentCase {
	c := LentCase{
		Insts:     rapid.IntRange(1, 12).Draw(t, "insts"),
		KindOff:   rapid.IntRange(0, 5).Draw(t, "kind_off"),
		Via:       rapid.Bool().Draw(t, "via_handle"),
		InstallAt: rapid.SampledFrom([]int{0, 0, 1, 1, 1, 2}).Draw(t, "install_at"),
	}
	n := rapid.IntRange(1, 8).Draw(t, "regs")
	for k := 0; k < n; k++ {
		r := LentReg{
			Style:  rapid.SampledFrom([]int{0, 1, 1, 1, 2}).Draw(t, "style"),
			After:  rapid.SampledFrom([]int{0, 1, 1, 2, 2, 3, 4}).Draw(t, "after"),
			Spare:  rapid.SampledFrom([]int{0, 0, 1, 2, 7, 8, 9}).Draw(t, "spare"),
			Rounds: rapid.SampledFrom([]int{1, 2, 8, 64, 512}).Draw(t, "rounds"),
			Unreg:  rapid.IntRange(0, 4).Draw(t, "unreg") == 0,
		}
		np := rapid.SampledFrom([]int{1, 1, 2, 3, 4, 8, 9, 10}).Draw(t, "picks")
		for i := 0; i < np; i++ {
			r.Pick = append(r.Pick, rapid.IntRange(0, c.Insts-1).Draw(t, "pick"))
		}
		c.Regs = append(c.Regs, r)
	}
	return c
}

func TestLentInstruments(t *testing.T) {
	vk.Run(t, vk.Spec[LentCase]{
		Property: "C16", Check: "lent_instruments",
		Rule: "the hostile caller of RegisterCallback: 1-12 observable instruments (kinds cyclic from a generated offset) on one placeholder meter; 1-8 goroutines each register a callback with 1-10 generated instruments (repeats allowed), passed as a compiler-style temporary / as a caller-held slice with generated spare capacity (0-9) / as the slice ANOTHER registering goroutine holds (shared read-only); afterwards the goroutine does nothing / reads its slice again 1-512 times / lends it to a second RegisterCallback / appends into the spare capacity / overwrites it once every call has returned; optionally unregisters; SetMeterProvider runs in its own goroutine from the start, or as soon as all first registrations returned, or before any registration; then two collections: every not-unregistered callback runs exactly once per collection and each observation of the instruments it was registered with arrives with its value; data races are reported by the race detector; " +
			"non-trivial = a caller-held slice is read again by its goroutine around an installation made by another goroutine; distinct = distinct case encodings",
		Quick: 300, Thorough: 4000,
		Gen: genLent, Run: runLent, Repeat: 5,
		CaseTimeout: 120 * time.Second,
		ShrinkTime:  20 * time.Second,
	})
}
