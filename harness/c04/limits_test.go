package c04

import (
	"fmt"
	"os"
	"strconv"
	"strings"

	sdktrace "go.opentelemetry.io/otel/sdk/trace"
	"go.opentelemetry.io/otel/verif/internal/vk"
	"pgregory.net/rapid"
)

// ---------------------------------------------------------------------
// how the six span limits reach the TracerProvider
//
// "under any span limits": the limits a span runs under are whatever the
// application configured, through any of the public ways of configuring them.
// The case holds six NUMBERS (Case.Limits) and a description of the way they
// are handed over (Case.Cfg); the model derives the EFFECTIVE limits from the
// documentation of each way and never looks at what the provider did:
//
//   - WithRawSpanLimits(sl): "The limits will be used as-is. Zero or negative
//     values will not be changed to the default value".
//   - WithSpanLimits(sl) (deprecated): "If any field of sl is zero or negative
//     it will be replaced with the default value for that field", the default
//     of a field being its Default…Limit constant's documented value
//     (unlimited for the value length, 128 for the five counts).
//   - neither option: "the TracerProvider will use the limits defined by
//     environment variables, or the defaults if unset. Refer to the
//     NewSpanLimits documentation".
//   - NewSpanLimits(): "all limits set to the value their corresponding
//     environment variable holds, or the default if unset" with the six
//     variable names listed there. The two general variables
//     OTEL_ATTRIBUTE_VALUE_LENGTH_LIMIT / OTEL_ATTRIBUTE_COUNT_LIMIT stand in
//     for the span-specific ones when those are unset (OpenTelemetry
//     specification, "the span-specific one takes precedence"). An empty
//     value is unset. A value that is not an integer is ignored and the
//     default is used (specification: "treat it as not set"); the generator
//     never combines a span-specific value that is not an integer with a
//     usable general one, where "ignored" has two readings.
//     The documented construction `sl := NewSpanLimits(); sl.X = …` followed
//     by either option is generated as well.
//   - an earlier span limits option on the same NewTracerProvider call is
//     overridden by the later one (options are applied in the order given).
//   - environment variables are noise when an option with a literal
//     SpanLimits is given.

// EnvVar is one environment variable of the case. The generator records what
// the spelling means, the model does not parse.
type EnvVar struct {
	Name string `json:"name"`
	Val  vk.Str `json:"val"`
	// Means: "int" (Val is a legal decimal spelling of N), "blank" (set to
	// the empty string) or "garbage" (not an integer under any reading).
	Means string `json:"means"`
	N     int    `json:"n,omitempty"`
}

// LimitsCfg: the way Case.Limits is handed to the provider. The zero value
// is WithRawSpanLimits(SpanLimits{the six numbers}).
type LimitsCfg struct {
	// Via: "" = WithRawSpanLimits, "deprecated" = WithSpanLimits, "none" =
	// no span limits option at all (environment / defaults).
	Via string `json:"via,omitempty"`
	// FromNew: the SpanLimits passed to the option is built the documented
	// way, sl := NewSpanLimits() (under Env), and only the fields named in Set
	// are overwritten with the numbers of Case.Limits.
	FromNew bool     `json:"from_new,omitempty"`
	Set     []string `json:"set,omitempty"`
	Env     []EnvVar `json:"env,omitempty"`
	// An earlier span limits option on the same call, with other numbers.
	HasDecoy        bool   `json:"has_decoy,omitempty"`
	DecoyDeprecated bool   `json:"decoy_deprecated,omitempty"`
	Decoy           Limits `json:"decoy"`
}

var fieldNames = []string{"value_len", "attrs", "events", "links", "per_event", "per_link"}

func (l *Limits) field(name string) *int {
	switch name {
	case "value_len":
		return &l.ValueLen
	case "attrs":
		return &l.Attrs
	case "events":
		return &l.Events
	case "links":
		return &l.Links
	case "per_event":
		return &l.PerEvent
	case "per_link":
		return &l.PerLink
	}
	panic("harness bug: unknown limit field " + name)
}

// The names NewSpanLimits documents, per field, followed by the general
// variable of the specification where there is one.
var envNames = map[string][]string{
	"value_len": {"OTEL_SPAN_ATTRIBUTE_VALUE_LENGTH_LIMIT", "OTEL_ATTRIBUTE_VALUE_LENGTH_LIMIT"},
	"attrs":     {"OTEL_SPAN_ATTRIBUTE_COUNT_LIMIT", "OTEL_ATTRIBUTE_COUNT_LIMIT"},
	"events":    {"OTEL_SPAN_EVENT_COUNT_LIMIT"},
	"links":     {"OTEL_SPAN_LINK_COUNT_LIMIT"},
	"per_event": {"OTEL_EVENT_ATTRIBUTE_COUNT_LIMIT"},
	"per_link":  {"OTEL_LINK_ATTRIBUTE_COUNT_LIMIT"},
}

// documentedDefaults: "(default: unlimited)" for the value length, "(default:
// 128)" for the counts (NewSpanLimits / Default…Limit documentation).
func documentedDefaults() Limits {
	return Limits{ValueLen: -1, Attrs: 128, Events: 128, Links: 128, PerEvent: 128, PerLink: 128}
}

func asSDK(l Limits) sdktrace.SpanLimits {
	return sdktrace.SpanLimits{
		AttributeValueLengthLimit:   l.ValueLen,
		AttributeCountLimit:         l.Attrs,
		EventCountLimit:             l.Events,
		LinkCountLimit:              l.Links,
		AttributePerEventCountLimit: l.PerEvent,
		AttributePerLinkCountLimit:  l.PerLink,
	}
}

// ---------------------------------------------------------------------
// model side

// envLimits is what NewSpanLimits documents for the environment env.
func envLimits(env []EnvVar) Limits {
	out := documentedDefaults()
	for _, f := range fieldNames {
	names:
		for _, name := range envNames[f] {
			for _, v := range env {
				if v.Name != name {
					continue
				}
				switch v.Means {
				case "int":
					*out.field(f) = v.N
					break names
				case "garbage":
					break names // ignored: the default stays
				}
				// blank: unset, the next name is consulted
			}
		}
	}
	return out
}

// defaulted is the documented rule of the deprecated WithSpanLimits.
func defaulted(l Limits) Limits {
	d := documentedDefaults()
	for _, f := range fieldNames {
		if *l.field(f) <= 0 {
			*l.field(f) = *d.field(f)
		}
	}
	return l
}

// passed is the SpanLimits VALUE the application builds for its option, as
// the documentation predicts it.
func passed(given Limits, cfg LimitsCfg) Limits {
	if !cfg.FromNew {
		return given
	}
	sl := envLimits(cfg.Env)
	for _, f := range cfg.Set {
		*sl.field(f) = *given.field(f)
	}
	return sl
}

// effective derives the limits spans of the provider run under.
func effective(given Limits, cfg LimitsCfg) Limits {
	switch cfg.Via {
	case "none":
		return envLimits(cfg.Env)
	case "deprecated":
		return defaulted(passed(given, cfg))
	default:
		return passed(given, cfg)
	}
}

// ---------------------------------------------------------------------
// runner side

var allEnvNames = func() []string {
	var out []string
	for _, f := range fieldNames {
		out = append(out, envNames[f]...)
	}
	return out
}()

// applyEnv puts exactly the case's variables into the process environment
// (cases run one at a time) and returns the function restoring what was there.
func applyEnv(env []EnvVar) (restore func()) {
	type saved struct {
		key, val string
		was      bool
	}
	var old []saved
	for _, k := range allEnvNames {
		v, was := os.LookupEnv(k)
		old = append(old, saved{k, v, was})
		_ = os.Unsetenv(k)
	}
	for _, v := range env {
		_ = os.Setenv(v.Name, string(v.Val))
	}
	return func() {
		for _, o := range old {
			if o.was {
				_ = os.Setenv(o.key, o.val)
			} else {
				_ = os.Unsetenv(o.key)
			}
		}
	}
}

// limitOptions builds the span limits option(s) of the case the way an
// application would, through the public API only. Must run under applyEnv.
func limitOptions(given Limits, cfg LimitsCfg) []sdktrace.TracerProviderOption {
	var opts []sdktrace.TracerProviderOption
	if cfg.HasDecoy && cfg.Via != "none" {
		if cfg.DecoyDeprecated {
			//nolint:staticcheck // the deprecated spelling is part of the public API.
			opts = append(opts, sdktrace.WithSpanLimits(asSDK(cfg.Decoy)))
		} else {
			opts = append(opts, sdktrace.WithRawSpanLimits(asSDK(cfg.Decoy)))
		}
	}
	if cfg.Via == "none" {
		return opts
	}
	sl := asSDK(given)
	if cfg.FromNew {
		sl = sdktrace.NewSpanLimits()
		for _, f := range cfg.Set {
			switch f {
			case "value_len":
				sl.AttributeValueLengthLimit = given.ValueLen
			case "attrs":
				sl.AttributeCountLimit = given.Attrs
			case "events":
				sl.EventCountLimit = given.Events
			case "links":
				sl.LinkCountLimit = given.Links
			case "per_event":
				sl.AttributePerEventCountLimit = given.PerEvent
			case "per_link":
				sl.AttributePerLinkCountLimit = given.PerLink
			}
		}
	}
	if cfg.Via == "deprecated" {
		//nolint:staticcheck // the deprecated spelling is part of the public API.
		return append(opts, sdktrace.WithSpanLimits(sl))
	}
	return append(opts, sdktrace.WithRawSpanLimits(sl))
}

// ---------------------------------------------------------------------
// generator side

// genDecimal draws a legal spelling of the decimal integer n: as printed, with
// an explicit plus sign, zero padded, or both.
func genDecimal(t *rapid.T, n int) string {
	sign, digits := "", strconv.Itoa(n)
	if n < 0 {
		sign, digits = "-", digits[1:]
	}
	switch rapid.IntRange(0, 5).Draw(t, "spelling") {
	case 2:
		if n >= 0 {
			sign = "+"
		}
	case 3:
		digits = strings.Repeat("0", rapid.IntRange(1, 4).Draw(t, "zeros")) + digits
	case 4:
		if n >= 0 {
			sign = "+"
		}
		digits = strings.Repeat("0", rapid.IntRange(1, 3).Draw(t, "zeros")) + digits
	}
	return sign + digits
}

// garbage: values that are not an integer under any reading (no lenient
// parser makes a number of them, so "ignored, default used" is the only
// documented outcome).
var garbage = []string{"abc", "true", "unlimited", "-", "+", "--1", "1-", "1 2", "12ms", "1.5", "NaN", "five", "0x", "٣"}

// genEnvVar draws the state of one variable whose legal value would be n.
// states: weights for set-to-n / blank / garbage (unset is decided by the caller).
func genEnvVar(t *rapid.T, name string, n int, allowGarbage bool) EnvVar {
	k := rapid.IntRange(0, 9).Draw(t, "envstate")
	switch {
	case k == 0:
		return EnvVar{Name: name, Val: "", Means: "blank"}
	case k == 1 && allowGarbage:
		return EnvVar{Name: name, Val: vk.Str(rapid.SampledFrom(garbage).Draw(t, "garbage")), Means: "garbage"}
	}
	return EnvVar{Name: name, Val: vk.Str(genDecimal(t, n)), Means: "int", N: n}
}

// genEnv draws an environment around the numbers of given: every documented
// variable is unset / set to the field's number in some legal spelling / blank
// / garbage; the two general variables carry numbers of their own. density is
// the chance (out of 8) that a variable is set at all.
func genEnv(t *rapid.T, given Limits, density int) []EnvVar {
	var env []EnvVar
	for _, f := range fieldNames {
		names := envNames[f]
		n := *given.field(f)
		specificGarbage := false
		if rapid.IntRange(1, 8).Draw(t, f+"_envset") <= density {
			v := genEnvVar(t, names[0], n, true)
			specificGarbage = v.Means == "garbage"
			env = append(env, v)
		}
		if len(names) > 1 && rapid.IntRange(1, 8).Draw(t, f+"_genset") <= density/2+1 {
			// the general variable with a number of its own
			gn := genLimit(t, f+"_general")
			v := genEnvVar(t, names[1], gn, true)
			if specificGarbage && v.Means == "int" {
				// two readings of "ignored" (fall through to the general
				// variable or straight to the default): not generated.
				v = EnvVar{Name: names[1], Val: "", Means: "blank"}
			}
			env = append(env, v)
		}
	}
	return env
}

// genCfg draws the way the six numbers reach the provider.
func genCfg(t *rapid.T, given Limits) LimitsCfg {
	var cfg LimitsCfg
	switch rapid.IntRange(0, 9).Draw(t, "via") {
	case 0, 1, 2, 3:
		cfg.Via = ""
	case 4, 5, 6:
		cfg.Via = "deprecated"
	default:
		cfg.Via = "none"
	}
	if cfg.Via == "none" {
		// environment and defaults only; sometimes nothing is set at all.
		if rapid.IntRange(0, 4).Draw(t, "envnone") > 0 {
			cfg.Env = genEnv(t, given, rapid.SampledFrom([]int{2, 5, 8}).Draw(t, "density"))
		}
		return cfg
	}
	switch rapid.IntRange(0, 5).Draw(t, "base") {
	case 0, 1:
		// sl := NewSpanLimits(); overwrite some fields
		cfg.FromNew = true
		for _, f := range fieldNames {
			if rapid.IntRange(0, 2).Draw(t, f+"_set") > 0 {
				cfg.Set = append(cfg.Set, f)
			}
		}
		if rapid.IntRange(0, 3).Draw(t, "envnew") > 0 {
			cfg.Env = genEnv(t, genLimits(t, "envnum_"), rapid.SampledFrom([]int{2, 5, 8}).Draw(t, "density"))
		}
	case 2:
		// a literal SpanLimits next to a configured environment (noise)
		cfg.Env = genEnv(t, genLimits(t, "envnum_"), 4)
	}
	if rapid.IntRange(0, 7).Draw(t, "decoy") == 0 {
		cfg.HasDecoy = true
		cfg.DecoyDeprecated = rapid.Bool().Draw(t, "decoydeprecated")
		cfg.Decoy = genLimits(t, "decoy_")
	}
	return cfg
}

func genLimits(t *rapid.T, prefix string) Limits {
	return Limits{
		ValueLen: genLimit(t, prefix+"value_len"),
		Attrs:    genLimit(t, prefix+"attrs"),
		Events:   genLimit(t, prefix+"events"),
		Links:    genLimit(t, prefix+"links"),
		PerEvent: genLimit(t, prefix+"per_event"),
		PerLink:  genLimit(t, prefix+"per_link"),
	}
}

// describeCfg words the configuration for violation messages ("" for the
// plain WithRawSpanLimits literal without sibling peculiarities).
func describeCfg(gc Case) string {
	cfg := gc.Cfg
	var parts []string
	arg := fmt.Sprintf("SpanLimits%+v", gc.Limits)
	if cfg.FromNew {
		arg = fmt.Sprintf("NewSpanLimits() with fields %v overwritten from %+v", cfg.Set, gc.Limits)
	}
	switch cfg.Via {
	case "none":
		parts = append(parts, "no span limits option (environment / defaults)")
	case "deprecated":
		parts = append(parts, "WithSpanLimits("+arg+")")
	default:
		if cfg.FromNew || cfg.HasDecoy || len(cfg.Env) > 0 {
			parts = append(parts, "WithRawSpanLimits("+arg+")")
		}
	}
	if cfg.HasDecoy && cfg.Via != "none" {
		parts = append(parts, fmt.Sprintf("after an earlier span limits option (deprecated=%v) %+v", cfg.DecoyDeprecated, cfg.Decoy))
	}
	if len(cfg.Env) > 0 {
		var ev []string
		for _, v := range cfg.Env {
			ev = append(ev, fmt.Sprintf("%s=%q", v.Name, string(v.Val)))
		}
		parts = append(parts, "environment "+strings.Join(ev, " "))
	}
	if gc.HasSib && gc.SibDeprecated {
		parts = append(parts, fmt.Sprintf("sibling span: WithSpanLimits(SpanLimits%+v), documented effective limits %+v", gc.Sib, defaulted(gc.Sib)))
	}
	if len(parts) == 0 {
		return ""
	}
	e := eff(gc)
	return fmt.Sprintf("[limits configured through %s; documented effective limits of the primary span %+v]", strings.Join(parts, "; "), e.Limits)
}

// ---------------------------------------------------------------------
// classes

func classifyCfg(info *vk.Info, c Case, effLimits Limits) {
	cfg := c.Cfg
	switch cfg.Via {
	case "":
		info.ClassIf(!cfg.FromNew, "limits_via_WithRawSpanLimits_literal")
		info.ClassIf(cfg.FromNew, "limits_via_WithRawSpanLimits_of_NewSpanLimits")
	case "deprecated":
		info.ClassIf(!cfg.FromNew, "limits_via_WithSpanLimits_literal")
		info.ClassIf(cfg.FromNew, "limits_via_WithSpanLimits_of_NewSpanLimits")
		p := passed(c.Limits, cfg)
		nonpos, pos := 0, 0
		for _, f := range fieldNames {
			if *p.field(f) <= 0 {
				nonpos++
			} else {
				pos++
			}
		}
		info.ClassIf(nonpos > 0 && pos > 0, "WithSpanLimits_mixes_defaulted_and_kept_fields")
		info.ClassIf(nonpos == 6, "WithSpanLimits_all_fields_defaulted")
		info.ClassIf((p.PerEvent <= 0) != (p.PerLink <= 0), "WithSpanLimits_exactly_one_of_per_event_per_link_defaulted")
		info.ClassIf(p.ValueLen == 0, "WithSpanLimits_value_len_0_means_unlimited")
	case "none":
		info.ClassIf(len(cfg.Env) == 0, "limits_provider_defaults_only")
		info.ClassIf(len(cfg.Env) > 0, "limits_via_environment_only")
	}
	if cfg.Via == "none" || cfg.FromNew {
		var ints, blanks, garb, general, padded int
		for _, v := range cfg.Env {
			switch v.Means {
			case "int":
				ints++
				if string(v.Val) != strconv.Itoa(v.N) {
					padded++
				}
			case "blank":
				blanks++
			case "garbage":
				garb++
			}
		}
		e := envLimits(cfg.Env)
		d := documentedDefaults()
		for _, f := range []string{"value_len", "attrs"} {
			for _, v := range cfg.Env {
				if v.Name == envNames[f][1] && v.Means == "int" && *e.field(f) == v.N && v.N != *d.field(f) {
					general++
				}
			}
		}
		info.ClassIf(ints > 0, "env_limit_read")
		info.ClassIf(padded > 0, "env_limit_signed_or_zero_padded_spelling")
		info.ClassIf(blanks > 0, "env_limit_blank")
		info.ClassIf(garb > 0, "env_limit_not_an_integer")
		info.ClassIf(general > 0, "env_general_attribute_variable_used")
	} else {
		info.ClassIf(len(cfg.Env) > 0, "env_set_next_to_literal_option_(noise)")
	}
	info.ClassIf(cfg.HasDecoy && cfg.Via != "none", "earlier_span_limits_option_overridden")
	info.ClassIf(effLimits != c.Limits, "effective_limits_differ_from_the_numbers_given")
	info.ClassIf(c.HasSib && c.SibDeprecated, "sibling_limits_via_WithSpanLimits")
}
