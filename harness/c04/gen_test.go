package c04

import (
	"fmt"
	"math"
	"strings"
	"unicode/utf8"

	"go.opentelemetry.io/otel/verif/internal/vk"
	"pgregory.net/rapid"
)

// Limits are six span limit numbers. Case.Limits holds the numbers the
// application configures; how they reach the provider is Case.Cfg (see
// limits_test.go), and the limits the span actually runs under are derived
// from both by the model (effective).
type Limits struct {
	ValueLen int `json:"value_len"`
	Attrs    int `json:"attrs"`
	Events   int `json:"events"`
	Links    int `json:"links"`
	PerEvent int `json:"per_event"`
	PerLink  int `json:"per_link"`
}

// LinkD is a link as data.
type LinkD struct {
	TID    string  `json:"tid"` // 32 hex digits, all zero = invalid trace id
	SID    string  `json:"sid"` // 16 hex digits, all zero = invalid span id
	Flags  int     `json:"flags"`
	Remote bool    `json:"remote,omitempty"`
	State  string  `json:"state,omitempty"` // tracestate header value, "" = none
	Attrs  []vk.KV `json:"attrs,omitempty"`
}

// Op is one span API call.
//
//	attrs : SetAttributes(KVs...)
//	event : AddEvent(Text, WithAttributes(KVs...)[, WithAttributes(KVs2...)][, WithTimestamp(TS)])
//	link  : AddLink(Link)
//	error : RecordError(err(Err, Text), WithAttributes(KVs...)[, WithStackTrace(true)][, WithTimestamp(TS)])
//	status: SetStatus(Code, Text)
//	name  : SetName(Text)
//	peek  : no call on the trace.Span: whoever holds the ReadWriteSpan the SDK
//	        handed to SpanProcessor.OnStart READS the span at this point of the
//	        program (Attributes, Events, Links, the three dropped counts, Name,
//	        Status, EndTime). Reading is not one of the statement's calls and
//	        the model ignores it; it decides WHEN the SDK folds duplicate keys
//	        (reading the attributes of a live span de-duplicates eagerly).
//	end   : End([WithTimestamp(TS)][, WithStackTrace(true|false)]), called plainly
//	        (Panic 0), as the deferred call of a goroutine that is panicking
//	        with the value panicValue(PanicVal, Text) (Panic 1: `defer
//	        span.End(...)`), or from inside a deferred closure of such a
//	        goroutine (Panic 2: `defer func() { span.End(...) }()`, where the
//	        language does not let End see the panic)
type Op struct {
	Op     string  `json:"op"`
	KVs    []vk.KV `json:"kvs,omitempty"`
	HasKV2 bool    `json:"has_kv2,omitempty"`
	KVs2   []vk.KV `json:"kvs2,omitempty"`
	Text   vk.Str  `json:"text,omitempty"`
	HasTS  bool    `json:"has_ts,omitempty"`
	TS     int64   `json:"ts,omitempty"` // unix nanoseconds
	Link   *LinkD  `json:"link,omitempty"`
	Code   int     `json:"code,omitempty"` // 0 Unset, 1 Error, 2 Ok
	Err    int     `json:"err,omitempty"`  // 0 nil, 1 errors.New, 2 value type, 3 pointer type
	Stack  bool    `json:"stack,omitempty"`
	// StackOff: the explicit default, WithStackTrace(false) (error / end ops;
	// ignored when Stack is set).
	StackOff bool `json:"stack_off,omitempty"`
	// end ops only: how End is reached (see above) and what the goroutine
	// panics with (0 string, 1 errors.New, 2 error value type, 3 error pointer
	// type, 4 int, 5 a struct that is not an error).
	Panic    int `json:"panic,omitempty"`
	PanicVal int `json:"panic_val,omitempty"`
	// event / link / error ops: the call is made Rep+1 times; repetition j > 0
	// appends "#j" to the event name / error message (see expand).
	Rep int `json:"rep,omitempty"`
	// Re-use of the caller's KVs slice OBJECT (attrs / event / error ops):
	// Share 1: the sibling span's corresponding call gets the very same slice
	// right after the primary call returned; Share 2: the sibling's call runs
	// first. Again "attrs" / "event": the primary span gets a second call,
	// SetAttributes(s...) / AddEvent("again", WithAttributes(s...)), with the
	// same slice after the first returned.
	//
	// link ops: the caller re-uses the trace.Link VALUE it built (never writing
	// to it): Share 1 / 2 gives the same Link to the sibling span's AddLink
	// after / before the primary call; Again "link" adds the same Link to the
	// primary span a second time, Again "attrs" / "event" passes the Link's
	// Attributes slice to SetAttributes / AddEvent("again", ...) afterwards.
	Share int    `json:"share,omitempty"`
	Again string `json:"again,omitempty"`
}

// Case is one generated program.
type Case struct {
	Limits Limits `json:"limits"`
	// Cfg: the public way the numbers of Limits are configured (zero value:
	// WithRawSpanLimits with a literal SpanLimits).
	Cfg          LimitsCfg `json:"cfg"`
	Name         vk.Str    `json:"name"`
	Kind         int       `json:"kind"` // trace.SpanKind 0..5
	HasStartTS   bool      `json:"has_start_ts,omitempty"`
	StartTS      int64     `json:"start_ts,omitempty"`
	StartAttrs   []vk.KV   `json:"start_attrs,omitempty"`
	SamplerAttrs []vk.KV   `json:"sampler_attrs,omitempty"`
	StartLinks   []LinkD   `json:"start_links,omitempty"`
	Ops          []Op      `json:"ops"`
	// A sibling span of a second TracerProvider with its own limits; it
	// receives the ops marked Share (same slice objects as the primary).
	HasSib bool   `json:"has_sib,omitempty"`
	Sib    Limits `json:"sib"`
	// RecordOnly: the sampler's decision is RecordOnly instead of
	// RecordAndSample (the span records and is handed to the processors all
	// the same).
	RecordOnly bool `json:"record_only,omitempty"`
	// Parent: what the context passed to Start holds. 0 nothing, 1 a sampled
	// local span context, 2 a sampled remote one, 3 an unsampled remote one
	// with tracestate, 4 as 1 and the span is started WithNewRoot.
	Parent int `json:"parent,omitempty"`
	// SibDeprecated: the sibling's numbers go through the deprecated
	// WithSpanLimits (zero / negative numbers mean the documented defaults).
	SibDeprecated bool `json:"sib_deprecated,omitempty"`
	// StartLinksShared: the trace.Link values given to WithLinks at the start
	// of the primary span are afterwards added, one by one, to the sibling
	// span with AddLink (the same Link values, same Attributes slices).
	StartLinksShared bool `json:"start_links_shared,omitempty"`
}

// eff is the case with the numbers of Limits / Sib replaced by the limits the
// two providers' spans run under according to the documentation of the way
// they were configured. Model, comparison and classes work on eff(c); only
// the construction of the providers uses the case as generated.
func eff(c Case) Case {
	c.Limits = effective(c.Limits, c.Cfg)
	if c.SibDeprecated {
		c.Sib = defaulted(c.Sib)
	}
	return c
}

var limitValues = []int{-1, 0, 0, 1, 1, 2, 2, 3, 3, 5, 5, 128}

var smallKeys = []string{"a", "b", "c", "d", "e", "f", "k.long.key", "Z"}

var largeKeys = func() []string {
	ks := make([]string, 1000)
	for i := range ks {
		ks[i] = fmt.Sprintf("k%03d", i)
	}
	return ks
}()

// pieces that special strings are made of: characters of every encoded
// width, the literal replacement character and invalid bytes.
var pieces = []string{"\uFFFD", "\uFFFD", "\u00e9", "a", "\u4e16", "\U0001F600", "\xff", "\xe2\x82", "\xc3", "\x80"}

var tracestates = []string{"", "", "k=v", "a=1,b=2", "vendor@x=opaque"}

// genOpts is the attribute generator's configuration plus the value length
// limits in play (primary and sibling), so that strings can be built to land
// on, just under and just over whatever the limits are.
type genOpts struct {
	vk.KVOpts
	vlens []int // the finite, positive value length limits of the case
	big   bool  // occasionally draw very long attribute lists
	// longBias: a value length limit of the case is beyond what the short
	// strings reach.
	longBias bool
}

// wideCounts: list lengths / repeat counts on a log scale, past every limit the
// generator draws (128, 129, 200) .
var wideCounts = []int{13, 16, 20, 31, 33, 64, 100, 127, 128, 129, 130, 200, 300}

// genLong draws a long string: a short pattern of pieces repeated up to a
// target number of characters which is either near one of the value length
// limits of the case (limit-1, limit, limit+1, 2*limit: for single-byte
// patterns also the byte-length boundary "at most limit bytes is left alone")
// or from a log scale up to 700.
func genLong(t *rapid.T, o genOpts) vk.Str {
	var target int
	if len(o.vlens) > 0 && rapid.IntRange(0, 3).Draw(t, "nearlimit") > 0 {
		l := rapid.SampledFrom(o.vlens).Draw(t, "vlen")
		target = max(l+rapid.SampledFrom([]int{-1, 0, 0, 1, 1, 2, l}).Draw(t, "delta"), 1)
	} else {
		target = rapid.SampledFrom([]int{13, 20, 32, 64, 127, 128, 129, 200, 256, 700}).Draw(t, "longlen")
	}
	alphabet := pieces
	switch rapid.IntRange(0, 2).Draw(t, "longalphabet") {
	case 0:
		alphabet = []string{"a", "b", "z", " "} // bytes == characters
	case 1:
		alphabet = []string{"\u00e9", "a", "\u4e16", "\U0001F600", "\uFFFD"} // valid, mixed widths
	}
	pat := rapid.SliceOfN(rapid.SampledFrom(alphabet), 1, 4).Draw(t, "pattern")
	var sb strings.Builder
	for i := 0; i < target; i++ {
		sb.WriteString(pat[i%len(pat)])
	}
	// optionally one hostile piece somewhere: start, middle, right at the cut
	// or at the very end.
	out := sb.String()
	if rapid.IntRange(0, 2).Draw(t, "inject") == 0 {
		at := rapid.SampledFrom([]int{0, len(out) / 2, len(out)}).Draw(t, "injectat")
		for at < len(out) && at > 0 && !utf8.RuneStart(out[at]) {
			at++
		}
		out = out[:at] + rapid.SampledFrom(pieces).Draw(t, "injected") + out[at:]
	}
	return vk.Str(out)
}

// genString: the special / long replacement for a string payload, "" = keep.
func genString(t *rapid.T, o genOpts, keep *vk.Str) {
	k := rapid.IntRange(0, 15).Draw(t, "special")
	switch {
	case k <= 3:
		*keep = genSpecial(t)
	case k == 4, k <= 7 && o.longBias:
		// (more often when only a long string can reach a limit of the case)
		*keep = genLong(t, o)
	}
}

// genSpecial draws a string built to stress the truncation rules: runs of
// one character (notably U+FFFD) and mixtures with invalid bytes, of 1..12
// pieces so that every limit in {0,1,2,3,5} cuts it.
func genSpecial(t *rapid.T) vk.Str {
	n := rapid.IntRange(1, 12).Draw(t, "sn")
	if rapid.Bool().Draw(t, "run") {
		return vk.Str(strings.Repeat(rapid.SampledFrom(pieces).Draw(t, "piece"), n))
	}
	var sb strings.Builder
	for i := 0; i < n; i++ {
		sb.WriteString(rapid.SampledFrom(pieces).Draw(t, "piece"))
	}
	return vk.Str(sb.String())
}

// genKVs wraps vk.GenKVs and swaps some string payloads for special strings.
func genKVs(t *rapid.T, o genOpts, label string, max int, corners ...int) []vk.KV {
	var kvs []vk.KV
	if o.big && rapid.IntRange(0, 5).Draw(t, "biglist") == 0 {
		// a list far longer than any count limit, in ONE call
		n := rapid.SampledFrom(wideCounts).Draw(t, "bign")
		g := vk.GenKV(o.KVOpts)
		for i := 0; i < n; i++ {
			kvs = append(kvs, g.Draw(t, "kv"))
		}
	} else {
		kvs = vk.GenKVs(o.KVOpts, max, corners...).Draw(t, label)
	}
	for i := range kvs {
		switch kvs[i].T {
		case "str":
			genString(t, o, &kvs[i].S)
		case "strs":
			for j := range kvs[i].SS {
				genString(t, o, &kvs[i].SS[j])
			}
		}
	}
	return kvs
}

func genHex(t *rapid.T, nbytes int, label string) string {
	switch rapid.IntRange(0, 4).Draw(t, label+"kind") {
	case 0: // invalid: all zero
		return strings.Repeat("00", nbytes)
	case 1:
		return strings.Repeat("00", nbytes-1) + "01"
	default:
		b := rapid.SliceOfN(rapid.Byte(), nbytes, nbytes).Draw(t, label)
		return fmt.Sprintf("%x", b)
	}
}

func genLink(t *rapid.T, o genOpts) LinkD {
	l := LinkD{
		TID:    genHex(t, 16, "tid"),
		SID:    genHex(t, 8, "sid"),
		Flags:  rapid.SampledFrom([]int{0, 1, 1, 3, 255}).Draw(t, "flags"),
		Remote: rapid.Bool().Draw(t, "remote"),
		State:  rapid.SampledFrom(tracestates).Draw(t, "state"),
	}
	if rapid.IntRange(0, 2).Draw(t, "linkattrs") > 0 {
		l.Attrs = genKVs(t, o, "lattrs", 7, 0, 1, 2, 3, 4, 6)
	}
	return l
}

func genTS(t *rapid.T) int64 {
	// around the epoch, around "now" of the pinned era, negative and large.
	switch rapid.IntRange(0, 3).Draw(t, "tskind") {
	case 0:
		return rapid.Int64Range(-5, 5).Draw(t, "ts")
	case 1:
		return rapid.Int64Range(1_700_000_000_000_000_000, 1_800_000_000_000_000_000).Draw(t, "ts")
	case 2:
		return rapid.Int64Range(-1_000_000_000_000, 1_000_000_000_000).Draw(t, "ts")
	default:
		return rapid.SampledFrom([]int64{0, 1, -1, 4_000_000_000_000_000_000, -4_000_000_000_000_000_000}).Draw(t, "ts")
	}
}

func genOp(t *rapid.T, o genOpts, idx int, heavy bool, allowEnd bool, hasSib bool) Op {
	op := genOp1(t, o, idx, heavy, allowEnd)
	switch op.Op {
	case "attrs", "event", "error":
		if hasSib {
			op.Share = rapid.SampledFrom([]int{0, 0, 1, 1, 2}).Draw(t, "share")
		}
		op.Again = rapid.SampledFrom([]string{"", "", "", "", "", "attrs", "event"}).Draw(t, "again")
	case "link":
		// the caller re-uses the Link VALUE (same Attributes slice object): for
		// the sibling span's AddLink, for a second AddLink on the same span, or
		// its attribute list for SetAttributes / an event.
		if hasSib {
			op.Share = rapid.SampledFrom([]int{0, 0, 1, 1, 2}).Draw(t, "share")
		}
		op.Again = rapid.SampledFrom([]string{"", "", "", "", "attrs", "attrs", "event", "link"}).Draw(t, "again")
	}
	return op
}

// genEnd draws an End call: options and the way it is reached.
func genEnd(t *rapid.T) Op {
	op := Op{Op: "end", HasTS: rapid.Bool().Draw(t, "endhasts")}
	if op.HasTS {
		op.TS = genTS(t)
	}
	genStack(t, &op)
	op.Panic = rapid.SampledFrom([]int{0, 0, 0, 1, 1, 2}).Draw(t, "endpanic")
	if op.Panic != 0 {
		op.PanicVal = rapid.IntRange(0, 5).Draw(t, "panicval")
		op.Text = vk.GenText(5, true).Draw(t, "panicmsg")
	}
	return op
}

// genStack draws the stack trace option: absent, true, or the explicit false.
func genStack(t *rapid.T, op *Op) {
	switch rapid.IntRange(0, 5).Draw(t, "stack") {
	case 0, 1:
		op.Stack = true
	case 2:
		op.StackOff = true
	}
}

func genOp1(t *rapid.T, o genOpts, idx int, heavy bool, allowEnd bool) Op {
	kinds := []string{"attrs", "attrs", "attrs", "attrs", "attrs", "event", "event", "event", "link", "link", "error", "error", "status", "status", "name", "peek"}
	if heavy {
		for i := 0; i < 60; i++ {
			kinds = append(kinds, "attrs")
		}
		kinds = append(kinds, "peek", "peek", "peek")
	}
	if allowEnd {
		kinds = append(kinds, "end", "end", "end")
	}
	op := Op{Op: rapid.SampledFrom(kinds).Draw(t, "op")}
	text := vk.GenText(5, true)
	switch op.Op {
	case "attrs":
		if heavy {
			n := rapid.IntRange(9, 12).Draw(t, "heavylen")
			if rapid.IntRange(0, 9).Draw(t, "heavybig") == 0 {
				n = rapid.SampledFrom(wideCounts).Draw(t, "heavybign")
			}
			g := vk.GenKV(o.KVOpts)
			for i := 0; i < n; i++ {
				op.KVs = append(op.KVs, g.Draw(t, "kv"))
			}
		} else {
			op.KVs = genKVs(t, o, "kvs", 12, 0, 1, 1, 2, 3, 5, 12)
		}
	case "event":
		op.Text = vk.Str(fmt.Sprintf("e%d", idx)) + text.Draw(t, "name")
		op.KVs = genKVs(t, o, "kvs", 7, 0, 1, 2, 3, 4, 6)
		if rapid.IntRange(0, 3).Draw(t, "second") == 0 {
			op.HasKV2 = true
			op.KVs2 = genKVs(t, o, "kvs2", 4, 0, 1, 2)
		}
		op.HasTS = rapid.Bool().Draw(t, "hasts")
		if op.HasTS {
			op.TS = genTS(t)
		}
	case "link":
		l := genLink(t, o)
		op.Link = &l
	case "error":
		op.Err = rapid.SampledFrom([]int{0, 1, 1, 2, 3}).Draw(t, "err")
		op.Text = text.Draw(t, "msg")
		op.KVs = genKVs(t, o, "kvs", 6, 0, 0, 1, 2, 3)
		genStack(t, &op)
		op.HasTS = rapid.Bool().Draw(t, "hasts")
		if op.HasTS {
			op.TS = genTS(t)
		}
	case "status":
		op.Code = rapid.IntRange(0, 2).Draw(t, "code")
		op.Text = text.Draw(t, "desc")
	case "name":
		op.Text = text.Draw(t, "name")
	case "end":
		op = genEnd(t)
	}
	return op
}

// genLimit draws one span limit: mostly the small values every list of a case
// straddles, sometimes the defaults' neighbourhood, sometimes anything else a
// configuration may hold, including every spelling of "unlimited" (any
// negative value).
func genLimit(t *rapid.T, label string) int {
	switch rapid.IntRange(0, 9).Draw(t, label+"_kind") {
	case 0:
		return rapid.SampledFrom(wideLimits).Draw(t, label)
	case 1:
		return rapid.SampledFrom(negativeLimits).Draw(t, label)
	default:
		return rapid.SampledFrom(limitValues).Draw(t, label)
	}
}

var wideLimits = []int{4, 6, 7, 8, 9, 10, 11, 12, 13, 16, 31, 32, 33, 64, 127, 128, 129, 200, 1000, math.MaxInt32, math.MaxInt64}

var negativeLimits = []int{-1, -2, -3, -128, -129, math.MinInt32, math.MinInt64}

func finiteVlens(ls ...int) []int {
	var out []int
	for _, l := range ls {
		if l > 0 && l <= 1000 {
			out = append(out, l)
		}
	}
	return out
}

func gen(t *rapid.T) Case {
	c := Case{}
	c.Limits = Limits{
		ValueLen: genLimit(t, "value_len"),
		Attrs:    genLimit(t, "attrs"),
		Events:   genLimit(t, "events"),
		Links:    genLimit(t, "links"),
		PerEvent: genLimit(t, "per_event"),
		PerLink:  genLimit(t, "per_link"),
	}
	// Sibling provider: mostly unlimited or larger than the primary's limits.
	if rapid.Bool().Draw(t, "hassib") {
		c.HasSib = true
		c.Sib = Limits{
			ValueLen: rapid.SampledFrom([]int{-1, -1, -1, 128, 5, 3, 1, 0}).Draw(t, "sib_value_len"),
			Attrs:    rapid.SampledFrom([]int{-1, -1, 128, 5, 2, 0}).Draw(t, "sib_attrs"),
			Events:   rapid.SampledFrom([]int{-1, -1, 128, 3, 0}).Draw(t, "sib_events"),
			Links:    rapid.SampledFrom([]int{-1, -1, -1, 128, 2}).Draw(t, "sib_links"),
			PerEvent: rapid.SampledFrom([]int{-1, -1, 128, 2}).Draw(t, "sib_per_event"),
			PerLink:  rapid.SampledFrom([]int{-1, -1, -1, 128, 3, 1}).Draw(t, "sib_per_link"),
		}
	}
	// Key alphabet: small (many duplicates, reaches the small capacities) or
	// large (reaches 128 distinct keys in attribute-heavy programs).
	o := genOpts{KVOpts: vk.KVOpts{Keys: smallKeys, EmptyKey: true, Invalid: true, InvalidUTF8: true, NaN: true, MaxSlice: 3, MaxTextParts: 8}}
	heavy := false
	queueHeavy := false
	switch rapid.IntRange(0, 15).Draw(t, "alphabet") {
	case 0:
		// attribute-heavy program over 1000 keys: reaches the default
		// capacity of 128 and large unlimited maps.
		o.Keys = largeKeys
		heavy = true
		c.Limits.Attrs = rapid.SampledFrom([]int{128, 128, 127, 129, 200, -1, -2, 5}).Draw(t, "heavyattrs")
	case 1, 2:
		o.Keys = largeKeys[:12]
	case 3, 4:
		// queue-heavy program: bursts of events / links past the default
		// capacities of 128, and event / link / start attribute lists past the
		// default per-item caps.
		queueHeavy = true
		o.Keys = largeKeys[:40]
		o.big = true
		big := []int{128, 128, 127, 129, 64, 200, -1, 5}
		c.Limits.Events = rapid.SampledFrom(big).Draw(t, "qevents")
		c.Limits.Links = rapid.SampledFrom(big).Draw(t, "qlinks")
		c.Limits.PerEvent = rapid.SampledFrom(big).Draw(t, "qperevent")
		c.Limits.PerLink = rapid.SampledFrom(big).Draw(t, "qperlink")
	}
	// How the numbers are handed over (after the program shapes above fixed
	// some of them); strings are then built around the EFFECTIVE value length
	// limits.
	c.Cfg = genCfg(t, c.Limits)
	if c.HasSib {
		c.SibDeprecated = rapid.IntRange(0, 3).Draw(t, "sibdeprecated") == 0
	}
	ec := eff(c)
	if c.HasSib {
		o.vlens = finiteVlens(ec.Limits.ValueLen, ec.Sib.ValueLen)
	} else {
		o.vlens = finiteVlens(ec.Limits.ValueLen)
	}
	for _, l := range o.vlens {
		o.longBias = o.longBias || l > 5
	}
	c.Name = vk.GenText(4, true).Draw(t, "spanname")
	c.RecordOnly = rapid.IntRange(0, 5).Draw(t, "recordonly") == 0
	c.Parent = rapid.SampledFrom([]int{0, 0, 0, 0, 1, 2, 3, 4}).Draw(t, "parent")
	c.Kind = rapid.IntRange(0, 5).Draw(t, "kind")
	if rapid.IntRange(0, 3).Draw(t, "hasstartts") == 0 {
		c.HasStartTS = true
		c.StartTS = genTS(t)
	}
	if rapid.IntRange(0, 2).Draw(t, "hasstartattrs") == 0 {
		c.StartAttrs = genKVs(t, o, "startattrs", 8, 0, 1, 2, 3, 6)
	}
	if rapid.IntRange(0, 4).Draw(t, "hassamplerattrs") == 0 {
		c.SamplerAttrs = genKVs(t, o, "samplerattrs", 4, 1, 2)
	}
	if rapid.IntRange(0, 3).Draw(t, "hasstartlinks") == 0 {
		n := rapid.IntRange(1, 4).Draw(t, "nstartlinks")
		ol := o
		if queueHeavy && rapid.IntRange(0, 2).Draw(t, "manystartlinks") == 0 {
			n = rapid.SampledFrom(wideCounts).Draw(t, "nmanystartlinks")
			ol.big = false // many links or long lists per link, not both: cost
		}
		for i := 0; i < n; i++ {
			c.StartLinks = append(c.StartLinks, genLink(t, ol))
		}
		if c.HasSib {
			c.StartLinksShared = rapid.Bool().Draw(t, "startlinksshared")
		}
	}
	pre := vk.GenLen(34, 0, 1, 2, 3, 5, 8, 12).Draw(t, "pre")
	if heavy {
		pre = rapid.IntRange(18, 34).Draw(t, "heavypre")
	}
	if queueHeavy {
		pre = rapid.IntRange(3, 10).Draw(t, "queuepre")
	}
	for i := 0; i < pre; i++ {
		op := genOp(t, o, i, heavy, false, c.HasSib)
		genRep(t, &op, queueHeavy)
		c.Ops = append(c.Ops, op)
	}
	// An explicit End (otherwise the runner ends the span after the last
	// call), followed by calls that must change nothing.
	if rapid.IntRange(0, 5).Draw(t, "explicitend") > 0 {
		c.Ops = append(c.Ops, genEnd(t))
		post := rapid.SampledFrom([]int{0, 0, 1, 1, 2, 3, 5}).Draw(t, "post")
		for i := 0; i < post; i++ {
			op := genOp(t, o, pre+1+i, false, true, c.HasSib)
			genRep(t, &op, false)
			c.Ops = append(c.Ops, op)
		}
	}
	return c
}

// genRep makes a burst of an event / link / error op: the call is repeated
// Rep more times (a fresh argument slice each time).
func genRep(t *rapid.T, op *Op, queueHeavy bool) {
	switch op.Op {
	case "event", "link", "error":
	default:
		return
	}
	if queueHeavy {
		// (a very long attribute list is not repeated as well: cost)
		if len(op.KVs) <= 12 && (op.Link == nil || len(op.Link.Attrs) <= 12) && rapid.IntRange(0, 2).Draw(t, "burst") == 0 {
			op.Rep = rapid.SampledFrom(wideCounts).Draw(t, "rep")
		}
		return
	}
	op.Rep = rapid.SampledFrom([]int{0, 0, 0, 0, 0, 0, 0, 0, 0, 1, 2, 7}).Draw(t, "rep")
}
