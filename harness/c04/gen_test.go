package c04

import (
	"fmt"
	"strings"

	"go.opentelemetry.io/otel/verif/internal/vk"
	"pgregory.net/rapid"
)

// Limits are the six span limits, used as-is (WithRawSpanLimits).
type Limits struct {
	ValueLen int `json:"value_len"`
	Attrs    int `json:"attrs"`
	Events   int `json:"events"`
	Links    int `json:"links"`
	PerEvent int `json:"per_event"`
	PerLink  int `json:"per_link"`
}

// LinkD is a link as data.
type LinkD struct {
	TID    string  `json:"tid"` // 32 hex digits, all zero = invalid trace id
	SID    string  `json:"sid"` // 16 hex digits, all zero = invalid span id
	Flags  int     `json:"flags"`
	Remote bool    `json:"remote,omitempty"`
	State  string  `json:"state,omitempty"` // tracestate header value, "" = none
	Attrs  []vk.KV `json:"attrs,omitempty"`
}

// Op is one span API call.
//
//	attrs : SetAttributes(KVs...)
//	event : AddEvent(Text, WithAttributes(KVs...)[, WithAttributes(KVs2...)][, WithTimestamp(TS)])
//	link  : AddLink(Link)
//	error : RecordError(err(Err, Text), WithAttributes(KVs...)[, WithStackTrace(true)][, WithTimestamp(TS)])
//	status: SetStatus(Code, Text)
//	name  : SetName(Text)
//	end   : End([WithTimestamp(TS)])
type Op struct {
	Op     string  `json:"op"`
	KVs    []vk.KV `json:"kvs,omitempty"`
	HasKV2 bool    `json:"has_kv2,omitempty"`
	KVs2   []vk.KV `json:"kvs2,omitempty"`
	Text   vk.Str  `json:"text,omitempty"`
	HasTS  bool    `json:"has_ts,omitempty"`
	TS     int64   `json:"ts,omitempty"` // unix nanoseconds
	Link   *LinkD  `json:"link,omitempty"`
	Code   int     `json:"code,omitempty"` // 0 Unset, 1 Error, 2 Ok
	Err    int     `json:"err,omitempty"`  // 0 nil, 1 errors.New, 2 value type, 3 pointer type
	Stack  bool    `json:"stack,omitempty"`
	// Re-use of the caller's KVs slice OBJECT (attrs / event / error ops):
	// Share 1: the sibling span's corresponding call gets the very same slice
	// right after the primary call returned; Share 2: the sibling's call runs
	// first. Again "attrs" / "event": the primary span gets a second call,
	// SetAttributes(s...) / AddEvent("again", WithAttributes(s...)), with the
	// same slice after the first returned.
	Share int    `json:"share,omitempty"`
	Again string `json:"again,omitempty"`
}

// Case is one generated program.
type Case struct {
	Limits       Limits  `json:"limits"`
	Name         vk.Str  `json:"name"`
	Kind         int     `json:"kind"` // trace.SpanKind 0..5
	HasStartTS   bool    `json:"has_start_ts,omitempty"`
	StartTS      int64   `json:"start_ts,omitempty"`
	StartAttrs   []vk.KV `json:"start_attrs,omitempty"`
	SamplerAttrs []vk.KV `json:"sampler_attrs,omitempty"`
	StartLinks   []LinkD `json:"start_links,omitempty"`
	Ops          []Op    `json:"ops"`
	// A sibling span of a second TracerProvider with its own limits; it
	// receives the ops marked Share (same slice objects as the primary).
	HasSib bool   `json:"has_sib,omitempty"`
	Sib    Limits `json:"sib"`
}

var limitValues = []int{-1, 0, 0, 1, 1, 2, 2, 3, 3, 5, 5, 128}

var smallKeys = []string{"a", "b", "c", "d", "e", "f", "k.long.key", "Z"}

var largeKeys = func() []string {
	ks := make([]string, 1000)
	for i := range ks {
		ks[i] = fmt.Sprintf("k%03d", i)
	}
	return ks
}()

// pieces that special strings are made of: characters of every encoded
// width, the literal replacement character and invalid bytes.
var pieces = []string{"\uFFFD", "\uFFFD", "\u00e9", "a", "\u4e16", "\U0001F600", "\xff", "\xe2\x82", "\xc3", "\x80"}

var tracestates = []string{"", "", "k=v", "a=1,b=2", "vendor@x=opaque"}

// genSpecial draws a string built to stress the truncation rules: runs of
// one character (notably U+FFFD) and mixtures with invalid bytes, of 1..12
// pieces so that every limit in {0,1,2,3,5} cuts it.
func genSpecial(t *rapid.T) vk.Str {
	n := rapid.IntRange(1, 12).Draw(t, "sn")
	if rapid.Bool().Draw(t, "run") {
		return vk.Str(strings.Repeat(rapid.SampledFrom(pieces).Draw(t, "piece"), n))
	}
	var sb strings.Builder
	for i := 0; i < n; i++ {
		sb.WriteString(rapid.SampledFrom(pieces).Draw(t, "piece"))
	}
	return vk.Str(sb.String())
}

// genKVs wraps vk.GenKVs and swaps some string payloads for special strings.
func genKVs(t *rapid.T, o vk.KVOpts, label string, max int, corners ...int) []vk.KV {
	kvs := vk.GenKVs(o, max, corners...).Draw(t, label)
	for i := range kvs {
		switch kvs[i].T {
		case "str":
			if rapid.IntRange(0, 3).Draw(t, "special") == 0 {
				kvs[i].S = genSpecial(t)
			}
		case "strs":
			for j := range kvs[i].SS {
				if rapid.IntRange(0, 3).Draw(t, "special") == 0 {
					kvs[i].SS[j] = genSpecial(t)
				}
			}
		}
	}
	return kvs
}

func genHex(t *rapid.T, nbytes int, label string) string {
	switch rapid.IntRange(0, 4).Draw(t, label+"kind") {
	case 0: // invalid: all zero
		return strings.Repeat("00", nbytes)
	case 1:
		return strings.Repeat("00", nbytes-1) + "01"
	default:
		b := rapid.SliceOfN(rapid.Byte(), nbytes, nbytes).Draw(t, label)
		return fmt.Sprintf("%x", b)
	}
}

func genLink(t *rapid.T, o vk.KVOpts) LinkD {
	l := LinkD{
		TID:    genHex(t, 16, "tid"),
		SID:    genHex(t, 8, "sid"),
		Flags:  rapid.SampledFrom([]int{0, 1, 1, 3, 255}).Draw(t, "flags"),
		Remote: rapid.Bool().Draw(t, "remote"),
		State:  rapid.SampledFrom(tracestates).Draw(t, "state"),
	}
	if rapid.IntRange(0, 2).Draw(t, "linkattrs") > 0 {
		l.Attrs = genKVs(t, o, "lattrs", 7, 0, 1, 2, 3, 4, 6)
	}
	return l
}

func genTS(t *rapid.T) int64 {
	// around the epoch, around "now" of the pinned era, negative and large.
	switch rapid.IntRange(0, 3).Draw(t, "tskind") {
	case 0:
		return rapid.Int64Range(-5, 5).Draw(t, "ts")
	case 1:
		return rapid.Int64Range(1_700_000_000_000_000_000, 1_800_000_000_000_000_000).Draw(t, "ts")
	case 2:
		return rapid.Int64Range(-1_000_000_000_000, 1_000_000_000_000).Draw(t, "ts")
	default:
		return rapid.SampledFrom([]int64{0, 1, -1, 4_000_000_000_000_000_000, -4_000_000_000_000_000_000}).Draw(t, "ts")
	}
}

func genOp(t *rapid.T, o vk.KVOpts, idx int, heavy bool, allowEnd bool, hasSib bool) Op {
	op := genOp1(t, o, idx, heavy, allowEnd)
	switch op.Op {
	case "attrs", "event", "error":
		if hasSib {
			op.Share = rapid.SampledFrom([]int{0, 0, 1, 1, 2}).Draw(t, "share")
		}
		op.Again = rapid.SampledFrom([]string{"", "", "", "", "", "attrs", "event"}).Draw(t, "again")
	}
	return op
}

func genOp1(t *rapid.T, o vk.KVOpts, idx int, heavy bool, allowEnd bool) Op {
	kinds := []string{"attrs", "attrs", "attrs", "attrs", "attrs", "event", "event", "event", "link", "link", "error", "error", "status", "status", "name"}
	if heavy {
		for i := 0; i < 60; i++ {
			kinds = append(kinds, "attrs")
		}
	}
	if allowEnd {
		kinds = append(kinds, "end", "end", "end")
	}
	op := Op{Op: rapid.SampledFrom(kinds).Draw(t, "op")}
	text := vk.GenText(5, true)
	switch op.Op {
	case "attrs":
		if heavy {
			n := rapid.IntRange(9, 12).Draw(t, "heavylen")
			g := vk.GenKV(o)
			for i := 0; i < n; i++ {
				op.KVs = append(op.KVs, g.Draw(t, "kv"))
			}
		} else {
			op.KVs = genKVs(t, o, "kvs", 12, 0, 1, 1, 2, 3, 5, 12)
		}
	case "event":
		op.Text = vk.Str(fmt.Sprintf("e%d", idx)) + text.Draw(t, "name")
		op.KVs = genKVs(t, o, "kvs", 7, 0, 1, 2, 3, 4, 6)
		if rapid.IntRange(0, 3).Draw(t, "second") == 0 {
			op.HasKV2 = true
			op.KVs2 = genKVs(t, o, "kvs2", 4, 0, 1, 2)
		}
		op.HasTS = rapid.Bool().Draw(t, "hasts")
		if op.HasTS {
			op.TS = genTS(t)
		}
	case "link":
		l := genLink(t, o)
		op.Link = &l
	case "error":
		op.Err = rapid.SampledFrom([]int{0, 1, 1, 2, 3}).Draw(t, "err")
		op.Text = text.Draw(t, "msg")
		op.KVs = genKVs(t, o, "kvs", 6, 0, 0, 1, 2, 3)
		op.Stack = rapid.IntRange(0, 3).Draw(t, "stack") == 0
		op.HasTS = rapid.Bool().Draw(t, "hasts")
		if op.HasTS {
			op.TS = genTS(t)
		}
	case "status":
		op.Code = rapid.IntRange(0, 2).Draw(t, "code")
		op.Text = text.Draw(t, "desc")
	case "name":
		op.Text = text.Draw(t, "name")
	case "end":
		op.HasTS = rapid.Bool().Draw(t, "hasts")
		if op.HasTS {
			op.TS = genTS(t)
		}
	}
	return op
}

func gen(t *rapid.T) Case {
	c := Case{}
	lim := rapid.SampledFrom(limitValues)
	c.Limits = Limits{
		ValueLen: lim.Draw(t, "value_len"),
		Attrs:    lim.Draw(t, "attrs"),
		Events:   lim.Draw(t, "events"),
		Links:    lim.Draw(t, "links"),
		PerEvent: lim.Draw(t, "per_event"),
		PerLink:  lim.Draw(t, "per_link"),
	}
	// Key alphabet: small (many duplicates, reaches the small capacities) or
	// large (reaches 128 distinct keys in attribute-heavy programs).
	o := vk.KVOpts{Keys: smallKeys, EmptyKey: true, Invalid: true, InvalidUTF8: true, NaN: true, MaxSlice: 3, MaxTextParts: 8}
	heavy := false
	switch rapid.IntRange(0, 15).Draw(t, "alphabet") {
	case 0:
		// attribute-heavy program over 1000 keys: reaches the default
		// capacity of 128 and large unlimited maps.
		o.Keys = largeKeys
		heavy = true
		c.Limits.Attrs = rapid.SampledFrom([]int{128, 128, -1, 5}).Draw(t, "heavyattrs")
	case 1, 2:
		o.Keys = largeKeys[:12]
	}
	// Sibling provider: mostly unlimited or larger than the primary's limits.
	if rapid.Bool().Draw(t, "hassib") {
		c.HasSib = true
		c.Sib = Limits{
			ValueLen: rapid.SampledFrom([]int{-1, -1, -1, 128, 5, 3, 1, 0}).Draw(t, "sib_value_len"),
			Attrs:    rapid.SampledFrom([]int{-1, -1, 128, 5, 2, 0}).Draw(t, "sib_attrs"),
			Events:   rapid.SampledFrom([]int{-1, -1, 128, 3, 0}).Draw(t, "sib_events"),
			Links:    -1,
			PerEvent: rapid.SampledFrom([]int{-1, -1, 128, 2}).Draw(t, "sib_per_event"),
			PerLink:  -1,
		}
	}
	c.Name = vk.GenText(4, true).Draw(t, "spanname")
	c.Kind = rapid.IntRange(0, 5).Draw(t, "kind")
	if rapid.IntRange(0, 3).Draw(t, "hasstartts") == 0 {
		c.HasStartTS = true
		c.StartTS = genTS(t)
	}
	if rapid.IntRange(0, 2).Draw(t, "hasstartattrs") == 0 {
		c.StartAttrs = genKVs(t, o, "startattrs", 8, 0, 1, 2, 3, 6)
	}
	if rapid.IntRange(0, 4).Draw(t, "hassamplerattrs") == 0 {
		c.SamplerAttrs = genKVs(t, o, "samplerattrs", 4, 1, 2)
	}
	if rapid.IntRange(0, 3).Draw(t, "hasstartlinks") == 0 {
		n := rapid.IntRange(1, 4).Draw(t, "nstartlinks")
		for i := 0; i < n; i++ {
			c.StartLinks = append(c.StartLinks, genLink(t, o))
		}
	}
	pre := vk.GenLen(34, 0, 1, 2, 3, 5, 8, 12).Draw(t, "pre")
	if heavy {
		pre = rapid.IntRange(18, 34).Draw(t, "heavypre")
	}
	for i := 0; i < pre; i++ {
		c.Ops = append(c.Ops, genOp(t, o, i, heavy, false, c.HasSib))
	}
	// An explicit End (otherwise the runner ends the span after the last
	// call), followed by calls that must change nothing.
	if rapid.IntRange(0, 5).Draw(t, "explicitend") > 0 {
		end := Op{Op: "end", HasTS: rapid.Bool().Draw(t, "endhasts")}
		if end.HasTS {
			end.TS = genTS(t)
		}
		c.Ops = append(c.Ops, end)
		post := rapid.SampledFrom([]int{0, 0, 1, 1, 2, 3, 5}).Draw(t, "post")
		for i := 0; i < post; i++ {
			c.Ops = append(c.Ops, genOp(t, o, pre+1+i, false, true, c.HasSib))
		}
	}
	return c
}
