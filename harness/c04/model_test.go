package c04

import (
	"encoding/hex"
	"fmt"
	"strings"
	"unicode/utf8"

	"go.opentelemetry.io/otel/attribute"
	"go.opentelemetry.io/otel/trace"
	"go.opentelemetry.io/otel/verif/internal/vk"
)

// ---------------------------------------------------------------------
// truncation reference

// cleanUTF8 is s with every byte that is not part of a well-formed UTF-8
// sequence removed.
func cleanUTF8(s string) string { return strings.ToValidUTF8(s, "") }

// refTruncate is the documented behaviour of the value length limit: no
// limit when negative, a string of at most limit bytes is left alone,
// anything longer becomes the first limit characters of the string with its
// invalid bytes discarded.
func refTruncate(limit int, s string) string {
	if limit < 0 || len(s) <= limit {
		return s
	}
	rs := []rune(cleanUTF8(s))
	if len(rs) > limit {
		rs = rs[:limit]
	}
	return string(rs)
}

// ---------------------------------------------------------------------
// span attribute map

type mAttr struct {
	key string
	raw attribute.Value // as passed by the caller (last value)
}

type attrMap struct {
	limit   int
	order   []string
	m       map[string]*mAttr
	dropped int
}

type stats struct {
	refusedFull      int // new key refused because the map was full
	updateWhenFull   int // existing key overwritten while the map was full
	updateExisting   int
	invalidAttr      int // empty key or INVALID value passed to SetAttributes
	attrLimitZero    int
	truncated        int // strings cut by the value length limit
	truncInvalid     int // ... whose input held invalid bytes
	truncFFFD        int // ... whose input held a literal U+FFFD
	invalidWithin    int // invalid string short enough to be left alone
	afterEnd         int
	evictedEvents    int
	evictedLinks     int
	eventCapBites    int
	linkCapBites     int
	errorEvents      int
	nilErrors        int
	linksIgnored     int // invalid context, no attributes, no tracestate
	invalidLinkKept  int
	statusIgnored    int // lower-precedence SetStatus
	statusSameCode   int // same code set again (overrides)
	descOnNonError   int
	secondEnd        int
	panicEvents      int // End ran as the deferred call of a panicking goroutine
	panicEndAfterEnd int // ... on a span that had ended already
	endInClosure     int
	bytesAtLimit     int // a string of exactly limit bytes
	runesAtLimit     int // more than limit bytes but exactly limit valid characters
	truncWide        int // cut by a value length limit >= 31
	bigAttrCall      int // SetAttributes with more than 12 key-values in one call
	stackOff         int // WithStackTrace(false) spelled out
	panicCapBites    int
	panicEvicts      int // the panic event pushed an older event out / was refused by limit 0
	peeks            int // reads of the span in the middle of the program
	peeksLive        int // ... of a live span that holds attributes
	distinctOffered  map[string]struct{}
}

func (a *attrMap) set(kvs []attribute.KeyValue, vlen int, st *stats) {
	for _, kv := range kvs {
		if a.limit == 0 {
			a.dropped++
			st.attrLimitZero++
			continue
		}
		if kv.Key == "" || kv.Value.Type() == attribute.INVALID {
			a.dropped++
			st.invalidAttr++
			continue
		}
		k := string(kv.Key)
		st.distinctOffered[k] = struct{}{}
		if e, ok := a.m[k]; ok {
			e.raw = kv.Value
			st.updateExisting++
			if a.limit > 0 && len(a.order) >= a.limit {
				st.updateWhenFull++
			}
			noteTrunc(kv.Value, vlen, st)
			continue
		}
		if a.limit > 0 && len(a.order) >= a.limit {
			a.dropped++
			st.refusedFull++
			continue
		}
		a.m[k] = &mAttr{key: k, raw: kv.Value}
		a.order = append(a.order, k)
		noteTrunc(kv.Value, vlen, st)
	}
}

func noteTrunc(v attribute.Value, vlen int, st *stats) {
	var ss []string
	switch v.Type() {
	case attribute.STRING:
		ss = []string{v.AsString()}
	case attribute.STRINGSLICE:
		ss = v.AsStringSlice()
	}
	for _, s := range ss {
		if vlen > 0 && len(s) == vlen {
			st.bytesAtLimit++
		}
		if vlen > 0 && len(s) > vlen && utf8.RuneCountInString(cleanUTF8(s)) == vlen {
			st.runesAtLimit++
		}
		if vlen >= 31 && refTruncate(vlen, s) != s {
			st.truncWide++
		}
		if refTruncate(vlen, s) != s {
			st.truncated++
			if !utf8.ValidString(s) {
				st.truncInvalid++
			}
			if strings.ContainsRune(cleanUTF8(s), utf8.RuneError) {
				st.truncFFFD++
			}
		} else if !utf8.ValidString(s) && vlen >= 0 {
			st.invalidWithin++
		}
	}
}

// ---------------------------------------------------------------------
// events and links

type mEvent struct {
	name    string
	hasTS   bool
	ts      int64
	offered []attribute.KeyValue // attributes in the order they were passed
	kept    int                  // how many of them the per-event cap lets through
	dropped int
	// RecordError events: offered holds the caller's attributes only; the
	// SDK adds exception.type, exception.message (and exception.stacktrace).
	isErr  bool
	errMsg string
	errTyp string // substring the exception.type must contain
	stack  bool
	// anyMsg: the value is not a string or an error, the text of
	// exception.message is not modelled.
	anyMsg bool
	// fromPanic: the event End adds when it runs as the deferred call of a
	// panicking goroutine.
	fromPanic bool
}

type mLink struct {
	sc      trace.SpanContext
	offered []attribute.KeyValue
	kept    int
	dropped int
}

func capSplit(limit, n int) (kept, dropped int) {
	switch {
	case limit < 0 || n <= limit:
		return n, 0
	default:
		return limit, n - limit
	}
}

// variant selects one reading where the documentation leaves two open.
type variant struct {
	// startInvalidLinksKept: WithLinks documents "Links with invalid span
	// context are ignored" while AddLink (and the specification) keep an
	// invalid context that carries attributes or tracestate.
	startInvalidLinksKept bool
	// samplerAttrsFirst: sampler-supplied attributes are inserted before
	// (true) or after the WithAttributes start option.
	samplerAttrsFirst bool
}

type model struct {
	lim   Limits
	attrs attrMap

	events        []mEvent
	droppedEvents int
	links         []mLink
	droppedLinks  int

	code int
	desc string
	name string

	ended    bool
	endHasTS bool
	endTS    int64

	st stats
}

func (l LinkD) spanContext() trace.SpanContext {
	var tid trace.TraceID
	var sid trace.SpanID
	b, _ := hex.DecodeString(l.TID)
	copy(tid[:], b)
	b, _ = hex.DecodeString(l.SID)
	copy(sid[:], b)
	ts, err := trace.ParseTraceState(l.State)
	if err != nil {
		panic("harness bug: generated tracestate does not parse: " + err.Error())
	}
	return trace.NewSpanContext(trace.SpanContextConfig{
		TraceID: tid, SpanID: sid, TraceFlags: trace.TraceFlags(l.Flags), TraceState: ts, Remote: l.Remote,
	})
}

func (l LinkD) validContext() bool {
	return strings.Trim(l.TID, "0") != "" && strings.Trim(l.SID, "0") != ""
}

func (m *model) addLink(l LinkD, atStart bool, v variant) {
	if !l.validContext() {
		if len(l.Attrs) == 0 && l.State == "" {
			m.st.linksIgnored++
			return
		}
		if atStart && !v.startInvalidLinksKept {
			return
		}
		m.st.invalidLinkKept++
	}
	ml := mLink{sc: l.spanContext(), offered: vk.ToAttrs(l.Attrs)}
	ml.kept, ml.dropped = capSplit(m.lim.PerLink, len(ml.offered))
	if ml.dropped > 0 {
		m.st.linkCapBites++
	}
	switch {
	case m.lim.Links == 0:
		m.droppedLinks++
		m.st.evictedLinks++
		return
	case m.lim.Links > 0 && len(m.links) >= m.lim.Links:
		m.links = append([]mLink{}, m.links[1:]...)
		m.droppedLinks++
		m.st.evictedLinks++
	}
	m.links = append(m.links, ml)
}

func (m *model) addEvent(e mEvent, total int) {
	e.kept, e.dropped = capSplit(m.lim.PerEvent, total)
	if e.dropped > 0 {
		m.st.eventCapBites++
		if e.fromPanic {
			m.st.panicCapBites++
		}
	}
	switch {
	case m.lim.Events == 0:
		m.droppedEvents++
		m.st.evictedEvents++
		if e.fromPanic {
			m.st.panicEvicts++
		}
		return
	case m.lim.Events > 0 && len(m.events) >= m.lim.Events:
		m.events = append([]mEvent{}, m.events[1:]...)
		m.droppedEvents++
		m.st.evictedEvents++
		if e.fromPanic {
			m.st.panicEvicts++
		}
	}
	m.events = append(m.events, e)
}

func errTypeHint(kind int) string {
	switch kind {
	case 1:
		return "errorString"
	case 2:
		return "valueErr"
	default:
		return "pointerErr"
	}
}

func panicTypeHint(kind int) string {
	switch kind {
	case 0:
		return "string"
	case 1, 2, 3:
		return errTypeHint(kind)
	case 4:
		return "int"
	default:
		return "panicStruct"
	}
}

func (m *model) apply(op Op, v variant) {
	if op.Op == "peek" {
		// a read: no effect, before or after End.
		m.st.peeks++
		if !m.ended && len(m.attrs.order) > 0 {
			m.st.peeksLive++
		}
		return
	}
	if m.ended {
		m.st.afterEnd++
		if op.Op == "end" {
			m.st.secondEnd++
			if op.Panic == 1 {
				m.st.panicEndAfterEnd++
			}
		}
		return
	}
	switch op.Op {
	case "attrs":
		if len(op.KVs) > 12 {
			m.st.bigAttrCall++
		}
		m.attrs.set(vk.ToAttrs(op.KVs), m.lim.ValueLen, &m.st)
	case "event":
		offered := vk.ToAttrs(op.KVs)
		if op.HasKV2 {
			offered = append(offered, vk.ToAttrs(op.KVs2)...)
		}
		m.addEvent(mEvent{name: string(op.Text), hasTS: op.HasTS, ts: op.TS, offered: offered}, len(offered))
	case "link":
		m.addLink(*op.Link, false, v)
	case "error":
		if op.Err == 0 {
			m.st.nilErrors++
			return
		}
		m.st.errorEvents++
		if op.StackOff && !op.Stack {
			m.st.stackOff++
		}
		offered := vk.ToAttrs(op.KVs)
		total := len(offered) + 2
		if op.Stack {
			total++
		}
		m.addEvent(mEvent{name: "exception", hasTS: op.HasTS, ts: op.TS, offered: offered,
			isErr: true, errMsg: string(op.Text), errTyp: errTypeHint(op.Err), stack: op.Stack}, total)
	case "status":
		// Unset(0) < Error(1) < Ok(2): a lower code never replaces a higher one.
		if op.Code < m.code {
			m.st.statusIgnored++
			return
		}
		if op.Code == m.code && op.Code != 0 {
			m.st.statusSameCode++
		}
		m.code = op.Code
		m.desc = ""
		if op.Code == 1 {
			m.desc = string(op.Text)
		} else if op.Text != "" {
			m.st.descOnNonError++
		}
	case "name":
		m.name = string(op.Text)
	case "end":
		if op.Panic == 1 {
			// "If this method is called while panicking an error event is added
			// to the Span before ending it": an event like any other, subject to
			// the event FIFO and the per-event attribute cap, made of
			// exception.type, exception.message and, with WithStackTrace(true),
			// exception.stacktrace.
			m.st.panicEvents++
			total := 2
			if op.Stack {
				total++
			}
			m.addEvent(mEvent{name: "exception", isErr: true, fromPanic: true,
				errMsg: string(op.Text), errTyp: panicTypeHint(op.PanicVal), anyMsg: op.PanicVal >= 4, stack: op.Stack}, total)
		}
		if op.Panic == 2 {
			m.st.endInClosure++
		}
		if op.StackOff && !op.Stack {
			m.st.stackOff++
		}
		m.ended, m.endHasTS, m.endTS = true, op.HasTS, op.TS
	default:
		panic("harness bug: unknown op " + op.Op)
	}
}

func newModel(c Case, v variant) *model {
	m := &model{lim: c.Limits, name: string(c.Name)}
	m.attrs = attrMap{limit: c.Limits.Attrs, m: map[string]*mAttr{}}
	m.st.distinctOffered = map[string]struct{}{}
	for _, l := range c.StartLinks {
		m.addLink(l, true, v)
	}
	first, second := c.SamplerAttrs, c.StartAttrs
	if !v.samplerAttrsFirst {
		first, second = second, first
	}
	m.attrs.set(vk.ToAttrs(first), c.Limits.ValueLen, &m.st)
	m.attrs.set(vk.ToAttrs(second), c.Limits.ValueLen, &m.st)
	for _, rop := range c.Ops {
		for _, op := range expand(rop) {
			m.apply(op, v)
			if again, ok := againOp(op); ok {
				m.apply(again, v)
			}
		}
	}
	if !m.ended {
		// the runner ends the span after the last call.
		m.ended = true
	}
	return m
}

// variants lists the readings that are relevant for the case, the one the
// pinned tree follows first.
func variants(c Case) []variant {
	links := []bool{true}
	for _, l := range c.StartLinks {
		if !l.validContext() && (len(l.Attrs) > 0 || l.State != "") {
			links = []bool{true, false}
		}
	}
	sampler := []bool{true}
	if len(c.SamplerAttrs) > 0 && len(c.StartAttrs) > 0 {
		sampler = []bool{true, false}
	}
	var out []variant
	for _, l := range links {
		for _, s := range sampler {
			out = append(out, variant{startInvalidLinksKept: l, samplerAttrsFirst: s})
		}
	}
	return out
}

// expand spells a burst out: the calls the caller makes for one op of the
// case. Repetition j > 0 of an event / error carries "#j" in its name /
// message so that the position of every call in the FIFO stays observable.
func expand(op Op) []Op {
	if op.Rep <= 0 {
		return []Op{op}
	}
	out := make([]Op, 0, op.Rep+1)
	for j := 0; j <= op.Rep; j++ {
		e := op
		e.Rep = 0
		if j > 0 && (op.Op == "event" || op.Op == "error") {
			e.Text = op.Text + vk.Str(fmt.Sprintf("#%d", j))
		}
		out = append(out, e)
	}
	return out
}

// lentOp: the op passes the caller's KVs slice to the library.
func lentOp(op Op) bool { return op.Op == "attrs" || op.Op == "event" || op.Op == "error" }

// sharedOp: the op's argument (attribute slice / Link value) can be given to
// the sibling span as well.
func sharedOp(op Op) bool { return lentOp(op) || op.Op == "link" }

// againOp is the second call the primary span receives with the same slice
// object: as far as the model is concerned just another call with the case's
// original key-values.
func againOp(op Op) (Op, bool) {
	if op.Op == "link" {
		// the Link value / its Attributes slice used once more
		switch op.Again {
		case "attrs":
			return Op{Op: "attrs", KVs: op.Link.Attrs}, true
		case "event":
			return Op{Op: "event", Text: "again", KVs: op.Link.Attrs}, true
		case "link":
			return Op{Op: "link", Link: op.Link}, true
		}
		return Op{}, false
	}
	if !lentOp(op) {
		return Op{}, false
	}
	switch op.Again {
	case "attrs":
		return Op{Op: "attrs", KVs: op.KVs}, true
	case "event":
		return Op{Op: "event", Text: "again", KVs: op.KVs}, true
	}
	return Op{}, false
}

// sibOp is the sibling span's corresponding call: the same call with only the
// shared slice.
func sibOp(op Op) Op {
	op.HasKV2, op.KVs2, op.Share, op.Again = false, nil, 0, ""
	return op
}

// sibCase is what the sibling span was asked to do: a fresh span under the
// sibling limits that receives, in program order, every shared op (also the
// ones the primary span ignores because it has ended) and is ended by the
// runner.
func sibCase(c Case) Case {
	s := Case{Limits: c.Sib, Name: "sibling", Kind: 1}
	if c.StartLinksShared {
		for i := range c.StartLinks {
			s.Ops = append(s.Ops, Op{Op: "link", Link: &c.StartLinks[i]})
		}
	}
	for _, op := range c.Ops {
		if sharedOp(op) && op.Share != 0 {
			s.Ops = append(s.Ops, sibOp(op))
		}
	}
	return s
}
