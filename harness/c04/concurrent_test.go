package c04

import (
	"fmt"
	"runtime"
	"sync"
	"testing"

	"go.opentelemetry.io/otel/verif/internal/vk"
	"pgregory.net/rapid"
)

// concurrent_twins: the statement is about every span and the calls applied
// to it; it does not say "as long as no other span is being worked on in the
// process". Here 2..8 goroutines ("twins") each run the ORDINARY SEQUENTIAL
// model check (runCase: own TracerProvider, own recording processor, own span,
// own program, own model; every span is used by one goroutine only), released
// together, a few rounds each. The oracle stays the sequential model per
// goroutine and is therefore independent of the schedule: whatever the
// interleaving, the span of twin i exports what twin i's calls predict.
// Cross-talk through anything the SDK keeps at package level (pools, caches)
// shows as an ordinary model violation (or a panic) in one of the twins.
//
// Every twin's program is first run once on its own (kinds "sequential/..."):
// a violation there is not a concurrency matter and the concurrent phase is
// skipped. Violations of the concurrent phase have kinds "concurrent/...".
//
// Schedule dimensions (part of the case): the number of twins, GOMAXPROCS
// during the case (unchanged, 1, 2: several twins per processor) and a helper
// goroutine forcing garbage collections meanwhile (a collection stops and
// re-queues every goroutine wherever it is, also in the middle of a library
// call). None of them can make a correct library fail.

// Twin is the program of one goroutine.
type Twin struct {
	Rounds int  `json:"rounds"`
	C      Case `json:"c"`
}

// TwinsCase is one concurrent program.
type TwinsCase struct {
	Twins []Twin `json:"twins"`
	Procs int    `json:"procs"` // GOMAXPROCS during the case; 0 = unchanged
	GC    bool   `json:"gc"`
}

// literalLimits rewrites the case so that the limits in force are handed over
// as a WithRawSpanLimits literal: twins must not touch the process environment.
func literalLimits(c Case) Case {
	c.Limits = eff(c).Limits
	c.Cfg = LimitsCfg{}
	return c
}

// genPressure draws a program that lives at the attribute capacity: a small or
// default-sized positive attribute limit, a key alphabet around it, and mostly
// SetAttributes calls of 1..300 key-values (updates of kept keys, new keys
// refused, duplicates inside one call), mixed with reads, events and links.
func genPressure(t *rapid.T) Case {
	c := Case{}
	limit := rapid.SampledFrom([]int{1, 2, 3, 5, 8, 16, 32, 128, 128}).Draw(t, "plimit")
	c.Limits = Limits{
		ValueLen: rapid.SampledFrom([]int{-1, -1, 3, 128}).Draw(t, "pvaluelen"),
		Attrs:    limit,
		Events:   genLimit(t, "events"),
		Links:    genLimit(t, "links"),
		PerEvent: genLimit(t, "per_event"),
		PerLink:  genLimit(t, "per_link"),
	}
	nkeys := min(1000, max(2, limit+rapid.SampledFrom([]int{-1, 0, 1, 3, limit, 4 * limit, 1000}).Draw(t, "pkeys")))
	o := genOpts{KVOpts: vk.KVOpts{Keys: largeKeys[:nkeys], EmptyKey: true, Invalid: true, InvalidUTF8: true, NaN: true, MaxSlice: 3, MaxTextParts: 4}}
	o.vlens = finiteVlens(c.Limits.ValueLen)
	c.Name = "pressure"
	c.Kind = rapid.IntRange(0, 5).Draw(t, "kind")
	g := vk.GenKV(o.KVOpts)
	n := rapid.IntRange(4, 40).Draw(t, "pops")
	for i := 0; i < n; i++ {
		switch rapid.IntRange(0, 9).Draw(t, "pop") {
		case 0:
			c.Ops = append(c.Ops, Op{Op: "peek"})
		case 1:
			c.Ops = append(c.Ops, genOp(t, o, i, false, false, false))
		default:
			cnt := rapid.IntRange(1, 12).Draw(t, "pcnt")
			if rapid.IntRange(0, 2).Draw(t, "pwide") == 0 {
				cnt = rapid.SampledFrom(wideCounts).Draw(t, "pwidecnt")
			}
			op := Op{Op: "attrs"}
			for j := 0; j < cnt; j++ {
				op.KVs = append(op.KVs, g.Draw(t, "kv"))
			}
			c.Ops = append(c.Ops, op)
		}
	}
	if rapid.Bool().Draw(t, "pend") {
		c.Ops = append(c.Ops, genEnd(t))
	}
	return c
}

func genTwins(t *rapid.T) TwinsCase {
	c := TwinsCase{}
	n := rapid.SampledFrom([]int{2, 2, 3, 4, 4, 6, 8, 8}).Draw(t, "ntwins")
	c.Procs = rapid.SampledFrom([]int{0, 0, 1, 1, 2, 2}).Draw(t, "procs")
	c.GC = rapid.IntRange(0, 3).Draw(t, "gc") != 0
	// the twins usually run the same sort of program (that is when they meet in
	// the same code), sometimes each its own
	common := rapid.SampledFrom([]string{"", "pressure", "pressure", "any"}).Draw(t, "common")
	for i := 0; i < n; i++ {
		sort := common
		if sort == "" {
			sort = rapid.SampledFrom([]string{"pressure", "any"}).Draw(t, "sort")
		}
		tw := Twin{}
		if sort == "pressure" {
			tw.C = genPressure(t)
			tw.Rounds = 1 << rapid.IntRange(0, 5).Draw(t, "roundbits")
		} else {
			tw.C = literalLimits(gen(t))
			tw.Rounds = rapid.IntRange(1, 4).Draw(t, "rounds")
		}
		c.Twins = append(c.Twins, tw)
	}
	return c
}

func twinBody(c Case) func(rounds int) []vk.Violation {
	return func(rounds int) []vk.Violation {
		for r := 0; r < rounds; r++ {
			if vs, _ := runCase(c, false); len(vs) > 0 {
				for i := range vs {
					vs[i].Msg = fmt.Sprintf("round %d: %s", r, vs[i].Msg)
				}
				return vs
			}
		}
		return nil
	}
}

func runTwins(c TwinsCase) ([]vk.Violation, vk.Info) {
	var out []vk.Violation
	var info vk.Info
	bodies := make([]func(int) []vk.Violation, len(c.Twins))
	for i, tw := range c.Twins {
		bodies[i] = twinBody(tw.C)
	}
	// each twin alone first
	for i := range c.Twins {
		for _, v := range bodies[i](1) {
			out = append(out, vk.V("sequential/"+v.Kind, "twin %d of %d running alone: %s", i, len(c.Twins), v.Msg))
		}
	}
	if len(out) > 0 {
		return out, info
	}

	if c.Procs > 0 {
		prev := runtime.GOMAXPROCS(c.Procs)
		defer runtime.GOMAXPROCS(prev)
	}
	results := make([][]vk.Violation, len(c.Twins))
	panics := make([]any, len(c.Twins))
	start := make(chan struct{})
	stop := make(chan struct{})
	var wg, gcwg sync.WaitGroup
	for i := range c.Twins {
		wg.Add(1)
		go func(i int) {
			defer wg.Done()
			defer func() {
				if p := recover(); p != nil {
					panics[i] = p
				}
			}()
			<-start
			results[i] = bodies[i](c.Twins[i].Rounds)
		}(i)
	}
	if c.GC {
		gcwg.Add(1)
		go func() {
			defer gcwg.Done()
			<-start
			for {
				select {
				case <-stop:
					return
				default:
					runtime.GC()
				}
			}
		}()
	}
	close(start)
	wg.Wait()
	close(stop)
	gcwg.Wait()

	for i := range c.Twins {
		if panics[i] != nil {
			out = append(out, vk.V("concurrent/panic", "twin %d of %d, %d others working on their own spans of their own providers at the same time (alone the same program held): panic: %v", i, len(c.Twins), len(c.Twins)-1, panics[i]))
		}
		for _, v := range results[i] {
			if len(out) < 12 {
				out = append(out, vk.V("concurrent/"+v.Kind, "twin %d of %d, %d others working on their own spans of their own providers at the same time (alone the same program held): %s", i, len(c.Twins), len(c.Twins)-1, v.Msg))
			}
		}
	}

	full, work := 0, 0
	for _, tw := range c.Twins {
		m := newModel(eff(tw.C), variants(eff(tw.C))[0])
		if m.st.refusedFull > 0 || m.st.updateWhenFull > 0 {
			full++
		}
		work += tw.Rounds
	}
	info.NonTrivial = true
	info.Class(fmt.Sprintf("twins=%d", len(c.Twins)))
	info.Class(fmt.Sprintf("gomaxprocs=%d", c.Procs))
	info.ClassIf(c.GC, "forced_collections_meanwhile")
	info.ClassIf(full >= 2, "two_or_more_twins_over_attribute_capacity")
	info.ClassIf(full == len(c.Twins), "all_twins_over_attribute_capacity")
	info.ClassIf(work >= 64, "rounds_total>=64")
	return out, info
}

func TestConcurrentTwins(t *testing.T) {
	vk.Run(t, vk.Spec[TwinsCase]{
		Property: "C04", Check: "concurrent_twins",
		Rule: "2..8 goroutines, each with its own span_model case (own provider with literal limits, own processor, span, program and model), each running the sequential model check on it 1..32 times (programs living at a positive attribute capacity: mostly SetAttributes calls of 1..300 key-values over an alphabet around the limit, with reads, events, links) or 1..4 times (any span_model program) - first alone, then released together; GOMAXPROCS unchanged / 1 / 2 and forced garbage collections meanwhile are part of the case; the oracle is the sequential model per goroutine (schedule independent); " +
			"non-trivial = every case (at least two goroutines ran together); distinct = distinct case encodings",
		Quick: 400, Thorough: 6000,
		Repeat: 20,
		Gen:    genTwins, Run: runTwins,
	})
}
