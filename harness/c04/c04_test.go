// Package c04 decides property C04 (the exported span equals a reference
// model of the operations applied to it): a generated program of span API
// calls under generated span limits is applied to a real span of a
// TracerProvider (recording SpanProcessor; the limits configured through a
// generated public way: WithRawSpanLimits, the deprecated WithSpanLimits,
// NewSpanLimits + environment variables, provider defaults, see
// limits_test.go) and the ReadOnlySpan handed to OnEnd is compared with an
// ordered-map / bounded-FIFO model that never looks at the implementation.
//
// Readings of the statement chosen where it (or the documentation) is open:
//
//   - Attribute order is not compared (ReadOnlySpan.Attributes documents no
//     stable order); "earliest keys kept" is asserted as the *set* of
//     surviving keys.
//   - "cut to at most that many characters": the reference is the doc comment
//     of the SDK's truncate: a string of at most limit BYTES is left alone
//     (invalid bytes included), anything longer becomes exactly the first
//     limit characters of the input with invalid bytes discarded. A result
//     that is a shorter valid prefix is reported as well (kind
//     string_cut_short) since the doc promises "the limit number of valid
//     characters".
//   - The value length limit is asserted for span attributes only. Event and
//     link attribute values may be either untouched or cut by the same rule.
//   - Event and link attributes are the caller's list, in order, duplicates
//     and invalid key-values included (WithAttributes documents "no guarantee
//     of uniqueness"); the per-item cap keeps the first N of that list.
//   - RecordError: the statement does not fix where exception.type /
//     exception.message / exception.stacktrace stand relative to the caller's
//     attributes, so under a biting per-event cap only counts are exact, the
//     caller's surviving attributes must be a prefix of the caller's list and
//     the synthesized ones must be a subset, each at most once. The value of
//     exception.type is only required to be a string naming the error type.
//   - An End call includes the way instrumented code reaches it when the work
//     between Start and End panics: `defer span.End(opts...)` running while the
//     goroutine panics. End documents "If this method is called while
//     panicking an error event is added to the Span before ending it and the
//     panic is continued". That event is "an event" in the sense of the
//     statement: it goes through the event FIFO (limit 0 counts it as
//     dropped, a full queue evicts the oldest) and the per-event attribute
//     cap with its dropped count (2 attributes, 3 with WithStackTrace(true)).
//     As for RecordError only counts, "each exception.* at most once",
//     "exception.stacktrace only when asked for" and, for string / error
//     panic values, the exception.message text are asserted; which of the
//     synthesized attributes survive a biting cap is not. Whether the panic
//     is continued is not part of the property (not asserted). End called
//     from inside a deferred CLOSURE of a panicking goroutine cannot see the
//     panic (language rule for recover) and is modelled as an ordinary End.
//     End on a span that has already ended changes nothing, panicking or not.
//   - "any span limits": every negative value means unlimited (SpanLimits
//     doc), not just -1; positive limits are drawn up to MaxInt64. The limits
//     are "any" also in the way they are set: the model derives the limits in
//     force from the documentation of the way the case configures them
//     (WithRawSpanLimits as-is; WithSpanLimits: zero / negative fields become
//     the documented defaults, unlimited value length and 128; no option:
//     NewSpanLimits, i.e. the documented environment variables or the
//     defaults; NewSpanLimits() + overwritten fields through either option; a
//     later span limits option overrides an earlier one; an environment
//     value that is not an integer counts as unset; the general
//     OTEL_ATTRIBUTE_* variables stand in for unset span-specific ones).
//   - Reading the span (the ReadWriteSpan of OnStart: Attributes, Events,
//     Links, dropped counts ...) between two calls is not a call of the
//     statement and changes nothing; what such a read returns is not asserted.
//     The sampler's decision (RecordAndSample / RecordOnly) and what the
//     context passed to Start holds (no parent, local / remote parent,
//     WithNewRoot) are generated and must not matter.
//   - SetStatus with the code already set replaces the description (API doc:
//     "provided the status hasn't already been set to a higher value").
//   - WithLinks documents that links with an invalid span context are
//     ignored, AddLink keeps them when they carry attributes or tracestate:
//     for links passed at start either outcome is accepted. An invalid link
//     with neither is ignored everywhere.
//   - Sampler attributes and WithAttributes at start: either insertion order
//     is accepted.
//   - "calls made after End change nothing" is observed twice: on the
//     exported snapshot (read after the last call) and on the span object
//     itself through the ReadWriteSpan handed to OnStart (kinds live_*).
//   - Timestamps are compared only when the caller supplied them.
//   - "the operations applied to it" are the calls as the caller made them,
//     with the key-values the caller built. The caller owns its argument
//     slices: it may pass the same slice object to a second call on the same
//     span and to the span of another TracerProvider (the sibling, with its
//     own generated limits), and it overwrites the slice afterwards. Every
//     call is modelled with the case's ORIGINAL key-values, the sibling under
//     the sibling's limits (kinds sib_*). Whether a lent slice still holds
//     what the caller put there when the call returns is only OBSERVED (not
//     asserted): the statement is about the exported
//     span, and a library that altered the caller's memory is caught through
//     the sibling / the second call whenever that matters for an exported span.
//     Link.Attributes slices are never WRITTEN to by the caller (AddLink keeps
//     the caller's slice on the pinned tree and the statement does not cover
//     that), but the caller does use a Link value again: the same Link (same
//     Attributes slice object) is added to the sibling span before / after the
//     primary call or to the primary span twice, its Attributes slice is passed
//     to SetAttributes / AddEvent afterwards, and the Link values given to
//     WithLinks are added to the sibling span with AddLink. Each of these calls
//     is modelled with the key-values the caller built.
//   - The statement is not restricted to a process in which one span is worked
//     on at a time: concurrent_test.go runs the same sequential model check in
//     several goroutines, each on its own provider, span and program.
package c04

import (
	"context"
	"errors"
	"fmt"
	"strings"
	"sync"
	"testing"
	"time"
	"unicode/utf8"

	"go.opentelemetry.io/otel/attribute"
	"go.opentelemetry.io/otel/codes"
	sdktrace "go.opentelemetry.io/otel/sdk/trace"
	"go.opentelemetry.io/otel/trace"
	"go.opentelemetry.io/otel/verif/internal/vk"
)

// ---------------------------------------------------------------------
// driving the real span

type recorder struct {
	mu      sync.Mutex
	started []sdktrace.ReadWriteSpan
	ended   []sdktrace.ReadOnlySpan
}

func (r *recorder) OnStart(_ context.Context, s sdktrace.ReadWriteSpan) {
	r.mu.Lock()
	r.started = append(r.started, s)
	r.mu.Unlock()
}

func (r *recorder) OnEnd(s sdktrace.ReadOnlySpan) {
	r.mu.Lock()
	r.ended = append(r.ended, s)
	r.mu.Unlock()
}
func (*recorder) Shutdown(context.Context) error   { return nil }
func (*recorder) ForceFlush(context.Context) error { return nil }

// attrSampler samples everything and hands attributes to the new span.
type attrSampler struct {
	attrs      []attribute.KeyValue
	recordOnly bool
}

func (s attrSampler) ShouldSample(p sdktrace.SamplingParameters) sdktrace.SamplingResult {
	d := sdktrace.RecordAndSample
	if s.recordOnly {
		d = sdktrace.RecordOnly
	}
	return sdktrace.SamplingResult{
		Decision:   d,
		Attributes: s.attrs,
		Tracestate: trace.SpanContextFromContext(p.ParentContext).TraceState(),
	}
}
func (attrSampler) Description() string { return "c04" }

type valueErr struct{ msg string }

func (e valueErr) Error() string { return e.msg }

type pointerErr struct{ msg string }

func (e *pointerErr) Error() string { return e.msg }

func mkErr(kind int, msg string) error {
	switch kind {
	case 0:
		return nil
	case 1:
		return errors.New(msg)
	case 2:
		return valueErr{msg}
	default:
		return &pointerErr{msg}
	}
}

func ts(n int64) time.Time { return time.Unix(0, n) }

// parentContext is the context handed to Start (Case.Parent).
func parentContext(kind int) context.Context {
	ctx := context.Background()
	if kind == 0 {
		return ctx
	}
	cfg := trace.SpanContextConfig{
		TraceID:    trace.TraceID{0xc0, 4, 0, 0, 0, 0, 0, 0, 0, 0, 0, 0, 0, 0, 0, 1},
		SpanID:     trace.SpanID{0xc0, 4, 0, 0, 0, 0, 0, 2},
		TraceFlags: trace.FlagsSampled,
	}
	switch kind {
	case 2:
		cfg.Remote = true
	case 3:
		cfg.Remote = true
		cfg.TraceFlags = 0
		cfg.TraceState, _ = trace.ParseTraceState("vendor=parent")
	}
	sc := trace.NewSpanContext(cfg)
	if cfg.Remote {
		return trace.ContextWithRemoteSpanContext(ctx, sc)
	}
	return trace.ContextWithSpanContext(ctx, sc)
}

// panicStruct is a panic value that is neither a string nor an error.
type panicStruct struct{ Msg string }

func panicValue(kind int, msg string) any {
	switch kind {
	case 0:
		return msg
	case 1, 2, 3:
		return mkErr(kind, msg)
	case 4:
		return len(msg)
	default:
		return panicStruct{msg}
	}
}

// endDeferred ends the span the way instrumented code does when the work
// between Start and End panics: End is the deferred call itself and runs
// while the goroutine is panicking with val. End is documented to add an
// error event to the span and to let the panic continue; the runner stops the
// panic here (whether it was continued is not part of the property).
func endDeferred(span trace.Span, opts []trace.SpanEndOption, val any) (continued any) {
	defer func() { continued = recover() }()
	defer span.End(opts...)
	panic(val)
}

// endInDeferredClosure calls End from inside a deferred closure of a
// panicking goroutine: End is then not the deferred function, the language
// gives it no way to see the panic (recover returns nil there) and it is an
// ordinary End.
func endInDeferredClosure(span trace.Span, opts []trace.SpanEndOption, val any) (continued any) {
	defer func() { continued = recover() }()
	defer func() { span.End(opts...) }()
	panic(val)
}

func (l LinkD) link() trace.Link {
	out := trace.Link{SpanContext: l.spanContext()}
	if len(l.Attrs) > 0 {
		out.Attributes = vk.ToAttrs(l.Attrs)
	}
	return out
}

// lend hands the SDK a caller-owned argument slice the way a hostile (or just
// economical) caller would: the slice has spare capacity, the caller may use
// the very same slice object for further calls (on the same span or on the
// span of another provider), and once the op is over the caller scribbles over
// the WHOLE backing array. What each span recorded must be what the caller
// built and passed at call time: an SDK that keeps an alias of the argument
// instead of its own copy shows the scribble, an SDK that writes into the
// argument shows in whatever the caller uses the slice for next.
type loan struct {
	buf  []attribute.KeyValue
	orig []attribute.KeyValue // what the caller built (never handed out)
	// readOnly: the caller does not scribble over this one
	readOnly bool
}

type lender struct{ loans []loan }

// keep builds a caller-owned slice that the caller re-uses but never writes to
// (Link.Attributes): tracked for the caller_slice_modified observation only.
func (l *lender) keep(kvs []vk.KV) []attribute.KeyValue {
	if len(kvs) == 0 {
		return nil
	}
	buf := vk.ToAttrs(kvs)
	l.loans = append(l.loans, loan{buf: buf, orig: vk.ToAttrs(kvs), readOnly: true})
	return buf
}

func (l *lender) lend(kvs []vk.KV) []attribute.KeyValue {
	a := vk.ToAttrs(kvs)
	buf := make([]attribute.KeyValue, len(a), len(a)+4)
	copy(buf, a)
	l.loans = append(l.loans, loan{buf: buf, orig: vk.ToAttrs(kvs)})
	return buf
}

// altered reports the first element of a lent slice that no longer holds what
// the caller put there.
func (l *lender) altered() string {
	for _, ln := range l.loans {
		for i := range ln.orig {
			if ln.buf[i] == ln.orig[i] {
				continue // identical representation (the slow comparison below treats NaN as equal to itself)
			}
			if ln.buf[i].Key != ln.orig[i].Key || vk.ValueKey(ln.buf[i].Value) != vk.ValueKey(ln.orig[i].Value) {
				return fmt.Sprintf("element %d: caller built %q=%s, slice now holds %q=%s", i,
					string(ln.orig[i].Key), vk.ValueKey(ln.orig[i].Value), string(ln.buf[i].Key), vk.ValueKey(ln.buf[i].Value))
			}
		}
	}
	return ""
}

func (l *lender) scribble() {
	for _, ln := range l.loans {
		if ln.readOnly {
			continue
		}
		b := ln.buf[:cap(ln.buf)]
		for i := range b {
			b[i] = attribute.String("scribbled.by.caller", "after the call returned")
		}
	}
	l.loans = nil
}

// prog is the running program: the primary span, the optional sibling span of
// a second provider and what the runner itself observed.
type prog struct {
	span trace.Span
	// the same span as the SDK handed it to SpanProcessor.OnStart (peek ops)
	rw  sdktrace.ReadWriteSpan
	sib trace.Span // nil without sibling
	vs  []vk.Violation
	// a lent slice did not hold the caller's values when a call returned
	// (recorded as a class, not asserted)
	callerSliceModified bool
}

// callOp makes the API call of op on span with the caller's slice s (and s2
// for the second WithAttributes option of an event).
func callOp(span trace.Span, op Op, s, s2 []attribute.KeyValue) {
	switch op.Op {
	case "attrs":
		span.SetAttributes(s...)
	case "event":
		opts := []trace.EventOption{trace.WithAttributes(s...)}
		if op.HasKV2 {
			opts = append(opts, trace.WithAttributes(s2...))
		}
		if op.HasTS {
			opts = append(opts, trace.WithTimestamp(ts(op.TS)))
		}
		span.AddEvent(string(op.Text), opts...)
	case "link":
		// s is the Attributes slice of the caller's Link value (nil when the
		// link carries no attributes). The caller never writes to it (AddLink
		// keeps the caller's slice on the pinned tree; whether it may is not
		// part of the statement) but it does USE the Link value again.
		span.AddLink(trace.Link{SpanContext: op.Link.spanContext(), Attributes: s})
	case "error":
		var opts []trace.EventOption
		if len(s) > 0 {
			opts = append(opts, trace.WithAttributes(s...))
		}
		if op.Stack {
			opts = append(opts, trace.WithStackTrace(true))
		} else if op.StackOff {
			opts = append(opts, trace.WithStackTrace(false))
		}
		if op.HasTS {
			opts = append(opts, trace.WithTimestamp(ts(op.TS)))
		}
		span.RecordError(mkErr(op.Err, string(op.Text)), opts...)
	case "status":
		span.SetStatus(codes.Code(op.Code), string(op.Text))
	case "name":
		span.SetName(string(op.Text))
	case "end":
		var opts []trace.SpanEndOption
		if op.HasTS {
			opts = append(opts, trace.WithTimestamp(ts(op.TS)))
		}
		if op.Stack {
			opts = append(opts, trace.WithStackTrace(true))
		} else if op.StackOff {
			opts = append(opts, trace.WithStackTrace(false))
		}
		switch op.Panic {
		case 0:
			span.End(opts...)
		case 1:
			endDeferred(span, opts, panicValue(op.PanicVal, string(op.Text)))
		default:
			endInDeferredClosure(span, opts, panicValue(op.PanicVal, string(op.Text)))
		}
	default:
		panic("harness bug: unknown op " + op.Op)
	}
}

// peek reads everything a ReadWriteSpan offers about the state the statement
// covers. What the reads return is not asserted.
func peek(rw sdktrace.ReadWriteSpan) {
	if rw == nil {
		return
	}
	_ = rw.Attributes()
	_ = rw.Events()
	_ = rw.Links()
	_, _, _ = rw.DroppedAttributes(), rw.DroppedEvents(), rw.DroppedLinks()
	_, _, _ = rw.Name(), rw.Status(), rw.EndTime()
}

func (p *prog) applyOp(idx int, op Op) {
	if op.Op == "peek" {
		peek(p.rw)
		return
	}
	var l lender
	defer l.scribble()
	var s, s2 []attribute.KeyValue
	if lentOp(op) {
		s = l.lend(op.KVs)
		if op.Op == "event" && op.HasKV2 {
			s2 = l.lend(op.KVs2)
		}
	}
	// The library must not write into the caller's slice: checked when each
	// call that received it has returned.
	reported := false
	check := func(call string) {
		if d := l.altered(); d != "" && !reported {
			reported = true
			_ = call
			p.callerSliceModified = true
		}
	}
	if op.Op == "link" {
		s = l.keep(op.Link.Attrs)
	}
	share := 0
	if p.sib != nil && sharedOp(op) {
		share = op.Share
	}
	if share == 2 {
		callOp(p.sib, sibOp(op), s, nil)
		check("the sibling span's call (made first)")
	}
	callOp(p.span, op, s, s2)
	check("the call")
	if share == 1 {
		callOp(p.sib, sibOp(op), s, nil)
		check("the sibling span's call (made second)")
	}
	if again, ok := againOp(op); ok {
		callOp(p.span, again, s, nil)
		check("the second call on the same span")
	}
}

// ---------------------------------------------------------------------
// comparison

// truncObs is attached to every string_* violation.
type truncObs struct {
	Limit int    `json:"limit"`
	In    vk.Str `json:"in"`
	Got   vk.Str `json:"got"`
	Want  vk.Str `json:"want"`
}

type cmp struct {
	prefix string
	vs     []vk.Violation
}

func (c *cmp) bad(kind, format string, a ...any) {
	c.vs = append(c.vs, vk.V(c.prefix+kind, format, a...))
}

// checkString evaluates the value-length clauses for one exported string.
func (c *cmp) checkString(where string, limit int, in, got string) {
	want := refTruncate(limit, in)
	obs := truncObs{Limit: limit, In: vk.Str(in), Got: vk.Str(got), Want: vk.Str(want)}
	add := func(kind, msg string) {
		v := vk.V(c.prefix+kind, "%s: %s (limit %d, input %q, exported %q, reference %q)", where, msg, limit, in, got, want)
		v.Observed = obs
		c.vs = append(c.vs, v)
	}
	if limit < 0 || len(in) <= limit {
		if got != in {
			add("string_changed_within_limit", "a string within the limit was altered")
		}
		return
	}
	ok := true
	if !utf8.ValidString(got) {
		add("string_invalid_bytes_kept", "a string over the limit keeps invalid bytes / a split character")
		ok = false
	}
	if utf8.RuneCountInString(got) > limit {
		add("string_over_length", "more characters than the limit")
		ok = false
	}
	if ok && !strings.HasPrefix(cleanUTF8(in), got) {
		add("string_not_prefix", "not a prefix of the input's valid characters")
		ok = false
	}
	if ok && got != want {
		add("string_cut_short", "fewer characters than the limit allows and the input holds")
	}
}

// checkSpanValue compares one span attribute value with the model's raw value
// under the value length limit.
func (c *cmp) checkSpanValue(key string, limit int, raw, got attribute.Value) {
	if raw.Type() != got.Type() {
		c.bad("attr_value", "key %q: exported %s, model (last value set) %s", key, vk.ValueKey(got), vk.ValueKey(raw))
		return
	}
	switch raw.Type() {
	case attribute.STRING:
		c.checkString(fmt.Sprintf("attribute %q", key), limit, raw.AsString(), got.AsString())
	case attribute.STRINGSLICE:
		r, g := raw.AsStringSlice(), got.AsStringSlice()
		if len(r) != len(g) {
			c.bad("attr_value", "key %q: exported slice of %d strings, model %d", key, len(g), len(r))
			return
		}
		for i := range r {
			c.checkString(fmt.Sprintf("attribute %q[%d]", key, i), limit, r[i], g[i])
		}
	default:
		if vk.ValueKey(raw) != vk.ValueKey(got) {
			c.bad("attr_value", "key %q: exported %s, model (last value set) %s", key, vk.ValueKey(got), vk.ValueKey(raw))
		}
	}
}

// itemValueOK: event / link attribute values are the caller's, optionally cut
// by the value length rule.
func itemValueOK(limit int, raw, got attribute.Value) bool {
	if raw.Type() != got.Type() {
		return false
	}
	switch raw.Type() {
	case attribute.STRING:
		return got.AsString() == raw.AsString() || got.AsString() == refTruncate(limit, raw.AsString())
	case attribute.STRINGSLICE:
		r, g := raw.AsStringSlice(), got.AsStringSlice()
		if len(r) != len(g) {
			return false
		}
		for i := range r {
			if g[i] != r[i] && g[i] != refTruncate(limit, r[i]) {
				return false
			}
		}
		return true
	}
	return vk.ValueKey(raw) == vk.ValueKey(got)
}

func render(kvs []attribute.KeyValue) string {
	parts := make([]string, len(kvs))
	for i, kv := range kvs {
		parts[i] = fmt.Sprintf("%q=%s", string(kv.Key), vk.ValueKey(kv.Value))
	}
	return "[" + strings.Join(parts, " ") + "]"
}

// listPrefixOK: got equals the first len(got) entries of offered.
func listPrefixOK(limit int, offered, got []attribute.KeyValue) bool {
	if len(got) > len(offered) {
		return false
	}
	for i := range got {
		if got[i].Key != offered[i].Key || !itemValueOK(limit, offered[i].Value, got[i].Value) {
			return false
		}
	}
	return true
}

const (
	excType  = "exception.type"
	excMsg   = "exception.message"
	excStack = "exception.stacktrace"
)

func (c *cmp) checkEvent(i int, lim Limits, want mEvent, got sdktrace.Event) {
	if want.fromPanic {
		// name the origin in every message about this event
		want.name += ", added by End running as the deferred call of a panicking goroutine"
		if got.Name != "exception" {
			c.bad("event_name", "event %d: name %q, the event End adds while panicking is the exception event", i, got.Name)
		}
		got.Name = want.name
	}
	if got.Name != want.name {
		c.bad("event_name", "event %d: name %q, model %q", i, got.Name, want.name)
	}
	if want.hasTS {
		if !got.Time.Equal(ts(want.ts)) {
			c.bad("event_time", "event %d (%q): time %v, supplied %v", i, want.name, got.Time.UnixNano(), want.ts)
		}
	} else if got.Time.IsZero() {
		c.bad("event_time", "event %d (%q): zero time", i, want.name)
	}
	if lim.PerEvent >= 0 && len(got.Attributes) > lim.PerEvent {
		c.bad("event_attrs_over_limit", "event %d (%q): %d attributes, limit %d", i, want.name, len(got.Attributes), lim.PerEvent)
	}
	if len(got.Attributes) != want.kept || got.DroppedAttributeCount != want.dropped {
		c.bad("event_attr_counts", "event %d (%q): %d attributes kept / %d dropped, model %d / %d (per-event limit %d)",
			i, want.name, len(got.Attributes), got.DroppedAttributeCount, want.kept, want.dropped, lim.PerEvent)
		return
	}
	if !want.isErr {
		if !listPrefixOK(lim.ValueLen, want.offered, got.Attributes) {
			c.bad("event_attrs", "event %d (%q): attributes %s are not the first %d of %s", i, want.name, render(got.Attributes), want.kept, render(want.offered))
		}
		return
	}
	// RecordError: caller attributes + synthesized exception.* attributes.
	var user []attribute.KeyValue
	seen := map[string]int{}
	for _, kv := range got.Attributes {
		switch string(kv.Key) {
		case excType, excMsg, excStack:
			seen[string(kv.Key)]++
			if kv.Value.Type() != attribute.STRING {
				c.bad("error_event_attrs", "event %d: %s is not a string: %s", i, kv.Key, vk.ValueKey(kv.Value))
				continue
			}
			s := kv.Value.AsString()
			switch string(kv.Key) {
			case excMsg:
				if !want.anyMsg && s != want.errMsg && s != refTruncate(lim.ValueLen, want.errMsg) {
					c.bad("error_event_attrs", "event %d: exception.message %q, err.Error() %q", i, s, want.errMsg)
				}
			case excType:
				cut := lim.ValueLen >= 0 && utf8.RuneCountInString(s) <= lim.ValueLen
				if !strings.Contains(s, want.errTyp) && !cut {
					c.bad("error_event_attrs", "event %d: exception.type %q does not name the error type (%s)", i, s, want.errTyp)
				}
			case excStack:
				if !want.stack {
					c.bad("error_event_attrs", "event %d: exception.stacktrace without WithStackTrace(true)", i)
				}
			}
		default:
			user = append(user, kv)
		}
	}
	for k, n := range seen {
		if n > 1 {
			c.bad("error_event_attrs", "event %d: %s present %d times", i, k, n)
		}
	}
	if !listPrefixOK(lim.ValueLen, want.offered, user) {
		c.bad("error_event_user_attrs", "event %d: caller attributes %s are not a prefix of %s", i, render(user), render(want.offered))
	}
	// The per-event cap keeps the FIRST N attributes of the event, and the
	// caller's attributes (options in call order) come before the ones
	// RecordError synthesises: under the cap the synthesized exception.*
	// attributes never displace a caller attribute.
	if wantUser := min(len(want.offered), want.kept); len(user) != wantUser {
		c.bad("error_event_user_attrs", "event %d: %d of the caller's %d attributes kept under a per-event limit of %d (%d attributes kept in all): the first %d were expected; got %s", i, len(user), len(want.offered), lim.PerEvent, want.kept, wantUser, render(got.Attributes))
	}
}

func (c *cmp) checkLink(i int, lim Limits, want mLink, got sdktrace.Link) {
	if !got.SpanContext.Equal(want.sc) {
		c.bad("link_context", "link %d: span context %+v, model %+v", i, got.SpanContext, want.sc)
	}
	if lim.PerLink >= 0 && len(got.Attributes) > lim.PerLink {
		c.bad("link_attrs_over_limit", "link %d: %d attributes, limit %d", i, len(got.Attributes), lim.PerLink)
	}
	if len(got.Attributes) != want.kept || got.DroppedAttributeCount != want.dropped {
		c.bad("link_attr_counts", "link %d: %d attributes kept / %d dropped, model %d / %d (per-link limit %d)",
			i, len(got.Attributes), got.DroppedAttributeCount, want.kept, want.dropped, lim.PerLink)
		return
	}
	if !listPrefixOK(lim.ValueLen, want.offered, got.Attributes) {
		c.bad("link_attrs", "link %d: attributes %s are not the first %d of %s", i, render(got.Attributes), want.kept, render(want.offered))
	}
}

var kindOf = map[int]trace.SpanKind{
	0: trace.SpanKindInternal, // unspecified is documented to be replaced by internal
	1: trace.SpanKindInternal, 2: trace.SpanKindServer, 3: trace.SpanKindClient, 4: trace.SpanKindProducer, 5: trace.SpanKindConsumer,
}

// compare evaluates every clause against one readable view of the span.
func compare(prefix string, c Case, m *model, ro sdktrace.ReadOnlySpan) []vk.Violation {
	x := &cmp{prefix: prefix}
	lim := c.Limits

	// --- attributes ---
	got := ro.Attributes()
	if lim.Attrs >= 0 && len(got) > lim.Attrs {
		x.bad("attrs_over_limit", "%d attributes, limit %d", len(got), lim.Attrs)
	}
	seen := map[string]int{}
	for _, kv := range got {
		k := string(kv.Key)
		seen[k]++
		if seen[k] == 2 {
			x.bad("attr_key_twice", "key %q exported more than once: %s", k, render(got))
		}
		if k == "" || kv.Value.Type() == attribute.INVALID {
			x.bad("attr_invalid_exported", "invalid attribute exported: %q=%s", k, vk.ValueKey(kv.Value))
			continue
		}
		e, ok := m.attrs.m[k]
		if !ok {
			x.bad("attr_unexpected_key", "key %q exported, model keeps %q", k, m.attrs.order)
			continue
		}
		if seen[k] == 1 {
			x.checkSpanValue(k, lim.ValueLen, e.raw, kv.Value)
		}
	}
	for _, k := range m.attrs.order {
		if seen[k] == 0 {
			x.bad("attr_missing_key", "key %q not exported, model keeps %q (limit %d)", k, m.attrs.order, lim.Attrs)
		}
	}
	if d := ro.DroppedAttributes(); d != m.attrs.dropped {
		x.bad("dropped_attributes", "DroppedAttributes %d, model %d (limit %d)", d, m.attrs.dropped, lim.Attrs)
	}

	// --- events ---
	evs := ro.Events()
	if lim.Events >= 0 && len(evs) > lim.Events {
		x.bad("events_over_limit", "%d events, limit %d", len(evs), lim.Events)
	}
	if len(evs) != len(m.events) {
		x.bad("event_count", "%d events exported, model %d (limit %d)", len(evs), len(m.events), lim.Events)
	} else {
		for i := range evs {
			x.checkEvent(i, lim, m.events[i], evs[i])
		}
	}
	if d := ro.DroppedEvents(); d != m.droppedEvents {
		x.bad("dropped_events", "DroppedEvents %d, model %d (limit %d)", d, m.droppedEvents, lim.Events)
	}

	// --- links ---
	lks := ro.Links()
	if lim.Links >= 0 && len(lks) > lim.Links {
		x.bad("links_over_limit", "%d links, limit %d", len(lks), lim.Links)
	}
	if len(lks) != len(m.links) {
		x.bad("link_count", "%d links exported, model %d (limit %d)", len(lks), len(m.links), lim.Links)
	} else {
		for i := range lks {
			x.checkLink(i, lim, m.links[i], lks[i])
		}
	}
	if d := ro.DroppedLinks(); d != m.droppedLinks {
		x.bad("dropped_links", "DroppedLinks %d, model %d (limit %d)", d, m.droppedLinks, lim.Links)
	}

	// --- scalars ---
	st := ro.Status()
	if int(st.Code) != m.code || st.Description != m.desc {
		x.bad("status", "status {%v %q}, model {%v %q}", st.Code, st.Description, codes.Code(m.code), m.desc)
	}
	if ro.Name() != m.name {
		x.bad("name", "name %q, model %q", ro.Name(), m.name)
	}
	if m.endHasTS {
		if !ro.EndTime().Equal(ts(m.endTS)) {
			x.bad("end_time", "end time %d, supplied %d", ro.EndTime().UnixNano(), m.endTS)
		}
	} else if ro.EndTime().IsZero() {
		x.bad("end_time", "ended span reports a zero end time")
	}
	if c.HasStartTS && !ro.StartTime().Equal(ts(c.StartTS)) {
		x.bad("start_time", "start time %d, supplied %d", ro.StartTime().UnixNano(), c.StartTS)
	}
	if ro.SpanKind() != kindOf[c.Kind] {
		x.bad("span_kind", "kind %v, supplied %v", ro.SpanKind(), trace.SpanKind(c.Kind))
	}
	return x.vs
}

// ---------------------------------------------------------------------

func run(gc Case) ([]vk.Violation, vk.Info) { return runCase(gc, true) }

// runCase: env = false leaves the process environment alone (cases that run
// in several goroutines at once; they configure their limits with an option).
func runCase(gc Case, env bool) ([]vk.Violation, vk.Info) {
	var info vk.Info

	// gc is the case as generated (the numbers and the way they are
	// configured): it is used to BUILD the providers. c is the same case under
	// the limits the documentation of that way predicts: everything the model
	// and the comparison do uses c.
	c := eff(gc)
	if env {
		restoreEnv := applyEnv(gc.Cfg.Env)
		defer restoreEnv()
	} else if len(gc.Cfg.Env) > 0 || gc.Cfg.Via == "none" || gc.Cfg.FromNew {
		panic("harness bug: a case that depends on the environment run without it")
	}

	rec := &recorder{}
	var sampler sdktrace.Sampler = sdktrace.AlwaysSample()
	if len(c.SamplerAttrs) > 0 || c.RecordOnly {
		sampler = attrSampler{attrs: vk.ToAttrs(c.SamplerAttrs), recordOnly: c.RecordOnly}
	}
	tpOpts := append(limitOptions(gc.Limits, gc.Cfg),
		sdktrace.WithSampler(sampler),
		sdktrace.WithSpanProcessor(rec),
	)
	tp := sdktrace.NewTracerProvider(tpOpts...)
	defer func() { _ = tp.Shutdown(context.Background()) }()

	opts := []trace.SpanStartOption{trace.WithSpanKind(trace.SpanKind(c.Kind))}
	if c.HasStartTS {
		opts = append(opts, trace.WithTimestamp(ts(c.StartTS)))
	}
	if len(c.StartAttrs) > 0 {
		opts = append(opts, trace.WithAttributes(vk.ToAttrs(c.StartAttrs)...))
	}
	var startLinks []trace.Link
	if len(c.StartLinks) > 0 {
		startLinks = make([]trace.Link, len(c.StartLinks))
		for i, l := range c.StartLinks {
			startLinks[i] = l.link()
		}
		// (WithLinks gets its own slice of Link values; the Attributes slices
		// inside are the caller's)
		opts = append(opts, trace.WithLinks(append([]trace.Link{}, startLinks...)...))
	}
	if c.Parent == 4 {
		opts = append(opts, trace.WithNewRoot())
	}
	_, span := tp.Tracer("c04").Start(parentContext(c.Parent), string(c.Name), opts...)

	p := &prog{span: span}
	rec.mu.Lock()
	if len(rec.started) == 1 {
		p.rw = rec.started[0]
	}
	rec.mu.Unlock()
	var sc Case
	sibRec := &recorder{}
	if c.HasSib {
		sc = sibCase(c)
		sibLimits := sdktrace.WithRawSpanLimits(asSDK(gc.Sib))
		if gc.SibDeprecated {
			//nolint:staticcheck // the deprecated spelling is part of the public API.
			sibLimits = sdktrace.WithSpanLimits(asSDK(gc.Sib))
		}
		stp := sdktrace.NewTracerProvider(
			sibLimits,
			sdktrace.WithSampler(sdktrace.AlwaysSample()),
			sdktrace.WithSpanProcessor(sibRec),
		)
		defer func() { _ = stp.Shutdown(context.Background()) }()
		_, p.sib = stp.Tracer("c04.sibling").Start(context.Background(), string(sc.Name), trace.WithSpanKind(trace.SpanKind(sc.Kind)))
		if c.StartLinksShared {
			// the Link values the primary span was started with, used again
			for _, l := range startLinks {
				p.sib.AddLink(l)
			}
		}
	}

	ended := false
	for i, rop := range c.Ops {
		for _, op := range expand(rop) {
			p.applyOp(i, op)
		}
		if rop.Op == "end" {
			ended = true
		}
	}
	if !ended {
		span.End()
	}
	if p.sib != nil {
		p.sib.End()
	}

	rec.mu.Lock()
	started := append([]sdktrace.ReadWriteSpan{}, rec.started...)
	exported := append([]sdktrace.ReadOnlySpan{}, rec.ended...)
	rec.mu.Unlock()

	vars := variants(c)
	primary := newModel(c, vars[0])
	classify(&info, c, primary, len(vars))
	classifySharing(&info, c)
	classifyCfg(&info, gc, c.Limits)

	if len(exported) != 1 || len(started) != 1 {
		return []vk.Violation{vk.V("export_count", "span started %d times, exported %d times, expected once each", len(started), len(exported))}, info
	}
	if span.IsRecording() {
		return []vk.Violation{vk.V("still_recording", "IsRecording() after End")}, info
	}

	// The sibling span: a fresh span of another provider that was handed the
	// shared slices; it must hold what the caller built, under ITS limits.
	common := p.vs
	if c.HasSib {
		sibRec.mu.Lock()
		sibExported := append([]sdktrace.ReadOnlySpan{}, sibRec.ended...)
		sibRec.mu.Unlock()
		if len(sibExported) != 1 {
			common = append(common, vk.V("sib_export_count", "sibling span exported %d times, expected once", len(sibExported)))
		} else {
			common = append(common, compare("sib_", sc, newModel(sc, variant{true, true}), sibExported[0])...)
		}
	}

	// The snapshot and the span object are both read after the last call so
	// that a mutation after End is visible in either.
	var first []vk.Violation
	for i, v := range vars {
		m := primary
		if i > 0 {
			m = newModel(c, v)
		}
		vs := compare("", c, m, exported[0])
		vs = append(vs, compare("live_", c, m, started[0])...)
		if len(vs) == 0 {
			return annotate(gc, common), info
		}
		if i == 0 {
			first = vs
		}
	}
	return annotate(gc, append(first, common...)), info
}

// annotate names, in every violation, the way the limits were configured
// whenever that is not the plain WithRawSpanLimits literal.
func annotate(gc Case, vs []vk.Violation) []vk.Violation {
	note := describeCfg(gc)
	if note == "" {
		return vs
	}
	for i := range vs {
		vs[i].Msg += " " + note
	}
	return vs
}

// classifySharing counts the slice re-use dimension.
func classifySharing(info *vk.Info, c Case) {
	info.ClassIf(c.HasSib, "sibling_span")
	var after, before, againAttrs, againEvent, sensitive, sibLooser, afterEnd int
	ended := false
	linkAgain := map[string]int{}
	var linkShared, linkCapReuse int
	defer func() {
		info.ClassIf(linkShared > 0, "link_value_shared_with_sibling")
		info.ClassIf(linkAgain["attrs"] > 0, "link_attrs_reused_setattributes_same_span")
		info.ClassIf(linkAgain["event"] > 0, "link_attrs_reused_addevent_same_span")
		info.ClassIf(linkAgain["link"] > 0, "link_value_added_twice_same_span")
		info.ClassIf(linkCapReuse > 0, "reused_link_holds_more_attrs_than_per_link_cap")
		info.ClassIf(c.HasSib && c.StartLinksShared && len(c.StartLinks) > 0, "start_links_added_to_sibling")
	}()
	for _, op := range c.Ops {
		if op.Op == "end" {
			ended = true
		}
		if op.Op == "link" {
			_, again := againOp(op)
			shared := c.HasSib && op.Share != 0
			linkShared += b2i(shared)
			if again {
				linkAgain[op.Again]++
			}
			if (again || shared) && c.Limits.PerLink > 0 && len(op.Link.Attrs) > c.Limits.PerLink {
				linkCapReuse++
			}
			continue
		}
		if !lentOp(op) {
			continue
		}
		share := 0
		if c.HasSib {
			share = op.Share
		}
		_, again := againOp(op)
		if share == 0 && !again {
			continue
		}
		switch share {
		case 1:
			after++
		case 2:
			before++
		}
		switch {
		case again && op.Again == "attrs":
			againAttrs++
		case again:
			againEvent++
		}
		if share != 0 && ended {
			afterEnd++
		}
		// does the slice hold a string that one of the limits in play cuts?
		cutP, cutS := false, false
		for _, kv := range vk.ToAttrs(op.KVs) {
			var ss []string
			switch kv.Value.Type() {
			case attribute.STRING:
				ss = []string{kv.Value.AsString()}
			case attribute.STRINGSLICE:
				ss = kv.Value.AsStringSlice()
			}
			for _, x := range ss {
				if refTruncate(c.Limits.ValueLen, x) != x {
					cutP = true
				}
				if share != 0 && refTruncate(c.Sib.ValueLen, x) != x {
					cutS = true
				}
				if share != 0 && refTruncate(c.Limits.ValueLen, x) != refTruncate(c.Sib.ValueLen, x) {
					sibLooser++
				}
			}
		}
		if cutP || cutS {
			sensitive++
		}
	}
	info.ClassIf(after > 0, "slice_shared_with_sibling_after_call")
	info.ClassIf(before > 0, "slice_shared_with_sibling_before_call")
	info.ClassIf(afterEnd > 0, "slice_shared_with_sibling_after_primary_end")
	info.ClassIf(againAttrs > 0, "slice_reused_setattributes_same_span")
	info.ClassIf(againEvent > 0, "slice_reused_addevent_same_span")
	info.ClassIf(sensitive > 0, "reused_slice_holds_string_over_a_limit")
	info.ClassIf(sibLooser > 0, "shared_string_cut_differently_by_the_two_limits")
}

func b2i(b bool) int {
	if b {
		return 1
	}
	return 0
}

func classify(info *vk.Info, c Case, m *model, nvariants int) {
	st := m.st
	attrCap := st.refusedFull > 0 || st.updateWhenFull > 0
	evict := st.evictedEvents > 0 || st.evictedLinks > 0
	info.NonTrivial = attrCap || evict || st.truncated > 0

	info.ClassIf(attrCap, "attrs_over_capacity")
	info.ClassIf(!attrCap && len(m.attrs.order) > 0, "attrs_never_full")
	info.ClassIf(st.refusedFull > 0, "new_key_refused_when_full")
	info.ClassIf(st.updateWhenFull > 0, "update_when_full")
	info.ClassIf(st.updateExisting > 0, "update_existing_key")
	info.ClassIf(st.invalidAttr > 0, "invalid_key_or_value_dropped")
	info.ClassIf(st.attrLimitZero > 0, "attr_limit_0_drops")
	info.ClassIf(c.Limits.Attrs == 128 && len(m.attrs.order) == 128, "attr_limit_128_reached")
	info.ClassIf(c.Limits.Attrs < 0 && len(m.attrs.order) > 12, "attrs_unlimited_gt12")
	info.ClassIf(st.truncated > 0, "string_truncated")
	info.ClassIf(st.truncInvalid > 0, "truncated_invalid_utf8")
	info.ClassIf(st.truncFFFD > 0, "truncated_with_U+FFFD")
	info.ClassIf(st.invalidWithin > 0, "invalid_utf8_within_limit_kept")
	info.ClassIf(c.Limits.ValueLen == 0 && st.truncated > 0, "value_len_0_truncates")
	info.ClassIf(st.evictedEvents > 0 && c.Limits.Events > 0, "events_evicted")
	info.ClassIf(st.evictedEvents > 0 && c.Limits.Events == 0, "event_limit_0_drops")
	info.ClassIf(st.evictedLinks > 0 && c.Limits.Links > 0, "links_evicted")
	info.ClassIf(st.evictedLinks > 0 && c.Limits.Links == 0, "link_limit_0_drops")
	info.ClassIf(st.eventCapBites > 0, "per_event_cap_bites")
	info.ClassIf(st.linkCapBites > 0, "per_link_cap_bites")
	info.ClassIf(st.errorEvents > 0, "record_error")
	info.ClassIf(st.nilErrors > 0, "record_nil_error")
	info.ClassIf(st.linksIgnored > 0, "empty_invalid_link_ignored")
	info.ClassIf(st.invalidLinkKept > 0, "invalid_link_with_payload_kept")
	info.ClassIf(len(c.StartLinks) > 0, "start_links")
	info.ClassIf(len(c.SamplerAttrs) > 0, "sampler_attrs")
	info.ClassIf(len(c.StartAttrs) > 0, "start_attrs")
	info.ClassIf(nvariants > 1, "two_readings_accepted")
	info.ClassIf(st.statusIgnored > 0, "status_lower_ignored")
	info.ClassIf(st.statusSameCode > 0, "status_same_code_again")
	info.ClassIf(st.descOnNonError > 0, "description_with_non_error_code")
	info.ClassIf(st.afterEnd > 0, "calls_after_end")
	info.ClassIf(st.secondEnd > 0, "second_end")
	lims := []int{c.Limits.ValueLen, c.Limits.Attrs, c.Limits.Events, c.Limits.Links, c.Limits.PerEvent, c.Limits.PerLink}
	negOther, wide := false, false
	for _, l := range lims {
		negOther = negOther || l < -1
		wide = wide || (l > 5 && l != 128)
	}
	info.ClassIf(negOther, "a_limit_negative_other_than_-1")
	info.ClassIf(wide, "a_limit_outside_{-1,0,1,2,3,5,128}")
	info.ClassIf(st.bytesAtLimit > 0, "string_of_exactly_limit_bytes")
	info.ClassIf(st.runesAtLimit > 0, "string_over_limit_bytes_with_exactly_limit_characters")
	info.ClassIf(st.truncWide > 0, "string_truncated_by_limit_ge_31")
	info.ClassIf(st.bigAttrCall > 0, "setattributes_call_gt_12_kvs")
	info.ClassIf(st.refusedFull > 0 && c.Limits.Attrs >= 64, "attr_limit_ge_64_refuses")
	info.ClassIf(st.evictedEvents > 0 && c.Limits.Events >= 64, "event_limit_ge_64_evicts")
	info.ClassIf(st.evictedLinks > 0 && c.Limits.Links >= 64, "link_limit_ge_64_evicts")
	info.ClassIf(st.eventCapBites > 0 && c.Limits.PerEvent >= 64, "per_event_cap_ge_64_bites")
	info.ClassIf(st.linkCapBites > 0 && c.Limits.PerLink >= 64, "per_link_cap_ge_64_bites")
	info.ClassIf(st.stackOff > 0, "stack_trace_explicit_false")
	burst := false
	for _, op := range c.Ops {
		burst = burst || op.Rep > 0
	}
	info.ClassIf(burst, "burst_of_repeated_calls")
	info.ClassIf(st.panicEvents > 0, "end_deferred_while_panicking")
	info.ClassIf(st.panicCapBites > 0, "panic_event_per_event_cap_bites")
	info.ClassIf(st.panicEvicts > 0, "panic_event_evicts_or_dropped_by_event_limit")
	info.ClassIf(st.panicEndAfterEnd > 0, "end_deferred_while_panicking_after_end")
	info.ClassIf(st.endInClosure > 0, "end_inside_deferred_closure_while_panicking")
	info.ClassIf(m.endHasTS, "end_timestamp_supplied")
	info.ClassIf(len(c.Ops) == 0, "no_calls")
	info.ClassIf(st.peeks > 0, "span_read_mid_program")
	info.ClassIf(st.peeksLive > 0, "live_span_with_attributes_read_mid_program")
	info.ClassIf(c.RecordOnly, "sampler_decision_record_only")
	info.ClassIf(c.Parent == 1, "parent_local_span_context")
	info.ClassIf(c.Parent == 2 || c.Parent == 3, "parent_remote_span_context")
	info.ClassIf(c.Parent == 4, "parent_in_context_with_new_root")
}

func TestSpanModel(t *testing.T) {
	vk.Run(t, vk.Spec[Case]{
		Property: "C04", Check: "span_model",
		Rule: "six span limits, 80% from {-1,0,1,2,3,5,128} (biased small), 10% from 4..MaxInt64 (around 8, 32, 128), 10% other negative values down to MinInt64, handed over through a generated public way (40% WithRawSpanLimits, 30% the deprecated WithSpanLimits whose zero / negative fields mean the defaults, 30% no option = NewSpanLimits; with an option, 1/3 build the value as NewSpanLimits() + a generated subset of overwritten fields; environment: each of the six documented variables and the two general OTEL_ATTRIBUTE_* ones unset / a plain, signed or zero-padded decimal spelling / blank / not an integer; 1/8 with an earlier span limits option that must be overridden; 1/4 of the sibling providers through WithSpanLimits), the model deriving the limits in force from the documentation of that way; sampler decision RecordAndSample / RecordOnly, parent context none / local / remote / WithNewRoot; start options (attributes, sampler attributes, links, kind, timestamp) and 0..40 span API calls " +
			"(SetAttributes 0..12 kvs of all eight types with duplicate/empty keys and hostile strings incl. long strings built to land on limit-1/limit/limit+1 characters and up to 700 characters, AddEvent, AddLink valid/invalid, RecordError, SetStatus, SetName, reads of the span through the ReadWriteSpan of OnStart between calls, " +
			"End with/without WithTimestamp and WithStackTrace(true|false), called plainly, as the deferred call of a panicking goroutine (panic value string / error / int / struct) or inside a deferred closure of one) incl. calls after End; " +
			"event/link/error calls may be repeated as a burst; 1/16 of the programs are attribute-heavy (1000 keys, single calls of up to 300 kvs) and 1/16 queue-heavy (bursts of up to 300 events/links, up to 300 start links, lists of up to 300 attributes per event/link, limits around 128); " +
			"attribute slices are caller-owned (spare capacity, scribbled after the op) and in a generated fraction of ops the same slice object is also passed to a second call on the same span and, before or after the primary call, to the corresponding call of a sibling span of a second provider with its own limits (half of the cases); " +
			"non-trivial = the program fills the attribute map (a new key refused or an existing key updated while full) or evicts/drops >= 1 event or link or has >= 1 string cut by the value length limit; distinct = distinct case encodings",
		Quick: 24000, Thorough: 400000,
		Gen: gen, Run: run,
		// no open known finding: the limit-0 / single-invalid-byte defect this
		// check found was repaired in /repo (see known_findings.json "fixed").
	})
}
