// Package deps pins, as direct requirements of the harness module, every
// third-party module a check may import, so that go.mod does not change while
// several checks are being built in parallel.
package deps

import (
	_ "github.com/go-logr/logr"
	_ "github.com/go-logr/logr/funcr"
	_ "github.com/prometheus/client_golang/prometheus"
	_ "github.com/prometheus/client_model/go"
	_ "github.com/prometheus/common/model"
	_ "go.opentelemetry.io/otel/exporters/otlp/otlplog/otlploggrpc"
	_ "go.opentelemetry.io/otel/exporters/otlp/otlplog/otlploghttp"
	_ "go.opentelemetry.io/otel/exporters/otlp/otlpmetric/otlpmetricgrpc"
	_ "go.opentelemetry.io/otel/exporters/otlp/otlpmetric/otlpmetrichttp"
	_ "go.opentelemetry.io/otel/exporters/otlp/otlptrace"
	_ "go.opentelemetry.io/otel/exporters/otlp/otlptrace/otlptracegrpc"
	_ "go.opentelemetry.io/otel/exporters/otlp/otlptrace/otlptracehttp"
	_ "go.opentelemetry.io/otel/exporters/prometheus"
	_ "go.opentelemetry.io/otel/exporters/zipkin"
	_ "go.opentelemetry.io/otel/log"
	_ "go.opentelemetry.io/otel/log/noop"
	_ "go.opentelemetry.io/otel/metric"
	_ "go.opentelemetry.io/otel/sdk/log"
	_ "go.opentelemetry.io/otel/sdk/log/logtest"
	_ "go.opentelemetry.io/otel/sdk/metric"
	_ "go.opentelemetry.io/otel/sdk/trace/tracetest"
	_ "go.opentelemetry.io/otel/trace"
	_ "go.opentelemetry.io/proto/otlp/collector/logs/v1"
	_ "go.opentelemetry.io/proto/otlp/collector/metrics/v1"
	_ "go.opentelemetry.io/proto/otlp/collector/trace/v1"
	_ "google.golang.org/genproto/googleapis/rpc/errdetails"
	_ "google.golang.org/grpc"
	_ "google.golang.org/grpc/status"
	_ "google.golang.org/protobuf/proto"
	_ "google.golang.org/protobuf/types/known/durationpb"
)
