// Package vk is the shared kit of the verification harness: it turns a
// (generator, runner+oracle) pair into a rapid property, journals every case
// before it runs (so that a crash or a hang still leaves a replay file),
// counts what was explored, matches violations against the committed
// known-findings file and replays saved cases without rapid.
//
// Contract with the driver (cmd/check), all through the environment:
//
//	VERIF_OUT      directory for stats / journal / hang dumps (required)
//	VERIF_REPLAYS  directory where replay files of violations are written
//	VERIF_TIER     quick | thorough
//	VERIF_SEED     integer; rapid seed = 1 + seed*1000 + shard
//	VERIF_SHARD    shard number (0-based), VERIF_NSHARDS total
//	VERIF_REPLAY   path of a replay file: run only that case, bypassing rapid
//	VERIF_REPEAT   how many times a replayed case is re-run (schedules)
//	VERIF_SCALE    float multiplier on case counts (development aid)
//	VERIF_KNOWN    path of known_findings.json
//	VERIF_REGRESS  directory of committed regression replays
package vk

import (
	"encoding/binary"
	"encoding/json"
	"flag"
	"fmt"
	"hash/fnv"
	"os"
	"path/filepath"
	"runtime"
	"runtime/debug"
	"sort"
	"strconv"
	"strings"
	"sync"
	"testing"
	"time"

	"pgregory.net/rapid"
)

// Violation is one way in which an observed outcome contradicts the oracle.
type Violation struct {
	// Kind is a short stable identifier of the broken clause.
	Kind string `json:"kind"`
	Msg  string `json:"msg"`
	// Observed / Expected are free-form, JSON-serialisable.
	Observed any `json:"observed,omitempty"`
	Expected any `json:"expected,omitempty"`
}

// V is a convenience constructor.
func V(kind, format string, args ...any) Violation {
	return Violation{Kind: kind, Msg: fmt.Sprintf(format, args...)}
}

// Info classifies a case after it ran.
type Info struct {
	NonTrivial bool
	Classes    []string
}

// Class adds a label.
func (i *Info) Class(c string) { i.Classes = append(i.Classes, c) }

// ClassIf adds a label when cond holds.
func (i *Info) ClassIf(cond bool, c string) {
	if cond {
		i.Classes = append(i.Classes, c)
	}
}

// Spec describes one generated check of one property.
type Spec[C any] struct {
	Property string // e.g. "C05"
	Check    string // sub-check name, unique within the property
	Rule     string // how cases are generated and what makes one non-trivial
	Quick    int    // cases per shard, quick tier
	Thorough int    // cases per shard, thorough tier
	Gen      func(*rapid.T) C
	// Run executes the case against the code under test and evaluates the
	// oracle. It must be a function of the case alone.
	Run func(C) ([]Violation, Info)
	// Known maps matcher names used in known_findings.json to predicates.
	Known map[string]func(C, Violation) bool
	// CaseTimeout is the hang watchdog for one case (default 120 s).
	CaseTimeout time.Duration
	// ShrinkTime bounds minimisation (default 20 s).
	ShrinkTime time.Duration
	// Repeat is how often a replayed case is re-run when VERIF_REPEAT is
	// unset (default 1; concurrent checks use more).
	Repeat int
}

type knownEntry struct {
	ID       string `json:"id"`
	Property string `json:"property"`
	Status   string `json:"status"` // "open" | "fixed"
	Matcher  string `json:"matcher"`
	What     string `json:"what"`
	Commit   string `json:"commit,omitempty"`
}

type knownFile struct {
	Findings []knownEntry `json:"findings"`
}

// ReplayFile is the on-disk form of a case.
type ReplayFile struct {
	Property   string          `json:"property"`
	Check      string          `json:"check"`
	Seed       uint64          `json:"seed"`
	Note       string          `json:"note,omitempty"`
	Case       json.RawMessage `json:"case"`
	Violations []Violation     `json:"violations,omitempty"`
}

type violationRec struct {
	Replay string `json:"replay"`
	Kind   string `json:"kind"`
	Msg    string `json:"msg"`
}

// Stats is what one (check, shard) run reports to the driver.
type Stats struct {
	Property           string            `json:"property"`
	Check              string            `json:"check"`
	Shard              int               `json:"shard"`
	Seed               uint64            `json:"seed"`
	Rule               string            `json:"rule"`
	Requested          int               `json:"requested"`
	Evaluations        int               `json:"evaluations"`
	FailingEvaluations int               `json:"failing_evaluations"`
	NonTrivial         int               `json:"nontrivial"`
	DistinctNonTrivial int               `json:"distinct_nontrivial"`
	Classes            map[string]int    `json:"classes"`
	Samples            []json.RawMessage `json:"samples"`
	Known              map[string]int    `json:"known"`
	KnownWhat          map[string]string `json:"known_what"`
	RegressReplayed    int               `json:"regress_replayed"`
	Violations         []violationRec    `json:"violations"`
	Completed          bool              `json:"completed"`
	WallS              float64           `json:"wall_s"`
}

type env struct {
	out, replays, tier, replay, known, regress string
	seed                                       uint64
	shard, nshards, repeat                     int
	scale                                      float64
}

func getenv() env {
	e := env{
		out:     os.Getenv("VERIF_OUT"),
		replays: os.Getenv("VERIF_REPLAYS"),
		tier:    os.Getenv("VERIF_TIER"),
		replay:  os.Getenv("VERIF_REPLAY"),
		known:   os.Getenv("VERIF_KNOWN"),
		regress: os.Getenv("VERIF_REGRESS"),
		scale:   1,
		nshards: 1,
	}
	if e.tier == "" {
		e.tier = "quick"
	}
	if e.out == "" {
		e.out = filepath.Join(os.TempDir(), "verif-out")
	}
	if e.replays == "" {
		e.replays = e.out
	}
	_ = os.MkdirAll(e.out, 0o755)
	_ = os.MkdirAll(e.replays, 0o755)
	if v, err := strconv.ParseUint(os.Getenv("VERIF_SEED"), 10, 64); err == nil {
		e.seed = v
	}
	if v, err := strconv.Atoi(os.Getenv("VERIF_SHARD")); err == nil {
		e.shard = v
	}
	if v, err := strconv.Atoi(os.Getenv("VERIF_NSHARDS")); err == nil && v > 0 {
		e.nshards = v
	}
	if v, err := strconv.Atoi(os.Getenv("VERIF_REPEAT")); err == nil && v > 0 {
		e.repeat = v
	}
	if v, err := strconv.ParseFloat(os.Getenv("VERIF_SCALE"), 64); err == nil && v > 0 {
		e.scale = v
	}
	return e
}

func hash64(b []byte) uint64 {
	h := fnv.New64a()
	_, _ = h.Write(b)
	return h.Sum64()
}

type runner[C any] struct {
	spec   Spec[C]
	env    env
	st     Stats
	mu     sync.Mutex
	hashes map[uint64]struct{}
	known  []knownEntry
	jf     *os.File
	start  time.Time
	wd     *time.Timer
	cur    []byte // canonical encoding of the case in flight
	final  bool
}

func (r *runner[C]) file(kind, ext string) string {
	return filepath.Join(r.env.out, fmt.Sprintf("%s.%s.%d.%s", kind, r.spec.Check, r.env.shard, ext))
}

func (r *runner[C]) loadKnown() {
	p := r.env.known
	if p == "" {
		return
	}
	b, err := os.ReadFile(p)
	if err != nil {
		return
	}
	var kf knownFile
	if err := json.Unmarshal(b, &kf); err != nil {
		panic(fmt.Sprintf("vk: bad known findings file %s: %v", p, err))
	}
	for _, k := range kf.Findings {
		if k.Property == r.spec.Property && k.Status == "open" && k.Matcher != "" {
			r.known = append(r.known, k)
		}
	}
}

func (r *runner[C]) replayRecord(enc []byte, vs []Violation, note string) ReplayFile {
	return ReplayFile{Property: r.spec.Property, Check: r.spec.Check, Seed: r.st.Seed, Note: note, Case: enc, Violations: vs}
}

func (r *runner[C]) journal(enc []byte) {
	if r.jf == nil {
		f, err := os.OpenFile(r.file("journal", "json"), os.O_CREATE|os.O_RDWR|os.O_TRUNC, 0o644)
		if err != nil {
			return
		}
		r.jf = f
	}
	rec := r.replayRecord(enc, []Violation{{Kind: "crash_or_hang", Msg: "the process died or hung while this case was running"}}, "journalled before execution")
	b, _ := json.Marshal(rec)
	_, _ = r.jf.WriteAt(b, 0)
	_ = r.jf.Truncate(int64(len(b)))
}

// split separates violations explained by an open known finding.
func (r *runner[C]) split(c C, vs []Violation) (unknown []Violation) {
	for _, v := range vs {
		matched := false
		for _, k := range r.known {
			m := r.spec.Known[k.Matcher]
			if m != nil && m(c, v) {
				r.st.Known[k.ID]++
				r.st.KnownWhat[k.ID] = k.What
				matched = true
				break
			}
		}
		if !matched {
			unknown = append(unknown, v)
		}
	}
	return unknown
}

func (r *runner[C]) armWatchdog() {
	d := r.spec.CaseTimeout
	if d == 0 {
		d = 120 * time.Second
	}
	r.wd = time.AfterFunc(d, func() {
		buf := make([]byte, 8<<20)
		n := runtime.Stack(buf, true)
		_ = os.WriteFile(r.file("hang", "txt"), buf[:n], 0o644)
		fmt.Fprintf(os.Stderr, "vk: WATCHDOG: case exceeded %v, goroutine dump in %s\n", d, r.file("hang", "txt"))
		os.Exit(7)
	})
}

// execute runs one case with panic capture.
func (r *runner[C]) execute(c C) (vs []Violation, info Info) {
	defer func() {
		if p := recover(); p != nil {
			vs = append(vs, Violation{Kind: "panic", Msg: fmt.Sprintf("panic: %v", p), Observed: string(debug.Stack())})
		}
	}()
	return r.spec.Run(c)
}

func (r *runner[C]) one(c C, enc []byte, count bool) []Violation {
	r.journal(enc)
	r.armWatchdog()
	vs, info := r.execute(c)
	r.wd.Stop()
	if count {
		r.st.Evaluations++
		for _, cl := range info.Classes {
			r.st.Classes[cl]++
		}
		if info.NonTrivial {
			r.st.NonTrivial++
			r.hashes[hash64(enc)] = struct{}{}
			if len(r.st.Samples) < 3 || (len(r.st.Samples) < 6 && r.st.NonTrivial%997 == 0) {
				if len(enc) < 6000 {
					r.st.Samples = append(r.st.Samples, json.RawMessage(enc))
				}
			}
		}
	}
	return r.split(c, vs)
}

func (r *runner[C]) saveViolation(enc []byte, vs []Violation, tag string) string {
	name := fmt.Sprintf("%s-%s-%s.json", r.spec.Property, r.spec.Check, tag)
	p := filepath.Join(r.env.replays, name)
	b, _ := json.MarshalIndent(r.replayRecord(enc, vs, ""), "", " ")
	_ = os.WriteFile(p, b, 0o644)
	return p
}

func (r *runner[C]) flush(completed bool) {
	r.st.Completed = completed
	r.st.DistinctNonTrivial = len(r.hashes)
	r.st.WallS = time.Since(r.start).Seconds()
	b, _ := json.MarshalIndent(&r.st, "", " ")
	_ = os.WriteFile(r.file("stats", "json"), b, 0o644)
	hs := make([]uint64, 0, len(r.hashes))
	for h := range r.hashes {
		hs = append(hs, h)
	}
	sort.Slice(hs, func(i, j int) bool { return hs[i] < hs[j] })
	hb := make([]byte, 8*len(hs))
	for i, h := range hs {
		binary.LittleEndian.PutUint64(hb[8*i:], h)
	}
	_ = os.WriteFile(r.file("hashes", "bin"), hb, 0o644)
}

func decodeCase[C any](raw json.RawMessage) (C, error) {
	var c C
	err := json.Unmarshal(raw, &c)
	return c, err
}

// Run executes the spec under the driver's environment.
func Run[C any](t *testing.T, spec Spec[C]) {
	e := getenv()
	r := &runner[C]{spec: spec, env: e, hashes: map[uint64]struct{}{}, start: time.Now()}
	r.st = Stats{Property: spec.Property, Check: spec.Check, Shard: e.shard, Rule: spec.Rule,
		Classes: map[string]int{}, Known: map[string]int{}, KnownWhat: map[string]string{}}
	r.st.Seed = 1 + e.seed*1000 + uint64(e.shard)
	r.loadKnown()

	if e.replay != "" {
		r.replayMode(t)
		return
	}
	defer func() {
		if r.jf != nil {
			r.jf.Close()
			if r.final {
				_ = os.Remove(r.file("journal", "json"))
			}
		}
	}()

	// 1. committed regression replays (shard 0 only).
	if e.shard == 0 && e.regress != "" {
		files, _ := filepath.Glob(filepath.Join(e.regress, spec.Property, "*.json"))
		sort.Strings(files)
		for _, f := range files {
			b, err := os.ReadFile(f)
			if err != nil {
				continue
			}
			var rf ReplayFile
			if json.Unmarshal(b, &rf) != nil || rf.Check != spec.Check {
				continue
			}
			c, err := decodeCase[C](rf.Case)
			if err != nil {
				t.Errorf("vk: regress file %s does not decode: %v", f, err)
				continue
			}
			rep := spec.Repeat
			if rep < 1 {
				rep = 1
			}
			for i := 0; i < rep; i++ {
				if vs := r.one(c, rf.Case, i == 0); len(vs) > 0 {
					p := r.saveViolation(rf.Case, vs, "regress-"+strings.TrimSuffix(filepath.Base(f), ".json"))
					r.st.Violations = append(r.st.Violations, violationRec{Replay: p, Kind: vs[0].Kind, Msg: "regression replay " + filepath.Base(f) + ": " + vs[0].Msg})
					break
				}
			}
			r.st.RegressReplayed++
		}
		if len(r.st.Violations) > 0 {
			r.final = true
			r.flush(true)
			t.Errorf("vk: %d regression replays failed", len(r.st.Violations))
			return
		}
	}

	// 2. generated search.
	n := spec.Quick
	if e.tier == "thorough" {
		n = spec.Thorough
	}
	n = int(float64(n) * e.scale)
	if n < 1 {
		n = 1
	}
	r.st.Requested = n
	shrink := spec.ShrinkTime
	if shrink == 0 {
		shrink = 20 * time.Second
	}
	_ = flag.Set("rapid.checks", strconv.Itoa(n))
	_ = flag.Set("rapid.seed", strconv.FormatUint(r.st.Seed, 10))
	_ = flag.Set("rapid.nofailfile", "true")
	_ = flag.Set("rapid.shrinktime", shrink.String())

	var lastFailEnc []byte
	var lastFailVs []Violation
	generated := 0
	prop := func(rt *rapid.T) {
		c := spec.Gen(rt)
		enc, err := json.Marshal(c)
		if err != nil {
			panic(fmt.Sprintf("vk: case does not serialise: %v", err))
		}
		generated++
		vs := r.one(c, enc, true)
		if generated%2000 == 0 {
			r.flush(false)
		}
		if len(vs) > 0 {
			r.st.FailingEvaluations++
			lastFailEnc, lastFailVs = enc, vs
			failCase(rt, vs)
		}
	}
	// rapid.Check reports through a shim so that a failure does not abort
	// before the stats are flushed.
	shim := &tbShim{T: t}
	func() {
		defer func() { _ = recover() }()
		rapid.Check(shim, prop)
	}()
	if lastFailEnc != nil {
		p := r.saveViolation(lastFailEnc, lastFailVs, fmt.Sprintf("s%d-%016x", r.st.Seed, hash64(lastFailEnc)))
		r.st.Violations = append(r.st.Violations, violationRec{Replay: p, Kind: lastFailVs[0].Kind, Msg: lastFailVs[0].Msg})
	}
	r.final = true
	completed := lastFailEnc != nil || !shim.failed
	r.flush(completed)
	if lastFailEnc != nil {
		t.Errorf("vk: VIOLATION %s/%s: %s: %s", spec.Property, spec.Check, lastFailVs[0].Kind, lastFailVs[0].Msg)
	} else if shim.failed {
		t.Errorf("vk: rapid reported a problem without a failing case: %s", shim.msg)
	}
}

// failCase is the single place from which a property failure is raised so
// that rapid sees identical tracebacks for the original and the shrunk case.
func failCase(rt *rapid.T, vs []Violation) {
	rt.Fatalf("%d violation(s), first: %s: %s", len(vs), vs[0].Kind, vs[0].Msg)
}

func (r *runner[C]) replayMode(t *testing.T) {
	b, err := os.ReadFile(r.env.replay)
	if err != nil {
		t.Fatalf("vk: cannot read replay file: %v", err)
	}
	var rf ReplayFile
	if err := json.Unmarshal(b, &rf); err != nil {
		t.Fatalf("vk: cannot parse replay file: %v", err)
	}
	if rf.Property != r.spec.Property || rf.Check != r.spec.Check {
		t.Skip("replay file is for another check")
	}
	c, err := decodeCase[C](rf.Case)
	if err != nil {
		t.Fatalf("vk: replay case does not decode: %v", err)
	}
	rep := r.env.repeat
	if rep == 0 {
		rep = r.spec.Repeat
	}
	if rep < 1 {
		rep = 1
	}
	r.st.Requested = rep
	for i := 0; i < rep; i++ {
		vs := r.one(c, rf.Case, true)
		if len(vs) > 0 {
			r.st.Violations = append(r.st.Violations, violationRec{Replay: r.env.replay, Kind: vs[0].Kind, Msg: vs[0].Msg})
			r.final = true
			r.flush(true)
			vb, _ := json.MarshalIndent(vs, "", " ")
			t.Errorf("vk: REPLAY FAILS (run %d of %d) %s/%s:\n%s", i+1, rep, r.spec.Property, r.spec.Check, vb)
			return
		}
	}
	r.final = true
	if r.jf != nil {
		r.jf.Close()
		_ = os.Remove(r.file("journal", "json"))
	}
	r.flush(true)
	t.Logf("vk: replay passes (%d runs)", rep)
}

// tbShim lets rapid report failures without aborting the enclosing test.
type tbShim struct {
	*testing.T
	failed bool
	msg    string
}

func (s *tbShim) Errorf(format string, args ...any) {
	s.failed = true
	if s.msg == "" {
		s.msg = fmt.Sprintf(format, args...)
	}
	s.T.Logf(format, args...)
}
func (s *tbShim) Error(args ...any) { s.Errorf("%s", fmt.Sprint(args...)) }
func (s *tbShim) Fatalf(format string, args ...any) {
	s.Errorf(format, args...)
	panic("vk: rapid fatal")
}
func (s *tbShim) Fatal(args ...any) { s.Fatalf("%s", fmt.Sprint(args...)) }
func (s *tbShim) FailNow()          { panic("vk: rapid failnow") }
func (s *tbShim) Fail()             { s.failed = true }
func (s *tbShim) Failed() bool      { return s.failed }
