package vk

import (
	"runtime"
	"sync"
	"sync/atomic"
	"time"

	"github.com/go-logr/logr"
)

// Clock is a logical clock shared by the harness goroutines and the
// recording exporters: Tick() values are totally ordered consistently with
// happens-before (sequentially consistent atomics), so "a returned before b
// was issued" is decided as a.end < b.start without the wall clock.
type Clock struct{ n atomic.Int64 }

// Tick returns the next instant.
func (c *Clock) Tick() int64 { return c.n.Add(1) }

// Now returns the current instant without advancing.
func (c *Clock) Now() int64 { return c.n.Load() }

// Parallel runs fn(0..n-1) on n goroutines released together and waits.
func Parallel(n int, fn func(g int)) {
	var wg sync.WaitGroup
	gate := make(chan struct{})
	for g := 0; g < n; g++ {
		wg.Add(1)
		go func(g int) {
			defer wg.Done()
			<-gate
			fn(g)
		}(g)
	}
	close(gate)
	wg.Wait()
}

// Perturb executes a schedule perturbation drawn by the generator:
// 0 nothing, 1 Gosched, 2 sleep 20us, 3 sleep 200us, 4 sleep 1ms.
func Perturb(kind int) {
	switch kind {
	case 1:
		runtime.Gosched()
	case 2:
		time.Sleep(20 * time.Microsecond)
	case 3:
		time.Sleep(200 * time.Microsecond)
	case 4:
		time.Sleep(time.Millisecond)
	}
}

// LogEntry is one message the SDK logged through otel's internal logger.
type LogEntry struct {
	Level int
	Msg   string
	KV    map[string]any
	Err   error
}

// LogCapture is a logr sink that records everything at every verbosity.
// Install with otel.SetLogger(logr.New(capture)).
type LogCapture struct {
	mu      sync.Mutex
	entries []LogEntry
}

var _ logr.LogSink = (*LogCapture)(nil)

func (l *LogCapture) Init(logr.RuntimeInfo) {}
func (l *LogCapture) Enabled(int) bool      { return true }
func (l *LogCapture) Info(level int, msg string, kv ...any) {
	l.add(LogEntry{Level: level, Msg: msg, KV: kvMap(kv)})
}

func (l *LogCapture) Error(err error, msg string, kv ...any) {
	l.add(LogEntry{Level: -1, Msg: msg, KV: kvMap(kv), Err: err})
}
func (l *LogCapture) WithValues(...any) logr.LogSink { return l }
func (l *LogCapture) WithName(string) logr.LogSink   { return l }

func (l *LogCapture) add(e LogEntry) {
	l.mu.Lock()
	l.entries = append(l.entries, e)
	l.mu.Unlock()
}

func kvMap(kv []any) map[string]any {
	m := map[string]any{}
	for i := 0; i+1 < len(kv); i += 2 {
		if k, ok := kv[i].(string); ok {
			m[k] = kv[i+1]
		}
	}
	return m
}

// Entries returns a copy of what was captured.
func (l *LogCapture) Entries() []LogEntry {
	l.mu.Lock()
	defer l.mu.Unlock()
	return append([]LogEntry{}, l.entries...)
}

// Reset forgets everything captured so far.
func (l *LogCapture) Reset() {
	l.mu.Lock()
	l.entries = nil
	l.mu.Unlock()
}

// ErrCapture collects errors passed to otel.Handle.
type ErrCapture struct {
	mu   sync.Mutex
	errs []error
}

// Handle implements otel.ErrorHandler.
func (e *ErrCapture) Handle(err error) {
	e.mu.Lock()
	e.errs = append(e.errs, err)
	e.mu.Unlock()
}

// Errors returns a copy.
func (e *ErrCapture) Errors() []error {
	e.mu.Lock()
	defer e.mu.Unlock()
	return append([]error{}, e.errs...)
}

// Reset forgets.
func (e *ErrCapture) Reset() {
	e.mu.Lock()
	e.errs = nil
	e.mu.Unlock()
}
