package vk

import (
	"encoding/hex"
	"encoding/json"
	"fmt"
	"math"
	"strconv"
	"strings"
	"unicode/utf8"

	"go.opentelemetry.io/otel/attribute"
	"pgregory.net/rapid"
)

// F64 is a float64 that survives JSON (NaN payloads, infinities, -0) by
// being written as its IEEE-754 bit pattern, with the decimal rendering
// alongside for the human reader: "0x7ff8000000000001|NaN".
type F64 float64

func (f F64) MarshalJSON() ([]byte, error) {
	s := fmt.Sprintf("0x%016x|%s", math.Float64bits(float64(f)), strconv.FormatFloat(float64(f), 'g', -1, 64))
	return json.Marshal(s)
}

func (f *F64) UnmarshalJSON(b []byte) error {
	var s string
	if err := json.Unmarshal(b, &s); err != nil {
		var x float64
		if err2 := json.Unmarshal(b, &x); err2 != nil {
			return err
		}
		*f = F64(x)
		return nil
	}
	if i := strings.IndexByte(s, '|'); i >= 0 {
		s = s[:i]
	}
	u, err := strconv.ParseUint(strings.TrimPrefix(s, "0x"), 16, 64)
	if err != nil {
		return err
	}
	*f = F64(math.Float64frombits(u))
	return nil
}

// Str is a byte string that survives JSON even when it is not valid UTF-8:
// valid strings are written as they are, others as "\u0000hex:<hex>".
type Str string

const hexPrefix = "\x00hex:"

func (s Str) MarshalJSON() ([]byte, error) {
	if utf8.ValidString(string(s)) && !strings.HasPrefix(string(s), hexPrefix) {
		return json.Marshal(string(s))
	}
	return json.Marshal(hexPrefix + hex.EncodeToString([]byte(s)))
}

func (s *Str) UnmarshalJSON(b []byte) error {
	var x string
	if err := json.Unmarshal(b, &x); err != nil {
		return err
	}
	if strings.HasPrefix(x, hexPrefix) {
		raw, err := hex.DecodeString(x[len(hexPrefix):])
		if err != nil {
			return err
		}
		*s = Str(raw)
		return nil
	}
	*s = Str(x)
	return nil
}

// Strs converts.
func Strs(in []Str) []string {
	out := make([]string, len(in))
	for i, s := range in {
		out[i] = string(s)
	}
	return out
}

// ---------------------------------------------------------------------
// attribute key-values as data

// KV is a JSON-serialisable attribute.KeyValue.
type KV struct {
	K Str    `json:"k"`
	T string `json:"t"` // bool int float str bools ints floats strs invalid
	B bool   `json:"b,omitempty"`
	I int64  `json:"i,omitempty"`
	F F64    `json:"f"`
	S Str    `json:"s,omitempty"`
	// slices
	BS []bool  `json:"bs,omitempty"`
	IS []int64 `json:"is,omitempty"`
	FS []F64   `json:"fs,omitempty"`
	SS []Str   `json:"ss,omitempty"`
}

// MarshalJSON writes only the field the type tag selects (and keeps -0).
func (kv KV) MarshalJSON() ([]byte, error) {
	m := map[string]any{"k": kv.K, "t": kv.T}
	switch kv.T {
	case "bool":
		m["b"] = kv.B
	case "int":
		m["i"] = kv.I
	case "float":
		m["f"] = kv.F
	case "str":
		m["s"] = kv.S
	case "bools":
		m["bs"] = kv.BS
	case "ints":
		m["is"] = kv.IS
	case "floats":
		m["fs"] = kv.FS
	case "strs":
		m["ss"] = kv.SS
	}
	return json.Marshal(m)
}

// ToAttr builds the real key-value.
func (kv KV) ToAttr() attribute.KeyValue {
	k := attribute.Key(kv.K)
	switch kv.T {
	case "bool":
		return k.Bool(kv.B)
	case "int":
		return k.Int64(kv.I)
	case "float":
		return k.Float64(float64(kv.F))
	case "str":
		return k.String(string(kv.S))
	case "bools":
		return k.BoolSlice(append([]bool{}, kv.BS...))
	case "ints":
		return k.Int64Slice(append([]int64{}, kv.IS...))
	case "floats":
		fs := make([]float64, len(kv.FS))
		for i, f := range kv.FS {
			fs[i] = float64(f)
		}
		return k.Float64Slice(fs)
	case "strs":
		return k.StringSlice(Strs(kv.SS))
	case "invalid":
		return attribute.KeyValue{Key: k}
	}
	panic("vk: unknown KV type " + kv.T)
}

// ToAttrs converts a list.
func ToAttrs(kvs []KV) []attribute.KeyValue {
	out := make([]attribute.KeyValue, len(kvs))
	for i, kv := range kvs {
		out[i] = kv.ToAttr()
	}
	return out
}

// FromAttr converts back (for reporting).
func FromAttr(a attribute.KeyValue) KV {
	kv := KV{K: Str(a.Key)}
	switch a.Value.Type() {
	case attribute.BOOL:
		kv.T, kv.B = "bool", a.Value.AsBool()
	case attribute.INT64:
		kv.T, kv.I = "int", a.Value.AsInt64()
	case attribute.FLOAT64:
		kv.T, kv.F = "float", F64(a.Value.AsFloat64())
	case attribute.STRING:
		kv.T, kv.S = "str", Str(a.Value.AsString())
	case attribute.BOOLSLICE:
		kv.T, kv.BS = "bools", a.Value.AsBoolSlice()
	case attribute.INT64SLICE:
		kv.T, kv.IS = "ints", a.Value.AsInt64Slice()
	case attribute.FLOAT64SLICE:
		kv.T = "floats"
		for _, f := range a.Value.AsFloat64Slice() {
			kv.FS = append(kv.FS, F64(f))
		}
	case attribute.STRINGSLICE:
		kv.T = "strs"
		for _, s := range a.Value.AsStringSlice() {
			kv.SS = append(kv.SS, Str(s))
		}
	default:
		kv.T = "invalid"
	}
	return kv
}

// ValueKey is a canonical, bit-exact rendering of an attribute value
// (type + payload); two values have equal ValueKeys iff they are bitwise
// identical typed values.
func ValueKey(v attribute.Value) string {
	var sb strings.Builder
	sb.WriteString(v.Type().String())
	sb.WriteByte(':')
	switch v.Type() {
	case attribute.BOOL:
		fmt.Fprintf(&sb, "%v", v.AsBool())
	case attribute.INT64:
		fmt.Fprintf(&sb, "%d", v.AsInt64())
	case attribute.FLOAT64:
		fmt.Fprintf(&sb, "%016x", math.Float64bits(v.AsFloat64()))
	case attribute.STRING:
		fmt.Fprintf(&sb, "%q", v.AsString())
	case attribute.BOOLSLICE:
		fmt.Fprintf(&sb, "%v", v.AsBoolSlice())
	case attribute.INT64SLICE:
		fmt.Fprintf(&sb, "%v", v.AsInt64Slice())
	case attribute.FLOAT64SLICE:
		for _, f := range v.AsFloat64Slice() {
			fmt.Fprintf(&sb, "%016x,", math.Float64bits(f))
		}
	case attribute.STRINGSLICE:
		fmt.Fprintf(&sb, "%q", v.AsStringSlice())
	}
	return sb.String()
}

// ---------------------------------------------------------------------
// generators

// HostileRunes is the alphabet strings are drawn from: ASCII, delimiters
// that matter to the header grammars, multi-byte runes of every width,
// U+FFFD itself and runes whose low byte is a legal ASCII key character.
var HostileRunes = []rune{
	'a', 'b', 'z', 'A', '0', '9', '_', '-', '*', '/', '@', '.', ' ', '\t',
	',', '=', ';', '%', '"', '\\', '+', '~', '\n', 0x7f, 0,
	'é', 'š' /* U+0161: low byte 'a' */, 'ű', 'Ω', 'ß', 0x0100 + '=', 0x0100 + ',',
	'世', '界', '€', 0xFFFD, 0xFEFF,
	'😀', '𝄞', 0x10FFFF,
}

// InvalidFragments are byte sequences that are not valid UTF-8.
var InvalidFragments = []string{
	"\x80", "\xbf", "\xc3", "\xe2\x82", "\xf0\x9f\x98", "\xc0\xaf", "\xed\xa0\x80", "\xff", "\xfe", "\xc3\x28", "\xf8\x88\x80\x80\x80",
}

// GenText draws a (possibly invalid) UTF-8 byte string of up to maxParts
// pieces from the hostile alphabet.
func GenText(maxParts int, allowInvalid bool) *rapid.Generator[Str] {
	return rapid.Custom(func(t *rapid.T) Str {
		n := rapid.IntRange(0, maxParts).Draw(t, "parts")
		var sb strings.Builder
		for i := 0; i < n; i++ {
			if allowInvalid && rapid.IntRange(0, 7).Draw(t, "inv") == 0 {
				sb.WriteString(rapid.SampledFrom(InvalidFragments).Draw(t, "frag"))
			} else {
				sb.WriteRune(rapid.SampledFrom(HostileRunes).Draw(t, "r"))
			}
		}
		return Str(sb.String())
	})
}

// SpecialFloats are the values most arithmetic goes wrong on.
var SpecialFloats = []float64{
	0, math.Copysign(0, -1), 1, -1, 0.5, 2, math.NaN(),
	math.Float64frombits(0x7ff8000000000001), math.Float64frombits(0xfff8000000000000),
	math.Inf(1), math.Inf(-1), math.SmallestNonzeroFloat64, -math.SmallestNonzeroFloat64,
	math.MaxFloat64, -math.MaxFloat64, 0x1p-1022, 1e-310, 1e300, 0.1, 1.0000000000000002,
}

// GenF64 draws a float64 including the special values.
func GenF64() *rapid.Generator[F64] {
	return rapid.Custom(func(t *rapid.T) F64 {
		switch rapid.IntRange(0, 3).Draw(t, "fkind") {
		case 0:
			return F64(rapid.SampledFrom(SpecialFloats).Draw(t, "special"))
		case 1:
			return F64(float64(rapid.IntRange(-5, 5).Draw(t, "small")))
		case 2:
			return F64(math.Float64frombits(rapid.Uint64().Draw(t, "bits")))
		default:
			return F64(rapid.Float64().Draw(t, "f"))
		}
	})
}

// GenI64 draws an int64 with boundary bias.
func GenI64() *rapid.Generator[int64] {
	return rapid.OneOf(
		rapid.SampledFrom([]int64{0, 1, -1, math.MaxInt64, math.MinInt64, 1 << 53, -(1 << 53) - 1}),
		rapid.Int64Range(-4, 4),
		rapid.Int64(),
	)
}

// KVOpts tunes GenKV.
type KVOpts struct {
	Keys         []string // key alphabet (duplicates become frequent when short)
	EmptyKey     bool     // allow "" (invalid key)
	Invalid      bool     // allow the INVALID value type
	InvalidUTF8  bool     // allow invalid UTF-8 in string values
	MaxSlice     int      // max slice length
	MaxTextParts int
	NaN          bool // allow NaN in float values/slices
}

// DefaultKeys is a small key alphabet.
var DefaultKeys = []string{"a", "b", "c", "d", "e", "f", "k.long.key", "Z"}

// GenKV draws one attribute.
func GenKV(o KVOpts) *rapid.Generator[KV] {
	if len(o.Keys) == 0 {
		o.Keys = DefaultKeys
	}
	if o.MaxSlice == 0 {
		o.MaxSlice = 4
	}
	if o.MaxTextParts == 0 {
		o.MaxTextParts = 8
	}
	types := []string{"bool", "int", "float", "str", "bools", "ints", "floats", "strs"}
	if o.Invalid {
		types = append(types, "invalid")
	}
	text := GenText(o.MaxTextParts, o.InvalidUTF8)
	flt := GenF64()
	if !o.NaN {
		flt = rapid.Map(flt, func(f F64) F64 {
			if math.IsNaN(float64(f)) {
				return 0.25
			}
			return f
		})
	}
	return rapid.Custom(func(t *rapid.T) KV {
		kv := KV{}
		if o.EmptyKey && rapid.IntRange(0, 11).Draw(t, "emptykey") == 0 {
			kv.K = ""
		} else {
			kv.K = Str(rapid.SampledFrom(o.Keys).Draw(t, "key"))
		}
		kv.T = rapid.SampledFrom(types).Draw(t, "type")
		switch kv.T {
		case "bool":
			kv.B = rapid.Bool().Draw(t, "b")
		case "int":
			kv.I = GenI64().Draw(t, "i")
		case "float":
			kv.F = flt.Draw(t, "f")
		case "str":
			kv.S = text.Draw(t, "s")
		case "bools":
			kv.BS = rapid.SliceOfN(rapid.Bool(), 0, o.MaxSlice).Draw(t, "bs")
		case "ints":
			kv.IS = rapid.SliceOfN(GenI64(), 0, o.MaxSlice).Draw(t, "is")
		case "floats":
			kv.FS = rapid.SliceOfN(flt, 0, o.MaxSlice).Draw(t, "fs")
		case "strs":
			kv.SS = rapid.SliceOfN(text, 0, o.MaxSlice).Draw(t, "ss")
		}
		return kv
	})
}

// GenLen draws a list length biased to the corner sizes given.
func GenLen(max int, corners ...int) *rapid.Generator[int] {
	return rapid.Custom(func(t *rapid.T) int {
		if len(corners) > 0 && rapid.Bool().Draw(t, "corner") {
			return rapid.SampledFrom(corners).Draw(t, "n")
		}
		return rapid.IntRange(0, max).Draw(t, "n")
	})
}

// GenKVs draws a list of attributes.
func GenKVs(o KVOpts, max int, corners ...int) *rapid.Generator[[]KV] {
	g := GenKV(o)
	return rapid.Custom(func(t *rapid.T) []KV {
		n := GenLen(max, corners...).Draw(t, "len")
		out := make([]KV, n)
		for i := range out {
			out[i] = g.Draw(t, "kv")
		}
		return out
	})
}
