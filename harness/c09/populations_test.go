package c09

// Structured populations of trace IDs.
//
// "The sampled share tracks r" is quantified over ALL trace IDs, not only
// over IDs whose 16 bytes are all random. Which populations have to be
// sampled at the ratio follows from the documentation, not from the code:
//
//   - CHANGELOG.md (#3557): "The Sampler returned from TraceIDRatioBased ...
//     now uses the rightmost bits for sampling decisions. This fixes random
//     sampling when using ID generators like xray.IDGenerator" (IDs with a
//     timestamp in their leading bytes);
//   - W3C Trace Context, "Interoperating with existing systems which use
//     shorter identifiers": a 64-bit ID is padded to 128 bits on the LEFT and
//     algorithms that rely on trace-id randomness (sampling) use the
//     right-most part;
//   - /verif/properties.jsonl, anchor traceIDUpperBound: "ratio mapped onto
//     the upper 63 bits of the trace ID's low half".
//
// So: any population whose TRAILING eight bytes are uniformly distributed is
// sampled at (about) r, whatever its LEADING eight bytes hold (zero padding,
// all ones, a constant prefix, an epoch-seconds prefix, a counter, a single
// bit, a copy of the trailing half). The populations here have pseudo-random
// trailing halves (a bijective hash of a counter) and leading halves of those
// shapes; their share is judged with the same Bernstein bound as the fully
// random block. They are put to the sampler directly and THROUGH THE TRACER:
// as root spans with a custom IDGenerator (bare ratio sampler and as the root
// of ParentBased) and as children of remote / local supplied parents (bare
// ratio sampler, which decides on the trace ID under any parent, and as the
// ParentBased option that matches the parent).
//
// Nothing is asserted about populations whose trailing half is NOT uniform
// (e.g. a constant trailing half): the statement does not say that the
// leading half is ignored, only that the share tracks r.

import (
	"context"
	"fmt"
	"math"

	"go.opentelemetry.io/otel/sdk/resource"
	sdktrace "go.opentelemetry.io/otel/sdk/trace"
	"go.opentelemetry.io/otel/trace"
	"go.opentelemetry.io/otel/verif/internal/vk"
	"pgregory.net/rapid"
)

// HiShape says what the leading eight bytes of a population's trace IDs hold.
type HiShape struct {
	Style string `json:"style"` // zero | ones | const | epoch | counter | bit | same | random
	Arg   uint64 `json:"arg,omitempty"`
}

var hiStyles = []string{"zero", "zero", "ones", "const", "epoch", "counter", "bit", "same", "random"}

var hiConsts = []uint64{1, 0x0123456789abcdef, 1 << 63, 1<<63 - 1, 1 << 62, 0x5e9c0900c09c095e, 0xffffffff00000000, 0x00000000ffffffff, 0x6502b6d900000000}

func genHiShape(t *rapid.T, label string) HiShape {
	h := HiShape{Style: rapid.SampledFrom(hiStyles).Draw(t, label+"_style")}
	switch h.Style {
	case "const", "counter":
		if rapid.Bool().Draw(t, label+"_table") {
			h.Arg = rapid.SampledFrom(hiConsts).Draw(t, label+"_const")
		} else {
			h.Arg = rapid.Uint64().Draw(t, label+"_arg")
		}
	case "epoch":
		// seconds since 1970 in the leading four bytes (2001 .. 2106)
		h.Arg = uint64(rapid.Uint32Range(1_000_000_000, math.MaxUint32-1<<20).Draw(t, label+"_epoch"))
	case "bit":
		h.Arg = uint64(rapid.IntRange(0, 63).Draw(t, label+"_bit"))
	}
	return h
}

// hi is the leading half of the i-th ID of a population with trailing half lo.
func (h HiShape) hi(seed uint64, i uint64, lo uint64) uint64 {
	switch h.Style {
	case "zero":
		return 0
	case "ones":
		return math.MaxUint64
	case "const":
		return h.Arg
	case "epoch":
		// four bytes of seconds that advance slowly, four pseudo-random bytes
		return uint64(uint32(h.Arg)+uint32(i/64))<<32 | splitmix64(^seed+i)&0xffffffff
	case "counter":
		return h.Arg + i
	case "bit":
		return 1 << (h.Arg % 64)
	case "same":
		return lo
	}
	return splitmix64(splitmix64(seed) ^ i)
}

func (h HiShape) String() string {
	switch h.Style {
	case "zero":
		return "all zero (a 64-bit ID padded to 128 bits)"
	case "ones":
		return "all ones"
	case "const":
		return fmt.Sprintf("the constant %016x", h.Arg)
	case "epoch":
		return fmt.Sprintf("epoch seconds (from %d) in four bytes + four pseudo-random bytes", uint32(h.Arg))
	case "counter":
		return fmt.Sprintf("a counter from %016x", h.Arg)
	case "bit":
		return fmt.Sprintf("the single bit %d", h.Arg%64)
	case "same":
		return "a copy of the trailing eight bytes"
	}
	return "pseudo-random"
}

// popTID is the i-th trace ID of the population (seed, shape): trailing half
// = bijective hash of seed+i (pairwise distinct within a population).
func popTID(h HiShape, seed uint64, i int) trace.TraceID {
	lo := splitmix64(seed + uint64(i))
	hi := h.hi(seed, uint64(i), lo)
	if hi == 0 && lo == 0 {
		lo = 1 // at most one ID of a population
	}
	return tidFromHalves(hi, lo)
}

// Pop is one structured population judged at one ratio over one route.
type Pop struct {
	Hi    HiShape `json:"hi"`
	Seed  uint64  `json:"seed"`
	Ratio vk.F64  `json:"ratio"` // non-NaN
	// Via: direct | root | pb_root | new_root | parent | pb_option | default_root
	// (default_root: the SDK's own default IDGenerator supplies the trace IDs,
	// documented as "a non-zero trace ID ... from a randomly-chosen sequence";
	// Hi and Seed are then unused)
	Via string `json:"via"`
	// the supplied parent of the routes "parent" and "pb_option" (its trace ID
	// is replaced by the population's) and "new_root" (a parent in the context
	// that WithNewRoot tells the SDK to disregard)
	Remote bool       `json:"remote,omitempty"`
	Flags  uint8      `json:"flags,omitempty"`
	TS     []TSMember `json:"ts,omitempty"`
}

var popVias = []string{"direct", "direct", "root", "pb_root", "parent", "parent", "pb_option", "new_root", "default_root"}

var popRatios = []float64{0.001, 0.01, 0.1, 0.25, 1.0 / 3, 0.5, 0.75, 0.9, 0.99}

func genPop(t *rapid.T, label string, interior bool) Pop {
	p := Pop{
		Hi:   genHiShape(t, label+"_hi"),
		Seed: rapid.Uint64().Draw(t, label+"_seed"),
		Via:  rapid.SampledFrom(popVias).Draw(t, label+"_via"),
	}
	switch {
	case !interior:
		p.Ratio = genRatio(t, false, label+"_r")
	case rapid.Bool().Draw(t, label+"_rtable"):
		p.Ratio = vk.F64(rapid.SampledFrom(popRatios).Draw(t, label+"_rt"))
	default:
		p.Ratio = vk.F64(rapid.Float64Range(0.02, 0.98).Draw(t, label+"_rf"))
	}
	if p.Via == "parent" || p.Via == "pb_option" || p.Via == "new_root" {
		p.Remote = rapid.IntRange(0, 3).Draw(t, label+"_remote") > 0
		p.Flags = rapid.SampledFrom(flagChoices).Draw(t, label+"_flags")
		p.TS = genTS(t, 2, label+"_ts")
	}
	return p
}

func (p Pop) n() int {
	if p.Via == "direct" {
		return blockN
	}
	return blockN / 4
}

// runPop counts how many of the population's trace IDs are sampled and
// compares with n*r.
func runPop(p Pop, bad func(kind, format string, a ...any), info *vk.Info) {
	r := float64(p.Ratio)
	if math.IsNaN(r) {
		return
	}
	n := p.n()
	ratio := sdktrace.TraceIDRatioBased(r)
	count, judged := 0, 0
	route := ""

	var tp *sdktrace.TracerProvider
	gen := &presetGen{}
	provider := func(s sdktrace.Sampler) trace.Tracer {
		tp = sdktrace.NewTracerProvider(sdktrace.WithResource(resource.Empty()), sdktrace.WithSampler(s), sdktrace.WithIDGenerator(gen))
		return tp.Tracer("c09.pop")
	}
	defer func() {
		if tp != nil {
			_ = tp.Shutdown(context.Background())
		}
	}()
	parentOf := func(tid trace.TraceID, i int) trace.SpanContext {
		return trace.NewSpanContext(trace.SpanContextConfig{
			TraceID:    tid,
			SpanID:     sidFromU64(splitmix64(p.Seed^uint64(i)) | 1),
			TraceFlags: trace.TraceFlags(p.Flags),
			TraceState: buildTS(p.TS),
			Remote:     p.Remote,
		})
	}
	kindOfParent := "local"
	if p.Remote {
		kindOfParent = "remote"
	}

	var tracer trace.Tracer
	switch p.Via {
	case "root":
		route = "root spans of a provider with WithSampler(TraceIDRatioBased(r)) and a custom IDGenerator"
		tracer = provider(ratio)
	case "pb_root":
		route = "root spans of a provider with WithSampler(ParentBased(TraceIDRatioBased(r))) and a custom IDGenerator"
		tracer = provider(sdktrace.ParentBased(ratio))
	case "default_root":
		route = "root spans of a provider with WithSampler(ParentBased(TraceIDRatioBased(r))) and the default IDGenerator"
		tp = sdktrace.NewTracerProvider(sdktrace.WithResource(resource.Empty()), sdktrace.WithSampler(sdktrace.ParentBased(ratio)))
		tracer = tp.Tracer("c09.pop")
	case "new_root":
		route = fmt.Sprintf("spans started WithNewRoot under a supplied %s parent (flags %02x) by a provider with WithSampler(ParentBased(TraceIDRatioBased(r))) and a custom IDGenerator", kindOfParent, p.Flags)
		tracer = provider(sdktrace.ParentBased(ratio))
	case "parent":
		route = fmt.Sprintf("children of supplied %s parents (flags %02x) under WithSampler(TraceIDRatioBased(r))", kindOfParent, p.Flags)
		tracer = provider(ratio)
	case "pb_option":
		// the ratio sampler sits in the ParentBased slot that applies to the
		// supplied parent
		sampled := p.Flags&1 == 1
		var opt sdktrace.ParentBasedSamplerOption
		switch {
		case p.Remote && sampled:
			opt = sdktrace.WithRemoteParentSampled(ratio)
		case p.Remote:
			opt = sdktrace.WithRemoteParentNotSampled(ratio)
		case sampled:
			opt = sdktrace.WithLocalParentSampled(ratio)
		default:
			opt = sdktrace.WithLocalParentNotSampled(ratio)
		}
		route = fmt.Sprintf("children of supplied %s parents (flags %02x) under ParentBased with TraceIDRatioBased(r) as the option for that kind of parent", kindOfParent, p.Flags)
		tracer = provider(sdktrace.ParentBased(sdktrace.NeverSample(), opt))
	default:
		route = "direct ShouldSample calls"
	}

	for i := 0; i < n; i++ {
		tid := popTID(p.Hi, p.Seed, i)
		switch p.Via {
		case "root", "pb_root":
			gen.set(tid)
			_, sp := tracer.Start(context.Background(), "root")
			sc := sp.SpanContext()
			sp.End()
			if sc.TraceID() != tid {
				continue // not the trace the harness meant to decide (the pipeline check owns that)
			}
			judged++
			if sc.IsSampled() {
				count++
			}
		case "default_root":
			_, sp := tracer.Start(context.Background(), "root")
			sc := sp.SpanContext()
			sp.End()
			judged++
			if sc.IsSampled() {
				count++
			}
		case "new_root":
			gen.set(tid)
			// the disregarded parent belongs to another trace
			other := tid
			other[0] ^= 0xa5
			other[15] ^= 0x5a
			_, sp := tracer.Start(ctxWith(parentOf(other, i)), "new root", trace.WithNewRoot())
			sc := sp.SpanContext()
			sp.End()
			if sc.TraceID() != tid {
				continue
			}
			judged++
			if sc.IsSampled() {
				count++
			}
		case "parent", "pb_option":
			_, sp := tracer.Start(ctxWith(parentOf(tid, i)), "child")
			sc := sp.SpanContext()
			sp.End()
			if sc.TraceID() != tid {
				continue
			}
			judged++
			if sc.IsSampled() {
				count++
			}
		default:
			judged++
			if sampledRes(ratio.ShouldSample(sdktrace.SamplingParameters{ParentContext: context.Background(), TraceID: tid})) {
				count++
			}
		}
	}
	if judged == 0 {
		return
	}
	rc := clamp01(r)
	want := float64(judged) * rc
	tol := shareTol(judged, rc)
	what := fmt.Sprintf("%d trace IDs whose trailing eight bytes are pseudo-random (seed %d) and whose leading eight bytes are %s, as %s", judged, p.Seed, p.Hi, route)
	if p.Via == "default_root" {
		what = fmt.Sprintf("%d %s", judged, route)
	}
	switch {
	case r <= 0 && count != 0:
		bad("ratio_le_zero_sampled", "ratio %v: %d of %s are sampled", r, count, what)
	case r >= 1 && count != judged:
		bad("ratio_ge_one_not_sampled", "ratio %v: only %d of %s are sampled", r, count, what)
	case math.Abs(float64(count)-want) > tol:
		bad("share_off_structured_ids", "ratio %v: %d of %s are sampled, expected %.1f +- %.1f (the share must track the ratio for every population with uniform trailing bytes)", r, count, what, want, tol)
	}
	info.ClassIf(p.Via != "default_root", "pop:leading_half_"+p.Hi.Style)
	info.Class("pop:via_" + p.Via)
	info.ClassIf(r > 0 && r < 1 && want >= 1 && float64(judged)-want >= 1, "pop:interior_share_checked")
	info.ClassIf((p.Via == "parent" || p.Via == "pb_option") && p.Remote, "pop:remote_parents")
	info.ClassIf((p.Via == "parent" || p.Via == "pb_option") && !p.Remote, "pop:local_parents")
	info.ClassIf(p.Via == "parent" && p.Flags&1 == 0 && rc > 0, "pop:bare_ratio_under_unsampled_parent")
}

// genThresholdTID draws a trace ID one of whose halves, read as a big-endian
// fraction of 2^64 (or its upper 63 bits as a fraction of 2^63), sits within
// +-3 of the ratio r: whatever part of the ID an implementation compares
// with whatever scaling of r, some of these IDs lie on both sides of its
// threshold. (Input dimension only: no decision is predicted from it.)
func genThresholdTID(t *rapid.T, r float64, label string) string {
	var v uint64
	if rapid.Bool().Draw(t, label+"_scale63") {
		v = uint64(math.Ldexp(r, 63)) << 1
		v += uint64(rapid.IntRange(-3, 3).Draw(t, label+"_off")) * 2
		v += uint64(rapid.IntRange(0, 1).Draw(t, label+"_lsb"))
	} else {
		v = uint64(math.Ldexp(r, 64))
		v += uint64(rapid.IntRange(-3, 3).Draw(t, label+"_off"))
	}
	other := rapid.SampledFrom([]uint64{0, math.MaxUint64, 1, 1 << 63, 0x0123456789abcdef}).Draw(t, label+"_other")
	if rapid.Bool().Draw(t, label+"_other_mixed") {
		other = splitmix64(rapid.Uint64().Draw(t, label+"_other_seed"))
	}
	hi, lo := other, v
	switch rapid.IntRange(0, 5).Draw(t, label+"_half") {
	case 0: // the leading half carries the value
		hi, lo = v, other
	case 1: // both halves do
		hi = v
	}
	if hi == 0 && lo == 0 {
		lo = 1
	}
	return tidHex(hi, lo)
}
